//! `vh persist` — persistence harness for C26 (DESIGN.md §C26; salsa feature `persistence`).
//!
//! Program-table harness like `seq`, restricted to the `core` profile (plain functions over input
//! fields, dynamic dependencies, durabilities) plus the operation `snapshot`:
//!
//!   snapshot   serialize the database with serde_json (`<dyn salsa::Database>::as_serialize`),
//!              create a FRESH database of the same type with a fresh event log, deserialize into
//!              it (`<dyn salsa::Database>::deserialize`), re-establish the input / key handles
//!              from the restored ingredients (ids are preserved) and continue the history on
//!              the restored database.                                                   -> `ok`
//!
//! EVEN-indexed nodes are `#[salsa::tracked(persist)]` functions (`pfun`), ODD-indexed nodes are
//! not persisted (`nfun`), so the edge flattening of `collect_minimum_serialized_edges` through
//! non-persisted functions is exercised.  The inputs `In{a,b}` and the keys `Key` are `persist`.
//! The body finds its node index through a non-salsa table keyed by the key's `Id` (no read of a
//! `Key` field), so the recorded edges are exactly the reads of the program text.
//!
//!   persist gen    --seed S --cases N --out ops.txt        core-profile cases + 1–2 `snapshot` ops
//!   persist run    --ops ops.txt --out impl.txt            implementation observations
//!   persist oracle --ops ops.txt --impl impl.txt           property oracle on the observations
//!
//! Observation lines as in `seq`: `v=<n> ev=X1,V0` (`X<q>` WillExecute, `V<q>`
//! DidValidateMemoizedValue, in order; `-` if none), `ok`, `panic:<class>`, `bad-op`.
//!
//! Oracle: every `get` = the independent reference interpreter `vh::prog::Ref` on the current
//! inputs (`key=value`); writes to NEVER_CHANGE fields panic; and the RESTORE MONITOR: a persisted
//! node whose memo was verified in the revision of a `snapshot` (it was requested, executed or
//! validated in that revision) must not be executed (`X<q>`) by any request between the restore
//! and the next new revision (`key=restore-reexecuted`).
use salsa::plumbing::{AsId, ZalsaDatabase};
use salsa::{Durability, Setter};
use std::collections::HashMap;
use std::io::Write as _;
use std::sync::{Arc, Mutex, OnceLock};
use vh::prog::*;
use vh::{Args, Rng};

// ---------------------------------------------------------------------------------------------
// salsa items

/// untracked state outside salsa (`u<c>` leaves read it after `report_untracked_read`); process
/// global so that it survives the serde round trip, reset per case
static CELLS: Mutex<Vec<u32>> = Mutex::new(Vec::new());

struct DbEnv {
    prog: Prog,
    inputs: OnceLock<Vec<In>>,
    keys: OnceLock<Vec<Key>>,
    /// key id → node index (non-salsa state: looking a node up records no dependency)
    node_of: OnceLock<HashMap<salsa::Id, usize>>,
}

#[salsa::db]
trait PDb: salsa::Database {
    fn env(&self) -> &DbEnv;
}

#[salsa::db]
#[derive(Clone)]
struct Db {
    storage: salsa::Storage<Self>,
    env: Arc<DbEnv>,
}

#[salsa::db]
impl salsa::Database for Db {}

#[salsa::db]
impl PDb for Db {
    fn env(&self) -> &DbEnv {
        &self.env
    }
}

#[salsa::input(persist)]
struct In {
    #[returns(copy)]
    a: u32,
    #[returns(copy)]
    b: u32,
}

#[salsa::input(persist)]
struct Key {
    #[returns(copy)]
    idx: u32,
}

/// is node q a persisted function?
fn persisted(q: usize) -> bool {
    q % 2 == 0
}

fn call_node(db: &dyn PDb, q: usize) -> u32 {
    let k = db.env().keys.get().unwrap()[q];
    if persisted(q) { pfun(db, k) } else { nfun(db, k) }
}

fn read_in(db: &dyn PDb, i: usize) -> u32 {
    let x = db.env().inputs.get().unwrap()[i / 2];
    if i % 2 == 0 { x.a(db) } else { x.b(db) }
}

fn interp(db: &dyn PDb, e: &E) -> u32 {
    match e {
        E::C(v) => *v,
        E::In(i) => read_in(db, *i),
        E::Call(q) => call_node(db, *q),
        E::Cell(c) => {
            db.report_untracked_read();
            CELLS.lock().unwrap().get(*c).copied().unwrap_or(0)
        }
        E::Add(a, b) => {
            let x = interp(db, a);
            let y = interp(db, b);
            (x + y) % 4
        }
        E::Min(a, b) => {
            let x = interp(db, a);
            let y = interp(db, b);
            x.min(y)
        }
        E::Max(a, b) => {
            let x = interp(db, a);
            let y = interp(db, b);
            x.max(y)
        }
        E::If(c, a, b) => {
            if interp(db, c) % 2 == 1 {
                interp(db, a)
            } else {
                interp(db, b)
            }
        }
        _ => panic!("unsupported-expression"),
    }
}

fn core_expr(e: &E) -> bool {
    match e {
        E::C(_) | E::In(_) | E::Call(_) | E::Cell(_) => true,
        E::Add(a, b) | E::Min(a, b) | E::Max(a, b) => core_expr(a) && core_expr(b),
        E::If(c, a, b) => core_expr(c) && core_expr(a) && core_expr(b),
        _ => false,
    }
}

fn body(db: &dyn PDb, k: Key) -> u32 {
    let q = db.env().node_of.get().unwrap()[&k.as_id()];
    interp(db, &db.env().prog.nodes[q].1)
}

#[salsa::tracked(returns(copy), persist)]
fn pfun(db: &dyn PDb, k: Key) -> u32 {
    body(db, k)
}

#[salsa::tracked(returns(copy))]
fn nfun(db: &dyn PDb, k: Key) -> u32 {
    body(db, k)
}

// ---------------------------------------------------------------------------------------------
// operations: the ops of `vh::prog` plus `snapshot`

#[derive(Clone, Debug)]
enum POp {
    Op(Op),
    Snapshot,
}

impl POp {
    fn to_line(&self) -> String {
        match self {
            POp::Op(o) => o.to_line(),
            POp::Snapshot => "snapshot".into(),
        }
    }
}

struct PCase {
    case: Case,
    /// the full operation list (`case.ops` holds the same list without the snapshots)
    ops: Vec<POp>,
    header_lines: usize,
}

/// Parse an op file: `snapshot` lines are taken out, the rest goes through `Case::parse_all`.
fn parse_cases(text: &str) -> Result<Vec<PCase>, String> {
    let mut chunks: Vec<Vec<&str>> = vec![];
    for line in text.lines() {
        if line.starts_with("prog ") || chunks.is_empty() {
            chunks.push(vec![]);
        }
        chunks.last_mut().unwrap().push(line);
    }
    let mut out = vec![];
    for ch in chunks {
        let plain: Vec<&str> = ch.iter().copied().filter(|l| *l != "snapshot").collect();
        let mut cs = Case::parse_all(&(plain.join("\n") + "\n"))?;
        if cs.len() != 1 {
            return Err("expected exactly one case per `prog` line".into());
        }
        let case = cs.pop().unwrap();
        let header_lines = plain.len() - case.ops.len();
        if ch[..header_lines].iter().any(|l| *l == "snapshot") {
            return Err("`snapshot` inside a case header".into());
        }
        let mut it = case.ops.iter();
        let mut ops = vec![];
        for l in &ch[header_lines..] {
            if *l == "snapshot" {
                ops.push(POp::Snapshot);
            } else {
                ops.push(POp::Op(it.next().unwrap().clone()));
            }
        }
        if !case.prog.nodes.iter().all(|(k, e)| *k == Kind::Plain && core_expr(e)) {
            return Err("only core-profile programs (plain nodes; c/i/q/+/&/|/?) are supported".into());
        }
        out.push(PCase { case, ops, header_lines });
    }
    Ok(out)
}

// ---------------------------------------------------------------------------------------------
// running a case on the implementation

const DURS: [Durability; 4] = [Durability::LOW, Durability::MEDIUM, Durability::HIGH, Durability::NEVER_CHANGE];

struct Runner {
    db: Db,
    events: Arc<Mutex<Vec<String>>>,
    ins: Vec<In>,
    /// Debug string of a key id → node index
    key_of: HashMap<String, usize>,
}

fn panic_class(p: &(dyn std::any::Any + Send)) -> String {
    if let Some(c) = p.downcast_ref::<salsa::Cancelled>() {
        return format!("cancelled:{:?}", c).to_lowercase();
    }
    let m = p.downcast_ref::<String>().cloned().or(p.downcast_ref::<&str>().map(|s| s.to_string())).unwrap_or_default();
    if m.contains("dependency graph cycle") {
        "cycle".into()
    } else if m.contains("NEVER_CHANGE") || m.contains("never-changing") || m.contains("NeverChange") {
        "never-change".into()
    } else if m.contains("backdate") || m.contains("returned the same value, but the previous execution") {
        "backdate-violation".into()
    } else if m.contains("must be persistable") {
        "not-persistable".into()
    } else if m.starts_with("restore:") {
        m.replace(' ', "_")
    } else {
        format!("other:{}", m.chars().take(80).collect::<String>().replace(' ', "_").replace('\n', "_"))
    }
}

/// a database with an empty storage, a fresh event log and the (immutable) program table
fn fresh_db(prog: &Prog) -> (Db, Arc<DbEnv>, Arc<Mutex<Vec<String>>>) {
    let events = Arc::new(Mutex::new(Vec::new()));
    let env = Arc::new(DbEnv { prog: prog.clone(), inputs: OnceLock::new(), keys: OnceLock::new(), node_of: OnceLock::new() });
    let ev2 = events.clone();
    let storage = salsa::Storage::new(Some(Box::new(move |e: salsa::Event| {
        use salsa::EventKind::*;
        let s = match &e.kind {
            WillExecute { database_key } => format!("X {:?}", database_key),
            DidValidateMemoizedValue { database_key } => format!("V {:?}", database_key),
            _ => return,
        };
        ev2.lock().unwrap().push(s);
    })));
    (Db { storage, env: env.clone() }, env, events)
}

impl Runner {
    fn install(db: Db, env: Arc<DbEnv>, events: Arc<Mutex<Vec<String>>>, ins: Vec<In>, keys: Vec<Key>) -> Runner {
        env.inputs.set(ins.clone()).ok();
        env.keys.set(keys.clone()).ok();
        env.node_of.set(keys.iter().enumerate().map(|(i, k)| (k.as_id(), i)).collect()).ok();
        let key_of = keys.iter().enumerate().map(|(i, k)| (format!("{:?}", k.as_id()), i)).collect();
        Runner { db, events, ins, key_of }
    }

    fn new(case: &Case) -> Runner {
        *CELLS.lock().unwrap() = vec![0; case.prog.ncells];
        let (db, env, events) = fresh_db(&case.prog);
        let nstruct = (case.prog.ninputs + 1) / 2;
        let mut ins = vec![];
        for s in 0..nstruct {
            let ia = case.init.get(2 * s).copied().unwrap_or((0, 0));
            let ib = case.init.get(2 * s + 1).copied().unwrap_or((0, 0));
            ins.push(In::builder(ia.0, ib.0).a_durability(DURS[ia.1 as usize]).b_durability(DURS[ib.1 as usize]).new(&db));
        }
        let keys: Vec<Key> =
            (0..case.prog.nodes.len().max(2)).map(|k| Key::builder(k as u32).durability(Durability::NEVER_CHANGE).new(&db)).collect();
        Runner::install(db, env, events, ins, keys)
    }

    /// serde_json round trip into a fresh database; the handles are read back from the restored
    /// ingredients (`Ingredient::entries`, as tests/persistence.rs does) and must be the old ones
    fn snapshot(&mut self) -> Result<(), String> {
        let json = serde_json::to_string(&<dyn salsa::Database>::as_serialize(&mut self.db)).map_err(|e| format!("restore: serialize {}", e))?;
        let (mut db, env, events) = fresh_db(&self.db.env.prog);
        <dyn salsa::Database>::deserialize(&mut db, &mut serde_json::Deserializer::from_str(&json))
            .map_err(|e| format!("restore: deserialize {}", e))?;
        let mut ins: Vec<In> = In::ingredient(&db).entries(db.zalsa()).map(|e| e.as_struct()).collect();
        ins.sort_by_key(|x| x.as_id().index());
        let mut keys: Vec<Key> = Key::ingredient(&db).entries(db.zalsa()).map(|e| e.as_struct()).collect();
        keys.sort_by_key(|k| k.idx(&db));
        let old_keys = self.db.env.keys.get().unwrap();
        if ins != self.ins || &keys != old_keys {
            let ids = |v: Vec<salsa::Id>| format!("{:?}", v);
            return Err(format!(
                "restore: handles-differ ins {} -> {} keys {} -> {}",
                ids(self.ins.iter().map(|x| x.as_id()).collect()),
                ids(ins.iter().map(|x| x.as_id()).collect()),
                ids(old_keys.iter().map(|x| x.as_id()).collect()),
                ids(keys.iter().map(|x| x.as_id()).collect())
            ));
        }
        *self = Runner::install(db, env, events, ins, keys);
        Ok(())
    }

    /// canonical event names: `X<q>` / `V<q>`
    fn canon_events(&mut self) -> Vec<String> {
        let raw = std::mem::take(&mut *self.events.lock().unwrap());
        let mut out = vec![];
        for r in raw {
            // `X pfun(Id(3))`
            let (tag, rest) = r.split_at(1);
            let rest = rest.trim();
            let (name, id) = match rest.find('(') {
                Some(p) => (&rest[..p], rest[p + 1..rest.len() - 1].to_string()),
                None => (rest, String::new()),
            };
            match self.key_of.get(&id) {
                Some(q) if (name == "pfun") == persisted(*q) && (name == "pfun" || name == "nfun") => out.push(format!("{}{}", tag, q)),
                _ => out.push(format!("{}{}?{}", tag, name, id)),
            }
        }
        out
    }

    fn step(&mut self, op: &POp) -> String {
        let nq = self.db.env.prog.nodes.len();
        let r = match op {
            POp::Snapshot => {
                let res = std::panic::catch_unwind(std::panic::AssertUnwindSafe(|| self.snapshot()));
                match res {
                    Ok(Ok(())) => "ok".to_string(),
                    Ok(Err(m)) => format!("panic:{}", m.replace(' ', "_")),
                    Err(p) => format!("panic:{}", panic_class(&*p)),
                }
            }
            POp::Op(Op::Get(q)) => {
                if *q >= nq {
                    return "bad-op".into();
                }
                let q = *q;
                let res = std::panic::catch_unwind(std::panic::AssertUnwindSafe(|| format!("v={}", call_node(&self.db, q))));
                match res {
                    Ok(s) => s,
                    Err(p) => format!("panic:{}", panic_class(&*p)),
                }
            }
            POp::Op(Op::Set(i, v, d)) => {
                if *i >= self.db.env.prog.ninputs {
                    return "bad-op".into();
                }
                let x = self.ins[*i / 2];
                let (i, v, d) = (*i, *v, *d);
                let res = std::panic::catch_unwind(std::panic::AssertUnwindSafe(|| {
                    let db = &mut self.db;
                    match (i % 2, d) {
                        (0, None) => {
                            x.set_a(db).to(v);
                        }
                        (0, Some(d)) => {
                            x.set_a(db).with_durability(DURS[d as usize]).to(v);
                        }
                        (_, None) => {
                            x.set_b(db).to(v);
                        }
                        (_, Some(d)) => {
                            x.set_b(db).with_durability(DURS[d as usize]).to(v);
                        }
                    }
                }));
                match res {
                    Ok(()) => "ok".into(),
                    Err(p) => format!("panic:{}", panic_class(&*p)),
                }
            }
            POp::Op(Op::Synth(d)) => {
                let d = *d;
                let res = std::panic::catch_unwind(std::panic::AssertUnwindSafe(|| {
                    use salsa::Database;
                    self.db.synthetic_write(DURS[d as usize]);
                }));
                match res {
                    Ok(()) => "ok".into(),
                    Err(p) => format!("panic:{}", panic_class(&*p)),
                }
            }
            POp::Op(Op::Cell(c, v)) => {
                if *c >= self.db.env.prog.ncells {
                    return "bad-op".into();
                }
                CELLS.lock().unwrap()[*c] = *v;
                "ok".into()
            }
            POp::Op(_) => return "bad-op".into(),
        };
        let ev = self.canon_events();
        match op {
            POp::Op(Op::Get(_)) => format!("{} ev={}", r, if ev.is_empty() { "-".to_string() } else { ev.join(",") }),
            _ => {
                if ev.is_empty() { r } else { format!("{} ev={}", r, ev.join(",")) }
            }
        }
    }
}

/// Runs every case of an op file; one output line per input line (`ok` for header lines).
fn run_file(text: &str, out: &mut dyn std::io::Write) {
    let cases = match parse_cases(text) {
        Ok(c) => c,
        Err(e) => {
            eprintln!("parse error: {}", e);
            std::process::exit(2);
        }
    };
    for pc in &cases {
        for _ in 0..pc.header_lines {
            writeln!(out, "ok").unwrap();
        }
        let mut r = Runner::new(&pc.case);
        for op in &pc.ops {
            let line = r.step(op);
            writeln!(out, "{}", line).unwrap();
        }
    }
}

// ---------------------------------------------------------------------------------------------
// oracle

struct OracleStats {
    cases: u64,
    gets: u64,
    nontrivial_cases: u64,
    failures: Vec<String>,
    hist: std::collections::BTreeMap<String, u64>,
}

fn oracle_case(pc: &PCase, obs: &[&str], st: &mut OracleStats, case_no: usize, line0: usize) {
    let case = &pc.case;
    let nn = case.prog.nodes.len();
    let mut inputs: Vec<u32> = case.init.iter().map(|x| x.0).collect();
    let mut durs: Vec<u8> = case.init.iter().map(|x| x.1).collect();
    let mut cells: Vec<u32> = vec![0; case.prog.ncells];
    // a cell changed and no new revision has started since: salsa cannot know, values are unconstrained
    let mut cells_dirty = false;
    // nodes whose memo is known to be verified in the current revision: requested successfully,
    // executed or validated since the last new revision (a restore does not start a revision)
    let mut verified = vec![false; nn];
    // Some(set) between a restore and the next new revision: the persisted nodes that were
    // verified in the snapshot's revision
    let mut guard: Option<Vec<bool>> = None;
    // known finding kf6: the memo of a PERSISTED function is serialized with the flattened edges of its non-persisted
    // callees, and flattening drops the fact that such a callee performed an untracked read; after a restore the persisted
    // memo is validated although the untracked state changed.  Mechanism test: a persisted node calls a
    // non-persisted node that reaches a cell read.
    fn has_cell(e: &E) -> bool {
        match e {
            E::Cell(_) => true,
            E::Add(a, b) | E::Min(a, b) | E::Max(a, b) => has_cell(a) || has_cell(b),
            E::If(c, a, b) => has_cell(c) || has_cell(a) || has_cell(b),
            _ => false,
        }
    }
    fn calls(e: &E, out: &mut Vec<usize>) {
        match e {
            E::Call(q) => out.push(*q),
            E::Add(a, b) | E::Min(a, b) | E::Max(a, b) => { calls(a, out); calls(b, out); }
            E::If(c, a, b) => { calls(c, out); calls(a, out); calls(b, out); }
            _ => {}
        }
    }
    // untracked_np[q]: q reads a cell itself or through any callee (flattening goes down to the base inputs, also
    // through persisted functions below a non-persisted one)
    let mut untracked_np = vec![false; nn];
    for _ in 0..nn {
        for q in 0..nn {
            if !untracked_np[q] {
                let mut cs = vec![];
                calls(&case.prog.nodes[q].1, &mut cs);
                if has_cell(&case.prog.nodes[q].1) || cs.iter().any(|c| *c < nn && untracked_np[*c]) {
                    untracked_np[q] = true;
                }
            }
        }
    }
    let kf6_shape = (0..nn).any(|q| {
        let mut cs = vec![];
        calls(&case.prog.nodes[q].1, &mut cs);
        persisted(q) && cs.iter().any(|c| *c < nn && !persisted(*c) && untracked_np[*c])
    });
    let mut nontrivial = false;
    let mut seen_snapshot = false;
    let fail = |st: &mut OracleStats, i: usize, msg: String| {
        let key = msg.split(' ').next().unwrap_or("key=?").to_string();
        let c = st.hist.entry(format!("fail:{}", key)).or_default();
        *c += 1;
        if *c <= 3 {
            st.failures.push(format!("case={} op#{} line={} `{}`: {}", case_no, i, line0 + i + 1, pc.ops[i].to_line(), msg));
        } else {
            st.failures.push(String::new());
        }
    };
    for (i, (op, o)) in pc.ops.iter().zip(obs.iter()).enumerate() {
        let main = o.split(" ev=").next().unwrap_or("");
        let evs: Vec<&str> = o.split(" ev=").nth(1).map(|e| if e == "-" { vec![] } else { e.split(',').collect() }).unwrap_or_default();
        for e in &evs {
            *st.hist.entry(e[..1].to_string()).or_default() += 1;
        }
        match op {
            POp::Snapshot => {
                if main != "ok" {
                    fail(st, i, format!("key=restore-failed `{}`", main));
                    continue;
                }
                if !evs.is_empty() {
                    fail(st, i, format!("key=restore-events serialization / deserialization emitted {:?}", evs));
                }
                seen_snapshot = true;
                let g: Vec<bool> = (0..nn).map(|q| persisted(q) && verified[q]).collect();
                *st.hist.entry("snapshot".into()).or_default() += 1;
                *st.hist.entry("restore-guarded-memos".into()).or_default() += g.iter().filter(|x| **x).count() as u64;
                // non-persisted memos are gone: they are no longer verified (nor present)
                for q in 0..nn {
                    if !persisted(q) {
                        verified[q] = false;
                    }
                }
                guard = Some(g);
            }
            POp::Op(Op::Set(idx, v, d)) => {
                if durs[*idx] == 3 {
                    if main != "panic:never-change" {
                        fail(st, i, format!("key=never-change-write got `{}` (must panic)", main));
                    }
                } else {
                    if main != "ok" {
                        fail(st, i, format!("key=write-failed `{}`", main));
                    }
                    inputs[*idx] = *v;
                    if let Some(d) = d {
                        durs[*idx] = *d;
                    }
                }
                verified.iter_mut().for_each(|x| *x = false);
                guard = None;
                cells_dirty = false;
            }
            POp::Op(Op::Synth(d)) => {
                if *d == 3 {
                    if main != "panic:never-change" {
                        fail(st, i, format!("key=never-change-synth got `{}` (must panic)", main));
                    }
                } else if main != "ok" {
                    fail(st, i, format!("key=synth-failed `{}`", main));
                }
                verified.iter_mut().for_each(|x| *x = false);
                guard = None;
                cells_dirty = false;
            }
            POp::Op(Op::Cell(c, v)) if *c < cells.len() => {
                if main != "ok" {
                    fail(st, i, format!("key=cell-failed `{}`", main));
                }
                if cells[*c] != *v {
                    cells_dirty = true;
                }
                cells[*c] = *v;
                *st.hist.entry("cell-writes".into()).or_default() += 1;
            }
            POp::Op(Op::Get(q)) => {
                st.gets += 1;
                if seen_snapshot {
                    *st.hist.entry("gets-after-restore".into()).or_default() += 1;
                    if evs.iter().any(|e| e.starts_with('V') || e.starts_with('X')) {
                        nontrivial = true;
                    }
                }
                // restore monitor
                if let Some(g) = &guard {
                    if g[*q] {
                        *st.hist.entry("restore-hot-request".into()).or_default() += 1;
                    }
                    for e in &evs {
                        if let Some(x) = e.strip_prefix('X').and_then(|r| r.parse::<usize>().ok()) {
                            if x < nn && g[x] {
                                fail(st, i, format!("key=restore-reexecuted persisted node {} was verified in the revision of the snapshot, yet it was executed again on the restored database although no new revision had started (events {:?})", x, evs));
                            }
                        }
                    }
                }
                for e in &evs {
                    if let Ok(x) = e[1..].parse::<usize>() {
                        if x < nn {
                            verified[x] = true;
                        }
                    } else {
                        fail(st, i, format!("key=foreign-event `{}`", e));
                    }
                }
                let want = format!("v={}", Ref::new(Env { prog: &case.prog, inputs: &inputs, cells: &cells }).node(*q).n);
                if cells_dirty {
                    *st.hist.entry("gets-skipped-cell-dirty".into()).or_default() += 1;
                } else if main != want {
                    if main.starts_with("panic:") {
                        fail(st, i, format!("key=unexpected-panic got `{}` want `{}`", main, want));
                    } else {
                        let key = if seen_snapshot && kf6_shape { "untracked-read-below-nonpersisted-lost-by-flattening" } else { "value" };
                        fail(st, i, format!("key={} got `{}` want `{}`{}", key, main, want, if seen_snapshot { " (after a restore)" } else { "" }));
                    }
                } else if *q < nn {
                    verified[*q] = true;
                }
            }
            POp::Op(_) => {
                if main != "bad-op" {
                    fail(st, i, format!("key=unsupported-op got `{}`", main));
                }
            }
        }
    }
    st.cases += 1;
    if nontrivial {
        st.nontrivial_cases += 1;
    }
}

fn main() {
    let args = Args::from_env();
    let mode = args.0.first().cloned().unwrap_or_default();
    std::panic::set_hook(Box::new(|_| {}));
    match mode.as_str() {
        "gen" => {
            let mut r = Rng::new(args.num("--seed", 1));
            let f = std::fs::File::create(args.get("--out").expect("--out")).unwrap();
            let mut w = std::io::BufWriter::new(f);
            let mut seen = std::collections::HashSet::new();
            let n = args.num("--cases", 100);
            for _ in 0..n {
                let mut c = gen_case(&mut r, Profile::Core);
                if args.flag("--cells") {
                    // untracked reads under persistence: `u0` leaves in about half of the nodes (persisted and not),
                    // cell changes followed by a new revision (the property speaks about those)
                    c.prog.ncells = 1;
                    let nn = c.prog.nodes.len();
                    let mut any = false;
                    for q in 0..nn {
                        if r.below(2) == 0 || (q + 1 == nn && !any) {
                            let old = std::mem::replace(&mut c.prog.nodes[q].1, E::C(0));
                            c.prog.nodes[q].1 = E::Add(Box::new(old), Box::new(E::Cell(0)));
                            any = true;
                        }
                    }
                    let k = 1 + r.usize(3);
                    for _ in 0..k {
                        let p = r.usize(c.ops.len() + 1);
                        c.ops.insert(p, Op::Synth(r.below(3) as u8));
                        c.ops.insert(p, Op::Cell(0, r.below(4) as u32));
                    }
                }
                let mut ops: Vec<POp> = c.ops.iter().cloned().map(POp::Op).collect();
                let k = 1 + r.usize(2);
                let mut pos = vec![];
                for _ in 0..k {
                    let p = r.usize(ops.len() + 1);
                    ops.insert(p, POp::Snapshot);
                    pos.push(p);
                }
                {
                    use std::hash::{Hash, Hasher};
                    let mut h = std::collections::hash_map::DefaultHasher::new();
                    case_hash(&c).hash(&mut h);
                    pos.hash(&mut h);
                    seen.insert(h.finish());
                }
                let header = c.to_lines().len() - c.ops.len();
                for l in c.to_lines().into_iter().take(header) {
                    writeln!(w, "{}", l).unwrap();
                }
                for o in &ops {
                    writeln!(w, "{}", o.to_line()).unwrap();
                }
            }
            println!("GEN cases={} distinct={}", n, seen.len());
        }
        "run" => {
            let text = std::fs::read_to_string(args.get("--ops").expect("--ops")).unwrap();
            let f = std::fs::File::create(args.get("--out").expect("--out")).unwrap();
            let mut w = std::io::BufWriter::new(f);
            run_file(&text, &mut w);
        }
        "oracle" => {
            let text = std::fs::read_to_string(args.get("--ops").expect("--ops")).unwrap();
            let imp = std::fs::read_to_string(args.get("--impl").expect("--impl")).unwrap();
            let cases = match parse_cases(&text) {
                Ok(c) => c,
                Err(e) => {
                    eprintln!("parse error: {}", e);
                    std::process::exit(2);
                }
            };
            let obs: Vec<&str> = imp.lines().collect();
            let mut st = OracleStats { cases: 0, gets: 0, nontrivial_cases: 0, failures: vec![], hist: Default::default() };
            let mut line = 0usize;
            for (cno, pc) in cases.iter().enumerate() {
                let a = line + pc.header_lines;
                let b = a + pc.ops.len();
                if b > obs.len() {
                    eprintln!("impl file too short");
                    std::process::exit(2);
                }
                oracle_case(pc, &obs[a..b], &mut st, cno, a);
                line = b;
            }
            let nfail = st.failures.len();
            for f in st.failures.iter().filter(|f| !f.is_empty()) {
                println!("ORACLE-FAIL {}", f);
            }
            let hist = st.hist.iter().map(|(k, v)| format!("{}:{}", k, v)).collect::<Vec<_>>().join(",");
            println!("ORACLE-SUMMARY cases={} gets={} nontrivial_cases={} failures={} hist={{{}}}", st.cases, st.gets, st.nontrivial_cases, nfail, hist);
            std::process::exit(if nfail > 0 { 1 } else { 0 });
        }
        _ => {
            eprintln!("usage: persist gen|run|oracle …");
            std::process::exit(2);
        }
    }
}
