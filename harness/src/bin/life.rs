//! `vh life` — RETAINED-REFERENCE harness for C23 (reference validity).
//!
//!   life gen --seed S --cases N --out ops.txt      structured, mostly valid histories
//!   life run --ops ops.txt --out impl.txt          one canonical line per op line + the oracle
//!
//! Every salsa item of this binary hands out REFERENCES (`returns(ref)`), and the runner RETAINS
//! every reference it is given for as long as Rust allows: until the database is next borrowed
//! mutably (the end of the "epoch"). The payload type `P` carries a serial number and records its
//! own `Drop` in a log, so that the oracle can tell that a value was destroyed while a reference
//! to it was still retained WITHOUT dereferencing freed memory.
//!
//! Op language (one op per line; `<s>` = index of a `Src` input of the case):
//!   case <n>                  new database; ends the previous case (implicit `drop-db`)
//!   src <flag> <val>          create the next `Src` input                           -> ok
//!   get <what> <s>            what = build|payload|plain|describe|lru|sum|name|fix; calls the
//!                             tracked function / getter and RETAINS the returned `&P`
//!                                                                  -> v=<n> | none | panic:<slug>
//!   peek <what>               what = payload|plain|describe|all; iterates the live entries of the
//!                             `Item` ingredient through `salsa::plumbing` (this reaches structs of
//!                             the previous revision whose creator has not re-run yet), reads
//!                             and RETAINS the references        -> n=<k> stale=<k> | panic:<slug>
//!   other <n> <slot>          `others(Cnt{n,slot,src0})` creates n unrelated `Item`s (recycles
//!                             freed slots); retains their payloads          -> n=<k> | panic:..
//!   inject <k>                the k-th `P::new` from now on panics (user panic)     -> ok
//!   set <s> flag|val <v>      `&mut`: ends the epoch                                -> ok
//!   synth                     `&mut`: synthetic write (LOW)                         -> ok
//!   evict                     `&mut`: trigger_lru_eviction                          -> ok
//!   lrucap <n>                `&mut`: set_lru_capacity of `lru_fn`                  -> ok
//!   drop-db                   drops the database; every `P` ever created must have been
//!                             dropped exactly once                                  -> ok
//!
//! ORACLE (inside `run`): after every op and at the end of every epoch every retained reference is
//! revalidated: (a) its serial must not be in the DROPPED log, (b) re-reading through it must give
//! the recorded (serial, v). Violations: `LIFE-FAIL case=<n> op#<k> key=retained-reference-invalid`;
//! after `drop-db`: `key=leak` / `key=double-drop`. salsa refusing an operation with a panic
//! (`cannot delete read-locked id`, …) is a legitimate outcome and never a failure.
use salsa::plumbing::{FromId, ZalsaDatabase};
use salsa::{Database, Durability, Setter};
use std::cell::{Cell, RefCell};
use std::collections::{BTreeMap, HashMap, HashSet};
use std::io::Write as _;
use vh::{Args, Rng};

// ---------------------------------------------------------------------------------------------
// the payload type and its life-cycle log

thread_local! {
    static NEXT_SERIAL: Cell<u64> = const { Cell::new(0) };
    /// serial -> number of times `Drop` ran for it
    static DROPPED: RefCell<HashMap<u64, u32>> = RefCell::new(HashMap::new());
    /// countdown of `inject <k>`: the k-th `P::new` panics
    static INJECT: Cell<i64> = const { Cell::new(-1) };
    /// violations seen by references held INSIDE tracked-function bodies
    static INNER_FAIL: RefCell<Vec<String>> = const { RefCell::new(Vec::new()) };
    static INNER_CHECKS: Cell<u64> = const { Cell::new(0) };
    /// salsa events seen so far: [WillExecute, DidDiscard, WillIterateCycle, DidReuseInternedValue]
    static EV: Cell<[u64; 4]> = const { Cell::new([0; 4]) };
}

#[derive(Debug, salsa::SalsaValue)]
struct P {
    serial: u64,
    v: u32,
}

impl P {
    fn new(v: u32) -> P {
        INJECT.with(|t| {
            let k = t.get();
            if k > 0 {
                t.set(k - 1);
                if k == 1 {
                    panic!("injected-panic P::new");
                }
            }
        });
        let serial = NEXT_SERIAL.with(|n| {
            let s = n.get();
            n.set(s + 1);
            s
        });
        P { serial, v }
    }
}
impl Clone for P {
    fn clone(&self) -> P {
        P::new(self.v)
    }
}
impl PartialEq for P {
    fn eq(&self, o: &P) -> bool {
        self.v == o.v
    }
}
impl Eq for P {}
/// constant hash: every interned value lands in one shard, so that stale slots are actually reused
impl std::hash::Hash for P {
    fn hash<H: std::hash::Hasher>(&self, state: &mut H) {
        state.write_u8(0);
    }
}
impl Drop for P {
    fn drop(&mut self) {
        let s = self.serial;
        let _ = DROPPED.try_with(|d| *d.borrow_mut().entry(s).or_insert(0) += 1);
    }
}

fn is_dropped(serial: u64) -> bool {
    DROPPED.with(|d| d.borrow().contains_key(&serial))
}

/// a reference held inside a tracked-function body across calls to other tracked functions
struct Held<'a> {
    r: &'a P,
    serial: u64,
    v: u32,
    what: &'static str,
}
impl<'a> Held<'a> {
    fn new(r: &'a P, what: &'static str) -> Held<'a> {
        Held { r, serial: r.serial, v: r.v, what }
    }
    fn check(&self) {
        INNER_CHECKS.with(|c| c.set(c.get() + 1));
        if is_dropped(self.serial) {
            INNER_FAIL.with(|f| f.borrow_mut().push(format!("ref={} serial={} reason=dropped", self.what, self.serial)));
        } else if self.r.serial != self.serial || self.r.v != self.v {
            INNER_FAIL.with(|f| {
                f.borrow_mut().push(format!("ref={} serial={} reason=changed(now serial={} v={})", self.what, self.serial, self.r.serial, self.r.v))
            });
        }
    }
}

// ---------------------------------------------------------------------------------------------
// salsa items

#[salsa::input]
struct Src {
    #[returns(copy)]
    flag: u32,
    #[returns(copy)]
    val: u32,
}

#[salsa::tracked]
struct Item<'db> {
    #[returns(ref)]
    #[tracked]
    payload: P,
    #[returns(ref)]
    plain: P,
}

#[salsa::interned(revisions = 2)]
struct Name<'db> {
    #[returns(ref)]
    text: P,
}

#[salsa::interned]
struct Cnt<'db> {
    #[returns(copy)]
    n: u32,
    #[returns(copy)]
    slot: u32,
    #[returns(copy)]
    src: Src,
}

/// creates the item only if `flag` is odd; payload from `val`
#[salsa::tracked(returns(ref))]
fn build<'db>(db: &'db dyn Database, src: Src) -> Option<Item<'db>> {
    if src.flag(db) % 2 == 1 {
        let v = src.val(db);
        Some(Item::new(db, P::new(v), P::new(v + 500)))
    } else {
        None
    }
}

/// the memo of this function is stored ON the tracked struct
#[salsa::tracked(returns(ref))]
fn describe<'db>(db: &'db dyn Database, item: Item<'db>) -> P {
    P::new(item.payload(db).v * 2 + 1)
}

#[salsa::tracked(returns(ref), lru = 2)]
fn lru_fn(db: &dyn Database, src: Src) -> P {
    P::new(src.val(db) + 100)
}

#[salsa::tracked(returns(ref))]
fn name_of<'db>(db: &'db dyn Database, src: Src) -> Name<'db> {
    Name::new(db, P::new(2000 + src.val(db) % 8))
}

fn fx_initial(_db: &dyn Database, _id: salsa::Id, _src: Src) -> P {
    P::new(0)
}
fn fx_join(_db: &dyn Database, _c: &salsa::Cycle, last: &P, value: P, _src: Src) -> P {
    P::new(last.v | value.v)
}
/// fixpoint pair (a cycle only when flag bit 2 is set); 8-bit sets, monotone
#[salsa::tracked(returns(ref), cycle_fn = fx_join, cycle_initial = fx_initial)]
fn fix_a(db: &dyn Database, src: Src) -> P {
    let b = Held::new(fix_b(db, src), "fix_a:fix_b");
    let l = lru_fn(db, src).v;
    b.check();
    P::new((b.v | (1 << (src.val(db) % 6)) | (l & 0x40)) % 256)
}
#[salsa::tracked(returns(ref), cycle_fn = fx_join, cycle_initial = fx_initial)]
fn fix_b(db: &dyn Database, src: Src) -> P {
    if src.flag(db) & 4 != 0 {
        let a = Held::new(fix_a(db, src), "fix_b:fix_a");
        let extra = describe_opt(db, src);
        a.check();
        P::new((a.v | (1 << (src.flag(db) % 5)) | (extra & 0x80)) % 256)
    } else {
        P::new(src.val(db) % 16)
    }
}
fn describe_opt(db: &dyn Database, src: Src) -> u32 {
    match build(db, src) {
        Some(it) => describe(db, *it).v,
        None => 0,
    }
}

/// calls the others, holding every reference it obtained until the end of its body
#[salsa::tracked(returns(ref))]
fn sum(db: &dyn Database, src: Src) -> P {
    let mut held = vec![Held::new(lru_fn(db, src), "sum:lru")];
    if let Some(it) = build(db, src) {
        held.push(Held::new(it.payload(db), "sum:payload"));
        held.push(Held::new(describe(db, *it), "sum:describe"));
        held.push(Held::new(it.plain(db), "sum:plain"));
    }
    held.push(Held::new(name_of(db, src).text(db), "sum:name"));
    held.push(Held::new(fix_a(db, src), "sum:fix"));
    let mut acc = 0u32;
    for h in &held {
        h.check();
        acc = acc.wrapping_mul(31).wrapping_add(h.v);
    }
    P::new(acc % 100_000)
}

/// `n` unrelated items (half of them when flag bit 3 of the `Src` is set, so that a re-execution
/// deletes the tail)
#[salsa::tracked(returns(ref))]
fn others<'db>(db: &'db dyn Database, c: Cnt<'db>) -> Vec<Item<'db>> {
    let mut n = c.n(db);
    if c.src(db).flag(db) & 8 != 0 {
        n /= 2;
    }
    (0..n).map(|i| Item::new(db, P::new(3000 + i), P::new(3500 + i))).collect()
}

// ---------------------------------------------------------------------------------------------
// op language

#[derive(Clone, Copy, Debug, PartialEq, Eq)]
enum GetK {
    Build,
    Payload,
    Plain,
    Describe,
    Lru,
    Sum,
    Name,
    Fix,
}
const GETS: [(&str, GetK); 8] = [
    ("build", GetK::Build),
    ("payload", GetK::Payload),
    ("plain", GetK::Plain),
    ("describe", GetK::Describe),
    ("lru", GetK::Lru),
    ("sum", GetK::Sum),
    ("name", GetK::Name),
    ("fix", GetK::Fix),
];
#[derive(Clone, Copy, Debug, PartialEq, Eq)]
enum PeekK {
    Payload,
    Plain,
    Describe,
    All,
}
const PEEKS: [(&str, PeekK); 4] = [("payload", PeekK::Payload), ("plain", PeekK::Plain), ("describe", PeekK::Describe), ("all", PeekK::All)];

#[derive(Clone, Debug, PartialEq)]
enum Op {
    Case(u64),
    Src(u32, u32),
    Get(GetK, usize),
    Peek(PeekK),
    Other(u32, u32),
    Inject(i64),
    Set(usize, bool, u32), // (src, is_flag, value)
    Synth,
    Evict,
    LruCap(usize),
    DropDb,
    Bad,
}

impl Op {
    fn parse(line: &str) -> Op {
        let p: Vec<&str> = line.split(' ').collect();
        fn n<T: std::str::FromStr>(s: &str) -> Option<T> {
            s.parse().ok()
        }
        let r = match p.as_slice() {
            ["case", a] => n(a).map(Op::Case),
            ["src", f, v] => n::<u32>(f).zip(n::<u32>(v)).filter(|(f, v)| *f < 16 && *v < 1000).map(|(f, v)| Op::Src(f, v)),
            ["get", w, s] => GETS.iter().find(|g| g.0 == *w).zip(n::<usize>(s)).map(|(g, s)| Op::Get(g.1, s)),
            ["peek", w] => PEEKS.iter().find(|g| g.0 == *w).map(|g| Op::Peek(g.1)),
            ["other", a, b] => n::<u32>(a).zip(n::<u32>(b)).filter(|(a, b)| *a <= 8 && *b < 64).map(|(a, b)| Op::Other(a, b)),
            ["inject", k] => n::<i64>(k).filter(|k| *k >= 0 && *k < 1000).map(Op::Inject),
            ["set", s, "flag", v] => n::<usize>(s).zip(n::<u32>(v)).filter(|(_, v)| *v < 16).map(|(s, v)| Op::Set(s, true, v)),
            ["set", s, "val", v] => n::<usize>(s).zip(n::<u32>(v)).filter(|(_, v)| *v < 1000).map(|(s, v)| Op::Set(s, false, v)),
            ["synth"] => Some(Op::Synth),
            ["evict"] => Some(Op::Evict),
            ["lrucap", c] => n::<usize>(c).filter(|c| *c < 64).map(Op::LruCap),
            ["drop-db"] => Some(Op::DropDb),
            _ => None,
        };
        r.unwrap_or(Op::Bad)
    }
    /// ops that need `&mut` (or replace) the database: they end the epoch
    fn is_mut(&self) -> bool {
        matches!(self, Op::Case(_) | Op::Set(..) | Op::Synth | Op::Evict | Op::LruCap(_) | Op::DropDb)
    }
    fn kind(&self) -> String {
        match self {
            Op::Case(_) => "case".into(),
            Op::Src(..) => "src".into(),
            Op::Get(k, _) => format!("get-{}", GETS.iter().find(|g| g.1 == *k).unwrap().0),
            Op::Peek(k) => format!("peek-{}", PEEKS.iter().find(|g| g.1 == *k).unwrap().0),
            Op::Other(..) => "other".into(),
            Op::Inject(_) => "inject".into(),
            Op::Set(_, true, _) => "set-flag".into(),
            Op::Set(_, false, _) => "set-val".into(),
            Op::Synth => "synth".into(),
            Op::Evict => "evict".into(),
            Op::LruCap(_) => "lrucap".into(),
            Op::DropDb => "drop-db".into(),
            Op::Bad => "bad".into(),
        }
    }
}

fn panic_slug(p: &(dyn std::any::Any + Send)) -> String {
    if let Some(c) = p.downcast_ref::<salsa::Cancelled>() {
        return format!("cancelled-{:?}", c).to_lowercase();
    }
    let m = p.downcast_ref::<String>().cloned().or(p.downcast_ref::<&str>().map(|s| s.to_string())).unwrap_or_default();
    for (pat, slug) in [
        ("injected-panic", "user"),
        ("cannot delete read-locked id", "delete-read-locked"),
        ("cannot delete write-locked id", "delete-write-locked"),
        ("write lock taken", "write-lock-taken"),
        ("failed to acquire write lock", "write-lock-failed"),
        ("two concurrent writers", "two-writers"),
        ("was not interned in the latest revision", "interned-stale"),
        ("too many cycle iterations", "too-many-iterations"),
        ("dependency graph cycle", "cycle"),
        ("access to field whilst the value is being initialized", "field-during-init"),
    ] {
        if m.contains(pat) {
            return slug.into();
        }
    }
    let s: String = m.chars().take(70).map(|c| if c.is_ascii_alphanumeric() { c.to_ascii_lowercase() } else { '-' }).collect();
    format!("other-{}", s)
}

// ---------------------------------------------------------------------------------------------
// the runner and its oracle

/// a reference retained by the runner for the rest of the epoch
struct Ret<'a> {
    r: &'a P,
    serial: u64,
    v: u32,
    what: String,
}

#[derive(Default)]
struct Stats {
    cases: u64,
    ops: u64,
    retained: u64,
    revalidations: u64,
    inner_checks: u64,
    stale_peeks: u64,
    stale_entries: u64,
    failures: u64,
    epochs_retaining: u64,
    /// cases with at least one epoch counted in `epochs_across`
    nontrivial_cases: u64,
    /// epochs in which a reference was retained while salsa [executed a function, discarded a
    /// struct or memo, iterated a cycle, reused an interned slot]
    epochs_across: [u64; 4],
    panics: BTreeMap<String, u64>,
    kinds: BTreeMap<String, u64>,
}

#[derive(Default)]
struct CaseSt {
    no: u64,
    srcs: Vec<Src>,
    /// ids of the `Item`s handed out by their creator in the CURRENT revision
    confirmed: HashSet<salsa::Id>,
}

const RETAIN_CAP: usize = 512;

fn retain<'a>(retained: &mut Vec<Ret<'a>>, st: &mut Stats, r: &'a P, what: String) -> u32 {
    if retained.len() < RETAIN_CAP {
        st.retained += 1;
        retained.push(Ret { r, serial: r.serial, v: r.v, what });
    }
    r.v
}

/// (a) the DROPPED log first (no dereference), (b) then re-read; invalid references are removed
fn revalidate(retained: &mut Vec<Ret<'_>>, st: &mut Stats) -> Vec<String> {
    let mut fails = vec![];
    retained.retain(|x| {
        st.revalidations += 1;
        if is_dropped(x.serial) {
            fails.push(format!("key=retained-reference-invalid ref=[{}] serial={} v={} reason=dropped-while-retained", x.what, x.serial, x.v));
            false
        } else if x.r.serial != x.serial || x.r.v != x.v {
            fails.push(format!(
                "key=retained-reference-invalid ref=[{}] serial={} v={} reason=overwritten(now serial={} v={})",
                x.what, x.serial, x.v, x.r.serial, x.r.v
            ));
            false
        } else {
            true
        }
    });
    INNER_FAIL.with(|f| {
        for m in f.borrow_mut().drain(..) {
            fails.push(format!("key=retained-reference-invalid {} where=inside-tracked-fn", m));
        }
    });
    fails
}

#[salsa::db]
#[derive(Clone)]
struct Db {
    storage: salsa::Storage<Self>,
}
#[salsa::db]
impl salsa::Database for Db {}
impl Db {
    /// the event callback only counts (it is how `run` measures what a retained reference lived through)
    fn new() -> Db {
        let storage = salsa::Storage::new(Some(Box::new(|e: salsa::Event| {
            use salsa::EventKind::*;
            let i = match &e.kind {
                WillExecute { .. } => 0,
                DidDiscard { .. } => 1,
                WillIterateCycle { .. } => 2,
                DidReuseInternedValue { .. } => 3,
                _ => return,
            };
            let _ = EV.try_with(|c| {
                let mut a = c.get();
                a[i] += 1;
                c.set(a);
            });
        })));
        Db { storage }
    }
}

fn guard<R>(f: impl FnOnce() -> R) -> Result<R, String> {
    std::panic::catch_unwind(std::panic::AssertUnwindSafe(f)).map_err(|p| panic_slug(&*p))
}

/// one op that only needs `&db`; every reference it obtains is pushed to `retained`
fn shared_op<'a>(db: &'a Db, cs: &mut CaseSt, op: &Op, k: usize, retained: &mut Vec<Ret<'a>>, st: &mut Stats) -> String {
    let res: Result<String, String> = match *op {
        Op::Src(f, v) => guard(|| {
            cs.srcs.push(Src::new(db, f, v));
            "ok".to_string()
        }),
        Op::Inject(n) => {
            INJECT.with(|t| t.set(n));
            Ok("ok".into())
        }
        Op::Get(kind, s) => {
            let Some(&src) = cs.srcs.get(s) else { return "bad-op".into() };
            let tag = |w: &str| format!("get {} {}@op{}", w, s, k);
            guard(|| {
                // every path through `build` confirms the item for this revision
                let item = |cs: &mut CaseSt| -> Option<Item<'a>> {
                    let it = *build(db, src);
                    if let Some(it) = it {
                        cs.confirmed.insert(salsa::plumbing::AsId::as_id(&it));
                    }
                    it
                };
                let r: Option<&'a P> = match kind {
                    GetK::Build => return if item(cs).is_some() { "some".to_string() } else { "none".to_string() },
                    GetK::Payload => item(cs).map(|it| it.payload(db)),
                    GetK::Plain => item(cs).map(|it| it.plain(db)),
                    GetK::Describe => item(cs).map(|it| describe(db, it)),
                    GetK::Lru => Some(lru_fn(db, src)),
                    GetK::Sum => {
                        let r = sum(db, src);
                        item(cs);
                        Some(r)
                    }
                    GetK::Name => Some(name_of(db, src).text(db)),
                    GetK::Fix => Some(fix_a(db, src)),
                };
                match r {
                    Some(r) => format!("v={}", retain(retained, st, r, tag(GETS.iter().find(|g| g.1 == kind).unwrap().0))),
                    None => "none".to_string(),
                }
            })
        }
        Op::Peek(what) => guard(|| {
            let ing = Item::ingredient(db);
            let ids: Vec<salsa::Id> = ing.entries(db.zalsa()).map(|e| e.key().key_index()).collect();
            let mut stale = 0;
            for (j, id) in ids.iter().enumerate() {
                let is_stale = !cs.confirmed.contains(id);
                stale += is_stale as u64;
                let item: Item<'a> = Item::from_id(*id);
                let tag = |w: &str| format!("peek {} entry{}{}@op{}", w, j, if is_stale { "(stale)" } else { "" }, k);
                if matches!(what, PeekK::Payload | PeekK::All) {
                    retain(retained, st, item.payload(db), tag("payload"));
                }
                if matches!(what, PeekK::Describe | PeekK::All) {
                    retain(retained, st, describe(db, item), tag("describe"));
                }
                if matches!(what, PeekK::Plain | PeekK::All) {
                    retain(retained, st, item.plain(db), tag("plain"));
                }
            }
            st.stale_entries += stale;
            st.stale_peeks += (stale > 0) as u64;
            format!("n={} stale={}", ids.len(), stale)
        }),
        Op::Other(n, slot) => {
            let Some(&src0) = cs.srcs.first() else { return "bad-op".into() };
            guard(|| {
                let items: &'a Vec<Item<'a>> = others(db, Cnt::new(db, n, slot, src0));
                for (j, it) in items.iter().enumerate() {
                    cs.confirmed.insert(salsa::plumbing::AsId::as_id(it));
                    retain(retained, st, it.payload(db), format!("other {} {} item{}@op{}", n, slot, j, k));
                }
                format!("n={}", items.len())
            })
        }
        _ => return "bad-op".into(),
    };
    match res {
        Ok(s) => s,
        Err(slug) => {
            *st.panics.entry(slug.clone()).or_default() += 1;
            format!("panic:{}", slug)
        }
    }
}

fn mut_op(db: &mut Db, cs: &mut CaseSt, op: &Op, st: &mut Stats) -> String {
    let res = match *op {
        Op::Set(s, is_flag, v) => {
            let Some(&src) = cs.srcs.get(s) else { return "bad-op".into() };
            guard(|| {
                if is_flag {
                    src.set_flag(db).to(v);
                } else {
                    src.set_val(db).to(v);
                }
            })
        }
        Op::Synth => guard(|| db.synthetic_write(Durability::LOW)),
        Op::Evict => guard(|| db.trigger_lru_eviction()),
        Op::LruCap(n) => guard(|| lru_fn::set_lru_capacity(db, n)),
        _ => return "bad-op".into(),
    };
    if matches!(op, Op::Set(..) | Op::Synth) {
        cs.confirmed.clear();
    }
    match res {
        Ok(()) => "ok".into(),
        Err(slug) => {
            *st.panics.entry(slug.clone()).or_default() += 1;
            format!("panic:{}", slug)
        }
    }
}

/// drops the database and checks that every `P` of the case was dropped exactly once
fn finish_case(db: &mut Option<Db>, st: &mut Stats) -> (String, Vec<String>) {
    let Some(d) = db.take() else { return ("bad-op".into(), vec![]) };
    let res = guard(move || drop(d));
    let total = NEXT_SERIAL.with(|n| n.get());
    let (mut leaked, mut twice) = (vec![], vec![]);
    DROPPED.with(|dr| {
        let dr = dr.borrow();
        for s in 0..total {
            match dr.get(&s).copied().unwrap_or(0) {
                0 => leaked.push(s),
                1 => {}
                _ => twice.push(s),
            }
        }
    });
    let mut fails = vec![];
    if !leaked.is_empty() {
        fails.push(format!("key=leak {} of {} payload values were never dropped after drop-db: serials {:?}", leaked.len(), total, &leaked[..leaked.len().min(8)]));
    }
    if !twice.is_empty() {
        fails.push(format!("key=double-drop {} payload values were dropped more than once: serials {:?}", twice.len(), &twice[..twice.len().min(8)]));
    }
    match res {
        Ok(()) => ("ok".into(), fails),
        Err(slug) => {
            *st.panics.entry(slug.clone()).or_default() += 1;
            (format!("panic:{}", slug), fails)
        }
    }
}

fn reset_case_logs() {
    NEXT_SERIAL.with(|n| n.set(0));
    DROPPED.with(|d| d.borrow_mut().clear());
    INJECT.with(|t| t.set(-1));
    INNER_FAIL.with(|f| f.borrow_mut().clear());
}

fn run(text: &str, out: &mut dyn std::io::Write, st: &mut Stats) {
    let lines: Vec<&str> = text.lines().collect();
    let ops: Vec<Op> = lines.iter().map(|l| Op::parse(l)).collect();
    let mut db: Option<Db> = None;
    let mut cs = CaseSt::default();
    let mut case_idx: i64 = -1; // ordinal of the case in the file
    let mut case_start = 0usize; // line index of the `case` line
    let mut case_nontrivial = false;
    let mut i = 0usize;
    let emit = |out: &mut dyn std::io::Write, st: &mut Stats, case_idx: i64, k: usize, i: usize, res: &str, fails: Vec<String>| {
        st.ops += 1;
        *st.kinds.entry(ops[i].kind()).or_default() += 1;
        if fails.is_empty() {
            writeln!(out, "{}", res).unwrap();
        } else {
            writeln!(out, "{} FAIL {}", res, fails.iter().map(|f| f.split(' ').next().unwrap_or("").to_string()).collect::<Vec<_>>().join(" ")).unwrap();
        }
        for f in fails {
            st.failures += 1;
            println!("LIFE-FAIL case={} op#{} line={} `{}`: {}", case_idx, k, i + 1, lines[i], f);
        }
    };
    while i < ops.len() {
        // ---- one epoch: a maximal run of ops under ONE shared borrow of the database
        if let Some(dbr) = db.as_ref() {
            let mut retained: Vec<Ret<'_>> = vec![];
            let mut had = false;
            let mut across = [false; 4];
            while i < ops.len() && !ops[i].is_mut() {
                let k = i - case_start;
                let (had_before, ev0) = (!retained.is_empty(), EV.with(|c| c.get()));
                let res = shared_op(dbr, &mut cs, &ops[i], k, &mut retained, st);
                had |= !retained.is_empty();
                let ev1 = EV.with(|c| c.get());
                for j in 0..4 {
                    across[j] |= had_before && ev1[j] > ev0[j];
                }
                let fails = revalidate(&mut retained, st);
                emit(out, st, case_idx, k, i, &res, fails);
                i += 1;
            }
            st.epochs_retaining += had as u64;
            for j in 0..4 {
                st.epochs_across[j] += across[j] as u64;
            }
            if across.iter().any(|a| *a) && !case_nontrivial {
                case_nontrivial = true;
                st.nontrivial_cases += 1;
            }
            // end of the epoch: the references die here, before the `&mut` borrow below
            drop(retained);
        } else {
            while i < ops.len() && !ops[i].is_mut() {
                emit(out, st, case_idx, i - case_start, i, "bad-op", vec![]);
                i += 1;
            }
        }
        if i >= ops.len() {
            break;
        }
        // ---- the `&mut` op
        let k = i - case_start;
        match &ops[i] {
            Op::Case(n) => {
                let (_, fails) = if db.is_some() { finish_case(&mut db, st) } else { (String::new(), vec![]) };
                for f in fails {
                    st.failures += 1;
                    println!("LIFE-FAIL case={} op#{} line={} `{}`: {} (implicit drop-db)", case_idx, k, i, lines[i.saturating_sub(1)], f);
                }
                reset_case_logs();
                case_idx += 1;
                case_start = i;
                case_nontrivial = false;
                cs = CaseSt { no: *n, ..Default::default() };
                let _ = cs.no;
                st.cases += 1;
                db = Some(Db::new());
                emit(out, st, case_idx, 0, i, "ok", vec![]);
            }
            Op::DropDb => {
                let (res, fails) = finish_case(&mut db, st);
                emit(out, st, case_idx, k, i, &res, fails);
            }
            op => match db.as_mut() {
                Some(d) => {
                    let res = mut_op(d, &mut cs, op, st);
                    emit(out, st, case_idx, k, i, &res, vec![]);
                }
                None => emit(out, st, case_idx, k, i, "bad-op", vec![]),
            },
        }
        i += 1;
    }
    if db.is_some() {
        let (_, fails) = finish_case(&mut db, st);
        for f in fails {
            st.failures += 1;
            println!("LIFE-FAIL case={} op#{} line={} `{}`: {} (implicit drop-db)", case_idx, ops.len() - case_start, ops.len(), lines[ops.len() - 1], f);
        }
    }
    st.inner_checks = INNER_CHECKS.with(|c| c.get());
}

// ---------------------------------------------------------------------------------------------
// generator (with a small abstract model of `build`, only used for the input-distribution line)

#[derive(Default)]
struct GenStats {
    kinds: BTreeMap<String, u64>,
    epochs: u64,
    epochs_retaining: u64,
    epochs_across_delete: u64,
    epochs_across_reexec: u64,
    stale_peeks: u64,
    recycles_after_delete: u64,
}

#[derive(Clone, Default)]
struct MSrc {
    flag: u32,
    val: u32,
    built: Option<(u32, u32)>,
    has_item: bool,
    validated: u64,
}

struct Gen<'r> {
    r: &'r mut Rng,
    lines: Vec<String>,
    srcs: Vec<MSrc>,
    rev: u64,
    retained: u64,
    across_delete: bool,
    across_reexec: bool,
    free_slots: u64,
    gs: GenStats,
}

impl Gen<'_> {
    fn end_epoch(&mut self) {
        self.gs.epochs += 1;
        self.gs.epochs_retaining += (self.retained > 0) as u64;
        self.gs.epochs_across_delete += self.across_delete as u64;
        self.gs.epochs_across_reexec += self.across_reexec as u64;
        self.retained = 0;
        self.across_delete = false;
        self.across_reexec = false;
    }
    /// model of a call of `build(src)`; returns whether an item exists afterwards
    fn m_build(&mut self, s: usize) -> bool {
        let rev = self.rev;
        let retained = self.retained > 0;
        let m = &mut self.srcs[s];
        let now = (m.flag, if m.flag % 2 == 1 { m.val } else { 0 });
        let dep = m.built.map(|(f, _)| (m.flag, if f % 2 == 1 { m.val } else { 0 }));
        if m.built.is_none() || dep != m.built {
            if m.built.is_some() && retained {
                self.across_reexec = true;
            }
            if m.has_item && m.flag % 2 == 0 {
                self.free_slots += 1;
                if retained {
                    self.across_delete = true;
                }
            }
            m.built = Some(now);
            m.has_item = m.flag % 2 == 1;
        }
        m.validated = rev;
        m.has_item
    }
    fn push(&mut self, op: Op) {
        *self.gs.kinds.entry(op.kind()).or_default() += 1;
        let line = match &op {
            Op::Case(n) => format!("case {}", n),
            Op::Src(f, v) => {
                self.srcs.push(MSrc { flag: *f, val: *v, ..Default::default() });
                format!("src {} {}", f, v)
            }
            Op::Get(k, s) => {
                let name = GETS.iter().find(|g| g.1 == *k).unwrap().0;
                if *s < self.srcs.len() {
                    let through_build = match k {
                        GetK::Build | GetK::Payload | GetK::Plain | GetK::Describe | GetK::Sum => true,
                        GetK::Fix => self.srcs[*s].flag & 4 != 0,
                        _ => false,
                    };
                    let some = if through_build { self.m_build(*s) } else { true };
                    if *k != GetK::Build && (some || matches!(k, GetK::Sum | GetK::Fix)) {
                        self.retained += 1;
                    }
                }
                format!("get {} {}", name, s)
            }
            Op::Peek(k) => {
                let rev = self.rev;
                let live = self.srcs.iter().filter(|m| m.has_item).count() as u64;
                if self.srcs.iter().any(|m| m.has_item && m.validated != rev) {
                    self.gs.stale_peeks += 1;
                }
                self.retained += live;
                format!("peek {}", PEEKS.iter().find(|g| g.1 == *k).unwrap().0)
            }
            Op::Other(n, slot) => {
                if self.free_slots > 0 && *n > 0 {
                    self.gs.recycles_after_delete += 1;
                    self.free_slots = self.free_slots.saturating_sub(*n as u64);
                }
                self.retained += *n as u64;
                format!("other {} {}", n, slot)
            }
            Op::Inject(k) => format!("inject {}", k),
            Op::Set(s, is_flag, v) => {
                self.end_epoch();
                self.rev += 1;
                if let Some(m) = self.srcs.get_mut(*s) {
                    if *is_flag {
                        m.flag = *v
                    } else {
                        m.val = *v
                    }
                }
                format!("set {} {} {}", s, if *is_flag { "flag" } else { "val" }, v)
            }
            Op::Synth => {
                self.end_epoch();
                self.rev += 1;
                "synth".into()
            }
            Op::Evict => {
                self.end_epoch();
                "evict".into()
            }
            Op::LruCap(n) => {
                self.end_epoch();
                format!("lrucap {}", n)
            }
            Op::DropDb => {
                self.end_epoch();
                "drop-db".into()
            }
            Op::Bad => "frobnicate".into(),
        };
        self.lines.push(line);
    }
    fn any_get(&mut self, s: usize) -> Op {
        Op::Get(GETS[self.r.usize(GETS.len())].1, s)
    }
    fn item_get(&mut self, s: usize) -> Op {
        Op::Get(*self.r.pick(&[GetK::Payload, GetK::Describe, GetK::Plain, GetK::Sum, GetK::Build, GetK::Payload, GetK::Describe]), s)
    }
    fn peek(&mut self) -> Op {
        Op::Peek(PEEKS[self.r.usize(PEEKS.len())].1)
    }
    fn odd_flag(&mut self) -> u32 {
        *self.r.pick(&[1, 1, 1, 3, 5, 9, 13, 7])
    }
    fn even_flag(&mut self) -> u32 {
        *self.r.pick(&[0, 0, 0, 2, 4, 8, 12])
    }
    fn other(&mut self) -> Op {
        Op::Other(self.r.below(5) as u32, self.r.below(4) as u32)
    }
}

fn gen_case(g: &mut Gen, no: u64) {
    g.srcs.clear();
    g.rev = 0;
    g.free_slots = 0;
    g.push(Op::Case(no));
    let nsrc = 1 + g.r.usize(3);
    for _ in 0..nsrc {
        let f = if g.r.chance(3, 4) { g.odd_flag() } else { g.even_flag() };
        let v = g.r.below(20) as u32;
        g.push(Op::Src(f, v));
    }
    let segs = 2 + g.r.below(6);
    for _ in 0..segs {
        let s = g.r.usize(nsrc);
        match g.r.below(12) {
            // a struct of the previous revision is peeked before its creator stops creating it
            0..=2 => {
                if !g.srcs[s].has_item {
                    if g.srcs[s].flag % 2 == 0 {
                        let f = g.odd_flag();
                        g.push(Op::Set(s, true, f));
                    }
                    let o = g.item_get(s);
                    g.push(o);
                }
                let f = g.even_flag();
                g.push(Op::Set(s, true, f));
                if g.r.chance(1, 3) {
                    let o = g.any_get((s + 1) % nsrc);
                    g.push(o);
                }
                if g.r.chance(5, 6) {
                    let o = g.peek();
                    g.push(o);
                }
                let o = g.item_get(s);
                g.push(o);
                if g.r.chance(4, 5) {
                    let o = g.other();
                    g.push(o);
                }
                if g.r.chance(1, 2) {
                    let o = g.peek();
                    g.push(o);
                }
            }
            // ... or before its creator gives it another payload
            3..=4 => {
                let o = g.item_get(s);
                g.push(o);
                let v = g.r.below(20) as u32;
                g.push(Op::Set(s, false, v));
                let o = g.peek();
                g.push(o);
                let o = g.item_get(s);
                g.push(o);
                g.push(Op::Get(GetK::Describe, s));
            }
            // lru churn
            5 => {
                for t in 0..nsrc {
                    g.push(Op::Get(GetK::Lru, t));
                }
                let o = match g.r.below(3) {
                    0 => Op::Evict,
                    1 => Op::LruCap(g.r.usize(4)),
                    _ => Op::Set(s, false, g.r.below(20) as u32),
                };
                g.push(o);
                for t in 0..nsrc {
                    let k = *g.r.pick(&[GetK::Lru, GetK::Lru, GetK::Sum, GetK::Fix]);
                    g.push(Op::Get(k, t));
                }
                g.push(Op::Evict);
                g.push(Op::Get(GetK::Lru, s));
            }
            // the creator starts creating again: slots are recycled
            6 => {
                let f = g.odd_flag();
                g.push(Op::Set(s, true, f));
                let o = g.other();
                g.push(o);
                let o = g.item_get(s);
                g.push(o);
                let o = g.other();
                g.push(o);
            }
            // fixpoint pair
            7 => {
                let f = 4 | g.r.below(16) as u32;
                g.push(Op::Set(s, true, f));
                {
                    let o = Op::Get(*g.r.pick(&[GetK::Fix, GetK::Sum]), s);
                    g.push(o);
                }
                {
                    let o = Op::Set(s, false, g.r.below(20) as u32);
                    g.push(o);
                }
                if g.r.chance(1, 2) {
                    let o = g.peek();
                    g.push(o);
                }
                {
                    let o = Op::Get(*g.r.pick(&[GetK::Fix, GetK::Sum]), s);
                    g.push(o);
                }
            }
            // a user panic somewhere inside
            8 => {
                {
                    let o = Op::Inject(1 + g.r.below(6) as i64);
                    g.push(o);
                }
                let o = if g.r.chance(1, 3) { g.other() } else { g.any_get(s) };
                g.push(o);
                let o = g.any_get(s);
                g.push(o);
                g.push(Op::Inject(0));
            }
            // interned reclamation: several revisions pass, names change
            9 => {
                g.push(Op::Get(GetK::Name, s));
                for _ in 0..(1 + g.r.below(4)) {
                    if g.r.chance(1, 2) {
                        g.push(Op::Synth);
                    } else {
                        {
                            let o = Op::Set(s, false, g.r.below(20) as u32);
                            g.push(o);
                        }
                    }
                    let t = g.r.usize(nsrc);
                    {
                        let o = Op::Get(*g.r.pick(&[GetK::Name, GetK::Name, GetK::Sum]), t);
                        g.push(o);
                    }
                }
            }
            // unstructured
            _ => {
                for _ in 0..(2 + g.r.below(7)) {
                    let t = g.r.usize(nsrc);
                    let o = match g.r.below(16) {
                        0..=6 => g.any_get(t),
                        7..=8 => g.peek(),
                        9 => g.other(),
                        10 => Op::Set(t, true, g.r.below(16) as u32),
                        11 => Op::Set(t, false, g.r.below(20) as u32),
                        12 => Op::Synth,
                        13 => Op::Evict,
                        14 => Op::LruCap(g.r.usize(4)),
                        _ => Op::Set(t, true, g.srcs[t].flag ^ 1),
                    };
                    g.push(o);
                }
            }
        }
    }
    g.push(Op::DropDb);
}

fn main() {
    let args = Args::from_env();
    std::panic::set_hook(Box::new(|_| {}));
    let mode = args.0.first().cloned().unwrap_or_default();
    match mode.as_str() {
        "gen" => {
            let mut r = Rng::new(args.num("--seed", 1));
            let n = args.num("--cases", 100);
            let mut g = Gen { r: &mut r, lines: vec![], srcs: vec![], rev: 0, retained: 0, across_delete: false, across_reexec: false, free_slots: 0, gs: GenStats::default() };
            let mut seen = HashSet::new();
            let f = std::fs::File::create(args.get("--out").expect("--out")).unwrap();
            let mut w = std::io::BufWriter::new(f);
            for c in 0..n {
                g.lines.clear();
                gen_case(&mut g, c);
                seen.insert(g.lines[1..].join("\n"));
                for l in &g.lines {
                    writeln!(w, "{}", l).unwrap();
                }
            }
            let kinds: Vec<String> = g.gs.kinds.iter().map(|(k, v)| format!("{}:{}", k, v)).collect();
            println!(
                "GEN cases={} distinct={} ops={} epochs={} epochs_retaining={} epochs_retaining_across_deletion={} epochs_retaining_across_reexecution={} stale_peeks={} recycles_after_delete={} kinds={}",
                n,
                seen.len(),
                g.gs.kinds.values().sum::<u64>(),
                g.gs.epochs,
                g.gs.epochs_retaining,
                g.gs.epochs_across_delete,
                g.gs.epochs_across_reexec,
                g.gs.stale_peeks,
                g.gs.recycles_after_delete,
                kinds.join(",")
            );
        }
        "run" => {
            let text = std::fs::read_to_string(args.get("--ops").expect("--ops")).unwrap();
            let f = std::fs::File::create(args.get("--out").expect("--out")).unwrap();
            let mut w = std::io::BufWriter::new(f);
            let mut st = Stats::default();
            run(&text, &mut w, &mut st);
            w.flush().unwrap();
            let panics: Vec<String> = st.panics.iter().map(|(k, v)| format!("{}:{}", k, v)).collect();
            let kinds: Vec<String> = st.kinds.iter().map(|(k, v)| format!("{}:{}", k, v)).collect();
            println!(
                "LIFE-SUMMARY cases={} ops={} retained={} revalidations={} stale_peeks={} failures={} nontrivial_cases={} stale_entries={} inner_checks={} epochs_retaining={} across_execute={} across_discard={} across_cycle_iteration={} across_intern_reuse={} panics={} kinds={}",
                st.cases,
                st.ops,
                st.retained,
                st.revalidations,
                st.stale_peeks,
                st.failures,
                st.nontrivial_cases,
                st.stale_entries,
                st.inner_checks,
                st.epochs_retaining,
                st.epochs_across[0],
                st.epochs_across[1],
                st.epochs_across[2],
                st.epochs_across[3],
                if panics.is_empty() { "-".into() } else { panics.join(",") },
                kinds.join(",")
            );
            if st.failures > 0 {
                std::process::exit(1);
            }
        }
        _ => {
            eprintln!("usage: life gen --seed S --cases N --out F | life run --ops F --out G");
            std::process::exit(2);
        }
    }
}
