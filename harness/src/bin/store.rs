//! `vh store` — drives the real LRU eviction policy, the interner's `RevisionQueue` and a
//! constant-hash interned type, for the Lean drivers `svdriver lru|rq|intern`.
//!
//!   store gen --model lru|rq|intern --seed S --cases N --out ops.txt
//!   store run --model lru|rq|intern --ops ops.txt --out impl.txt
//!
//! The op files consist of independent cases separated by a reset line (`cap 0` after `reset` for
//! lru is not needed: every case starts with `new`/`reset`).
use salsa::plumbing::function::{EvictionPolicy, Lru};
use salsa::{Database, Durability};
use std::collections::HashMap;
use std::io::Write as _;
use std::sync::{Arc, Mutex};
use vh::{Args, Rng};

// ---------------------------------------------------------------------------------------------
// lru

fn run_lru(text: &str, out: &mut dyn std::io::Write) {
    let mut lru = Lru::new(0);
    for line in text.lines() {
        let p: Vec<&str> = line.split(' ').collect();
        let r = match p.as_slice() {
            ["reset"] => {
                lru = Lru::new(0);
                "ok".to_string()
            }
            ["cap", n] => match n.parse::<usize>() {
                Ok(n) => {
                    lru.set_capacity(n);
                    "ok".into()
                }
                Err(_) => "bad-op".into(),
            },
            ["use", id] => match id.parse::<u32>() {
                Ok(i) if i < 1 << 30 => {
                    // SAFETY: the index is far below `Id::MAX_U32`.
                    lru.record_use(unsafe { salsa::Id::from_index(i) });
                    "ok".into()
                }
                _ => "bad-op".into(),
            },
            ["evict"] => {
                let mut v = vec![];
                lru.for_each_evicted(|id| v.push(id.index().to_string()));
                if v.is_empty() { "-".into() } else { v.join(" ") }
            }
            _ => "bad-op".into(),
        };
        writeln!(out, "{}", r).unwrap();
    }
}

fn gen_lru(r: &mut Rng, cases: u64, out: &mut dyn std::io::Write) {
    for _ in 0..cases {
        writeln!(out, "cap 0").unwrap();
        writeln!(out, "cap {}", r.below(5)).unwrap();
        let ids = 2 + r.below(6);
        for _ in 0..(5 + r.below(40)) {
            match r.below(10) {
                0 => writeln!(out, "cap {}", r.below(5)).unwrap(),
                1 | 2 => writeln!(out, "evict").unwrap(),
                _ => writeln!(out, "use {}", r.below(ids)).unwrap(),
            }
        }
        writeln!(out, "evict").unwrap();
    }
    for l in ["cap", "use x", "evict 1", ""] {
        writeln!(out, "{}", l).unwrap();
    }
}

// ---------------------------------------------------------------------------------------------
// revision queue

fn run_rq(text: &str, out: &mut dyn std::io::Write) {
    use salsa::verif_hooks::interned::Rq;
    let mut q = Rq::new(Some(3));
    for line in text.lines() {
        let p: Vec<&str> = line.split(' ').collect();
        let r = match p.as_slice() {
            ["new", "max"] => {
                q = Rq::new(None);
                "ok".to_string()
            }
            ["new", n] => match n.parse::<usize>() {
                Ok(n) if n >= 1 && n < 64 => {
                    q = Rq::new(Some(n));
                    "ok".into()
                }
                _ => "bad-op".into(),
            },
            ["record", x] => match x.parse::<usize>() {
                Ok(x) if x >= 1 => {
                    if q.is_empty() {
                        // the real code would index an empty vector (callers guard this)
                        "panic:index".into()
                    } else {
                        q.record(x);
                        "ok".into()
                    }
                }
                _ => "bad-op".into(),
            },
            ["primed"] => (q.is_primed() as u8).to_string(),
            ["stale", x] => match x.parse::<usize>() {
                Ok(x) if x >= 1 => (q.is_stale(x) as u8).to_string(),
                _ => "bad-op".into(),
            },
            ["dump"] => {
                let d = q.dump();
                if d.is_empty() { "-".into() } else { d.iter().map(|x| x.to_string()).collect::<Vec<_>>().join(" ") }
            }
            _ => "bad-op".into(),
        };
        writeln!(out, "{}", r).unwrap();
    }
}

fn gen_rq(r: &mut Rng, cases: u64, out: &mut dyn std::io::Write) {
    for _ in 0..cases {
        if r.chance(1, 10) {
            writeln!(out, "new max").unwrap();
        } else {
            writeln!(out, "new {}", 1 + r.below(4)).unwrap();
        }
        let mut cur = 1;
        for _ in 0..(4 + r.below(25)) {
            match r.below(10) {
                0..=4 => {
                    // mostly non-decreasing, sometimes repeated or older
                    cur += [0, 0, 1, 1, 2, 5][r.usize(6)];
                    let x = if r.chance(1, 8) && cur > 1 { cur - 1 } else { cur };
                    writeln!(out, "record {}", x).unwrap();
                }
                5 => writeln!(out, "primed").unwrap(),
                6 | 7 => writeln!(out, "stale {}", 1 + r.below(cur as u64 + 2)).unwrap(),
                _ => writeln!(out, "dump").unwrap(),
            }
        }
    }
    for l in ["new 0", "record 0", "stale", "zz"] {
        writeln!(out, "{}", l).unwrap();
    }
}

// ---------------------------------------------------------------------------------------------
// interner (single shard: constant hash)

#[derive(PartialEq, Eq, Clone, Debug, salsa::SalsaValue)]
struct BadHash(u32);
impl std::hash::Hash for BadHash {
    fn hash<H: std::hash::Hasher>(&self, state: &mut H) {
        state.write_i16(0);
    }
}

#[salsa::input]
struct Din {
    #[returns(copy)]
    x: u32,
}

macro_rules! interned_family {
    ($S:ident, $q:ident, $revs:expr) => {
        #[salsa::interned(revisions = $revs)]
        struct $S<'db> {
            f: BadHash,
        }
        #[salsa::tracked(returns(copy))]
        fn $q(db: &dyn salsa::Database, d: Din) -> u64 {
            use salsa::plumbing::AsId;
            let s = $S::new(db, BadHash(d.x(db)));
            s.as_id().as_bits()
        }
    };
}
interned_family!(S1, q1, 1);
interned_family!(S2, q2, 2);
interned_family!(S3, q3, 3);
interned_family!(SM, qm, usize::MAX);

// natural-hash families (ordinary `u32` field): values spread over all shards, so a reclaimed slot
// usually gets a value with a DIFFERENT hash than its old occupant (the constant-hash families
// cannot see a mix-up of old and new hash). No Lean twin (shard choice is internal): oracle only.
macro_rules! natural_family {
    ($S:ident, $q:ident, $revs:expr) => {
        #[salsa::interned(revisions = $revs)]
        struct $S<'db> {
            f: u32,
        }
        #[salsa::tracked(returns(copy))]
        fn $q(db: &dyn salsa::Database, d: Din) -> u64 {
            use salsa::plumbing::AsId;
            let s = $S::new(db, d.x(db));
            s.as_id().as_bits()
        }
    };
}
natural_family!(N1, qn1, 1);
natural_family!(N2, qn2, 2);

#[salsa::db]
#[derive(Clone)]
struct Db {
    storage: salsa::Storage<Self>,
}
#[salsa::db]
impl salsa::Database for Db {}

const DURS: [Durability; 4] = [Durability::LOW, Durability::MEDIUM, Durability::HIGH, Durability::NEVER_CHANGE];

struct Intern {
    db: Db,
    events: Arc<Mutex<Vec<char>>>,
    family: u8,
    cur: usize,
    canon: HashMap<u32, usize>,
}

impl Intern {
    fn new(family: u8) -> Intern {
        let events = Arc::new(Mutex::new(vec![]));
        let e2 = events.clone();
        let storage = salsa::Storage::new(Some(Box::new(move |e: salsa::Event| {
            use salsa::EventKind::*;
            match e.kind {
                DidInternValue { .. } => e2.lock().unwrap().push('I'),
                DidReuseInternedValue { .. } => e2.lock().unwrap().push('R'),
                _ => {}
            }
        })));
        Intern { db: Db { storage }, events, family, cur: 1, canon: HashMap::new() }
    }

    fn intern(&mut self, dur: usize, inquery: bool, field: u32) -> String {
        use salsa::plumbing::AsId;
        self.events.lock().unwrap().clear();
        let fam = self.family;
        let res = std::panic::catch_unwind(std::panic::AssertUnwindSafe(|| {
            if inquery {
                let d = Din::builder(field).durability(DURS[dur]).new(&self.db);
                match fam {
                    1 => q1(&self.db, d),
                    2 => q2(&self.db, d),
                    3 => q3(&self.db, d),
                    11 => qn1(&self.db, d),
                    12 => qn2(&self.db, d),
                    _ => qm(&self.db, d),
                }
            } else {
                match fam {
                    1 => S1::new(&self.db, BadHash(field)).as_id().as_bits(),
                    2 => S2::new(&self.db, BadHash(field)).as_id().as_bits(),
                    3 => S3::new(&self.db, BadHash(field)).as_id().as_bits(),
                    11 => N1::new(&self.db, field).as_id().as_bits(),
                    12 => N2::new(&self.db, field).as_id().as_bits(),
                    _ => SM::new(&self.db, BadHash(field)).as_id().as_bits(),
                }
            }
        }));
        let bits = match res {
            Ok(b) => b,
            Err(_) => return "panic".into(),
        };
        let id = salsa::Id::from_bits(bits);
        let n = self.canon.len();
        let ord = *self.canon.entry(id.index()).or_insert(n);
        let ev = self.events.lock().unwrap().clone();
        let kind = if ev.contains(&'R') {
            "reuse"
        } else if ev.contains(&'I') {
            "new"
        } else {
            "hit"
        };
        format!("{} {} g{}", kind, ord, id.generation())
    }
}

fn run_intern(text: &str, out: &mut dyn std::io::Write) {
    let mut st = Intern::new(3);
    for line in text.lines() {
        let p: Vec<&str> = line.split(' ').collect();
        let r = match p.as_slice() {
            ["new", n] => {
                let fam = match *n {
                    "1" => 1,
                    "2" => 2,
                    "3" => 3,
                    "n1" => 11,
                    "n2" => 12,
                    "max" => 0,
                    _ => 99,
                };
                if fam == 99 {
                    "bad-op".to_string()
                } else {
                    st = Intern::new(fam);
                    "ok".into()
                }
            }
            ["rev", c] => match c.parse::<usize>() {
                Ok(c) if c >= st.cur && c < st.cur + 64 => {
                    while st.cur < c {
                        st.db.synthetic_write(Durability::LOW);
                        st.cur += 1;
                    }
                    "ok".into()
                }
                _ => "bad-op".into(),
            },
            ["intern", d, q, f] => match (d.parse::<usize>(), *q, f.parse::<u32>()) {
                (Ok(d), "0" | "1", Ok(f)) if d < 4 => st.intern(d, *q == "1", f),
                _ => "bad-op".into(),
            },
            _ => "bad-op".into(),
        };
        writeln!(out, "{}", r).unwrap();
    }
}

fn gen_intern(r: &mut Rng, cases: u64, out: &mut dyn std::io::Write) {
    for _ in 0..cases {
        writeln!(out, "new {}", ["1", "1", "2", "2", "3", "max"][r.usize(6)]).unwrap();
        let mut cur = 1;
        let vals = 2 + r.below(5);
        for _ in 0..(6 + r.below(40)) {
            match r.below(10) {
                0..=2 => {
                    // bursts of revisions without interning are common
                    cur += 1 + if r.chance(1, 4) { r.below(3) as usize } else { 0 };
                    writeln!(out, "rev {}", cur).unwrap();
                }
                _ => {
                    let d = if r.chance(3, 4) { 0 } else { r.below(4) };
                    let q = if r.chance(9, 10) { 1 } else { 0 };
                    writeln!(out, "intern {} {} {}", d, q, r.below(vals)).unwrap();
                }
            }
        }
    }
    for l in ["intern 9 1 0", "rev x", "new x", "q"] {
        writeln!(out, "{}", l).unwrap();
    }
}

/// natural-hash families: many distinct values per revision so that every shard fills up and
/// reclaims slots for values whose hash differs from the old occupant's; recently interned values
/// are asked again (canonicity: same value, same handle) right after a reclamation wave
fn gen_intern_nat(r: &mut Rng, cases: u64, out: &mut dyn std::io::Write) {
    for _ in 0..cases {
        writeln!(out, "new {}", ["n1", "n1", "n2"][r.usize(3)]).unwrap();
        let mut cur = 1;
        let pool = 200 + r.below(600);
        let mut recent: Vec<u64> = vec![];
        for _ in 0..(4 + r.below(5)) {
            let batch = 40 + r.below(160);
            let mut this: Vec<u64> = vec![];
            for _ in 0..batch {
                let f = if !recent.is_empty() && r.chance(1, 5) { recent[r.usize(recent.len())] } else { r.below(pool) };
                let d = if r.chance(15, 16) { 0 } else { r.below(4) };
                let q = if r.chance(19, 20) { 1 } else { 0 };
                writeln!(out, "intern {} {} {}", d, q, f).unwrap();
                this.push(f);
                // ask a value of this revision again at once
                if r.chance(1, 6) {
                    let g = this[r.usize(this.len())];
                    writeln!(out, "intern 0 1 {}", g).unwrap();
                }
            }
            recent = this;
            cur += 1 + if r.chance(1, 3) { r.below(3) as usize } else { 0 };
            writeln!(out, "rev {}", cur).unwrap();
        }
    }
}

fn main() {
    let args = Args::from_env();
    std::panic::set_hook(Box::new(|_| {}));
    let mode = args.0.first().cloned().unwrap_or_default();
    let model = args.get("--model").unwrap_or("lru").to_string();
    match mode.as_str() {
        "gen" => {
            let f = std::fs::File::create(args.get("--out").expect("--out")).unwrap();
            let mut w = std::io::BufWriter::new(f);
            let mut r = Rng::new(args.num("--seed", 1));
            let n = args.num("--cases", 100);
            match model.as_str() {
                "lru" => gen_lru(&mut r, n, &mut w),
                "rq" => gen_rq(&mut r, n, &mut w),
                "intern" => gen_intern(&mut r, n, &mut w),
                "internnat" => gen_intern_nat(&mut r, n, &mut w),
                _ => std::process::exit(2),
            }
        }
        "run" => {
            let text = std::fs::read_to_string(args.get("--ops").expect("--ops")).unwrap();
            let f = std::fs::File::create(args.get("--out").expect("--out")).unwrap();
            let mut w = std::io::BufWriter::new(f);
            match model.as_str() {
                "lru" => run_lru(&text, &mut w),
                "rq" => run_rq(&text, &mut w),
                "intern" | "internnat" => run_intern(&text, &mut w),
                _ => std::process::exit(2),
            }
        }
        _ => {
            eprintln!("usage: store gen|run --model lru|rq|intern ...");
            std::process::exit(2);
        }
    }
}
