//! `vh conc` — concurrency scenarios over the program family of `vh::conc_prog`.
//!
//!   conc <scenario> --mode shuttle|threads --seed S --cases N
//!        [--replay FILE] [--replay-dir DIR] [--trace-out DIR] [--timeout-ms T] [--schedules K] [--reps R]
//!        [--wide-schedules K] [--gen V]
//!
//! Scenarios: c16 c17 c18 c19 c24 c08 (both modes), c14 c19p c20 c21 c22 (`threads` only, DESIGN §2.5a).
//! The mode is fixed by the build: `--features shuttle` ⇒ `shuttle`, otherwise `threads`.
//!
//! Output:
//!   CONC scenario=… mode=… cases=… distinct_nontrivial=… blocked_events=… transfers=… failures=…
//!   CONC-FAIL kind=oracle|deadlock|model|invariant case=<n> seed=<s> replay=<path> <summary>
//!
//! `kind=oracle` is implementation ≠ oracle (a property violation), `kind=model` / `invariant` is
//! implementation ≠ model (the trace replay through `vh::dg_model` or the cancel/alloc acceptance
//! broke), `kind=deadlock` is shuttle's detector / step bound or the wall-clock watchdog.

use std::collections::{BTreeMap, HashMap, HashSet};
use std::sync::atomic::{AtomicBool, Ordering};
use std::sync::{Arc, Mutex};

use salsa::plumbing::{AsId, FromId};
use salsa::verif_hooks::trace;
use vh::conc_prog::*;
use vh::{Args, Rng, cthread, dg_model};

#[cfg(feature = "shuttle")]
const MODE: &str = "shuttle";
#[cfg(not(feature = "shuttle"))]
const MODE: &str = "threads";

// ------------------------------------------------------------------------------------------------
// cases
// ------------------------------------------------------------------------------------------------

#[derive(Clone, Debug)]
enum Write {
    Set(usize, u8),
    Synthetic,
    Lru(usize),
}

#[derive(Clone, Debug)]
struct Round {
    /// writes applied (single-threaded) before the round; for `c20`: the writer's action, applied
    /// concurrently with the readers of the round
    writes: Vec<Write>,
    plans: Vec<Vec<usize>>,
    /// `c20`: spin iterations before the writer acts
    delay: u32,
}

#[derive(Clone, Debug)]
enum AOp {
    NewIn(u8),
    Mk(usize),
    SymA(u8),
    SymB(u16, u8),
    Rehandle,
}

#[derive(Clone, Debug)]
enum Spec {
    /// c16 c17 c18 c19: reader rounds with single-threaded writes in between
    Readers { rounds: Vec<Round>, count_execs: bool },
    /// c14: cycle through functions without recovery; afterwards `ins[0]` is made even
    NoRecovery { plans: Vec<Vec<usize>> },
    /// c20
    Writer { rounds: Vec<Round> },
    /// c21: `victim` = index of the thread whose handle is cancelled
    LocalCancel { plans: Vec<Vec<usize>>, victim: usize, self_cancel: Option<usize>, delay: u32 },
    /// c22
    Panic { plans: Vec<Vec<usize>>, node: usize, at_exit: bool },
    /// c19p (also part of c22): thread A (request `a_req`) executes `inner` below a fixpoint
    /// (variant 1), thread B (request `b_req`) blocks on `inner`; then A's token is cancelled
    /// (variants 1, 2) and `inner` panics on A (variants 0, 1).
    /// variant 0 = control (no cancel), 1 = cancel deferred inside a fixpoint + panic,
    /// 2 = cancel outside of any fixpoint, no panic (A unwinds with Local, B retries).
    PanicDeferred { variant: u8, a_req: usize, b_req: usize, inner: usize, at_exit: bool, once: bool },
    /// c24 / c08
    Alloc { ops: Vec<Vec<AOp>> },
}

struct Case {
    scenario: String,
    index: usize,
    case_seed: u64,
    prog: Program,
    ins0: Vec<u8>,
    spec: Spec,
}

impl Case {
    /// A cyclic reader case with four or more threads (generator version 2, `CycFlavor::Wide`);
    /// these get several schedules (shuttle) / repetitions (threads) per case, see `wide_schedules`.
    fn is_wide(&self) -> bool {
        matches!(&self.spec, Spec::Readers { rounds, count_execs: false } if rounds.iter().any(|r| r.plans.len() >= 4))
    }

    fn describe(&self) -> String {
        let mut o = String::new();
        o.push_str("--- program\n");
        o.push_str(&self.prog.to_text());
        o.push_str(&format!(
            "--- inputs\n{}\n--- spec\n",
            self.ins0.iter().map(|v| v.to_string()).collect::<Vec<_>>().join(" ")
        ));
        let plans = |o: &mut String, plans: &[Vec<usize>]| {
            for (i, p) in plans.iter().enumerate() {
                o.push_str(&format!(
                    "thread {i}: {}\n",
                    p.iter().map(|n| n.to_string()).collect::<Vec<_>>().join(" ")
                ));
            }
        };
        match &self.spec {
            Spec::Readers { rounds, .. } | Spec::Writer { rounds } => {
                for (r, round) in rounds.iter().enumerate() {
                    o.push_str(&format!("round {r} writes={:?} delay={}\n", round.writes, round.delay));
                    plans(&mut o, &round.plans);
                }
            }
            Spec::NoRecovery { plans: p } => plans(&mut o, p),
            Spec::LocalCancel { plans: p, victim, self_cancel, delay } => {
                o.push_str(&format!("victim={victim} self_cancel={self_cancel:?} delay={delay}\n"));
                plans(&mut o, p)
            }
            Spec::Panic { plans: p, node, at_exit } => {
                o.push_str(&format!("panic node={node} at_exit={at_exit}\n"));
                plans(&mut o, p)
            }
            Spec::PanicDeferred { variant, a_req, b_req, inner, at_exit, once } => {
                o.push_str(&format!(
                    "c19p variant={variant} (0 control, 1 deferred cancel + panic, 2 cancel outside fixpoint) inner={inner} at_exit={at_exit} once={once}\nthread A: {a_req}\nthread B: {b_req}\n"
                ));
            }
            Spec::Alloc { ops } => {
                for (i, l) in ops.iter().enumerate() {
                    o.push_str(&format!("thread {i}: {l:?}\n"));
                }
            }
        }
        o
    }
}

fn case_seed(seed: u64, index: usize) -> u64 {
    Rng::new(seed ^ (index as u64 + 1).wrapping_mul(0xD6E8_FEB8_6659_FD93)).next()
}

fn gen_inputs(rng: &mut Rng, n: usize) -> Vec<u8> {
    (0..n).map(|_| rng.below(256) as u8).collect()
}

fn plans_acyclic(rng: &mut Rng, prog: &Program, min_len: usize, max_len: usize) -> Vec<Vec<usize>> {
    plans_acyclic_t(rng, prog, 4, min_len, max_len)
}

/// 2..=`max_threads` threads
fn plans_acyclic_t(rng: &mut Rng, prog: &Program, max_threads: usize, min_len: usize, max_len: usize) -> Vec<Vec<usize>> {
    let n = prog.nodes.len();
    let t = 2 + rng.usize(max_threads - 1);
    (0..t)
        .map(|_| {
            let len = min_len + rng.usize(max_len - min_len + 1);
            (0..len)
                .map(|_| if rng.chance(2, 3) { n - 1 - rng.usize(n / 2 + 1) } else { rng.usize(n) })
                .collect()
        })
        .collect()
}

fn plans_cyclic(rng: &mut Rng, prog: &Program, ins: &[u8], max_threads: usize, max_len: usize) -> Vec<Vec<usize>> {
    let t = 2 + rng.usize(max_threads - 1);
    plans_cyclic_n(rng, prog, ins, t, max_len)
}

/// `t` threads, each entering the cycle at a different member (as far as there are members).
fn plans_cyclic_n(rng: &mut Rng, prog: &Program, ins: &[u8], t: usize, max_len: usize) -> Vec<Vec<usize>> {
    let n = prog.nodes.len();
    let mut members = cyclic_nodes(prog, ins);
    if members.is_empty() {
        members = (0..n).collect();
    }
    let start = rng.usize(members.len());
    (0..t)
        .map(|i| {
            let len = 1 + rng.usize(max_len);
            (0..len)
                .map(|j| {
                    if j == 0 {
                        // enter the cycle at different members
                        members[(start + i) % members.len()]
                    } else if rng.chance(1, 2) {
                        *rng.pick(&members)
                    } else {
                        n - 1 - rng.usize(n / 2 + 1)
                    }
                })
                .collect()
        })
        .collect()
}

fn gen_writes(rng: &mut Rng, n_inputs: usize, allow_lru: bool) -> Vec<Write> {
    let k = 1 + rng.usize(2);
    (0..k)
        .map(|_| match rng.below(10) {
            0 => Write::Synthetic,
            1 if allow_lru => Write::Lru(rng.usize(5)),
            _ => Write::Set(rng.usize(n_inputs), rng.below(256) as u8),
        })
        .collect()
}

/// c19p: `leaf`(0) ← `inner`(1) ← F(2) [↔ G(3)] ← `top`(4); `W`(5) is B's private wrapper of `inner`.
/// F calls `inner` FIRST, so that a panic in `inner` happens before F becomes a cycle head.
fn gen_c19p(rng: &mut Rng) -> (Program, Vec<u8>, Spec) {
    let variant = rng.below(3) as u8;
    let b = |e: Expr| Box::new(e);
    let fix_kind = if rng.chance(1, 2) { Kind::Fix } else { Kind::Fix2 };
    let f_kind = match variant {
        0 => {
            if rng.chance(1, 2) {
                fix_kind
            } else {
                Kind::Plain
            }
        }
        1 => fix_kind,
        _ => Kind::Plain,
    };
    let real_cycle = f_kind.is_fix() && rng.chance(1, 2);
    let k = |rng: &mut Rng| Expr::Const(1u8 << rng.usize(8));
    let leaf = if rng.chance(1, 2) { Expr::In(0) } else { Expr::Or(b(Expr::In(0)), b(Expr::In(1))) };
    let inner = if rng.chance(1, 2) {
        Expr::Xor(b(Expr::Call(0)), b(Expr::In(1)))
    } else {
        Expr::Add(b(Expr::Call(0)), b(k(rng)))
    };
    let f = if real_cycle {
        Expr::Or(b(Expr::Call(1)), b(Expr::Call(3)))
    } else if f_kind.is_fix() {
        Expr::Or(b(Expr::Call(1)), b(k(rng)))
    } else {
        Expr::Xor(b(Expr::Call(1)), b(k(rng)))
    };
    let g = if real_cycle { Expr::Or(b(Expr::Call(2)), b(k(rng))) } else { Expr::In(0) };
    let nodes = vec![
        Node { kind: Kind::Plain, body: leaf },
        Node { kind: Kind::Plain, body: inner },
        Node { kind: f_kind, body: f },
        Node { kind: if real_cycle { fix_kind } else { Kind::Plain }, body: g },
        Node { kind: Kind::Plain, body: Expr::Add(b(Expr::Call(2)), b(Expr::In(0))) },
        Node { kind: Kind::Plain, body: Expr::Xor(b(Expr::Call(1)), b(Expr::Const(9))) },
    ];
    let prog = Program { n_inputs: 2, nodes };
    let ins0 = gen_inputs(rng, 2);
    let a_req = if rng.chance(1, 2) { 2 } else { 4 };
    let b_req = if rng.chance(1, 2) { 1 } else { 5 };
    let spec = Spec::PanicDeferred { variant, a_req, b_req, inner: 1, at_exit: rng.chance(1, 2), once: rng.chance(1, 2) };
    (prog, ins0, spec)
}

fn gen_case(scenario: &str, index: usize, seed: u64) -> Case {
    let mut rng = Rng::new(seed);
    let rng = &mut rng;
    let (prog, ins0, spec);
    match scenario {
        "c16" => {
            prog = gen_acyclic(rng, true);
            ins0 = gen_inputs(rng, prog.n_inputs);
            let plans = plans_acyclic_t(rng, &prog, wide_acyclic_threads(), 2, 5);
            spec = Spec::Readers { rounds: vec![Round { writes: vec![], plans, delay: 0 }], count_execs: true };
        }
        "c17" => {
            prog = gen_acyclic(rng, true);
            ins0 = gen_inputs(rng, prog.n_inputs);
            let n_rounds = 2 + rng.usize(3);
            let rounds = (0..n_rounds)
                .map(|r| Round {
                    writes: if r == 0 { vec![] } else { gen_writes(rng, prog.n_inputs, true) },
                    plans: plans_acyclic_t(rng, &prog, wide_acyclic_threads(), 2, 5),
                    delay: 0,
                })
                .collect();
            spec = Spec::Readers { rounds, count_execs: true };
        }
        "c18" | "c19" => {
            let cyclic = scenario == "c18" || rng.chance(1, 2);
            if cyclic {
                // KNOWN FINDING (C13, /verif/corpus/C13/fallback_differs_after_new_revision.prog):
                // single-threaded, a `cycle_result` function re-executed in a later revision
                // against verified memos of the rest of its cycle returns its computed value
                // instead of the fallback. Fallback components are therefore only generated for
                // single-revision cases (unless `--fb-across-revisions`).
                // generator version 2: half of the cases are WIDE — one large fixpoint component
                // entered by 5-6 threads, a single round, short request lists (the generated
                // 2-3 thread cases cannot reach histories that need a fourth thread)
                let wide = gen_version() >= 2 && rng.chance(1, 2);
                let n_rounds = if !wide && rng.chance(3, 10) { 2 } else { 1 };
                let flavor = if wide {
                    CycFlavor::Wide
                } else {
                    match rng.below(3) {
                        0 => CycFlavor::Fix,
                        _ if n_rounds > 1 && !fb_across_revisions() => CycFlavor::Fix,
                        1 => CycFlavor::Fb,
                        _ => CycFlavor::Mixed,
                    }
                };
                prog = gen_cyclic(rng, flavor);
                ins0 = gen_inputs(rng, prog.n_inputs);
                let mut ins = ins0.clone();
                let mut rounds = Vec::new();
                for r in 0..n_rounds {
                    let writes = if r == 0 { vec![] } else { gen_writes(rng, prog.n_inputs, false) };
                    for w in &writes {
                        if let Write::Set(i, v) = w {
                            ins[*i] = *v;
                        }
                    }
                    let plans = if wide {
                        let t = 5 + rng.usize(2);
                        plans_cyclic_n(rng, &prog, &ins, t, 2)
                    } else {
                        plans_cyclic(rng, &prog, &ins, 3, 3)
                    };
                    rounds.push(Round { writes, plans, delay: 0 });
                }
                spec = Spec::Readers { rounds, count_execs: false };
            } else {
                prog = gen_acyclic(rng, true);
                ins0 = gen_inputs(rng, prog.n_inputs);
                let plans = plans_acyclic_t(rng, &prog, wide_acyclic_threads(), 2, 5);
                spec = Spec::Readers { rounds: vec![Round { writes: vec![], plans, delay: 0 }], count_execs: true };
            }
        }
        "c14" => {
            prog = gen_cyclic(rng, CycFlavor::NoRecovery);
            let mut ins = gen_inputs(rng, prog.n_inputs);
            ins[0] |= 1;
            ins0 = ins;
            let plans = plans_cyclic(rng, &prog, &ins0, 2, 2);
            spec = Spec::NoRecovery { plans };
        }
        "c20" => {
            let cyclic = rng.chance(1, 2);
            // every round ends with a write: fixpoint components only (see the C13 finding above)
            let flavor = if fb_across_revisions() { CycFlavor::Mixed } else { CycFlavor::Fix };
            prog = if cyclic { gen_cyclic(rng, flavor) } else { gen_acyclic(rng, true) };
            ins0 = gen_inputs(rng, prog.n_inputs);
            let n_rounds = 1 + rng.usize(3);
            let mut ins = ins0.clone();
            let mut rounds = Vec::new();
            for _ in 0..n_rounds {
                let plans = if cyclic {
                    let mut p = plans_cyclic(rng, &prog, &ins, 3, 6);
                    for l in &mut p {
                        let extra = l.clone();
                        l.extend(extra);
                    }
                    p
                } else {
                    plans_acyclic(rng, &prog, 4, 10)
                };
                let mut writes = gen_writes(rng, prog.n_inputs, !cyclic);
                writes.truncate(1);
                if let Write::Set(i, v) = &writes[0] {
                    ins[*i] = *v;
                }
                let delay = match rng.below(4) {
                    0 => 0,
                    1 => rng.below(200) as u32,
                    2 => rng.below(5_000) as u32,
                    _ => rng.below(60_000) as u32,
                };
                rounds.push(Round { writes, plans, delay });
            }
            spec = Spec::Writer { rounds };
        }
        "c21" => {
            let cyclic = rng.chance(1, 2);
            prog = if cyclic {
                let flavor = if rng.chance(1, 2) { CycFlavor::Fix } else { CycFlavor::Mixed };
                gen_cyclic(rng, flavor)
            } else {
                gen_acyclic(rng, false)
            };
            ins0 = gen_inputs(rng, prog.n_inputs);
            let plans = if cyclic { plans_cyclic(rng, &prog, &ins0, 3, 4) } else { plans_acyclic(rng, &prog, 2, 5) };
            let self_cancel = if rng.chance(1, 2) {
                // a node the victim certainly reaches
                let r = prog.reach(&ins0);
                let reachable: Vec<usize> =
                    (0..prog.nodes.len()).filter(|&m| plans[0].iter().any(|&q| r[q][m])).collect();
                Some(*rng.pick(&reachable))
            } else {
                None
            };
            let delay = match rng.below(3) {
                0 => 0,
                1 => rng.below(500) as u32,
                _ => rng.below(20_000) as u32,
            };
            spec = Spec::LocalCancel { plans, victim: 0, self_cancel, delay };
        }
        "c19p" => {
            (prog, ins0, spec) = gen_c19p(rng);
        }
        "c22" if rng.chance(1, 4) => {
            (prog, ins0, spec) = gen_c19p(rng);
        }
        "c22" => {
            let cyclic = rng.chance(3, 10);
            prog = if cyclic { gen_cyclic(rng, CycFlavor::Fix) } else { gen_acyclic(rng, false) };
            ins0 = gen_inputs(rng, prog.n_inputs);
            let mut plans =
                if cyclic { plans_cyclic(rng, &prog, &ins0, 3, 3) } else { plans_acyclic(rng, &prog, 1, 3) };
            // a node that thread 0 reaches; thread 1 gets a request that reaches it too
            let r = prog.reach(&ins0);
            let reachable: Vec<usize> = (0..prog.nodes.len()).filter(|&m| r[plans[0][0]][m]).collect();
            let node = *rng.pick(&reachable);
            let above: Vec<usize> = (0..prog.nodes.len()).filter(|&q| r[q][node]).collect();
            plans[1][0] = *rng.pick(&above);
            spec = Spec::Panic { plans, node, at_exit: rng.chance(2, 3) };
        }
        "c24" | "c08" => {
            let n = 8 + rng.usize(6);
            let nodes = (0..n)
                .map(|i| {
                    let mut body = Expr::Or(Box::new(Expr::In(0)), Box::new(Expr::Const(i as u8)));
                    if i > 0 && rng.chance(1, 4) {
                        body = Expr::Xor(Box::new(body), Box::new(Expr::Call(rng.usize(i))));
                    }
                    if rng.chance(1, 4) {
                        body = Expr::Intern(Box::new(body));
                    }
                    Node { kind: Kind::Mk, body }
                })
                .collect();
            prog = Program { n_inputs: 1, nodes };
            ins0 = gen_inputs(rng, 1);
            let t = 2 + rng.usize(3);
            let intern_heavy = scenario == "c08";
            let ops = (0..t)
                .map(|ti| {
                    let len = 6 + rng.usize(14);
                    (0..len)
                        .map(|_| match rng.below(if intern_heavy { 16 } else { 10 }) {
                            0..=2 => AOp::NewIn(rng.below(256) as u8),
                            3..=4 => {
                                // distinct keys per thread
                                let mine: Vec<usize> = (0..n).filter(|i| i % t == ti).collect();
                                AOp::Mk(*rng.pick(&mine))
                            }
                            5 => AOp::Rehandle,
                            6 | 10..=12 => AOp::SymA(rng.below(6) as u8),
                            _ => AOp::SymB(rng.below(3) as u16, rng.below(3) as u8),
                        })
                        .collect()
                })
                .collect();
            spec = Spec::Alloc { ops };
        }
        other => {
            eprintln!("unknown scenario {other}");
            std::process::exit(2);
        }
    }
    Case { scenario: scenario.to_string(), index, case_seed: seed, prog, ins0, spec }
}

// ------------------------------------------------------------------------------------------------
// execution
// ------------------------------------------------------------------------------------------------

#[derive(Clone, Debug)]
struct Failure {
    kind: &'static str,
    summary: String,
}

#[derive(Default, Clone)]
struct Outcome {
    failures: Vec<Failure>,
    trace: Vec<String>,
    log: Vec<String>,
    /// benign observations worth counting (e.g. PropagatedPanic caused by a PendingWrite unwind)
    notes: BTreeMap<&'static str, usize>,
}

impl Outcome {
    fn fail(&mut self, kind: &'static str, summary: String) {
        if self.failures.len() < 20 {
            self.failures.push(Failure { kind, summary });
        }
    }
    fn note(&mut self, what: &'static str) {
        *self.notes.entry(what).or_default() += 1;
    }
}

#[cfg(not(feature = "shuttle"))]
type StartBarrier = Arc<std::sync::Barrier>;
#[cfg(feature = "shuttle")]
type StartBarrier = ();

#[cfg(not(feature = "shuttle"))]
fn barrier(n: usize) -> StartBarrier {
    Arc::new(std::sync::Barrier::new(n))
}
#[cfg(feature = "shuttle")]
fn barrier(_n: usize) -> StartBarrier {}

#[cfg(not(feature = "shuttle"))]
fn wait(b: &StartBarrier) {
    b.wait();
}
#[cfg(feature = "shuttle")]
fn wait(_b: &StartBarrier) {}

fn spin(n: u32) {
    for _ in 0..n {
        std::hint::spin_loop();
    }
}

/// Runs every plan on its own clone of `db`, concurrently; `stop_on` ends a thread's list early.
fn run_plans(db: &Db, plans: &[Vec<usize>], extra_parties: usize, stop_on: fn(&Res) -> bool) -> (Vec<cthread::JoinHandle<(Vec<Res>, bool)>>, StartBarrier) {
    let b = barrier(plans.len() + extra_parties);
    let handles = plans
        .iter()
        .enumerate()
        .map(|(i, reqs)| {
            let h = db.clone();
            let reqs = reqs.clone();
            #[allow(clippy::let_unit_value)]
            let b = b.clone();
            cthread::spawn(move || {
                trace::note(&format!("thread {i} handle {} h{}", h.hid, h.trace_handle()));
                wait(&b);
                let mut out = Vec::new();
                for &n in &reqs {
                    let r = request(&h, n);
                    let stop = stop_on(&r);
                    out.push(r);
                    if stop {
                        break;
                    }
                }
                let unwound = h.unwound_cycle_frame.load(Ordering::Relaxed);
                drop(h);
                (out, unwound)
            })
        })
        .collect();
    (handles, b)
}

fn join_all(handles: Vec<cthread::JoinHandle<(Vec<Res>, bool)>>) -> Vec<(Vec<Res>, bool)> {
    handles
        .into_iter()
        .map(|h| h.join().unwrap_or_else(|_| (vec![Res::Other("harness thread panicked".into())], false)))
        .collect()
}

fn never(_: &Res) -> bool {
    false
}

fn fmt_out(o: Out) -> String {
    match o {
        Out::Val(v) => v.to_string(),
        Out::Cycle => "panic:cycle".into(),
    }
}

fn log_results(out: &mut Outcome, tag: &str, plans: &[Vec<usize>], results: &[(Vec<Res>, bool)]) {
    for (i, (rs, _)) in results.iter().enumerate() {
        let l: Vec<String> =
            rs.iter().zip(&plans[i]).map(|(r, n)| format!("{n}={}", r.show())).collect();
        out.log.push(format!("{tag} thread {i}: {}", l.join(" ")));
    }
}

fn apply_write(db: &mut Db, ins: &mut [u8], w: &Write) {
    match w {
        Write::Set(i, v) => {
            db.set_input(*i, *v);
            ins[*i] = *v;
        }
        Write::Synthetic => salsa::Database::synthetic_write(db, salsa::Durability::LOW),
        Write::Lru(cap) => db.set_lru(*cap),
    }
}

/// Single-threaded: every node must agree exactly with the oracle.
fn check_all_sequential(db: &Db, want: &[Out], tag: &str, out: &mut Outcome) {
    for (n, w) in want.iter().enumerate() {
        let r = request(db, n);
        if !agrees(&r, *w) {
            out.fail("oracle", format!("{tag}: node {n} = {} want {}", r.show(), fmt_out(*w)));
        }
    }
}

fn drain_violations(db: &Db, out: &mut Outcome) {
    for v in db.st.violations.lock().unwrap().drain(..) {
        out.fail("oracle", v);
    }
}

/// Interned values: equal fields ⇒ equal ids, unequal ⇒ distinct (C08); struct ids pairwise
/// distinct per type (C24).
fn check_created(db: &Db, out: &mut Outcome, readback: bool) {
    let created = db.st.created.lock().unwrap().clone();
    let mut by_ty: BTreeMap<&'static str, Vec<&Created>> = BTreeMap::new();
    for c in &created {
        by_ty.entry(c.ty).or_default().push(c);
    }
    for (ty, l) in &by_ty {
        let interned = ty.starts_with("sym");
        let mut by_id: HashMap<salsa::Id, (u32, u32)> = HashMap::new();
        let mut by_fields: HashMap<(u32, u32), salsa::Id> = HashMap::new();
        for c in l {
            if let Some(f) = by_id.insert(c.id, c.fields) {
                if !interned {
                    out.fail("oracle", format!("{ty}: id {:?} handed out twice", c.id));
                } else if f != c.fields {
                    out.fail("oracle", format!("{ty}: id {:?} for {:?} and {:?}", c.id, f, c.fields));
                }
            }
            if interned {
                if let Some(id) = by_fields.insert(c.fields, c.id) {
                    if id != c.id {
                        out.fail("oracle", format!("{ty}: value {:?} interned as {:?} and {:?}", c.fields, id, c.id));
                    }
                }
            }
        }
        let mut idx: HashSet<u32> = HashSet::new();
        for id in by_id.keys() {
            if !idx.insert(id.index()) {
                out.fail("oracle", format!("{ty}: two ids share slot index {}", id.index()));
            }
        }
        if readback {
            for (id, f) in &by_id {
                let got = match *ty {
                    "in" => (In::from_id(*id).v(db) as u32, 0),
                    "ts" => (Ts::from_id(*id).k(db), Ts::from_id(*id).v(db) as u32),
                    "ts2" => (Ts2::from_id(*id).a(db), Ts2::from_id(*id).b(db) as u32),
                    "syma" => (SymA::from_id(*id).v(db) as u32, 0),
                    "symb" => (SymB::from_id(*id).a(db) as u32, SymB::from_id(*id).b(db) as u32),
                    _ => *f,
                };
                if got != *f {
                    out.fail("oracle", format!("{ty}: id {id:?} reads back {got:?}, created with {f:?}"));
                }
            }
        }
    }
}

#[cfg(feature = "shuttle")]
fn exec_c19p(_: &Case, _: &Db, _: &[u8], _: (u8, usize, usize, usize, bool, bool), out: &mut Outcome) {
    out.fail("oracle", "c19p unwinds past salsa locks: --mode threads only".into());
}

/// c19p, see [`Spec::PanicDeferred`].
#[cfg(not(feature = "shuttle"))]
fn exec_c19p(
    case: &Case,
    db: &Db,
    ins: &[u8],
    (variant, a_req, b_req, inner, at_exit, once): (u8, usize, usize, usize, bool, bool),
    out: &mut Outcome,
) {
    let want = oracle(&case.prog, ins);
    let st = db.st.clone();
    let tt = std::time::Instant::now();
    let timing = std::env::var("CONC_TIMING").is_ok();
    let lap = |what: &str| {
        if timing {
            eprintln!("  {what}: {} us", tt.elapsed().as_micros());
        }
    };
    // the scenario is fully orchestrated (gate, WillBlockOn): schedule perturbation only adds
    // latency to every hand-over between the three threads
    trace::set_yield_seed(0);
    st.spin.store(0, Ordering::Relaxed);
    let (a, b) = (db.clone(), db.clone());
    let token = salsa::Database::cancellation_token(&a);
    let a_handle = a.trace_handle();
    st.gate_hid.store(a.hid, Ordering::SeqCst);
    st.gate_node.store(inner + 1, Ordering::SeqCst);
    st.panic_once.store(once, Ordering::SeqCst);
    st.panic_at_exit.store(at_exit, Ordering::SeqCst);
    st.counters.execs.lock().unwrap().clear();
    let bar = Arc::new(std::sync::Barrier::new(3));
    let spawn = |h: Db, req: usize, name: &'static str| {
        let bar = bar.clone();
        std::thread::spawn(move || {
            trace::note(&format!("thread {name} handle {} h{}", h.hid, h.trace_handle()));
            let r1 = request(&h, req);
            bar.wait();
            bar.wait();
            let r2 = request(&h, req);
            (r1, r2, h.unwound_cycle_frame.load(Ordering::Relaxed))
        })
    };
    let wait_until = |what: &str, cond: &dyn Fn() -> bool, out: &mut Outcome| {
        let t0 = std::time::Instant::now();
        while !cond() {
            if t0.elapsed() > std::time::Duration::from_secs(4) {
                out.fail("oracle", format!("harness: {what} did not happen"));
                return;
            }
            std::thread::sleep(std::time::Duration::from_micros(100));
        }
    };
    let ta = spawn(a, a_req, "A");
    wait_until("A entering `inner`", &|| st.gate_reached.load(Ordering::SeqCst), out);
    lap("A at gate");
    let blocked_before = st.counters.will_block.load(Ordering::SeqCst);
    let tb = spawn(b, b_req, "B");
    // WillBlockOn is emitted with the dependency-graph and shard locks held: from here on B is
    // registered as a waiter before A can release `inner`
    wait_until("B blocking on `inner`", &|| st.counters.will_block.load(Ordering::SeqCst) > blocked_before, out);
    lap("B blocked");
    if variant != 0 {
        trace::note("cancel A");
        token.cancel();
    }
    if variant != 2 {
        st.panic_node.store(inner + 1, Ordering::SeqCst);
    }
    st.gate_open.store(true, Ordering::SeqCst);
    bar.wait();
    lap("phase 1 done");
    let inner_idx = st.keys()[inner].as_id().index();
    let execs_inner = st.counters.execs.lock().unwrap().iter().filter(|k| **k == inner_idx).count();
    st.panic_node.store(0, Ordering::SeqCst);
    trace::note("phase 2");
    bar.wait();
    lap("phase 2 released");
    let (ra, rb) = match (ta.join(), tb.join()) {
        (Ok(a), Ok(b)) => (a, b),
        _ => {
            out.fail("oracle", "harness thread panicked".into());
            return;
        }
    };
    out.log.push(format!("c19p variant {variant}: A {a_req}={} then {}; B {b_req}={} then {}; inner executed {execs_inner}x", ra.0.show(), ra.1.show(), rb.0.show(), rb.1.show()));
    match variant {
        0 | 1 => {
            out.note(if variant == 0 { "c19p_control" } else { "c19p_deferred" });
            if ra.0 != Res::Injected(inner) {
                out.fail("oracle", format!("A: node {a_req} = {} want panic:user@{inner}", ra.0.show()));
            }
            if rb.0 != Res::PropagatedPanic {
                out.fail(
                    "oracle",
                    format!("B (blocked on A's panicking `inner`): node {b_req} = {} want cancelled:propagated-panic", rb.0.show()),
                );
            }
            if execs_inner != 1 {
                out.fail("oracle", format!("`inner` executed {execs_inner} times in one revision, want 1"));
            }
        }
        _ => {
            out.note("c19p_outside_fixpoint");
            if ra.0 != Res::Local {
                out.fail("oracle", format!("A: node {a_req} = {} want cancelled:local", ra.0.show()));
            }
            if !agrees(&rb.0, want[b_req]) {
                out.fail("oracle", format!("B (waiter of a locally cancelled handle): node {b_req} = {} want {}", rb.0.show(), fmt_out(want[b_req])));
            }
            if execs_inner != 2 {
                out.fail("oracle", format!("`inner` executed {execs_inner} times, want 2 (A's cancelled run + B's retry)"));
            }
        }
    }
    if ra.2 && ra.0 == Res::Local {
        out.fail("oracle", "Cancelled::Local unwound through the body of a fixpoint function".into());
    }
    // KNOWN FINDING (C22, /verif/corpus/C22/poisoned_fixpoint_function.prog): a fixpoint-kind
    // function whose body unwound with a panic stays poisoned for the rest of the revision (every
    // request that reaches it throws PropagatedPanic). Counted, strict with `--strict`; the caller
    // re-checks everything after a synthetic write.
    let reach = case.prog.reach(ins);
    let poisoned: Vec<usize> = (0..case.prog.nodes.len())
        .filter(|&f| variant != 2 && case.prog.nodes[f].kind.disables_local_cancellation() && reach[f][inner])
        .collect();
    let mut afterwards = |who: &str, n: usize, r: &Res, out: &mut Outcome| {
        if agrees(r, want[n]) {
            return;
        }
        if !strict() && *r == Res::PropagatedPanic && poisoned.iter().any(|&f| reach[n][f]) {
            out.note("known_poisoned_cycle_retry");
        } else {
            out.fail("oracle", format!("{who} afterwards: node {n} = {} want {}", r.show(), fmt_out(want[n])));
        }
    };
    afterwards("A", a_req, &ra.1, out);
    afterwards("B", b_req, &rb.1, out);
    for l in trace::snapshot() {
        if l.starts_with("cancel unwind") && l.ends_with("Local") && (variant != 2 || !l.contains(&format!(" h{a_handle} "))) {
            out.fail("oracle", format!("unexpected Local unwind: {l}"));
        }
    }
    lap("joined");
    for n in 0..want.len() {
        let r = request(db, n);
        afterwards("sequential", n, &r, out);
    }
    lap("sequential done");
}

fn exec_case(case: &Case) -> Outcome {
    let mut out = Outcome::default();
    trace::enable();
    #[cfg(not(feature = "shuttle"))]
    trace::set_yield_seed(case.case_seed | 1);
    trace::note(&format!("case {} {}", case.scenario, case.index));
    let mut db = Db::new(case.prog.clone(), &case.ins0);
    #[cfg(not(feature = "shuttle"))]
    db.st.spin.store((case.case_seed >> 40) as u32 % 400, Ordering::Relaxed);
    let mut ins = case.ins0.clone();
    let mut exec_rounds: Vec<bool> = Vec::new();
    match &case.spec {
        Spec::Readers { rounds, count_execs } => {
            for (r, round) in rounds.iter().enumerate() {
                for w in &round.writes {
                    apply_write(&mut db, &mut ins, w);
                }
                trace::note(&format!("round {r}"));
                exec_rounds.push(*count_execs);
                db.st.counters.execs.lock().unwrap().clear();
                let want = oracle(&case.prog, &ins);
                let (hs, _) = run_plans(&db, &round.plans, 0, never);
                let results = join_all(hs);
                log_results(&mut out, &format!("round {r}"), &round.plans, &results);
                for (i, (rs, _)) in results.iter().enumerate() {
                    if rs.len() != round.plans[i].len() {
                        out.fail("oracle", format!("round {r} thread {i}: {} of {} requests answered", rs.len(), round.plans[i].len()));
                    }
                    for (res, &n) in rs.iter().zip(&round.plans[i]) {
                        if !agrees(res, want[n]) {
                            out.fail(
                                "oracle",
                                format!("round {r} thread {i}: node {n} = {} want {}", res.show(), fmt_out(want[n])),
                            );
                        }
                    }
                }
                if *count_execs {
                    // C17: at most one execution per key per revision, counted via the event callback
                    let mut cnt: HashMap<u32, usize> = HashMap::new();
                    for k in db.st.counters.execs.lock().unwrap().iter() {
                        *cnt.entry(*k).or_default() += 1;
                    }
                    for (k, c) in cnt {
                        if c > 1 {
                            out.fail(
                                "oracle",
                                format!("round {r}: node {:?} executed {c} times in one revision (WillExecute)", db.st.node_of_index(k)),
                            );
                        }
                    }
                }
            }
            if rounds.len() == 1 {
                check_created(&db, &mut out, false);
            }
        }
        Spec::NoRecovery { plans } => {
            let want = oracle(&case.prog, &ins);
            let (hs, _) = run_plans(&db, plans, 0, never);
            let results = join_all(hs);
            log_results(&mut out, "cyclic", plans, &results);
            for (i, (rs, _)) in results.iter().enumerate() {
                for (res, &n) in rs.iter().zip(&plans[i]) {
                    let ok = match want[n] {
                        Out::Cycle => matches!(res, Res::CyclePanic | Res::PropagatedPanic),
                        w => agrees(res, w),
                    };
                    if !ok {
                        out.fail("oracle", format!("thread {i}: node {n} = {} want {}", res.show(), fmt_out(want[n])));
                    }
                }
            }
            trace::note("sequential");
            check_all_sequential(&db, &want, "after the cross-thread cycle", &mut out);
            apply_write(&mut db, &mut ins, &Write::Set(0, case.ins0[0] & !1));
            let want = oracle(&case.prog, &ins);
            if want.iter().any(|w| *w == Out::Cycle) {
                out.fail("oracle", "harness: cycle not broken by the input change".into());
            }
            check_all_sequential(&db, &want, "after breaking the cycle", &mut out);
        }
        Spec::Writer { rounds } => {
            for (r, round) in rounds.iter().enumerate() {
                trace::note(&format!("round {r}"));
                exec_rounds.push(false);
                let want = oracle(&case.prog, &ins);
                let (hs, b) = run_plans(&db, &round.plans, 1, |r| !matches!(r, Res::Val(_)));
                wait(&b);
                spin(round.delay);
                trace::note("writer");
                apply_write(&mut db, &mut ins, &round.writes[0]);
                trace::note("writer-done");
                let results = join_all(hs);
                log_results(&mut out, &format!("round {r}"), &round.plans, &results);
                let any_pending = results.iter().any(|(rs, _)| rs.iter().any(|x| *x == Res::PendingWrite));
                for (i, (rs, _)) in results.iter().enumerate() {
                    for (res, &n) in rs.iter().zip(&round.plans[i]) {
                        match res {
                            Res::PendingWrite => out.note("pending_write"),
                            // a reader blocked on a reader that unwound with PendingWrite is woken
                            // with `Panicked` (release_panicking) and throws PropagatedPanic
                            Res::PropagatedPanic if any_pending => out.note("propagated_from_pending_write"),
                            res if agrees(res, want[n]) => {}
                            res => out.fail(
                                "oracle",
                                format!("round {r} reader {i}: node {n} = {} want {} or cancelled:pending-write", res.show(), fmt_out(want[n])),
                            ),
                        }
                    }
                }
                let want = oracle(&case.prog, &ins);
                check_all_sequential(&db, &want, &format!("after write {r}"), &mut out);
            }
        }
        Spec::LocalCancel { plans, victim, self_cancel, delay } => {
            let want = oracle(&case.prog, &ins);
            let b = barrier(plans.len() + 1);
            let done = Arc::new(AtomicBool::new(false));
            let mut handles = Vec::new();
            let mut token = None;
            let mut victim_h = 0;
            for (i, reqs) in plans.iter().enumerate() {
                let h = db.clone();
                if i == *victim {
                    token = Some(salsa::Database::cancellation_token(&h));
                    victim_h = h.trace_handle();
                    if let Some(n) = self_cancel {
                        db.st.cancel_hid.store(h.hid, Ordering::SeqCst);
                        db.st.cancel_node.store(n + 1, Ordering::SeqCst);
                    }
                }
                let reqs = reqs.clone();
                let is_victim = i == *victim;
                let done = done.clone();
                #[allow(clippy::let_unit_value)]
                let b = b.clone();
                handles.push(cthread::spawn(move || {
                    trace::note(&format!("thread {i} handle {} h{}", h.hid, h.trace_handle()));
                    wait(&b);
                    let mut rs: Vec<Res> = reqs
                        .iter()
                        .enumerate()
                        .map(|(k, &n)| {
                            if is_victim {
                                h.st.victim_req.store(k, Ordering::SeqCst);
                            }
                            request(&h, n)
                        })
                        .collect();
                    if is_victim {
                        while !done.load(Ordering::SeqCst) {
                            std::thread::yield_now();
                        }
                        let last = *reqs.last().unwrap();
                        h.st.victim_req.store(reqs.len(), Ordering::SeqCst);
                        rs.push(request(&h, last));
                        h.st.victim_req.store(reqs.len() + 1, Ordering::SeqCst);
                        rs.push(request(&h, last));
                    }
                    let unwound = h.unwound_cycle_frame.load(Ordering::Relaxed);
                    (rs, unwound)
                }));
            }
            let token = token.unwrap();
            wait(&b);
            if self_cancel.is_none() {
                spin(*delay);
                trace::note("cancel");
                token.cancel();
            }
            done.store(true, Ordering::SeqCst);
            let results = join_all(handles);
            let mut plans2 = plans.clone();
            let last = *plans[*victim].last().unwrap();
            plans2[*victim].extend([last, last]);
            log_results(&mut out, "cancel", &plans2, &results);
            for (i, (rs, unwound)) in results.iter().enumerate() {
                let mut locals = 0;
                for (res, &n) in rs.iter().zip(&plans2[i]) {
                    match res {
                        Res::Local if i == *victim => locals += 1,
                        res if agrees(res, want[n]) => {}
                        res => out.fail("oracle", format!("thread {i}: node {n} = {} want {}", res.show(), fmt_out(want[n]))),
                    }
                }
                if locals > 1 {
                    out.fail("oracle", format!("victim unwound {locals} times for one cancel()"));
                }
                // a cancel() made from inside the victim's own k-th request belongs to that request:
                // the token is reset when its outermost tracked call returns or unwinds, so no LATER
                // request of the handle may unwind with Cancelled::Local
                let fired_at = db.st.cancel_fired_req.load(Ordering::SeqCst);
                if i == *victim && fired_at != usize::MAX {
                    for (k, res) in rs.iter().enumerate() {
                        if k > fired_at && matches!(res, Res::Local) {
                            out.fail(
                                "oracle",
                                format!("cancel() was called inside the victim's request #{fired_at} but its later request #{k} unwound with Cancelled::Local (token not reset when the outermost call ended)"),
                            );
                        }
                    }
                    if !matches!(rs[fired_at], Res::Local) {
                        out.note("self_cancel_too_late_or_deferred");
                    }
                }
                if locals > 0 {
                    out.note("local_unwinds");
                    if *unwound {
                        out.fail("oracle", "Cancelled::Local unwound through the body of a fixpoint/fallback function".into());
                    }
                }
                if i == *victim && !matches!(rs.last(), Some(Res::Val(_))) {
                    out.fail("oracle", "the request after the cancellation did not run normally".into());
                }
            }
            match db.st.cancel_fired.load(Ordering::SeqCst) {
                1 => out.note("self_cancel_plain"),
                2 => out.note("self_cancel_in_cycle_frame"),
                _ => {}
            }
            out.log.push(format!("victim handle h{victim_h}"));
            // trace: Local unwinds only on the victim's handle
            for l in trace::snapshot() {
                if l.starts_with("cancel unwind") && l.ends_with("Local") && !l.contains(&format!(" h{victim_h} ")) {
                    out.fail("oracle", format!("Local unwind on a handle that was not cancelled: {l}"));
                }
            }
            check_all_sequential(&db, &want, "after the cancellation", &mut out);
        }
        Spec::Panic { plans, node, at_exit } => {
            let want = oracle(&case.prog, &ins);
            let reach = case.prog.reach(&ins);
            db.st.panic_at_exit.store(*at_exit, Ordering::SeqCst);
            db.st.panic_node.store(node + 1, Ordering::SeqCst);
            let (hs, _) = run_plans(&db, plans, 0, never);
            let results = join_all(hs);
            log_results(&mut out, "panic", plans, &results);
            for (i, (rs, _)) in results.iter().enumerate() {
                for (res, &n) in rs.iter().zip(&plans[i]) {
                    let ok = if reach[n][*node] {
                        match res {
                            Res::Injected(x) => x == node,
                            Res::PropagatedPanic => {
                                out.note("propagated_panic");
                                true
                            }
                            _ => false,
                        }
                    } else {
                        agrees(res, want[n])
                    };
                    if !ok {
                        out.fail(
                            "oracle",
                            format!("thread {i}: node {n} = {} (reaches panicking node {node}: {}) want {}", res.show(), reach[n][*node], fmt_out(want[n])),
                        );
                    }
                }
            }
            db.st.panic_node.store(0, Ordering::SeqCst);
            trace::note("sequential");
            // KNOWN FINDING (C22, /verif/corpus/C22/poisoned_cycle_head.prog): a panic below a
            // fixpoint cycle head leaves a poisoned provisional memo; every later request of the
            // cycle in the SAME revision (same cancellation count) throws PropagatedPanic from
            // `fetch_cold_cycle`, single-threaded, until the revision or the count changes.
            // Same-revision retries that touch such a cycle are therefore only counted (strict
            // with `--strict`); after a synthetic write everything must equal the oracle.
            let cyc = cyclic_nodes(&case.prog, &ins);
            let poisonable: Vec<usize> = cyc
                .iter()
                .copied()
                .filter(|&c| case.prog.nodes[c].kind.disables_local_cancellation() && reach[c][*node])
                .collect();
            for (n, w) in want.iter().enumerate() {
                let r = request(&db, n);
                if agrees(&r, *w) {
                    continue;
                }
                let tolerated = !strict() && r == Res::PropagatedPanic && poisonable.iter().any(|&p| reach[n][p]);
                if tolerated {
                    out.note("known_poisoned_cycle_retry");
                } else {
                    out.fail("oracle", format!("after the panic: node {n} = {} want {}", r.show(), fmt_out(*w)));
                }
            }
            apply_write(&mut db, &mut ins, &Write::Synthetic);
            check_all_sequential(&db, &want, "after the panic and a new revision", &mut out);
        }
        Spec::PanicDeferred { variant, a_req, b_req, inner, at_exit, once } => {
            exec_c19p(case, &db, &ins, (*variant, *a_req, *b_req, *inner, *at_exit, *once), &mut out);
            apply_write(&mut db, &mut ins, &Write::Synthetic);
            let want = oracle(&case.prog, &ins);
            check_all_sequential(&db, &want, "after c19p and a new revision", &mut out);
        }
        Spec::Alloc { ops } => {
            let want = oracle(&case.prog, &ins);
            let b = barrier(ops.len());
            let handles: Vec<_> = ops
                .iter()
                .enumerate()
                .map(|(i, l)| {
                    let mut h = db.clone();
                    let l = l.clone();
                    let want = want.clone();
                    #[allow(clippy::let_unit_value)]
                    let b = b.clone();
                    cthread::spawn(move || {
                        trace::note(&format!("thread {i} handle {} h{}", h.hid, h.trace_handle()));
                        wait(&b);
                        let mut bad = Vec::new();
                        for op in &l {
                            let st = h.st.clone();
                            let rec = |ty: &'static str, id: salsa::Id, fields: (u32, u32), hid: usize| {
                                st.created.lock().unwrap().push(Created { ty, id, fields, hid });
                            };
                            match op {
                                AOp::NewIn(v) => {
                                    let x = In::new(&h, *v);
                                    rec("in", x.as_id(), (*v as u32, 0), h.hid);
                                    if x.v(&h) != *v {
                                        bad.push(format!("input {:?} reads back {}", x.as_id(), x.v(&h)));
                                    }
                                }
                                AOp::Mk(n) => {
                                    let r = request(&h, *n);
                                    if !agrees(&r, want[*n]) {
                                        bad.push(format!("mk node {n} = {} want {}", r.show(), fmt_out(want[*n])));
                                    }
                                }
                                AOp::SymA(v) => {
                                    let s = SymA::new(&h, *v);
                                    rec("syma", s.as_id(), (*v as u32, 0), h.hid);
                                    if s.v(&h) != *v {
                                        bad.push(format!("SymA {:?} reads back {}", s.as_id(), s.v(&h)));
                                    }
                                }
                                AOp::SymB(a, bb) => {
                                    let s = SymB::new(&h, *a, *bb);
                                    rec("symb", s.as_id(), (*a as u32, *bb as u32), h.hid);
                                    if (s.a(&h), s.b(&h)) != (*a, *bb) {
                                        bad.push(format!("SymB {:?} reads back differently", s.as_id()));
                                    }
                                }
                                AOp::Rehandle => {
                                    let h2 = h.clone();
                                    trace::note(&format!("thread {i} handle {} h{}", h2.hid, h2.trace_handle()));
                                    drop(std::mem::replace(&mut h, h2));
                                }
                            }
                        }
                        bad
                    })
                })
                .collect();
            for h in handles {
                match h.join() {
                    Ok(bad) => {
                        for b in bad {
                            out.fail("oracle", b);
                        }
                    }
                    Err(_) => out.fail("oracle", "harness thread panicked".into()),
                }
            }
            check_created(&db, &mut out, true);
            let n = db.st.created.lock().unwrap().len();
            out.log.push(format!("created {n} values"));
        }
    }
    drain_violations(&db, &mut out);
    trace::note("end");
    drop(db);
    trace::disable();
    trace::set_yield_seed(0);
    out.trace = trace::take();
    check_trace(case, &exec_rounds, &mut out);
    out
}

// ------------------------------------------------------------------------------------------------
// trace acceptance
// ------------------------------------------------------------------------------------------------

fn check_trace(case: &Case, exec_rounds: &[bool], out: &mut Outcome) {
    // dependency graph / sync: model replay + invariants
    match dg_model::replay(&out.trace) {
        Ok(st) => {
            for _ in 0..st.w4_precondition_violations {
                out.note("w4_precondition_violations");
            }
        }
        Err(e) => {
            let summary = format!("trace line {}: {} [{}]", e.line_no, e.what, e.line);
            out.fail(e.kind, summary);
        }
    }
    if let Some(last) = out.trace.iter().rev().find(|l| l.starts_with("dg ")) {
        let toks: Vec<&str> = last.split(' ').collect();
        let n = toks.len();
        if n >= 5 && (toks[n - 5] != "E{}" || toks[n - 4] != "Q{}" || toks[n - 3] != "W{}") {
            out.fail("invariant", format!("waiters left at the end of the case: {}", toks[n - 5..].join(" ")));
        }
    }
    // C17 via the hook: `memo exec` per key and round
    if !exec_rounds.is_empty() {
        let mut round: Option<usize> = None;
        let mut cnt: HashMap<String, usize> = HashMap::new();
        let flush = |round: Option<usize>, cnt: &mut HashMap<String, usize>, out: &mut Outcome| {
            if let Some(r) = round {
                if exec_rounds.get(r).copied().unwrap_or(false) {
                    for (k, c) in cnt.iter() {
                        if *c > 1 {
                            out.fail("oracle", format!("round {r}: key {k} executed {c} times in one revision (hook)"));
                        }
                    }
                }
            }
            cnt.clear();
        };
        for l in out.trace.clone() {
            let toks: Vec<&str> = l.split(' ').collect();
            if toks[0] == "note" && toks.get(2) == Some(&"round") {
                flush(round, &mut cnt, out);
                round = toks.get(3).and_then(|s| s.parse().ok());
            } else if toks[0] == "memo" && toks[1] == "exec" {
                *cnt.entry(toks[4].to_string()).or_default() += 1;
            }
        }
        flush(round, &mut cnt, out);
    }
    check_cancel_trace(&out.trace.clone(), out);
    if matches!(case.spec, Spec::Alloc { .. }) || case.scenario == "c16" {
        check_alloc_trace(&out.trace.clone(), out);
    }
}

/// C20 acceptance of the `cancel` lines: `clones` = number of live handles; the writer proceeds
/// only with `clones == 1` while the flag is set; the flag is reset before the count is bumped /
/// the revision advances; `(revision, cancellation count)` strictly increases; `PendingWrite`
/// unwinds happen only while the flag is set.
fn check_cancel_trace(trace: &[String], out: &mut Outcome) {
    let mut clones: i64 = 1;
    let mut flag = false;
    let mut rev: u64 = 1;
    let mut cc: u64 = 0;
    let mut known_rev = false;
    for (i, l) in trace.iter().enumerate() {
        let t: Vec<&str> = l.split(' ').collect();
        if t[0] == "reset" {
            clones = 1;
            flag = false;
            known_rev = false;
            cc = 0;
            continue;
        }
        if t[0] != "cancel" {
            continue;
        }
        let mut bad = |what: String| out.fail("model", format!("cancel trace line {}: {what} [{l}]", i + 1));
        let num = |k: usize| t.get(k).and_then(|s| s.parse::<u64>().ok());
        match t[1] {
            "clone" | "drop" => {
                clones += if t[1] == "clone" { 1 } else { -1 };
                if num(3) != Some(clones as u64) {
                    bad(format!("model has {clones} live handles"));
                    clones = num(3).unwrap_or(1) as i64;
                }
            }
            "set_flag" => {
                if flag {
                    bad("flag already set".into());
                }
                flag = true;
            }
            "proceed" => {
                if !flag {
                    bad("writer proceeds without the flag".into());
                }
                if clones != 1 || num(3) != Some(1) {
                    bad(format!("writer proceeds with {clones} live handles"));
                }
            }
            "reset_flag" => {
                if !flag {
                    bad("flag not set".into());
                }
                flag = false;
            }
            "bump_cc" => {
                if flag {
                    bad("cancellation count bumped while the flag is still set".into());
                }
                if clones != 1 {
                    bad(format!("cancellation count bumped with {clones} live handles"));
                }
                let overflow = num(4) == Some(1);
                match num(3) {
                    Some(v) if !overflow && v == cc + 1 => cc = v,
                    Some(255) if overflow && cc == 255 => {}
                    _ => bad(format!("model count is {cc}")),
                }
            }
            "new_revision" => {
                if flag {
                    bad("revision advanced while the flag is still set".into());
                }
                if clones != 1 {
                    bad(format!("revision advanced with {clones} live handles"));
                }
                match num(3) {
                    Some(r) if !known_rev || r == rev + 1 => {
                        rev = r;
                        known_rev = true;
                    }
                    _ => bad(format!("model revision is {rev}")),
                }
                cc = 0;
            }
            "unwind" => {
                if t.get(4) == Some(&"PendingWrite") && !flag {
                    bad("PendingWrite unwind while the flag is not set".into());
                }
            }
            _ => bad("unknown cancel op".into()),
        }
    }
}

/// C24 acceptance of the `alloc` lines against the single-writer invariant: every page is in at
/// most one of {some handle's cache, `non_full_pages`}; a slot is written only by the handle that
/// holds the page; `allocated` read = model value, stored = read + 1.
fn check_alloc_trace(trace: &[String], out: &mut Outcome) {
    #[derive(Default)]
    struct M {
        nonfull: HashMap<u64, Vec<u64>>,
        handle_pages: HashMap<u64, HashMap<u64, u64>>,
        owner: HashMap<u64, u64>,
        allocated: HashMap<u64, u64>,
        page_ing: HashMap<u64, u64>,
        pending_page: HashMap<String, (u64, u64)>,
        pending_release: HashMap<String, (u64, u64)>,
        last_slot: HashMap<String, (u64, u64)>,
    }
    let mut m = M::default();
    for (i, l) in trace.iter().enumerate() {
        let t: Vec<&str> = l.split(' ').collect();
        if t[0] == "reset" {
            m = M::default();
            continue;
        }
        if t[0] != "alloc" {
            continue;
        }
        let mut bad = |what: String| out.fail("model", format!("alloc trace line {}: {what} [{l}]", i + 1));
        let th = t[2].to_string();
        let num = |k: usize| -> u64 {
            t.get(k).map(|s| s.trim_start_matches('h')).and_then(|s| s.parse().ok()).unwrap_or(u64::MAX)
        };
        match t[1] {
            "take" => {
                let (ing, p) = (num(3), num(4));
                match m.nonfull.get_mut(&ing).and_then(Vec::pop) {
                    Some(q) if q == p => {}
                    other => bad(format!("model would pop {other:?}")),
                }
                m.pending_page.insert(th, (ing, p));
            }
            "push" => {
                let (ing, p) = (num(3), num(4));
                if m.page_ing.insert(p, ing).is_some() {
                    bad("page index pushed twice".into());
                }
                m.allocated.insert(p, 0);
                m.pending_page.insert(th, (ing, p));
            }
            "handle_page" => {
                let (h, ing, p) = (num(3), num(4), num(5));
                if m.pending_page.remove(&th) != Some((ing, p)) {
                    bad("page was not just taken/pushed by this thread".into());
                }
                if let Some(o) = m.owner.get(&p) {
                    bad(format!("page already held by h{o}"));
                }
                if m.nonfull.values().any(|v| v.contains(&p)) {
                    bad("page is also in non_full_pages".into());
                }
                if let Some(old) = m.handle_pages.entry(h).or_default().insert(ing, p) {
                    // the full page is abandoned
                    m.owner.remove(&old);
                    if m.allocated.get(&old).copied() != Some(128) {
                        bad(format!("handle replaced page {old} which is not full"));
                    }
                }
                m.owner.insert(p, h);
            }
            "handle_release" => {
                let (h, ing, p) = (num(3), num(4), num(5));
                if m.handle_pages.entry(h).or_default().remove(&ing) != Some(p) {
                    bad("handle does not hold that page".into());
                }
                m.owner.remove(&p);
                m.pending_release.insert(th, (ing, p));
            }
            "record" => {
                let (ing, p) = (num(3), num(4));
                if m.pending_release.remove(&th) != Some((ing, p)) {
                    bad("record without handle_release".into());
                }
                if m.owner.contains_key(&p) || m.nonfull.values().any(|v| v.contains(&p)) {
                    bad("page recorded while still owned".into());
                }
                m.nonfull.entry(ing).or_default().push(p);
            }
            "slot" => {
                let (ing, p, slot, read, stored) = (num(3), num(4), num(5), num(6), num(7));
                if m.page_ing.get(&p) != Some(&ing) {
                    bad("page belongs to another ingredient".into());
                }
                if !m.owner.contains_key(&p) {
                    bad("slot written on a page no handle holds".into());
                }
                if m.allocated.get(&p) != Some(&read) || slot != read || stored != read + 1 || read >= 128 {
                    bad(format!("model allocated = {:?}", m.allocated.get(&p)));
                }
                m.allocated.insert(p, stored);
                m.last_slot.insert(th, (p, slot));
            }
            "got" => {
                let (h, ing, p, slot) = (num(3), num(4), num(5), num(6));
                if m.last_slot.remove(&th) != Some((p, slot)) {
                    bad("got without matching slot line".into());
                }
                if m.handle_pages.get(&h).and_then(|hp| hp.get(&ing)) != Some(&p) || m.owner.get(&p) != Some(&h) {
                    bad("handle allocated on a page it does not hold".into());
                }
            }
            _ => bad("unknown alloc op".into()),
        }
    }
}

// ------------------------------------------------------------------------------------------------
// running a case: shuttle / threads
// ------------------------------------------------------------------------------------------------

#[allow(dead_code)]
struct Opts {
    replay_dir: String,
    trace_out: Option<String>,
    timeout_ms: u64,
    schedules: usize,
    /// schedules per wide case (`Case::is_wide`) under shuttle; real threads repeat a wide case a
    /// quarter as often (`--wide-schedules`; default 32 for runs of up to 1000 cases, 8 for longer
    /// runs, so that small budgets still reach the rare interleavings)
    wide_schedules: usize,
    reps: usize,
    seed: u64,
}

static LAST_PANIC: Mutex<String> = Mutex::new(String::new());
static STRICT: AtomicBool = AtomicBool::new(false);
/// an execution died in the middle (shuttle abort / watchdog): do not run further cases here
static TAINTED: AtomicBool = AtomicBool::new(false);
/// what a shuttle execution does with its outcome: panic on failure (default; persists the
/// schedule), never panic (warm-up, replays), always panic (schedule capture for the self-test)
#[allow(dead_code)]
static FAIL_MODE: std::sync::atomic::AtomicU8 = std::sync::atomic::AtomicU8::new(FAIL_ON_FAILURE);
#[allow(dead_code)]
const FAIL_ON_FAILURE: u8 = 0;
#[allow(dead_code)]
const FAIL_IGNORE: u8 = 1;
#[allow(dead_code)]
const FAIL_ALWAYS: u8 = 2;
/// a case is executing (panics are expected / reported through CONC-FAIL)
static IN_CASE: AtomicBool = AtomicBool::new(false);

static FB_ACROSS_REVISIONS: AtomicBool = AtomicBool::new(false);

/// Version of the case generators. Replay files record it (`gen=`; absent = 1) and `--replay`
/// regenerates the case with the recorded version, so older replays keep their programs.
///   1: c18/c19 cyclic cases have 2-3 threads
///   2: half of the c18/c19 cyclic cases are wide (`CycFlavor::Wide`, 5-6 threads); c16/c17 and the
///      acyclic c19 cases have 2-5 threads
const GEN_VERSION_CURRENT: u32 = 2;
static GEN_VERSION: std::sync::atomic::AtomicU32 = std::sync::atomic::AtomicU32::new(GEN_VERSION_CURRENT);

fn gen_version() -> u32 {
    GEN_VERSION.load(Ordering::Relaxed)
}

/// thread bound of the acyclic reader scenarios (c16, c17, acyclic c19)
fn wide_acyclic_threads() -> usize {
    if gen_version() >= 2 { 5 } else { 4 }
}

/// `--fb-across-revisions`: also generate fallback components in multi-revision cases.
fn fb_across_revisions() -> bool {
    FB_ACROSS_REVISIONS.load(Ordering::Relaxed)
}

/// `--strict`: known findings count as failures.
fn strict() -> bool {
    STRICT.load(Ordering::Relaxed)
}

#[cfg(feature = "shuttle")]
fn shuttle_config(opts: &Opts) -> shuttle::Config {
    let mut config = shuttle::Config::default();
    config.stack_size = 2 * 1024 * 1024;
    config.silence_warnings = true;
    config.max_steps = shuttle::MaxSteps::FailAfter(400_000);
    let dir = std::path::PathBuf::from(&opts.replay_dir).join("schedules");
    let _ = std::fs::create_dir_all(&dir);
    config.failure_persistence = shuttle::FailurePersistence::File(Some(dir));
    config
}

#[cfg(feature = "shuttle")]
fn newest_schedule(opts: &Opts) -> Option<String> {
    let dir = std::path::PathBuf::from(&opts.replay_dir).join("schedules");
    let mut best: Option<(std::time::SystemTime, std::path::PathBuf)> = None;
    for e in std::fs::read_dir(dir).ok()?.flatten() {
        let m = e.metadata().ok()?.modified().ok()?;
        if best.as_ref().is_none_or(|b| m >= b.0) {
            best = Some((m, e.path()));
        }
    }
    let (_, path) = best?;
    let s = std::fs::read_to_string(&path).ok()?;
    let _ = std::fs::remove_file(&path);
    Some(s.trim().to_string())
}

/// One shuttle execution of the case under `scheduler`; returns the outcomes of all iterations.
#[cfg(feature = "shuttle")]
fn run_shuttle<S: shuttle::scheduler::Scheduler + 'static>(
    case: &Arc<Case>,
    scheduler: S,
    opts: &Opts,
) -> Vec<(Outcome, Option<String>)> {
    let outs: Arc<Mutex<Vec<Outcome>>> = Arc::new(Mutex::new(Vec::new()));
    let r = {
        let case = case.clone();
        let outs = outs.clone();
        let config = shuttle_config(opts);
        std::panic::catch_unwind(std::panic::AssertUnwindSafe(move || {
            shuttle::Runner::new(scheduler, config).run(move || {
                let o = exec_case(&case);
                let failed = !o.failures.is_empty();
                outs.lock().unwrap().push(o);
                // a panic makes shuttle persist the schedule of this execution
                match FAIL_MODE.load(Ordering::Relaxed) {
                    FAIL_IGNORE => {}
                    FAIL_ALWAYS => panic!("conc: schedule capture"),
                    _ if failed => panic!("conc: case failed (see CONC-FAIL)"),
                    _ => {}
                }
            });
        }))
    };
    let mut v: Vec<(Outcome, Option<String>)> =
        std::mem::take(&mut *outs.lock().unwrap()).into_iter().map(|o| (o, None)).collect();
    if let Err(p) = r {
        let msg = match classify(p) {
            Res::Other(s) => s,
            other => other.show(),
        };
        let schedule = newest_schedule(opts);
        match v.last_mut() {
            Some((o, s)) if !o.failures.is_empty() || msg.contains("conc: schedule capture") => *s = schedule,
            _ => {
                // the execution itself died: deadlock, step bound, or an unexpected panic
                let mut o = Outcome::default();
                trace::disable();
                o.trace = trace::take();
                let last = LAST_PANIC.lock().unwrap().clone();
                let kind = if msg.contains("deadlock") || msg.contains("exceeded max_steps") || last.contains("deadlock") {
                    "deadlock"
                } else {
                    "oracle"
                };
                o.fail(kind, format!("shuttle execution aborted: {msg} / {last}"));
                // tasks of the aborted execution are leaked and process-global salsa state
                // (ingredient caches behind shuttle mutexes) may be poisoned: later cases of this
                // process would fail spuriously, so the child restarts after this case
                TAINTED.store(true, Ordering::Relaxed);
                // the trace up to the abort is still replayed through the model
                if let Err(e) = dg_model::replay(&o.trace) {
                    o.fail(e.kind, format!("trace line {}: {} [{}]", e.line_no, e.what, e.line));
                }
                v.push((o, schedule));
            }
        }
    }
    v
}

#[cfg(feature = "shuttle")]
fn run_case(case: Arc<Case>, opts: &Opts) -> Vec<(Outcome, Option<String>)> {
    let mut rng = Rng::new(case.case_seed ^ 0x5ced);
    let sseed = rng.next();
    // wide cases: histories that need a fourth thread also need long uninterrupted runs of single
    // threads, which the uniform random scheduler and shallow PCT practically never produce:
    // always PCT, 6-20 change points, several schedules per case
    if case.is_wide() {
        let depth = 6 + rng.usize(15);
        let schedules = opts.schedules.max(opts.wide_schedules);
        return run_shuttle(&case, shuttle::scheduler::PctScheduler::new_from_seed(sseed, depth, schedules), opts);
    }
    if rng.chance(1, 2) {
        let depth = 1 + rng.usize(5);
        run_shuttle(&case, shuttle::scheduler::PctScheduler::new_from_seed(sseed, depth, opts.schedules), opts)
    } else {
        run_shuttle(&case, shuttle::scheduler::RandomScheduler::new_from_seed(sseed, opts.schedules), opts)
    }
}

#[cfg(feature = "shuttle")]
fn replay_case(case: Arc<Case>, schedule: &str, opts: &Opts) -> Vec<(Outcome, Option<String>)> {
    if schedule == "-" || schedule.is_empty() {
        return run_case(case, opts);
    }
    FAIL_MODE.store(FAIL_IGNORE, Ordering::Relaxed);
    // the recorded schedule stops at the panic that persisted it (end of the execution closure,
    // or the deadlock); the few shutdown steps after that point are not part of it
    // (a panic in the middle of an execution is reproduced by the strict replay; only if that
    // reports an exhausted schedule the replay is repeated allowing the missing shutdown steps)
    let mut v = run_shuttle(&case, shuttle::scheduler::ReplayScheduler::new_from_encoded(schedule), opts);
    let exhausted = v.iter().any(|(o, _)| o.failures.iter().any(|f| f.summary.contains("schedule ended early")));
    if exhausted {
        let mut scheduler = shuttle::scheduler::ReplayScheduler::new_from_encoded(schedule);
        scheduler.set_allow_incomplete();
        v = run_shuttle(&case, scheduler, opts);
        if v.is_empty() {
            let mut o = Outcome::default();
            o.fail("deadlock", "replay: the schedule was exhausted before the execution produced an outcome".into());
            v.push((o, None));
        }
    }
    FAIL_MODE.store(FAIL_ON_FAILURE, Ordering::Relaxed);
    v
}

/// `--selftest-replay`: capture the schedule of every case (forced panic at the end of the
/// execution) and replay it; the replayed hook trace must be identical.
#[cfg(feature = "shuttle")]
fn selftest_replay(cases: Vec<Arc<Case>>, opts: &Opts) {
    let (mut same, mut differ, mut no_schedule) = (0, 0, 0);
    for case in cases {
        FAIL_MODE.store(FAIL_ALWAYS, Ordering::Relaxed);
        let first = run_case(case.clone(), opts);
        FAIL_MODE.store(FAIL_ON_FAILURE, Ordering::Relaxed);
        let Some((o1, Some(schedule))) = first.into_iter().last() else {
            no_schedule += 1;
            continue;
        };
        let second = replay_case(case.clone(), &schedule, opts);
        let key = canon_trace;
        match second.last() {
            Some((o2, _)) if key(&o1.trace) == key(&o2.trace) && !o1.trace.is_empty() => same += 1,
            Some((o2, _)) => {
                differ += 1;
                let path = write_replay(&case, o2, &Some(schedule), opts);
                println!("CONC-SELFTEST differ case={} replay={path} lines {} vs {}", case.index, o1.trace.len(), o2.trace.len());
            }
            None => differ += 1,
        }
    }
    println!("CONC-SELFTEST mode={MODE} replayed_identically={same} differ={differ} no_schedule={no_schedule}");
}

/// Touches every ingredient once so that the process-global ingredient caches are warm (a schedule
/// only replays in a process that has run one execution before, DESIGN §2.5a).
#[cfg(feature = "shuttle")]
fn warm_up(opts: &Opts) {
    let text = "inputs 1\nnode 0 plain (intern (in 0))\nnode 1 lru (call 0)\nnode 2 mk (call 1)\nnode 3 fix (or (call 4) (call 2))\nnode 4 fix2 (call 3)\nnode 5 fb (call 6)\nnode 6 fb (or (call 5) (call 4))\nnode 7 plain (xor (call 6) (call 3))\n";
    let prog = Program::parse(text).expect("warm-up program");
    let ops = vec![vec![AOp::NewIn(1), AOp::SymA(1), AOp::SymB(1, 1), AOp::Mk(2), AOp::Rehandle, AOp::SymA(2)]];
    for spec in [
        Spec::Readers { rounds: vec![Round { writes: vec![], plans: vec![vec![7], vec![7, 3]], delay: 0 }, Round { writes: vec![Write::Set(0, 9), Write::Synthetic, Write::Lru(2)], plans: vec![vec![7], vec![5]], delay: 0 }], count_execs: false },
        Spec::Alloc { ops },
    ] {
        let case = Arc::new(Case { scenario: "warmup".into(), index: 0, case_seed: 1, prog: prog.clone(), ins0: vec![3], spec });
        FAIL_MODE.store(FAIL_IGNORE, Ordering::Relaxed);
        let v = run_shuttle(&case, shuttle::scheduler::RandomScheduler::new_from_seed(1, 1), opts);
        FAIL_MODE.store(FAIL_ON_FAILURE, Ordering::Relaxed);
        for (o, _) in v {
            for f in o.failures {
                eprintln!("warm-up failure: {} {}", f.kind, f.summary);
            }
        }
    }
}

#[cfg(not(feature = "shuttle"))]
fn run_case(case: Arc<Case>, opts: &Opts) -> Vec<(Outcome, Option<String>)> {
    let mut v = Vec::new();
    // wide cases are repeated (the timing differs from run to run): a quarter of the shuttle budget
    let reps = if case.is_wide() { opts.reps.max(opts.wide_schedules / 4) } else { opts.reps.max(1) };
    for _ in 0..reps {
        let (tx, rx) = std::sync::mpsc::channel();
        let c = case.clone();
        std::thread::Builder::new()
            .stack_size(16 * 1024 * 1024)
            .spawn(move || {
                let r = std::panic::catch_unwind(std::panic::AssertUnwindSafe(|| exec_case(&c)));
                let _ = tx.send(r);
            })
            .expect("spawn case thread");
        let o = match rx.recv_timeout(std::time::Duration::from_millis(opts.timeout_ms)) {
            Ok(Ok(o)) => o,
            Ok(Err(p)) => {
                let mut o = Outcome::default();
                trace::disable();
                o.trace = trace::take();
                o.fail("oracle", format!("case thread panicked: {}", classify(p).show()));
                o
            }
            Err(_) => {
                let mut o = Outcome::default();
                o.trace = trace::snapshot();
                trace::disable();
                trace::set_yield_seed(0);
                TAINTED.store(true, Ordering::Relaxed);
                o.fail(
                    "deadlock",
                    format!(
                        "no termination within {} ms; last graph state: {}",
                        opts.timeout_ms,
                        dg_model::residual(&o.trace)
                    ),
                );
                if let Err(e) = dg_model::replay(&o.trace) {
                    o.fail(e.kind, format!("trace line {}: {} [{}]", e.line_no, e.what, e.line));
                }
                o
            }
        };
        let failed = !o.failures.is_empty();
        v.push((o, None));
        if failed {
            break;
        }
    }
    v
}

#[cfg(not(feature = "shuttle"))]
fn replay_case(case: Arc<Case>, _schedule: &str, opts: &Opts) -> Vec<(Outcome, Option<String>)> {
    run_case(case, opts)
}

#[cfg(not(feature = "shuttle"))]
fn warm_up(_opts: &Opts) {}

// ------------------------------------------------------------------------------------------------
// main
// ------------------------------------------------------------------------------------------------

/// Trace without `note` lines and with handle ids (process-global) renamed in first-seen order.
fn canon_trace(t: &[String]) -> Vec<String> {
    let mut names: HashMap<String, usize> = HashMap::new();
    t.iter()
        .filter(|l| !l.starts_with("note ") && l.as_str() != "reset")
        .map(|l| {
            l.split(' ')
                .map(|tok| {
                    if tok.len() > 1 && tok.starts_with('h') && tok[1..].bytes().all(|b| b.is_ascii_digit()) {
                        let n = names.len();
                        format!("h#{}", names.entry(tok.to_string()).or_insert(n))
                    } else {
                        tok.to_string()
                    }
                })
                .collect::<Vec<_>>()
                .join(" ")
        })
        .collect()
}

fn trace_hash(trace: &[String], with_alloc: bool) -> u64 {
    let mut s = String::new();
    for l in trace {
        if l.starts_with("dg ") || l.starts_with("sync ") || (with_alloc && l.starts_with("alloc ")) {
            s.push_str(l);
            s.push('\n');
        }
    }
    fnv(s.as_bytes())
}

fn write_replay(case: &Case, o: &Outcome, schedule: &Option<String>, opts: &Opts) -> String {
    let _ = std::fs::create_dir_all(&opts.replay_dir);
    let path = format!("{}/{}-{}-{}-{}.replay", opts.replay_dir, case.scenario, MODE, opts.seed, case.index);
    let mut s = format!(
        "scenario={}\nmode={MODE}\nseed={}\ncase={}\ncase_seed={}\ngen={}\n--- schedule\n{}\n",
        case.scenario,
        opts.seed,
        case.index,
        case.case_seed,
        gen_version(),
        schedule.as_deref().unwrap_or("-")
    );
    s.push_str(&case.describe());
    s.push_str("--- results\n");
    for l in &o.log {
        s.push_str(l);
        s.push('\n');
    }
    s.push_str("--- failures\n");
    for f in &o.failures {
        s.push_str(&format!("{} {}\n", f.kind, f.summary));
    }
    s.push_str("--- trace\nreset\n");
    for l in &o.trace {
        s.push_str(l);
        s.push('\n');
    }
    let _ = std::fs::write(&path, s);
    path
}


/// `conc probe --prog FILE --script "panic 0 exit; get 2; clear; get 2; set 0 5; synth; get 2"`:
/// single-threaded, deterministic; prints the implementation's answer and the oracle's per step.
/// Used to minimise findings.
fn probe(args: &Args) {
    let text = std::fs::read_to_string(args.get("--prog").expect("--prog FILE")).expect("program file");
    let prog = Program::parse(&text).expect("program text");
    let mut ins: Vec<u8> = args
        .get("--inputs")
        .map(|s| s.split(',').map(|v| v.parse().unwrap()).collect())
        .unwrap_or_else(|| vec![0; prog.n_inputs]);
    ins.resize(prog.n_inputs, 0);
    let mut db = Db::new(prog.clone(), &ins);
    for step in args.get("--script").unwrap_or("").split(';') {
        let t: Vec<&str> = step.split_whitespace().collect();
        match t.as_slice() {
            ["get", n] => {
                let n: usize = n.parse().unwrap();
                let r = request(&db, n);
                println!("get {n} = {} (oracle {})", r.show(), fmt_out(oracle(&prog, &ins)[n]));
            }
            ["panic", n, rest @ ..] => {
                db.st.panic_at_exit.store(rest.first() == Some(&"exit"), Ordering::SeqCst);
                db.st.panic_node.store(n.parse::<usize>().unwrap() + 1, Ordering::SeqCst);
                println!("panic armed at node {n}");
            }
            ["clear"] => {
                db.st.panic_node.store(0, Ordering::SeqCst);
                println!("panic cleared");
            }
            ["set", i, v] => {
                let (i, v): (usize, u8) = (i.parse().unwrap(), v.parse().unwrap());
                apply_write(&mut db, &mut ins, &Write::Set(i, v));
                println!("set {i} {v}");
            }
            ["synth"] => {
                apply_write(&mut db, &mut ins, &Write::Synthetic);
                println!("synthetic write");
            }
            ["cancel"] => {
                salsa::Database::cancellation_token(&db).cancel();
                println!("cancel()");
            }
            [] => {}
            other => println!("bad step {other:?}"),
        }
    }
}

/// Parent process: runs the cases in child processes (`--child --from N`), passes their
/// `CONC-FAIL` lines through, sums their summary fields, and survives a child that dies.
fn supervise(args: &Args, scenario: &str, cases: usize, opts: &Opts) -> ! {
    use std::io::{BufRead, BufReader};
    let t0 = std::time::Instant::now();
    let exe = std::env::current_exe().expect("current exe");
    let mut totals: BTreeMap<String, u64> = BTreeMap::new();
    let add = |totals: &mut BTreeMap<String, u64>, line: &str| {
        for kv in line.split(' ') {
            if let Some((k, v)) = kv.split_once('=') {
                if let Ok(v) = v.parse::<u64>() {
                    if !matches!(k, "seed" | "elapsed_ms" | "case" | "restart_at") {
                        *totals.entry(k.to_string()).or_default() += v;
                    }
                }
            }
        }
    };
    let _ = std::fs::create_dir_all(&opts.replay_dir);
    let mut from = args.num("--from", 0) as usize;
    let mut crashes = 0u64;
    let mut restarts = 0u64;
    while from < cases {
        let err_path = format!("{}/child-{}-{}-{}.stderr", opts.replay_dir, scenario, MODE, opts.seed);
        let err = std::fs::File::create(&err_path).expect("stderr file");
        let mut child = std::process::Command::new(&exe)
            .args(&args.0)
            .arg("--child")
            .arg("--from")
            .arg(from.to_string())
            .stdout(std::process::Stdio::piped())
            .stderr(err)
            .spawn()
            .expect("spawn child");
        let mut last_case: Option<(usize, String)> = None;
        let mut done = false;
        let mut restart: Option<usize> = None;
        for line in BufReader::new(child.stdout.take().unwrap()).lines().map_while(Result::ok) {
            if let Some(rest) = line.strip_prefix("CONC-CASE ") {
                let idx = rest.split(' ').next().and_then(|s| s.parse().ok()).unwrap_or(from);
                last_case = Some((idx, rest.to_string()));
            } else if line.starts_with("CONC scenario=") {
                add(&mut totals, &line);
                match line.split(' ').find_map(|kv| kv.strip_prefix("restart_at=")).and_then(|v| v.parse::<usize>().ok()) {
                    Some(i) => restart = Some(i),
                    None => done = true,
                }
            } else {
                println!("{line}");
            }
        }
        let status = child.wait();
        if done {
            break;
        }
        if let Some(i) = restart {
            restarts += 1;
            from = i;
            continue;
        }
        // the child died: account for what it had finished, report the case it was running
        crashes += 1;
        let (idx, progress) = last_case.unwrap_or((from, String::new()));
        add(&mut totals, &progress);
        let tail: Vec<String> = std::fs::read_to_string(&err_path)
            .unwrap_or_default()
            .lines()
            .rev()
            .filter(|l| !l.trim().is_empty())
            .take(3)
            .map(str::to_string)
            .collect();
        let case = gen_case(scenario, idx, case_seed(opts.seed, idx));
        let mut o = Outcome::default();
        o.fail("oracle", format!("harness process died while running this case ({status:?}): {}", tail.join(" | ")));
        let path = write_replay(&case, &o, &None, opts);
        println!(
            "CONC-FAIL kind=oracle case={idx} seed={} replay={path} {}",
            opts.seed,
            o.failures[0].summary
        );
        *totals.entry("failures".into()).or_default() += 1;
        *totals.entry("cases".into()).or_default() += 1;
        from = idx + 1;
    }
    let get = |k: &str| totals.get(k).copied().unwrap_or(0);
    let known = ["cases", "executions", "distinct_nontrivial", "blocked_events", "transfers", "dg_ops", "failures"];
    let extra: String = totals.iter().filter(|(k, _)| !known.contains(&k.as_str())).map(|(k, v)| format!(" {k}={v}")).collect();
    println!(
        "CONC scenario={scenario} mode={MODE} cases={} executions={} distinct_nontrivial={} blocked_events={} transfers={} dg_ops={} failures={} seed={} elapsed_ms={}{}{extra}",
        get("cases"),
        get("executions"),
        get("distinct_nontrivial"),
        get("blocked_events"),
        get("transfers"),
        get("dg_ops"),
        get("failures"),
        opts.seed,
        t0.elapsed().as_millis(),
        if crashes + restarts > 0 { format!(" child_crashes={crashes} child_restarts={restarts}") } else { String::new() },
    );
    std::process::exit(if get("failures") > 0 { 1 } else { 0 });
}

fn main() {
    let args = Args::from_env();
    if args.0.first().map(String::as_str) == Some("probe") {
        std::panic::set_hook(Box::new(|_| {}));
        probe(&args);
        return;
    }
    let scenario = match args.0.first() {
        Some(s) if !s.starts_with("--") => s.clone(),
        _ => {
            eprintln!("usage: conc <c08|c14|c16|c17|c18|c19|c20|c21|c22|c24> --mode shuttle|threads --seed S --cases N [--replay FILE] [--replay-dir DIR] [--trace-out DIR]");
            std::process::exit(2);
        }
    };
    let mode = args.get("--mode").unwrap_or(MODE);
    if mode != MODE {
        eprintln!("this binary was built for --mode {MODE} (use the build with{} --features shuttle)", if MODE == "shuttle" { "out" } else { "" });
        std::process::exit(2);
    }
    if MODE == "shuttle" && matches!(scenario.as_str(), "c14" | "c19p" | "c20" | "c21" | "c22") {
        eprintln!("scenario {scenario} unwinds past salsa locks and runs in --mode threads only (DESIGN §2.5a)");
        std::process::exit(2);
    }
    let cases = args.num("--cases", 100) as usize;
    let mut opts = Opts {
        replay_dir: args.get("--replay-dir").unwrap_or("/verif/work/conc-replays").to_string(),
        trace_out: args.get("--trace-out").map(str::to_string),
        timeout_ms: args.num("--timeout-ms", 10_000),
        schedules: args.num("--schedules", 1) as usize,
        wide_schedules: args.num("--wide-schedules", if cases <= 1000 { 32 } else { 8 }) as usize,
        reps: args.num("--reps", 1) as usize,
        seed: args.num("--seed", std::env::var("VERIF_SEED").ok().and_then(|s| s.parse().ok()).unwrap_or(1)),
    };
    STRICT.store(args.flag("--strict"), Ordering::Relaxed);
    FB_ACROSS_REVISIONS.store(args.flag("--fb-across-revisions"), Ordering::Relaxed);
    // `--gen 1`: the case generators as they were before version 2 (see `GEN_VERSION`)
    GEN_VERSION.store(args.num("--gen", GEN_VERSION_CURRENT as u64) as u32, Ordering::Relaxed);

    // expected panics (cycle panics, injected panics) stay quiet; the message is kept for reports
    let default_hook = std::panic::take_hook();
    let verbose = args.flag("--verbose");
    std::panic::set_hook(Box::new(move |info| {
        *LAST_PANIC.lock().unwrap_or_else(|e| e.into_inner()) = info.to_string().lines().next().unwrap_or("").to_string();
        if verbose || (!IN_CASE.load(Ordering::Relaxed) && std::thread::current().name() == Some("main")) {
            default_hook(info);
        }
    }));

    // Cases run in a child process: a salsa bug can abort the process (panic inside a drop while
    // unwinding, stack overflow); the parent then reports the case and resumes after it.
    if !args.flag("--child") && !args.flag("--no-isolate") && !args.flag("--selftest-replay") && args.get("--replay").is_none() {
        supervise(&args, &scenario, cases, &opts);
    }
    let child = args.flag("--child");

    IN_CASE.store(true, Ordering::Relaxed);
    warm_up(&opts);
    IN_CASE.store(false, Ordering::Relaxed);

    let mut todo: Vec<(Arc<Case>, Option<String>)> = Vec::new();
    let mut recorded_trace: Option<Vec<String>> = None;
    if let Some(file) = args.get("--replay") {
        let text = std::fs::read_to_string(file).expect("replay file");
        let field = |k: &str| text.lines().find_map(|l| l.strip_prefix(&format!("{k}="))).map(str::to_string);
        let scen = field("scenario").expect("scenario=");
        let cseed: u64 = field("case_seed").and_then(|s| s.parse().ok()).expect("case_seed=");
        let index: usize = field("case").and_then(|s| s.parse().ok()).unwrap_or(0);
        opts.seed = field("seed").and_then(|s| s.parse().ok()).unwrap_or(opts.seed);
        // replay files written before the generator versions existed have no `gen=` line
        GEN_VERSION.store(field("gen").and_then(|s| s.parse().ok()).unwrap_or(1), Ordering::Relaxed);
        let case = gen_case(&scen, index, cseed);
        let want_prog = text.split("--- program\n").nth(1).and_then(|r| r.split("--- inputs").next()).unwrap_or("");
        if want_prog != case.prog.to_text() {
            eprintln!("warning: regenerated program differs from the one in the replay file (generator changed?)");
        }
        let schedule = text
            .split("--- schedule\n")
            .nth(1)
            .and_then(|r| r.split("\n---").next())
            .unwrap_or("-")
            .trim()
            .to_string();
        recorded_trace = text
            .split("--- trace\n")
            .nth(1)
            .map(|t| t.lines().map(str::to_string).collect::<Vec<_>>());
        todo.push((Arc::new(case), Some(schedule)));
    } else {
        for i in (args.num("--from", 0) as usize)..cases {
            todo.push((Arc::new(gen_case(&scenario, i, case_seed(opts.seed, i))), None));
        }
    }

    #[cfg(feature = "shuttle")]
    if args.flag("--selftest-replay") {
        IN_CASE.store(true, Ordering::Relaxed);
        selftest_replay(todo.into_iter().map(|t| t.0).collect(), &opts);
        return;
    }
    let t0 = std::time::Instant::now();
    let (mut n_cases, mut n_exec, mut blocked, mut transfers, mut failures) = (0usize, 0usize, 0usize, 0usize, 0usize);
    let mut distinct: HashSet<(u64, u64)> = HashSet::new();
    let mut notes: BTreeMap<&'static str, usize> = BTreeMap::new();
    let mut dg_ops = 0usize;
    let mut restart_at: Option<usize> = None;
    for (case, schedule) in todo {
        if child && TAINTED.load(Ordering::Relaxed) {
            restart_at = Some(case.index);
            break;
        }
        if child {
            use std::io::Write as _;
            println!(
                "CONC-CASE {} cases={n_cases} executions={n_exec} distinct_nontrivial={} blocked_events={blocked} transfers={transfers} dg_ops={dg_ops} failures={failures}{}",
                case.index,
                distinct.len(),
                notes.iter().map(|(k, v)| format!(" {k}={v}")).collect::<String>()
            );
            let _ = std::io::stdout().flush();
        }
        n_cases += 1;
        IN_CASE.store(true, Ordering::Relaxed);
        let outs = match &schedule {
            Some(s) => replay_case(case.clone(), s, &opts),
            None => run_case(case.clone(), &opts),
        };
        IN_CASE.store(false, Ordering::Relaxed);
        for (k, (o, sched)) in outs.iter().enumerate() {
            n_exec += 1;
            let b = o.trace.iter().filter(|l| l.starts_with("dg 0 add_edge ")).count();
            let t = o.trace.iter().filter(|l| l.starts_with("dg 0 transfer_lock ")).count();
            let contended = o
                .trace
                .iter()
                .filter(|l| (l.starts_with("sync try_claim ") || l.starts_with("sync peek_claim ")) && !l.ends_with(" claimed") && !l.ends_with(" reclaimed"))
                .count();
            dg_ops += o.trace.iter().filter(|l| l.starts_with("dg 0 ")).count();
            blocked += b;
            transfers += t;
            // allocation scenarios: nontrivial = a page changed hands through `non_full_pages`
            let alloc_case = matches!(case.spec, Spec::Alloc { .. });
            let takes = o.trace.iter().filter(|l| l.starts_with("alloc take ")).count();
            if b > 0 || contended > 0 || (alloc_case && takes > 0) {
                distinct.insert((case.prog.hash() ^ fnv(case.describe().as_bytes()), trace_hash(&o.trace, alloc_case)));
            }
            for (n, c) in &o.notes {
                *notes.entry(n).or_default() += c;
            }
            if let Some(dir) = &opts.trace_out {
                let _ = std::fs::create_dir_all(dir);
                let suffix = if outs.len() > 1 { format!("-{k}") } else { String::new() };
                let path = format!("{dir}/{}-{}-{}{suffix}.trace", case.scenario, opts.seed, case.index);
                let mut s = String::from("reset\n");
                for l in &o.trace {
                    s.push_str(l);
                    s.push('\n');
                }
                let _ = std::fs::write(path, s);
            }
            if !o.failures.is_empty() {
                failures += 1;
                let path = write_replay(&case, o, sched, &opts);
                // one line per failure kind of the case (oracle and model failures are kept apart)
                let mut seen = HashSet::new();
                for f in &o.failures {
                    if seen.insert(f.kind) {
                        println!(
                            "CONC-FAIL kind={} case={} seed={} replay={} {}",
                            f.kind,
                            case.index,
                            opts.seed,
                            path,
                            f.summary.replace('\n', " ")
                        );
                    }
                }
            }
            if schedule.is_some() {
                for l in &o.log {
                    println!("  {l}");
                }
                if let Some(rec) = &recorded_trace {
                    println!(
                        "CONC-REPLAY trace_identical={} recorded_lines={} replayed_lines={}",
                        canon_trace(rec) == canon_trace(&o.trace),
                        rec.len().saturating_sub(1),
                        o.trace.len()
                    );
                }
            }
        }
    }
    let notes: Vec<String> = notes.iter().map(|(k, v)| format!("{k}={v}")).collect();
    println!(
        "CONC scenario={scenario} mode={MODE} cases={n_cases} executions={n_exec} distinct_nontrivial={} blocked_events={blocked} transfers={transfers} dg_ops={dg_ops} failures={failures} seed={} elapsed_ms={}{}{}{}",
        distinct.len(),
        opts.seed,
        t0.elapsed().as_millis(),
        if notes.is_empty() { "" } else { " " },
        notes.join(" "),
        match restart_at {
            Some(i) => format!(" restart_at={i}"),
            None => String::new(),
        }
    );
    std::process::exit(if failures > 0 { 1 } else { 0 });
}
