//! `vh edges` — drives the real edge/origin encoders, `IterationStamp`, `make_id/split_id` and the
//! cancellation token through the `salsa_verif` hooks.
//!
//! Modes:
//!   edges gen  --seed S --tier quick|thorough --out ops.txt     generate an op file
//!   edges run  --ops ops.txt --out impl.txt                      run ops on the implementation
//!   edges oracle --ops ops.txt --impl impl.txt                   check the property equations on impl output
//!
//! Line protocol (shared with the Lean driver `svdriver edges`): see /verif/CONVENTIONS.md.
use salsa::verif_hooks::edges::{self as h, After, Decoded, RawEdge};
use salsa::verif_hooks::table as t;
use std::fmt::Write as _;
use std::io::Write as _;
use vh::{Args, Rng};

const ING: [u32; 7] = [0, 1, 0xFFE, 0xFFF, 0x1000, 0x7FFF_FFFE, 0x7FFF_FFFF];
const IDX: [u32; 6] = [0, 1, 127, 128, 1 << 25, 0xFFFF_FF00 - 1];
const GEN: [u32; 6] = [0, 1, 0xFFFFE, 0xFFFFF, 0x100000, u32::MAX];

fn fmt_edge(e: &RawEdge) -> String {
    format!("{}:{}:{}:{}", if e.0 { 'o' } else { 'i' }, e.1, e.2, e.3)
}
fn fmt_edges(es: &[RawEdge]) -> String {
    if es.is_empty() {
        "-".into()
    } else {
        es.iter().map(fmt_edge).collect::<Vec<_>>().join(",")
    }
}
fn fmt_keys(ks: &[(u32, u32, u32)]) -> String {
    if ks.is_empty() {
        "-".into()
    } else {
        ks.iter().map(|k| format!("{}:{}:{}", k.0, k.1, k.2)).collect::<Vec<_>>().join(",")
    }
}
fn parse_edge(s: &str) -> RawEdge {
    let p: Vec<&str> = s.split(':').collect();
    (p[0] == "o", p[1].parse().unwrap(), p[2].parse().unwrap(), p[3].parse().unwrap())
}
fn parse_edges(s: &str) -> Vec<RawEdge> {
    if s == "-" { vec![] } else { s.split(',').map(parse_edge).collect() }
}
fn parse_extra(s: &str) -> Option<(bool, u16)> {
    if s == "-" {
        None
    } else {
        let p: Vec<&str> = s.split(':').collect();
        Some((p[0] == "1", p[1].parse().unwrap()))
    }
}
fn parse_after(s: &str) -> After {
    match s {
        "n" => After::Nothing,
        "c" => After::ClearEdges,
        "x" => After::InsertExtra,
        _ => panic!("bad after"),
    }
}
fn fmt_decoded(d: &Decoded) -> String {
    let mut o = String::new();
    write!(o, "kind={} tag={} meta={}", d.kind, d.tag, d.metadata).unwrap();
    if let Some(k) = d.assigned_key {
        write!(o, " key={}:{}:{}", k.0, k.1, k.2).unwrap();
    }
    write!(
        o,
        " edges={} rev={} inputs={} outputs={} iterout={}",
        fmt_edges(&d.edges),
        fmt_edges(&d.edges_rev),
        fmt_keys(&d.inputs),
        fmt_keys(&d.outputs),
        fmt_edges(&d.iter_outputs)
    )
    .unwrap();
    match &d.extra {
        None => o.push_str(" extra=-"),
        Some((c, s, ids)) => write!(o, " extra={}:{}:{}", *c as u8, s, ids.len()).unwrap(),
    }
    o
}

fn rand_edge(r: &mut Rng, allow_out: bool, wide_bias: u64) -> RawEdge {
    // mostly packable edges so that long packed prefixes before a spill are common
    let wide = r.chance(wide_bias, 100);
    let ing = if wide { *r.pick(&ING) } else { [0u32, 1, 0xFFE, 0xFFF, 17, 231][r.usize(6)] };
    let generation = if wide { *r.pick(&GEN) } else { [0u32, 1, 0xFFFFE, 0xFFFFF, 41][r.usize(5)] };
    let idx = if r.chance(1, 3) { r.below(1 << 20) as u32 } else { *r.pick(&IDX) };
    (allow_out && r.chance(if wide { 30 } else { 3 }, 100), ing, idx, generation)
}

fn generate(seed: u64, thorough: bool, out: &mut dyn std::io::Write) {
    let mut r = Rng::new(seed);
    let extras = ["-", "1:0", "0:513", "1:51400"];
    let afters = ["n", "c", "x"];
    let mut all: Vec<RawEdge> = vec![];
    for &o in &[false, true] {
        for &i in &ING {
            for &x in &IDX {
                for &g in &GEN {
                    all.push((o, i, x, g));
                }
            }
        }
    }
    // length 0 and 1: exhaustive over all option combinations
    for u in 0..2 {
        for x in &extras {
            for a in &afters {
                writeln!(out, "D {} {} {} -", u, x, a).unwrap();
                for e in &all {
                    writeln!(out, "D {} {} {} {}", u, x, a, fmt_edge(e)).unwrap();
                }
            }
        }
    }
    // assigned origins
    for &i in &ING {
        for &x in &IDX {
            for &g in &GEN {
                for xx in &extras {
                    for a in ["n", "x"] {
                        writeln!(out, "A {}:{}:{} {} {}", i, x, g, xx, a).unwrap();
                    }
                }
            }
        }
    }
    // length 2: exhaustive over edge pairs in the thorough tier (options sampled), sampled otherwise
    if thorough {
        for e1 in &all {
            for e2 in &all {
                let u = r.below(2);
                let x = r.pick(&extras);
                let a = r.pick(&afters);
                writeln!(out, "D {} {} {} {},{}", u, x, a, fmt_edge(e1), fmt_edge(e2)).unwrap();
            }
        }
    } else {
        for _ in 0..4000 {
            let e1 = r.pick(&all);
            let e2 = r.pick(&all);
            writeln!(out, "D {} {} {} {},{}", r.below(2), r.pick(&extras), r.pick(&afters), fmt_edge(e1), fmt_edge(e2)).unwrap();
        }
    }
    // longer sequences, sampled (spill position varies: wide_bias small => long packed prefix)
    let n_long = if thorough { 60000 } else { 6000 };
    for _ in 0..n_long {
        let len = 3 + r.usize(62);
        let bias = [0u64, 1, 3, 10, 50][r.usize(5)];
        let es: Vec<RawEdge> = (0..len).map(|_| rand_edge(&mut r, true, bias)).collect();
        writeln!(out, "D {} {} {} {}", r.below(2), r.pick(&extras), r.pick(&afters), fmt_edges(&es)).unwrap();
    }
    // persisted form (only meaningful in the persistence build; the default build answers `skip`)
    let n_j = if thorough { 20000 } else { 2000 };
    for _ in 0..n_j {
        let len = r.usize(6);
        let es: Vec<RawEdge> = (0..len).map(|_| rand_edge(&mut r, true, 40)).collect();
        writeln!(out, "J {} {}", r.below(2), fmt_edges(&es)).unwrap();
    }
    // low-level encoders on arbitrary bit patterns (including out-of-contract ones)
    let words: Vec<u32> = vec![0, 1, 0xFFE, 0xFFF, 0x1000, 0xFFFFE, 0xFFFFF, 0x100000, 0x7FFF_FFFE, 0x7FFF_FFFF, 0x8000_0000, 0x8000_0FFF, 0xFFFF_FFFF];
    for &a in &words {
        for &b in &words {
            for &c in &words {
                writeln!(out, "P {} {} {}", a, b, c).unwrap();
            }
            writeln!(out, "U {} {}", a, b).unwrap();
        }
        writeln!(out, "T {} 0", a).unwrap();
        writeln!(out, "T {} 1", a).unwrap();
        writeln!(out, "G {}", a).unwrap();
    }
    for _ in 0..(if thorough { 200000 } else { 20000 }) {
        writeln!(out, "P {} {} {}", r.next() as u32, r.next() as u32 >> r.below(32), r.next() as u32 >> r.below(32)).unwrap();
        writeln!(out, "U {} {}", r.next() as u32, r.next() as u32).unwrap();
        let w = r.next() as u32;
        writeln!(out, "T {} {}", w, r.below(2)).unwrap();
        writeln!(out, "G {}", w).unwrap();
    }
    // IterationStamp: all 65536 values (exhaustive), all initial stamps
    for b in 0..=u16::MAX {
        writeln!(out, "S {}", b).unwrap();
    }
    for c in 0..=u8::MAX {
        writeln!(out, "I {}", c).unwrap();
    }
    // make_id / split_id
    let pages: Vec<usize> = vec![0, 1, 2, 127, 128, 1 << 20, t::MAX_PAGES - 2, t::MAX_PAGES - 1];
    for &p in &pages {
        for s in 0..t::PAGE_LEN {
            writeln!(out, "M {} {}", p, s).unwrap();
        }
    }
    for _ in 0..(if thorough { 100000 } else { 10000 }) {
        writeln!(out, "M {} {}", r.usize(t::MAX_PAGES), r.usize(t::PAGE_LEN)).unwrap();
        writeln!(out, "X {}", r.below(0xFFFF_FF00) as u32).unwrap();
    }
    // cancellation token op sequences: all sequences up to length 5 over 6 ops, then sampled
    let ops = ['c', 'e', 'd', 'q', 't', 'r'];
    let maxlen = if thorough { 6 } else { 5 };
    for len in 1..=maxlen {
        let total = 6usize.pow(len as u32);
        for mut n in 0..total {
            let mut s = String::new();
            for _ in 0..len {
                s.push(ops[n % 6]);
                n /= 6;
            }
            writeln!(out, "K {}", s).unwrap();
        }
    }
    for _ in 0..2000 {
        let len = 6 + r.usize(20);
        let s: String = (0..len).map(|_| *r.pick(&ops)).collect();
        writeln!(out, "K {}", s).unwrap();
    }
    // malformed stream: both sides must answer bad-op
    for l in ["", "Q 1 2", "D 0 - n", "D 2 - n -", "P 1 2", "S x", "K z", "M 1", "D 0 - q -"] {
        writeln!(out, "{}", l).unwrap();
    }
}

fn run_line(line: &str) -> Option<String> {
    let p: Vec<&str> = line.split(' ').collect();
    let num = |s: &str| -> Option<u64> { s.parse::<u64>().ok() };
    match p.as_slice() {
        ["D", u, x, a, es] => {
            if !matches!(*u, "0" | "1") || !matches!(*a, "n" | "c" | "x") {
                return None;
            }
            let d = h::derived_roundtrip(*u == "1", &parse_edges(es), parse_extra(x), parse_after(a));
            if *a == "c" && cfg!(feature = "persistence") {
                return Some("skip".into());
            }
            Some(fmt_decoded(&d))
        }
        ["A", k, x, a] => {
            if !matches!(*a, "n" | "x") {
                return None;
            }
            let kk: Vec<u32> = k.split(':').map(|s| s.parse().unwrap()).collect();
            let d = h::assigned_roundtrip((kk[0], kk[1], kk[2]), parse_extra(x), parse_after(a));
            Some(fmt_decoded(&d))
        }
        ["J", u, es] => {
            #[cfg(feature = "persistence")]
            {
                let p = h::persisted_new(*u == "1", &parse_edges(es));
                let s = serde_json::to_string(&p).unwrap();
                let q = serde_json::from_str::<h::PersistedOrigin>(&s).unwrap();
                return Some(fmt_decoded(&h::persisted_decode(q)));
            }
            #[cfg(not(feature = "persistence"))]
            {
                let _ = (u, es);
                Some("skip".into())
            }
        }
        ["P", a, b, c] => {
            let r = h::packed_new(num(a)? as u32, num(b)? as u32, num(c)? as u32);
            Some(match r {
                Some((i, m)) => format!("some {} {}", i, m),
                None => "none".into(),
            })
        }
        ["U", a, b] => {
            let (i, g, ing) = h::packed_edge(num(a)? as u32, num(b)? as u32);
            Some(format!("{} {} {}", i, g, ing))
        }
        ["T", a, b] => Some(format!("{}", h::with_tag(num(a)? as u32, *b == "1"))),
        ["G", a] => Some(format!("{}", h::tag(num(a)? as u32) as u8)),
        ["S", a] => {
            let (it, cc, inc, def, ini) = h::stamp(num(a)? as u16);
            Some(format!(
                "{} {} {} {} {}",
                it,
                cc,
                match inc {
                    Some(x) => format!("some:{}", x),
                    None => "none".into(),
                },
                def as u8,
                ini as u8
            ))
        }
        ["I", a] => Some(format!("{}", h::stamp_initial(num(a)? as u8))),
        ["M", a, b] => Some(format!("{}", t::make_id(num(a)? as usize, num(b)? as usize))),
        ["X", a] => {
            let (pg, s) = t::split_id(num(a)? as u32);
            Some(format!("{} {}", pg, s))
        }
        ["K", ops] => {
            let tok = h::Token::new();
            let mut o = String::new();
            for c in ops.chars() {
                match c {
                    'c' => tok.cancel(),
                    'e' => write!(o, "e{}", tok.set_cancellation_disabled(true) as u8).unwrap(),
                    'd' => write!(o, "d{}", tok.set_cancellation_disabled(false) as u8).unwrap(),
                    'q' => write!(o, "q{}", tok.is_cancelled() as u8).unwrap(),
                    't' => write!(o, "t{}", tok.should_trigger_local_cancellation() as u8).unwrap(),
                    'r' => tok.reset(),
                    _ => return None,
                }
                write!(o, "[{}]", tok.bits()).unwrap();
            }
            Some(o)
        }
        _ => None,
    }
}

/// The property's own equations, evaluated on the implementation output (independent of the model).
fn oracle(line: &str, out: &str) -> Result<bool, String> {
    // returns Ok(nontrivial?) or Err(description)
    if out == "bad-op" {
        // rejected lines are compared against the model's verdict only
        return Ok(false);
    }
    if out == "panic" {
        return Err("implementation panicked".into());
    }
    let p: Vec<&str> = line.split(' ').collect();
    let field = |name: &str| -> Option<&str> {
        out.split(' ').find_map(|kv| kv.strip_prefix(&format!("{}=", name)))
    };
    match p.as_slice() {
        ["D", u, x, a, es] if out != "skip" => {
            let es_in = parse_edges(es);
            let expect: Vec<RawEdge> = if *a == "c" { vec![] } else { es_in.clone() };
            let kind = if *u == "1" { "2" } else { "3" };
            if field("kind") != Some(kind) {
                return Err(format!("kind {:?} != {}", field("kind"), kind));
            }
            let got = parse_edges(field("edges").ok_or("no edges")?);
            if got != expect {
                return Err("decoded edges differ from stored edges".into());
            }
            let mut rev = parse_edges(field("rev").unwrap());
            rev.reverse();
            if rev != expect {
                return Err("reverse iteration differs".into());
            }
            let ins: Vec<String> = expect.iter().filter(|e| !e.0).map(|e| format!("{}:{}:{}", e.1, e.2, e.3)).collect();
            let outs: Vec<String> = expect.iter().filter(|e| e.0).map(|e| format!("{}:{}:{}", e.1, e.2, e.3)).collect();
            let j = |v: Vec<String>| if v.is_empty() { "-".to_string() } else { v.join(",") };
            if field("inputs") != Some(&j(ins)) {
                return Err("inputs view wrong".into());
            }
            if field("outputs") != Some(&j(outs.clone())) {
                return Err("outputs view wrong".into());
            }
            let io: Vec<String> = parse_edges(field("iterout").unwrap()).iter().map(|e| format!("{}:{}:{}", e.1, e.2, e.3)).collect();
            if j(io) != j(outs) {
                return Err("iter_outputs wrong".into());
            }
            // extra data preserved (a cleared/inserted origin keeps or gains it)
            let ex = field("extra").unwrap();
            match (*x, *a) {
                ("-", "x") => {
                    if ex != "0:0:0" {
                        return Err("inserted extra is not empty".into());
                    }
                }
                ("-", _) => {
                    if ex != "-" {
                        return Err("extra appeared".into());
                    }
                }
                (xx, _) => {
                    if ex != format!("{}:0", xx) {
                        return Err(format!("extra not preserved: {} vs {}", ex, xx));
                    }
                }
            }
            Ok(es_in.len() >= 1)
        }
        ["A", k, x, a] => {
            if field("kind") != Some("1") || field("key") != Some(k) {
                return Err("assigned key not preserved".into());
            }
            if field("edges") != Some("-") {
                return Err("assigned origin has edges".into());
            }
            let ex = field("extra").unwrap();
            let want = match (*x, *a) {
                ("-", "x") => "0:0:0".to_string(),
                ("-", _) => "-".to_string(),
                (xx, _) => format!("{}:0", xx),
            };
            if ex != want {
                return Err("assigned extra wrong".into());
            }
            Ok(true)
        }
        ["J", u, es] if out != "skip" => {
            let es_in = parse_edges(es);
            let kind = if *u == "1" { "2" } else { "3" };
            if field("kind") != Some(kind) || parse_edges(field("edges").unwrap()) != es_in {
                return Err("persisted origin does not deserialize to the same edges".into());
            }
            Ok(!es_in.is_empty())
        }
        ["P", a, b, c] => {
            // packing is lossless whenever it succeeds, and succeeds iff both parts fit
            let (a, b, c): (u32, u32, u32) = (a.parse().unwrap(), b.parse().unwrap(), c.parse().unwrap());
            // (where exactly the compact form stops applying is an implementation choice; the
            // property only requires that whatever is packed unpacks to the same edge)
            let fits = out != "none";
            if fits {
                let q: Vec<u32> = out.split(' ').skip(1).map(|s| s.parse().unwrap()).collect();
                let back = h::packed_edge(q[0], q[1]);
                if back != (a, b, c) {
                    return Err("unpack(pack(e)) != e".into());
                }
            }
            Ok(fits)
        }
        ["T", a, b] => {
            let a: u32 = a.parse().unwrap();
            let r: u32 = out.parse().unwrap();
            if a <= 0x7FFF_FFFF && (h::tag(r) != (*b == "1") || h::with_tag(r, false) != a) {
                return Err("tag round trip".into());
            }
            Ok(true)
        }
        ["S", a] => {
            let a: u16 = a.parse().unwrap();
            let f: Vec<&str> = out.split(' ').collect();
            let it: u16 = f[0].parse().unwrap();
            let cc: u16 = f[1].parse().unwrap();
            if it + (cc << 8) != a {
                return Err("stamp bytes".into());
            }
            if it <= 200 {
                // increment never carries into the cancellation byte and stops at 200
                let want = if it < 200 { format!("some:{}", a + 1) } else { "none".to_string() };
                if f[2] != want {
                    return Err(format!("increment_iteration at iteration {}: {}", it, f[2]));
                }
            }
            Ok(it <= 200)
        }
        ["K", ops] => {
            // the token triggers (t1) only while cancelled and not disabled: re-derive from the trace
            let mut cancelled = false;
            let mut disabled = false;
            let mut it = out.split(']');
            for c in ops.chars() {
                let seg = it.next().unwrap_or("");
                match c {
                    'c' => cancelled = true,
                    'e' => disabled = true,
                    'd' => disabled = false,
                    'r' => {
                        cancelled = false;
                        disabled = false;
                    }
                    't' => {
                        let fired = seg.starts_with("t1");
                        if fired != (cancelled && !disabled) {
                            return Err(format!("should_trigger = {} with cancelled={} disabled={}", fired, cancelled, disabled));
                        }
                    }
                    'q' => {
                        if seg.starts_with("q1") != cancelled {
                            return Err("is_cancelled wrong".into());
                        }
                    }
                    _ => {}
                }
            }
            Ok(ops.contains('c') && ops.contains('t'))
        }
        ["M", a, b] => {
            let r: u32 = out.parse().unwrap();
            let (pg, s) = t::split_id(r);
            if (pg, s) != (a.parse().unwrap(), b.parse().unwrap()) {
                return Err("split_id(make_id(p,s)) != (p,s)".into());
            }
            if r >= 0xFFFF_FF00 {
                return Err("make_id out of range".into());
            }
            Ok(true)
        }
        _ => Ok(false),
    }
}

fn main() {
    let args = Args::from_env();
    let mode = args.0.first().cloned().unwrap_or_default();
    match mode.as_str() {
        "gen" => {
            let f = std::fs::File::create(args.get("--out").expect("--out")).unwrap();
            let mut w = std::io::BufWriter::new(f);
            generate(args.num("--seed", 1), args.get("--tier") == Some("thorough"), &mut w);
        }
        "run" => {
            let ops = std::fs::read_to_string(args.get("--ops").expect("--ops")).unwrap();
            let f = std::fs::File::create(args.get("--out").expect("--out")).unwrap();
            let mut w = std::io::BufWriter::new(f);
            for line in ops.lines() {
                let r = std::panic::catch_unwind(|| run_line(line));
                match r {
                    Ok(Some(s)) => writeln!(w, "{}", s).unwrap(),
                    Ok(None) => writeln!(w, "bad-op").unwrap(),
                    Err(_) => writeln!(w, "panic").unwrap(),
                }
            }
        }
        "oracle" => {
            let ops = std::fs::read_to_string(args.get("--ops").expect("--ops")).unwrap();
            let imp = std::fs::read_to_string(args.get("--impl").expect("--impl")).unwrap();
            let mut bad = 0u64;
            let mut n = 0u64;
            let mut nontrivial = 0u64;
            let mut kinds = std::collections::BTreeMap::<String, u64>::new();
            for (i, (l, o)) in ops.lines().zip(imp.lines()).enumerate() {
                n += 1;
                *kinds.entry(l.split(' ').next().unwrap_or("").to_string()).or_default() += 1;
                match oracle(l, o) {
                    Ok(nt) => nontrivial += nt as u64,
                    Err(e) => {
                        bad += 1;
                        if bad <= 20 {
                            println!("ORACLE-FAIL line={} op={} impl={} why={}", i + 1, l, o, e);
                        }
                    }
                }
            }
            println!("ORACLE-SUMMARY lines={} nontrivial={} failures={} kinds={:?}", n, nontrivial, bad, kinds);
            std::process::exit(if bad > 0 { 1 } else { 0 });
        }
        _ => {
            eprintln!("usage: edges gen|run|oracle ...");
            std::process::exit(2);
        }
    }
}
