//! `vh seq` — single-threaded engine harness (DESIGN.md §2.2/§2.3).
//!
//! A fixed family of salsa items interprets an immutable *program table* inside the tracked
//! function bodies; generated programs × operation histories are run on real salsa and compared
//!   (a) with the independent reference interpreter of `vh::prog` (the property oracle), and
//!   (b) through the line protocol with the Lean model (`svdriver core|core3|cycle`).
//!
//!   seq gen    --profile P --seed S --cases N --out ops.txt
//!   seq run    --ops ops.txt --out impl.txt [--profile P]     implementation observations
//!              [--trace-out F [--trace-cases N]]              + hook trace (class `ts`, notes, memo publish) of the
//!                                                             first N cases, each after a `reset` line, for `svdriver structs`
//!   seq oracle --ops ops.txt --impl impl.txt [--profile P]    property oracle on the observations
use salsa::{Database, Durability, Setter};
use std::collections::HashMap;
use std::fmt::Write as _;
use std::io::Write as _;
use std::sync::atomic::{AtomicI64, Ordering};
use std::sync::{Arc, Mutex, OnceLock};
use vh::prog::*;
use vh::{Args, Rng};

// ---------------------------------------------------------------------------------------------
// salsa items

struct DbEnv {
    prog: Prog,
    inputs: OnceLock<Vec<In>>,
    keys: OnceLock<Vec<Key>>,
    cells: Mutex<Vec<u32>>,
    /// user-code call counters for panic injection: (remaining calls until panic; <0 = off)
    inject_body: AtomicI64,
    inject_event: AtomicI64,
    inject_eq: AtomicI64,
}

thread_local! {
    static EQ_TICK: std::cell::Cell<i64> = const { std::cell::Cell::new(-1) };
    /// countdown for the interned field's user `Hash` (injection kind `h`); armed value kept
    /// separately so that `arm_injection` can copy it in
    static HASH_TICK: std::cell::Cell<i64> = const { std::cell::Cell::new(-1) };
    static HASH_ARMED: std::cell::Cell<i64> = const { std::cell::Cell::new(-1) };
}

#[salsa::db]
trait PDb: salsa::Database {
    fn env(&self) -> &DbEnv;
}

#[salsa::db]
#[derive(Clone)]
struct Db {
    storage: salsa::Storage<Self>,
    env: Arc<DbEnv>,
}

#[salsa::db]
impl salsa::Database for Db {}

#[salsa::db]
impl PDb for Db {
    fn env(&self) -> &DbEnv {
        &self.env
    }
}

#[salsa::input]
struct In {
    #[returns(copy)]
    a: u32,
    #[returns(copy)]
    b: u32,
}

#[salsa::input]
struct Key {
    #[returns(copy)]
    idx: u32,
}

/// tracked field type whose `PartialEq` is user code that can be made to panic
#[derive(Clone, Copy, Debug, Hash, salsa::SalsaValue)]
struct PV(u32);
impl PartialEq for PV {
    fn eq(&self, other: &Self) -> bool {
        EQ_TICK.with(|t| {
            let v = t.get();
            if v > 0 {
                t.set(v - 1);
                if v == 1 {
                    // for `svdriver structs`: the single tracked field was not yet compared
                    salsa::verif_hooks::trace::note("eq-panic 0");
                    panic!("injected-panic eq");
                }
            }
        });
        self.0 == other.0
    }
}
impl Eq for PV {}

#[salsa::tracked]
struct Ts<'db> {
    #[returns(copy)]
    k: u32,
    #[tracked]
    #[returns(copy)]
    v: PV,
}

/// interned field with a constant hash: every value lands in one shard, so stale slots are
/// actually reclaimed within a history (salsa's own test trick)
#[derive(Clone, Copy, Debug, PartialEq, Eq, salsa::SalsaValue)]
struct CH(u32);
impl std::hash::Hash for CH {
    fn hash<H: std::hash::Hasher>(&self, state: &mut H) {
        HASH_TICK.with(|t| {
            let v = t.get();
            if v > 0 {
                t.set(v - 1);
                if v == 1 {
                    panic!("injected-panic hash");
                }
            }
        });
        state.write_i16(0);
    }
}

#[salsa::interned(revisions = 2)]
struct Sym<'db> {
    #[returns(copy)]
    f: CH,
}

#[salsa::accumulator]
struct Acc(u32);

type V<'db> = (u32, Option<Ts<'db>>, Option<Sym<'db>>);

fn tick_body(db: &dyn PDb) {
    let c = &db.env().inject_body;
    let v = c.load(Ordering::Relaxed);
    if v > 0 {
        c.store(v - 1, Ordering::Relaxed);
        if v == 1 {
            panic!("injected-panic body");
        }
    }
}

#[derive(Clone, Copy)]
enum Cx {
    Node,
    Ts(u32, u32),
    Arg(u32),
}

fn call_node<'db>(db: &'db dyn PDb, q: usize) -> V<'db> {
    let k = db.env().keys.get().unwrap()[q];
    match db.env().prog.nodes[q].0 {
        Kind::Plain => plain(db, k),
        Kind::NoEq => noeq(db, k),
        Kind::Lru => lru(db, k),
        Kind::Fix => (fix(db, k), None, None),
        Kind::FixJoin => (fixjoin(db, k), None, None),
        Kind::Fb => (fb(db, k), None, None),
        Kind::NoCyc => (nocyc(db, k), None, None),
    }
}

fn read_in(db: &dyn PDb, i: usize) -> u32 {
    let x = db.env().inputs.get().unwrap()[i / 2];
    if i % 2 == 0 { x.a(db) } else { x.b(db) }
}

fn interp<'db>(db: &'db dyn PDb, e: &E, cx: Cx) -> V<'db> {
    let n = |x: u32| -> V<'db> { (x, None, None) };
    match e {
        E::C(v) => n(*v),
        E::In(i) => n(read_in(db, *i)),
        E::Call(q) => call_node(db, *q),
        E::Cell(c) => {
            db.report_untracked_read();
            n(db.env().cells.lock().unwrap()[*c])
        }
        E::Add(a, b) => {
            let x = interp(db, a, cx);
            let y = interp(db, b, cx);
            ((x.0 + y.0) % 4, x.1.or(y.1), x.2.or(y.2))
        }
        E::Min(a, b) => {
            let x = interp(db, a, cx);
            let y = interp(db, b, cx);
            (x.0.min(y.0), x.1.or(y.1), x.2.or(y.2))
        }
        E::Max(a, b) => {
            let x = interp(db, a, cx);
            let y = interp(db, b, cx);
            (x.0.max(y.0), x.1.or(y.1), x.2.or(y.2))
        }
        E::BOr(a, b) => n(interp(db, a, cx).0 | interp(db, b, cx).0),
        E::BAnd(a, b) => n(interp(db, a, cx).0 & interp(db, b, cx).0),
        E::If(c, a, b) => {
            if interp(db, c, cx).0 % 2 == 1 {
                interp(db, a, cx)
            } else {
                interp(db, b, cx)
            }
        }
        // a literal identity constant >= 1000 selects the "late specify" order: the struct is created
        // BEFORE the flag and the specified value are evaluated (same meaning, other read order);
        // no other generator (seq gen, tools/gen_corespec.py) emits such a literal
        E::Mk(k, v, f, s) if matches!(**k, E::C(n) if n >= 1000) => {
            let kk = interp(db, k, cx).0 % 2;
            let vv = interp(db, v, cx).0;
            salsa::verif_hooks::trace::note(&format!("new U {kk} {vv}"));
            let t = Ts::new(db, kk, PV(vv));
            let ff = interp(db, f, cx).0;
            let ss = interp(db, s, cx).0;
            if ff % 2 == 1 {
                spec::specify(db, t, ss);
            }
            (vv, Some(t), None)
        }
        E::Mk(k, v, f, s) => {
            let kk = interp(db, k, cx).0 % 2;
            let vv = interp(db, v, cx).0;
            let ff = interp(db, f, cx).0;
            let ss = interp(db, s, cx).0;
            // field values for `svdriver structs` (no-op unless a trace is being recorded)
            salsa::verif_hooks::trace::note(&format!("new U {kk} {vv}"));
            let t = Ts::new(db, kk, PV(vv));
            if ff % 2 == 1 {
                spec::specify(db, t, ss);
            }
            (vv, Some(t), None)
        }
        E::TsV(a) => {
            let h = interp(db, a, cx);
            n(h.1.map(|t| t.v(db).0).unwrap_or(h.0))
        }
        E::TsK(a) => {
            let h = interp(db, a, cx);
            n(h.1.map(|t| t.k(db)).unwrap_or(h.0))
        }
        E::OnTs(a) => {
            let h = interp(db, a, cx);
            n(h.1.map(|t| on_ts(db, t)).unwrap_or(h.0))
        }
        E::Spec(a) => {
            let h = interp(db, a, cx);
            n(h.1.map(|t| spec(db, t)).unwrap_or(h.0))
        }
        E::Intern(a) => {
            let h = interp(db, a, cx);
            // the interned value also depends on input 0 so that values come and go over a history
            (h.0, None, Some(Sym::new(db, CH((h.0 + 4 * read_in(db, 0)) % 16))))
        }
        E::SymF(a) => {
            let h = interp(db, a, cx);
            n(h.2.map(|s| s.f(db).0).unwrap_or(h.0))
        }
        E::OnSym(a) => {
            let h = interp(db, a, cx);
            n(h.2.map(|s| on_sym(db, s)).unwrap_or(h.0))
        }
        E::Two(j, a) => {
            let x = interp(db, a, cx).0 % 4;
            let k = db.env().keys.get().unwrap()[*j % db.env().keys.get().unwrap().len()];
            n(two(db, k, x))
        }
        E::Push(a) => {
            use salsa::Accumulator;
            let v = interp(db, a, cx);
            Acc(v.0).accumulate(db);
            n(v.0)
        }
        E::SelfK => n(match cx {
            Cx::Ts(k, _) => k,
            _ => 0,
        }),
        E::SelfV => n(match cx {
            Cx::Ts(_, v) => v,
            _ => 0,
        }),
        E::Arg => n(match cx {
            Cx::Arg(x) => x,
            _ => 0,
        }),
    }
}

fn body<'db>(db: &'db dyn PDb, k: Key) -> V<'db> {
    tick_body(db);
    let q = k.idx(db) as usize;
    interp(db, &db.env().prog.nodes[q].1, Cx::Node)
}

#[salsa::tracked(returns(copy))]
fn plain<'db>(db: &'db dyn PDb, k: Key) -> V<'db> {
    body(db, k)
}
#[salsa::tracked(returns(copy), no_eq)]
fn noeq<'db>(db: &'db dyn PDb, k: Key) -> V<'db> {
    body(db, k)
}
/// every retained value of `lru` counts 1 in `memory_usage()` (evicted memos count 0)
fn one_per_value(_v: &V<'_>) -> usize {
    1
}
#[salsa::tracked(returns(copy), lru = 2, heap_size = one_per_value)]
fn lru<'db>(db: &'db dyn PDb, k: Key) -> V<'db> {
    body(db, k)
}
#[salsa::tracked(returns(copy))]
fn on_ts<'db>(db: &'db dyn PDb, t: Ts<'db>) -> u32 {
    tick_body(db);
    let (k, v) = (t.k(db), t.v(db).0);
    interp(db, &db.env().prog.on_ts, Cx::Ts(k, v)).0
}
#[salsa::tracked(returns(copy), specify)]
fn spec<'db>(db: &'db dyn PDb, t: Ts<'db>) -> u32 {
    tick_body(db);
    let (k, v) = (t.k(db), t.v(db).0);
    interp(db, &db.env().prog.spec, Cx::Ts(k, v)).0
}
#[salsa::tracked(returns(copy))]
fn on_sym<'db>(db: &'db dyn PDb, s: Sym<'db>) -> u32 {
    tick_body(db);
    let f = s.f(db).0;
    interp(db, &db.env().prog.on_sym, Cx::Arg(f)).0
}
#[salsa::tracked(returns(copy))]
fn two<'db>(db: &'db dyn PDb, _k: Key, x: u32) -> u32 {
    tick_body(db);
    interp(db, &db.env().prog.two, Cx::Arg(x)).0
}

// cyclic kinds: values are 8-bit sets (u32 < 256)
fn cbody(db: &dyn PDb, k: Key) -> u32 {
    tick_body(db);
    let q = k.idx(db) as usize;
    interp(db, &db.env().prog.nodes[q].1, Cx::Node).0 % 256
}
fn c_initial(_db: &dyn PDb, _id: salsa::Id, _k: Key) -> u32 {
    0
}
fn c_join(_db: &dyn PDb, _c: &salsa::Cycle, last: &u32, value: u32, _k: Key) -> u32 {
    *last | value
}
fn c_result(db: &dyn PDb, _id: salsa::Id, k: Key) -> u32 {
    FB_BASE + k.idx(db)
}
#[salsa::tracked(returns(copy), cycle_initial = c_initial)]
fn fix(db: &dyn PDb, k: Key) -> u32 {
    cbody(db, k)
}
#[salsa::tracked(returns(copy), cycle_fn = c_join, cycle_initial = c_initial)]
fn fixjoin(db: &dyn PDb, k: Key) -> u32 {
    cbody(db, k)
}
#[salsa::tracked(returns(copy), cycle_result = c_result)]
fn fb(db: &dyn PDb, k: Key) -> u32 {
    cbody(db, k)
}
#[salsa::tracked(returns(copy))]
fn nocyc(db: &dyn PDb, k: Key) -> u32 {
    cbody(db, k)
}

// ---------------------------------------------------------------------------------------------
// running a case on the implementation

const DURS: [Durability; 4] = [Durability::LOW, Durability::MEDIUM, Durability::HIGH, Durability::NEVER_CHANGE];

#[derive(Default)]
struct EvLog {
    raw: Vec<String>,
}

struct Runner {
    db: Db,
    events: Arc<Mutex<EvLog>>,
    ins: Vec<In>,
    keys: Vec<Key>,
    /// Debug string of a key id → node index
    key_of: HashMap<String, usize>,
    /// canonical ordinals for struct-keyed functions: id debug string → first-seen ordinal
    canon: HashMap<String, usize>,
    /// salsa `Id` (Debug form, with generation) of the tracked struct returned by the last `get`
    last_tsid: std::cell::RefCell<String>,
}

fn panic_class(p: &(dyn std::any::Any + Send)) -> String {
    if let Some(c) = p.downcast_ref::<salsa::Cancelled>() {
        return format!("cancelled:{:?}", c).to_lowercase();
    }
    let m = p.downcast_ref::<String>().cloned().or(p.downcast_ref::<&str>().map(|s| s.to_string())).unwrap_or_default();
    if m.contains("injected-panic") {
        "user".into()
    } else if m.contains("too many cycle iterations") {
        "too-many-iterations".into()
    } else if m.contains("dependency graph cycle") {
        "cycle".into()
    } else if m.contains("NEVER_CHANGE") || m.contains("never-changing") || m.contains("NeverChange") {
        "never-change".into()
    } else if m.contains("backdate") || m.contains("returned the same value, but the previous execution") {
        "backdate-violation".into()
    } else if m.contains("can only be used on") || m.contains("specify") {
        "specify".into()
    } else {
        format!("other:{}", m.chars().take(80).collect::<String>().replace(' ', "_").replace('\n', "_"))
    }
}

impl Runner {
    fn new(case: &Case) -> Runner {
        let events = Arc::new(Mutex::new(EvLog::default()));
        let env = Arc::new(DbEnv {
            prog: case.prog.clone(),
            inputs: OnceLock::new(),
            keys: OnceLock::new(),
            cells: Mutex::new(vec![0; case.prog.ncells]),
            inject_body: AtomicI64::new(-1),
            inject_event: AtomicI64::new(-1),
            inject_eq: AtomicI64::new(-1),
        });
        let ev2 = events.clone();
        let env2 = env.clone();
        let storage = salsa::Storage::new(Some(Box::new(move |e: salsa::Event| {
            use salsa::EventKind::*;
            let s = match &e.kind {
                WillExecute { database_key } => format!("X {:?}", database_key),
                DidValidateMemoizedValue { database_key } => format!("V {:?}", database_key),
                DidDiscard { key } => format!("D {:?}", key),
                WillDiscardStaleOutput { execute_key, output_key } => format!("S {:?} {:?}", execute_key, output_key),
                WillIterateCycle { database_key, iteration, .. } => format!("C {:?} {}", database_key, iteration),
                DidInternValue { key, .. } => format!("I {:?}", key),
                DidReuseInternedValue { key, .. } => format!("R {:?}", key),
                DidValidateInternedValue { key, .. } => format!("W {:?}", key),
                _ => return,
            };
            ev2.lock().unwrap().raw.push(s);
            let c = &env2.inject_event;
            let v = c.load(Ordering::Relaxed);
            if v > 0 {
                c.store(v - 1, Ordering::Relaxed);
                if v == 1 {
                    panic!("injected-panic event");
                }
            }
        })));
        let db = Db { storage, env: env.clone() };
        let nstruct = (case.prog.ninputs + 1) / 2;
        let mut ins = vec![];
        for s in 0..nstruct {
            let ia = case.init.get(2 * s).copied().unwrap_or((0, 0));
            let ib = case.init.get(2 * s + 1).copied().unwrap_or((0, 0));
            ins.push(
                In::builder(ia.0, ib.0)
                    .a_durability(DURS[ia.1 as usize])
                    .b_durability(DURS[ib.1 as usize])
                    .new(&db),
            );
        }
        let keys: Vec<Key> = (0..case.prog.nodes.len().max(2))
            .map(|k| Key::builder(k as u32).durability(Durability::NEVER_CHANGE).new(&db))
            .collect();
        env.inputs.set(ins.clone()).ok();
        env.keys.set(keys.clone()).ok();
        let mut key_of = HashMap::new();
        for (i, k) in keys.iter().enumerate() {
            use salsa::plumbing::AsId;
            key_of.insert(format!("{:?}", k.as_id()), i);
        }
        Runner { db, events, ins, keys, key_of, canon: HashMap::new(), last_tsid: Default::default() }
    }

    /// canonical event names: `X<q>` for node functions, `Xots#n` … for struct-keyed ones
    fn canon_events(&mut self) -> Vec<String> {
        let raw = std::mem::take(&mut self.events.lock().unwrap().raw);
        let mut out = vec![];
        for r in raw {
            let (tag, rest) = r.split_at(1);
            let rest = rest.trim();
            // rest looks like `plain(Id(3))` or, for S, two keys
            let mut names = vec![];
            for part in rest.split(' ') {
                let (name, id) = match part.find('(') {
                    Some(p) => (&part[..p], part[p + 1..].trim_end_matches(')').to_string() + ")"),
                    None => (part, String::new()),
                };
                let id = id.trim_end_matches(')').to_string() + ")";
                let id = id.replace("))", ")");
                match name {
                    "plain" | "noeq" | "lru" | "fix" | "fixjoin" | "fb" | "nocyc" => match self.key_of.get(&id) {
                        Some(q) => names.push(format!("{}", q)),
                        None => names.push(format!("{}?{}", name, id)),
                    },
                    _ if part.chars().all(|c| c.is_ascii_digit()) => names.push(part.to_string()),
                    _ => {
                        let n = self.canon.len();
                        let o = *self.canon.entry(format!("{}{}", name, id)).or_insert(n);
                        names.push(format!("{}#{}", name, o));
                    }
                }
            }
            out.push(format!("{}{}", tag, names.join(":")));
        }
        out
    }

    fn observe_val(&self, v: V<'_>) -> String {
        let mut s = format!("v={}", v.0);
        if let Some(t) = v.1 {
            write!(s, " ts={}:{}", t.k(&self.db), t.v(&self.db).0).unwrap();
            use salsa::plumbing::AsId;
            *self.last_tsid.borrow_mut() = format!("{:?}", t.as_id());
        }
        if let Some(y) = v.2 {
            write!(s, " sym={}", y.f(&self.db).0).unwrap();
        }
        s
    }

    fn arm_injection(&self) {
        let e = &self.db.env;
        EQ_TICK.with(|t| t.set(e.inject_eq.load(Ordering::Relaxed)));
        HASH_TICK.with(|t| t.set(HASH_ARMED.with(|a| a.get())));
    }
    fn disarm_injection(&self) {
        let e = &self.db.env;
        e.inject_body.store(-1, Ordering::Relaxed);
        e.inject_event.store(-1, Ordering::Relaxed);
        e.inject_eq.store(-1, Ordering::Relaxed);
        EQ_TICK.with(|t| t.set(-1));
        HASH_TICK.with(|t| t.set(-1));
        HASH_ARMED.with(|t| t.set(-1));
    }

    fn step(&mut self, op: &Op) -> String {
        let nq = self.db.env.prog.nodes.len();
        let r = match op {
            Op::Get(q) => {
                if *q >= nq {
                    return "bad-op".into();
                }
                self.arm_injection();
                let q = *q;
                let res = std::panic::catch_unwind(std::panic::AssertUnwindSafe(|| {
                    let v = call_node(&self.db, q);
                    self.observe_val(v)
                }));
                self.disarm_injection();
                match res {
                    Ok(s) => s,
                    Err(p) => format!("panic:{}", panic_class(&*p)),
                }
            }
            Op::Acc(q) => {
                if *q >= nq {
                    return "bad-op".into();
                }
                let k = self.keys[*q];
                let kind = self.db.env.prog.nodes[*q].0;
                self.arm_injection();
                let res = std::panic::catch_unwind(std::panic::AssertUnwindSafe(|| salsa::attach(&self.db, || {
                    let v: Vec<u32> = match kind {
                        Kind::Plain => plain::accumulated::<Acc>(&self.db, k).into_iter().map(|a| a.0).collect(),
                        Kind::NoEq => noeq::accumulated::<Acc>(&self.db, k).into_iter().map(|a| a.0).collect(),
                        Kind::Lru => lru::accumulated::<Acc>(&self.db, k).into_iter().map(|a| a.0).collect(),
                        _ => vec![],
                    };
                    format!("acc={}", if v.is_empty() { "-".to_string() } else { v.iter().map(|x| x.to_string()).collect::<Vec<_>>().join(",") })
                })));
                self.disarm_injection();
                match res {
                    Ok(s) => s,
                    Err(p) => format!("panic:{}", panic_class(&*p)),
                }
            }
            Op::Set(i, v, d) => {
                if *i >= self.db.env.prog.ninputs {
                    return "bad-op".into();
                }
                let x = self.ins[*i / 2];
                let (i, v, d) = (*i, *v, *d);
                let res = std::panic::catch_unwind(std::panic::AssertUnwindSafe(|| {
                    let db = &mut self.db;
                    match (i % 2, d) {
                        (0, None) => {
                            x.set_a(db).to(v);
                        }
                        (0, Some(d)) => {
                            x.set_a(db).with_durability(DURS[d as usize]).to(v);
                        }
                        (_, None) => {
                            x.set_b(db).to(v);
                        }
                        (_, Some(d)) => {
                            x.set_b(db).with_durability(DURS[d as usize]).to(v);
                        }
                    }
                }));
                match res {
                    Ok(()) => "ok".into(),
                    Err(p) => format!("panic:{}", panic_class(&*p)),
                }
            }
            Op::Synth(d) => {
                let d = *d;
                let res = std::panic::catch_unwind(std::panic::AssertUnwindSafe(|| {
                    self.db.synthetic_write(DURS[d as usize]);
                }));
                match res {
                    Ok(()) => "ok".into(),
                    Err(p) => format!("panic:{}", panic_class(&*p)),
                }
            }
            Op::Cell(c, v) => {
                if *c >= self.db.env.prog.ncells {
                    return "bad-op".into();
                }
                self.db.env.cells.lock().unwrap()[*c] = *v;
                "ok".into()
            }
            Op::LruCap(n) => {
                lru::set_lru_capacity(&mut self.db, *n);
                "ok".into()
            }
            Op::Evict => {
                self.db.trigger_lru_eviction();
                "ok".into()
            }
            Op::Inject(w, k) => {
                let e = &self.db.env;
                match w {
                    'b' => e.inject_body.store(*k as i64, Ordering::Relaxed),
                    'e' => e.inject_event.store(*k as i64, Ordering::Relaxed),
                    'q' => e.inject_eq.store(*k as i64, Ordering::Relaxed),
                    'h' => HASH_ARMED.with(|t| t.set(*k as i64)),
                    _ => return "bad-op".into(),
                }
                "ok".into()
            }
        };
        if let Some(class) = r.strip_prefix("panic:") {
            // for `svdriver structs`: the unwind reached the harness
            salsa::verif_hooks::trace::note(&format!("caught {class}"));
        }
        let ev = self.canon_events();
        match op {
            Op::Get(_) | Op::Acc(_) => format!("{} ev={}", r, if ev.is_empty() { "-".to_string() } else { ev.join(",") }),
            _ => {
                // writes: keep D/S events (discards at revision start), drop nothing else
                if ev.is_empty() { r } else { format!("{} ev={}", r, ev.join(",")) }
            }
        }
    }
}

/// Runs every case of an op file; one output line per input line (`ok` for header lines).
fn run_file(text: &str, out: &mut dyn std::io::Write, ids: &mut dyn std::io::Write, mut trace_out: Option<&mut dyn std::io::Write>, trace_cases: usize) {
    // header lines belong to the case that follows; we need whole cases, so parse all first
    let cases = match Case::parse_all(text) {
        Ok(c) => c,
        Err(e) => {
            eprintln!("parse error: {}", e);
            std::process::exit(2);
        }
    };
    for (case_no, case) in cases.iter().enumerate() {
        if case_no == trace_cases {
            trace_out = None;
        }
        let header = case.to_lines().len() - case.ops.len();
        for _ in 0..header {
            writeln!(out, "ok").unwrap();
            writeln!(ids, "-").unwrap();
        }
        if trace_out.is_some() {
            // `--trace-out`: record the tracked-struct protocol lines (class `ts`) of this case
            salsa::verif_hooks::trace::enable();
            salsa::verif_hooks::trace::set_struct_tracing(true);
        }
        let mut r = Runner::new(case);
        let has_lru = case.prog.nodes.iter().any(|n| n.0 == Kind::Lru);
        for op in &case.ops {
            r.last_tsid.borrow_mut().clear();
            salsa::verif_hooks::trace::note(&format!("op {}", op.to_line()));
            let line = r.step(op);
            writeln!(out, "{}", line).unwrap();
            let id = r.last_tsid.borrow().clone();
            if matches!(op, Op::Set(..) | Op::Synth(_) | Op::Evict) && has_lru {
                // side channel for the C05 bound: number of values of `lru` still cached right
                // after the revision started / eviction was triggered
                let info = <dyn salsa::Database>::memory_usage(&r.db);
                let n = info.queries.get("lru").and_then(|i| i.heap_size_of_fields()).unwrap_or(0);
                writeln!(ids, "ret={}", n).unwrap();
            } else {
                writeln!(ids, "{}", if id.is_empty() { "-" } else { &id }).unwrap();
            }
        }
        if let Some(w) = trace_out.as_mut() {
            salsa::verif_hooks::trace::disable();
            salsa::verif_hooks::trace::set_struct_tracing(false);
            writeln!(w, "reset").unwrap();
            for l in salsa::verif_hooks::trace::take() {
                if l.starts_with("ts ") || l.starts_with("note ") || l.starts_with("memo publish ") {
                    writeln!(w, "{l}").unwrap();
                }
            }
        }
    }
}

// ---------------------------------------------------------------------------------------------
// oracle: the property's own reference on the implementation's observations

struct OracleStats {
    cases: u64,
    gets: u64,
    nontrivial_cases: u64,
    failures: Vec<String>,
    hist: std::collections::BTreeMap<String, u64>,
    /// (case number, key) of every failure (written to `<impl>.failcases`)
    fail_cases: Vec<(usize, String)>,
}

fn fmt_rv(v: &RV) -> String {
    let mut s = format!("v={}", v.n);
    if let Some(t) = &v.ts {
        write!(s, " ts={}:{}", t.k, t.v).unwrap();
    }
    if let Some(y) = v.sym {
        write!(s, " sym={}", y).unwrap();
    }
    s
}

fn oracle_case(case: &Case, obs: &[&str], ids: &[&str], st: &mut OracleStats, case_no: usize, line0: usize) {
    let mut last_id: HashMap<(usize, u32, u32), String> = HashMap::new();
    fn core_expr(e: &E) -> bool {
        match e {
            E::C(_) | E::In(_) | E::Call(_) => true,
            E::Add(a, b) | E::Min(a, b) | E::Max(a, b) => core_expr(a) && core_expr(b),
            E::If(c, a, b) => core_expr(c) && core_expr(a) && core_expr(b),
            _ => false,
        }
    }
    let core_like = case.prog.nodes.iter().all(|(k, e)| *k == Kind::Plain && core_expr(e));
    let nn = case.prog.nodes.len();
    let mut snapshot: Vec<Option<Vec<u32>>> = vec![None; nn];
    let mut last_valid: Vec<usize> = vec![0; nn];
    let mut writes: Vec<(usize, usize, bool)> = vec![];
    let mut clock = 0usize;
    let mut changed_execs: Vec<Vec<usize>> = vec![vec![]; nn];
    let mut prev_val: Vec<Option<RV>> = vec![None; nn];
    let mut prev_dur: Vec<Option<u8>> = vec![None; nn];
    let has_lru = case.prog.nodes.iter().any(|n| n.0 == Kind::Lru);
    fn reads_tracked(e: &E) -> bool {
        match e {
            // (`sv` does not count: the tracked field of a struct created before its creator read
            // anything is itself NEVER_CHANGE)
            E::In(_) | E::Call(_) | E::Cell(_) => true,
            E::Add(a, b) | E::Min(a, b) | E::Max(a, b) | E::BOr(a, b) | E::BAnd(a, b) => reads_tracked(a) || reads_tracked(b),
            E::If(c, a, b) => reads_tracked(c) || reads_tracked(a) || reads_tracked(b),
            E::TsV(a) | E::TsK(a) | E::SymF(a) => reads_tracked(a),
            _ => false,
        }
    }
    fn late_mk(e: &E) -> bool {
        match e {
            E::Mk(k, v, f, s) => matches!(**k, E::C(n) if n >= 1000) || late_mk(v) || late_mk(f) || late_mk(s),
            E::Add(a, b) | E::Min(a, b) | E::Max(a, b) | E::BOr(a, b) | E::BAnd(a, b) => late_mk(a) || late_mk(b),
            E::If(c, a, b) => late_mk(c) || late_mk(a) || late_mk(b),
            E::TsV(a) | E::TsK(a) | E::OnTs(a) | E::Spec(a) | E::Intern(a) | E::SymF(a) | E::OnSym(a) | E::Two(_, a) | E::Push(a) => late_mk(a),
            _ => false,
        }
    }
    let spec_body_untracked = !reads_tracked(&case.prog.spec);
    let has_late_mk = case.prog.nodes.iter().any(|n| late_mk(&n.1));
    let mut lru_cap = 2usize; // `#[salsa::tracked(lru = 2)]`
    let mut lru_requested = vec![false; nn];
    let mut lru_executed = vec![false; nn];
    let mut lru_untracked = vec![false; nn];
    let mut poisoned_by_injection = false;
    let mut inputs: Vec<u32> = case.init.iter().map(|x| x.0).collect();
    let mut durs: Vec<u8> = case.init.iter().map(|x| x.1).collect();
    let mut cells = vec![0u32; case.prog.ncells];
    let cyclic = case.prog.nodes.iter().any(|n| n.0.cyclic());
    let mut nontrivial = false;
    // panics poison nothing that later ops may observe, except: after a panic in this revision
    // cyclic functions may answer with a propagated panic until the next revision (C15/C22)
    let mut poisoned_rev = false;
    let mut injected = false;
    // revision counter of the history and the revision of the first successful request (used to
    // recognise results that depend on the incremental history)
    let mut rev_no = 0u64;
    let mut first_value_rev: Option<u64> = None;
    // known finding C12/kf2 is recognised by its mechanism, not by "some later value is wrong":
    // a node that was a cycle member when it last executed and has been re-VALIDATED (event V,
    // no execution) in the current revision
    let mut kf1_tainted = false;
    let mut member_at_last_exec = vec![false; nn];
    let mut validated_in_rev = vec![false; nn];
    let mut fail = |st: &mut OracleStats, i: usize, msg: String| {
        // keep the first few failures of every distinct key (so that a rare key is never hidden
        // behind a frequent one) and count all of them per key
        let key = msg.split(' ').next().unwrap_or("key=?").to_string();
        st.fail_cases.push((case_no, key.clone()));
        let c = st.hist.entry(format!("fail:{}", key)).or_default();
        *c += 1;
        if *c <= 3 {
            st.failures.push(format!("case={} op#{} line={} `{}`: {}", case_no, i, line0 + i + 1, case.ops[i].to_line(), msg));
        } else {
            st.failures.push(String::new());
        }
    };
    for (i, (op, o)) in case.ops.iter().zip(obs.iter()).enumerate() {
        let main = o.split(" ev=").next().unwrap_or("");
        let evs: Vec<&str> = o.split(" ev=").nth(1).map(|e| if e == "-" { vec![] } else { e.split(',').collect() }).unwrap_or_default();
        for e in &evs {
            *st.hist.entry(e[..1].to_string()).or_default() += 1;
        }
        if evs.iter().any(|e| e.starts_with('V') || e.starts_with('D') || e.starts_with('R')) {
            nontrivial = true;
        }
        if cyclic {
            if matches!(op, Op::Set(..) | Op::Synth(_)) {
                validated_in_rev.iter_mut().for_each(|v| *v = false);
            }
            if evs.iter().any(|e| e.starts_with('X') || e.starts_with('V')) {
                let (on_cycle, _) = cycle_info(&Env { prog: &case.prog, inputs: &inputs, cells: &cells });
                for e in &evs {
                    let (tag, rest) = e.split_at(1);
                    let Ok(x) = rest.parse::<usize>() else { continue };
                    if x >= nn {
                        continue;
                    }
                    if tag == "X" {
                        member_at_last_exec[x] = on_cycle[x];
                        validated_in_rev[x] = false;
                    } else if tag == "V" {
                        validated_in_rev[x] = true;
                    }
                }
            }
        }
        // C03 monitor (core fragment): every WillExecute must be justified by a change recorded by
        // this harness since the function's last validation (its last X or V event): an input field
        // it read was written, or a function it called re-executed with a value differing from its
        // previous one (or the write changed a durability: "became less durable").
        if core_like && !poisoned_by_injection {
            for e in &evs {
                clock += 1;
                let (tag, rest) = e.split_at(1);
                let Ok(x) = rest.parse::<usize>() else { continue };
                if tag == "V" {
                    last_valid[x] = clock;
                } else if tag == "X" {
                    let now = Ref::new(Env { prog: &case.prog, inputs: &inputs, cells: &cells }).node(x);
                    if let Some(snap) = &snapshot[x] {
                        let (reads, callees) = Ref::new(Env { prog: &case.prog, inputs: snap, cells: &cells }).direct_deps(x);
                        let since = last_valid[x];
                        let ok = writes.iter().any(|w| w.0 > since && (reads.contains(&w.1) || w.2))
                            || callees.iter().any(|d| changed_execs[*d].iter().any(|t| *t > since));
                        if !ok {
                            fail(st, i, format!("key=unjustified-execution node {} re-executed although no input it read (fields {:?}) was written and no function it called ({:?}) produced a different value since its last validation", x, reads, callees));
                        } else {
                            *st.hist.entry("exec-justified".into()).or_default() += 1;
                        }
                    }
                    // durability of the new result = minimum over everything it (transitively) read
                    fn node_dur(prog: &Prog, inputs: &[u32], cells: &[u32], durs: &[u8], q: usize) -> u8 {
                        let (reads, callees) = Ref::new(Env { prog, inputs, cells }).direct_deps(q);
                        let mut d = 3u8;
                        for r in reads {
                            d = d.min(durs[r]);
                        }
                        for c in callees {
                            d = d.min(node_dur(prog, inputs, cells, durs, c));
                        }
                        d
                    }
                    let now_dur = node_dur(&case.prog, &inputs, &cells, &durs, x);
                    if prev_val[x].as_ref() != Some(&now) || prev_dur[x].is_some_and(|p| now_dur < p) {
                        changed_execs[x].push(clock);
                    }
                    prev_dur[x] = Some(now_dur);
                    prev_val[x] = Some(now);
                    snapshot[x] = Some(inputs.clone());
                    last_valid[x] = clock;
                }
            }
        }
        // C05 bound monitor: right after a new revision starts or eviction is triggered, at most
        // `capacity` results of the lru function that were requested while eviction was continuously
        // enabled and computed from fully tracked dependencies remain cached
        if has_lru && !cyclic {
            let is_lru = |q: usize| case.prog.nodes[q].0 == Kind::Lru;
            match op {
                Op::Get(_) | Op::Acc(_) => {
                    let root = match op {
                        Op::Get(q) | Op::Acc(q) => *q,
                        _ => 0,
                    };
                    if lru_cap > 0 && main.starts_with(|c: char| c == 'v' || c == 'a') && is_lru(root) {
                        lru_requested[root] = true;
                    }
                    for e in &evs {
                        if let Some(x) = e.strip_prefix('X').and_then(|r| r.parse::<usize>().ok()) {
                            if is_lru(x) {
                                lru_executed[x] = true;
                                lru_untracked[x] = Ref::new(Env { prog: &case.prog, inputs: &inputs, cells: &cells }).direct_untracked(x);
                            }
                            if lru_cap > 0 {
                                let (_, callees) = Ref::new(Env { prog: &case.prog, inputs: &inputs, cells: &cells }).direct_deps(x);
                                for c in callees {
                                    if is_lru(c) {
                                        lru_requested[c] = true;
                                    }
                                }
                            }
                        }
                    }
                }
                Op::LruCap(n) => {
                    if *n == 0 {
                        for r in lru_requested.iter_mut() {
                            *r = false;
                        }
                    }
                    lru_cap = *n;
                }
                Op::Set(..) | Op::Synth(_) | Op::Evict => {
                    if let Some(r) = ids.get(i).and_then(|s| s.strip_prefix("ret=")).and_then(|s| s.parse::<usize>().ok()) {
                        if lru_cap > 0 && !poisoned_by_injection {
                            let exempt = (0..nn).filter(|q| is_lru(*q) && lru_executed[*q] && (lru_untracked[*q] || !lru_requested[*q])).count();
                            if r > lru_cap + exempt {
                                fail(st, i, format!("key=lru-bound {} results of the lru function remain cached right after `{}` with capacity {} ({} exempt: untracked or not requested since eviction was enabled)", r, op.to_line(), lru_cap, exempt));
                            } else if r > 0 {
                                *st.hist.entry("lru-bound-checked".into()).or_default() += 1;
                            }
                        }
                    }
                }
                _ => {}
            }
        }
        if let Op::Set(idx, _, d) = op {
            // (time, field, durability explicitly given — a durability change may justify
            // re-execution of readers: "became less durable")
            if durs[*idx] != 3 {
                clock += 1;
                writes.push((clock, *idx, d.is_some()));
            }
        }
        if !cyclic {
            for e in &evs {
                if let Some(x) = e.strip_prefix('X').and_then(|r| r.parse::<usize>().ok()) {
                    let live = Ref::new(Env { prog: &case.prog, inputs: &inputs, cells: &cells }).created_by(x);
                    last_id.retain(|k, _| k.0 != x || live.contains(&(k.1, k.2)));
                }
            }
        }
        match op {
            Op::Inject(_, k) => {
                injected = *k > 0;
                poisoned_by_injection = poisoned_by_injection || injected;
            }
            Op::Set(idx, v, d) => {
                if durs[*idx] == 3 {
                    if main != "panic:never-change" {
                        fail(st, i, format!("key=never-change-write got `{}` (must panic)", main));
                    }
                } else {
                    if main != "ok" {
                        fail(st, i, format!("key=write-failed `{}`", main));
                    }
                    inputs[*idx] = *v;
                    if let Some(d) = d {
                        durs[*idx] = *d;
                    }
                }
                poisoned_rev = false;
                rev_no += 1;
            }
            Op::Synth(d) => {
                if *d == 3 {
                    if main != "panic:never-change" {
                        fail(st, i, format!("key=never-change-synth got `{}` (must panic)", main));
                    }
                } else if main != "ok" {
                    fail(st, i, format!("key=synth-failed `{}`", main));
                }
                poisoned_rev = false;
                rev_no += 1;
            }
            Op::Cell(c, v) => cells[*c] = *v,
            Op::LruCap(_) | Op::Evict => {}
            Op::Get(q) => {
                st.gets += 1;
                let env = Env { prog: &case.prog, inputs: &inputs, cells: &cells };
                let fb_seen_in_earlier_rev = first_value_rev.is_some_and(|r| r < rev_no);
                if main.starts_with("v=") && first_value_rev.is_none() {
                    first_value_rev = Some(rev_no);
                }
                if injected {
                    // C22: the panic must reach the caller (or the op completes if the k-th user
                    // call is never reached); either way nothing to compare here
                    if main.starts_with("panic:") && main != "panic:user" && !main.starts_with("panic:cancelled") {
                        fail(st, i, format!("key=inject-class injected user panic surfaced as `{}`", main));
                    }
                    if main.starts_with("panic:") {
                        poisoned_rev = true;
                        *st.hist.entry("injected-panic-hit".into()).or_default() += 1;
                    }
                    injected = false;
                    if main.starts_with("panic:") {
                        continue;
                    }
                }
                if main == "panic:backdate-violation" {
                    // salsa's own debug-build consistency panic on a deterministic, fully tracked
                    // program: the request panics instead of returning the from-scratch value
                    fail(st, i, format!("key=backdate-violation-panic request of a deterministic program panicked: `{}`", main));
                    poisoned_rev = true;
                    continue;
                }
                if cyclic {
                    let want = &cyclic_reference(&env, 200)[*q];
                    let ok = match want {
                        Outcome::Val(v) => main == fmt_rv(v),
                        Outcome::PanicCycle => main == "panic:cycle" || (poisoned_rev && main.starts_with("panic:cancelled")),
                        Outcome::PanicTooMany => main == "panic:too-many-iterations" || (poisoned_rev && main.starts_with("panic:cancelled")),
                        Outcome::PanicOther(_) => main.starts_with("panic:"),
                        Outcome::ValOrPanicCycle(v) => {
                            main == fmt_rv(v) || main == "panic:cycle" || (poisoned_rev && main.starts_with("panic:cancelled"))
                        }
                        Outcome::Unconstrained => {
                            main.starts_with("v=") || main == "panic:too-many-iterations" || main == "panic:cycle" || (poisoned_rev && main.starts_with("panic:cancelled"))
                        }
                    };
                    if main.starts_with("panic:") {
                        poisoned_rev = true;
                    }
                    if !ok {
                        // classify: a fallback-cycle participant that was recomputed after the
                        // cycle's head had already been finalised returns its body's value over the
                        // finalised results instead of its own fallback (known finding C13/kf1)
                        let mut key = "cyclic-value";
                        // known finding C12/kf2: a fixpoint participant keeps an incomplete
                        // (one-iteration-old) dependency set, is re-validated in a later revision
                        // and returns the value it had under EARLIER inputs (which then also flows into
                        // its readers); only requests in a LATER revision than the first successful
                        // one can be affected — first-revision evaluations are never excused
                        if main.starts_with("v=")
                            && matches!(want, Outcome::Val(_) | Outcome::ValOrPanicCycle(_))
                            && fb_seen_in_earlier_rev
                            && !case.prog.nodes.iter().any(|n| n.0 == Kind::Fb)
                            // kf2 is about PARTICIPANTS of multi-node cycles; a program whose only
                            // cycles are self-loops has none
                            && !selfloop_only(&case.prog)
                            && {
                                // some node in the cone of the request (the request included) was a
                                // cycle member when it last ran and has only been re-validated since
                                let (_, reach) = cycle_info(&env);
                                (0..nn).any(|z| (z == *q || reach[*q][z]) && member_at_last_exec[z] && validated_in_rev[z])
                            }
                        {
                            key = "fix-participant-stale-after-revalidation";
                        }
                        // once a request of this case has returned a kf1-wrong participant value, that value
                        // lives on in the memo table and — through backdating against it — can hide later real
                        // changes from readers even after the cycle is gone: later mismatches of the case are kf1's
                        if case.prog.nodes[*q].0 == Kind::Fb && main.starts_with("v=") && fb_seen_in_earlier_rev && (kf1_tainted || vh::prog::fallback_cone_has_cycle(&env)[*q]) {
                            // (the wrong participant value also propagates to its readers, so a
                            // value mismatch of a fallback program in a later revision has this key
                            // when the requested node is on a cycle or reaches one under the current
                            // inputs; first-revision evaluations are never excused, and neither is a
                            // node whose cone holds no cycle any more)
                            if let Outcome::Val(_) = want {
                                key = "fb-participant-after-revalidated-head";
                                kf1_tainted = true;
                            }
                        }
                        fail(st, i, format!("key={} got `{}` want {:?}", key, main, want));
                    }
                    // C15: no iteration number above 200 is ever announced
                    for e in &evs {
                        if let Some(rest) = e.strip_prefix('C') {
                            if rest.split(':').nth(1).and_then(|x| x.parse::<u32>().ok()).is_some_and(|n| n > 200) {
                                fail(st, i, format!("key=iteration-bound cycle iteration beyond the bound: {}", e));
                            }
                        }
                    }
                } else {
                    let wantv = Ref::new(Env { prog: &case.prog, inputs: &inputs, cells: &cells }).node(*q);
                    // C06 monitor: a creator that re-executed (X<q>) and no longer creates an
                    // identity forgets it; an identity that is still created keeps its salsa id
                    for e in &evs {
                        if let Some(x) = e.strip_prefix('X').and_then(|r| r.parse::<usize>().ok()) {
                            let live = Ref::new(Env { prog: &case.prog, inputs: &inputs, cells: &cells }).created_by(x);
                            last_id.retain(|k, _| k.0 != x || live.contains(&(k.1, k.2)));
                        }
                    }
                    if let (Some(t), Some(idl)) = (&wantv.ts, ids.get(i)) {
                        if main.starts_with("v=") && *idl != "-" {
                            let key = (t.creator, t.k, t.occ);
                            if let Some(old) = last_id.get(&key) {
                                // when the request's VALUE is already wrong through known finding kf3 (a stale
                                // specifiable-function result steering which struct is created), the reference's
                                // idea of "the same struct" does not apply: the value failure below reports it
                                let kf3_here = has_late_mk && first_value_rev.is_some_and(|r| r < rev_no) && main != fmt_rv(&wantv);
                                if old != idl && !kf3_here {
                                    fail(st, i, format!("key=struct-id-changed struct (creator {}, identity {}, occurrence {}) was recreated with the same identity but its id changed from {} to {}", t.creator, t.k, t.occ, old, idl));
                                } else {
                                    *st.hist.entry("struct-id-kept".into()).or_default() += 1;
                                }
                            }
                            last_id.insert(key, idl.to_string());
                        }
                    }
                    let want = fmt_rv(&wantv);
                    let _ = env;
                    if main != want {
                        if main.starts_with("panic:") {
                            fail(st, i, format!("key=unexpected-panic-{} got `{}` want `{}`", panic_slug(main), main, want));
                        } else if has_late_mk && first_value_rev.is_some_and(|r| r < rev_no) && {
                            // does some struct's specifiable-function body read no input at all
                            // (under the current or the statically visible reads)?
                            let mut untracked_body = spec_body_untracked;
                            for c in 0..nn {
                                let rv = Ref::new(Env { prog: &case.prog, inputs: &inputs, cells: &cells }).node(c);
                                if let Some(t) = &rv.ts {
                                    // (reads of NEVER_CHANGE fields leave the memo NEVER_CHANGE too)
                                    if Ref::new(Env { prog: &case.prog, inputs: &inputs, cells: &cells }).spec_reads(t).iter().all(|r| durs[*r] == 3) {
                                        untracked_body = true;
                                    }
                                }
                            }
                            untracked_body
                        } {
                            // known finding C10/kf3: the specifiable function's body reads nothing
                            // tracked (its computed memo is NEVER_CHANGE, so readers record no edge
                            // to it) and a creator whose struct exists before it reads anything
                            // starts / stops specifying in a later revision
                            fail(st, i, format!("key=specify-over-never-change-computed got `{}` want `{}`", main, want));
                        } else {
                            fail(st, i, format!("key=value got `{}` want `{}`", main, want));
                        }
                    }
                }
            }
            Op::Acc(q) => {
                if injected {
                    injected = false;
                    if main.starts_with("panic:") {
                        if main != "panic:user" && !main.starts_with("panic:cancelled") {
                            fail(st, i, format!("key=inject-class injected user panic surfaced as `{}`", main));
                        }
                        *st.hist.entry("injected-panic-hit".into()).or_default() += 1;
                        continue;
                    }
                }
                // an `acc` request evaluates the function just like a `get`: it counts as the
                // first successful evaluation of the history (what later revisions are compared with)
                if main.starts_with("acc=") && first_value_rev.is_none() {
                    first_value_rev = Some(rev_no);
                }
                let env = Env { prog: &case.prog, inputs: &inputs, cells: &cells };
                let v = Ref::new(env).accumulated(*q);
                let want = format!("acc={}", if v.is_empty() { "-".to_string() } else { v.iter().map(|x| x.to_string()).collect::<Vec<_>>().join(",") });
                if !v.is_empty() {
                    *st.hist.entry("acc-nonempty".into()).or_default() += 1;
                }
                if main != want {
                    if main.starts_with("panic:") {
                        fail(st, i, format!("key=unexpected-panic-{} got `{}` want `{}`", panic_slug(main), main, want));
                    } else if has_late_mk && first_value_rev.is_some_and(|r| r < rev_no) && {
                        // same recognition of known finding C10/kf3 as for `get` (the stale reader of
                        // the specifiable function keeps its old pushes too)
                        let mut untracked_body = spec_body_untracked;
                        for c in 0..nn {
                            let rv = Ref::new(Env { prog: &case.prog, inputs: &inputs, cells: &cells }).node(c);
                            if let Some(t) = &rv.ts {
                                if Ref::new(Env { prog: &case.prog, inputs: &inputs, cells: &cells }).spec_reads(t).iter().all(|r| durs[*r] == 3) {
                                    untracked_body = true;
                                }
                            }
                        }
                        untracked_body
                    } {
                        fail(st, i, format!("key=specify-over-never-change-computed got `{}` want `{}`", main, want));
                    } else {
                        fail(st, i, format!("key=accumulated got `{}` want `{}`", main, want));
                    }
                }
            }
        }
    }
    st.cases += 1;
    if nontrivial {
        st.nontrivial_cases += 1;
    }
}

fn main() {
    let args = Args::from_env();
    let mode = args.0.first().cloned().unwrap_or_default();
    std::panic::set_hook(Box::new(|_| {}));
    match mode.as_str() {
        "gen" => {
            let mut r = Rng::new(args.num("--seed", 1));
            let f = std::fs::File::create(args.get("--out").expect("--out")).unwrap();
            let mut w = std::io::BufWriter::new(f);
            let mut seen = std::collections::HashSet::new();
            if args.get("--profile") == Some("inject") {
                // `--cases` counts base cases; every base case expands to all injection points
                let mut total = 0;
                for _ in 0..args.num("--cases", 10) {
                    for c in gen_inject_cases(&mut r, args.num("--kmax", 6) as u32) {
                        seen.insert(case_hash(&c));
                        total += 1;
                        for l in c.to_lines() {
                            writeln!(w, "{}", l).unwrap();
                        }
                    }
                }
                println!("GEN cases={} distinct={}", total, seen.len());
                return;
            }
            if let Some(fl) = args.get("--flavours") {
                let v: Vec<u8> = fl.split(',').filter_map(|x| x.parse().ok()).collect();
                CYCLE_FLAVOURS.with(|f| *f.borrow_mut() = v);
            }
            let p = Profile::parse(args.get("--profile").unwrap_or("core")).expect("profile");
            for _ in 0..args.num("--cases", 100) {
                let c = gen_case(&mut r, p);
                seen.insert(case_hash(&c));
                for l in c.to_lines() {
                    writeln!(w, "{}", l).unwrap();
                }
            }
            println!("GEN cases={} distinct={}", args.num("--cases", 100), seen.len());
        }
        "run" => {
            let text = std::fs::read_to_string(args.get("--ops").expect("--ops")).unwrap();
            let f = std::fs::File::create(args.get("--out").expect("--out")).unwrap();
            let mut w = std::io::BufWriter::new(f);
            // side channel (not part of the line protocol): salsa ids of returned tracked structs
            let g = std::fs::File::create(format!("{}.ids", args.get("--out").unwrap())).unwrap();
            let mut wi = std::io::BufWriter::new(g);
            // `--trace-out FILE`: hook trace (class `ts`) of every case, for `svdriver structs`
            let mut wt = args.get("--trace-out").map(|p| std::io::BufWriter::new(std::fs::File::create(p).unwrap()));
            run_file(&text, &mut w, &mut wi, wt.as_mut().map(|w| w as &mut dyn std::io::Write), args.num("--trace-cases", u64::MAX) as usize);
        }
        "oracle" => {
            let text = std::fs::read_to_string(args.get("--ops").expect("--ops")).unwrap();
            let imp = std::fs::read_to_string(args.get("--impl").expect("--impl")).unwrap();
            let cases = Case::parse_all(&text).expect("parse");
            let obs: Vec<&str> = imp.lines().collect();
            let idtext = std::fs::read_to_string(format!("{}.ids", args.get("--impl").unwrap())).unwrap_or_default();
            let idv: Vec<&str> = idtext.lines().collect();
            let mut st = OracleStats { cases: 0, gets: 0, nontrivial_cases: 0, failures: vec![], hist: Default::default(), fail_cases: vec![] };
            let mut pos = 0;
            for (n, case) in cases.iter().enumerate() {
                let header = case.to_lines().len() - case.ops.len();
                pos += header;
                let idslice: &[&str] = if idv.len() >= pos + case.ops.len() { &idv[pos..pos + case.ops.len()] } else { &[] };
                oracle_case(case, &obs[pos..pos + case.ops.len()], idslice, &mut st, n, pos);
                pos += case.ops.len();
            }
            for f in st.failures.iter().filter(|f| !f.is_empty()).take(20) {
                println!("ORACLE-FAIL {}", f);
            }
            {
                let mut s = String::new();
                for (c, k) in &st.fail_cases {
                    writeln!(s, "{} {}", c, k).unwrap();
                }
                let _ = std::fs::write(format!("{}.failcases", args.get("--impl").unwrap()), s);
            }
            println!(
                "ORACLE-SUMMARY cases={} gets={} nontrivial_cases={} failures={} hist={:?}",
                st.cases,
                st.gets,
                st.nontrivial_cases,
                st.failures.len(),
                st.hist
            );
            std::process::exit(if st.failures.is_empty() { 0 } else { 1 });
        }
        _ => {
            eprintln!("usage: seq gen|run|oracle ...");
            std::process::exit(2);
        }
    }
}

/// short stable name of an unexpected panic message (ids and numbers removed)
fn panic_slug(main: &str) -> String {
    let m = main.trim_start_matches("panic:").trim_start_matches("other:");
    let words: Vec<String> = m
        .split(|c: char| c == '_' || c == ':' || c == '(' || c == ')' || c == '`' || c == ',' || c == ';')
        .filter(|w| !w.is_empty() && w.chars().all(|c| c.is_ascii_alphabetic() || c == '-'))
        .take(4)
        .map(|w| w.to_lowercase())
        .collect();
    if words.is_empty() { "unknown".into() } else { words.join("-") }
}
