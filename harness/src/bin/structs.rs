//! `vh structs` — struct-heavy single-threaded histories on real salsa, recorded as hook traces of
//! the `ts` class (`salsa::verif_hooks::trace` + `set_struct_tracing`) for `svdriver structs`.
//!
//!   structs run --seed S --cases N --trace-file F     generate N cases, run them, write all traces
//!                                                     (each starts with `reset`) into F
//!   structs one --case-seed X [--keep i,j,…] [--trace]   run the single case X (only the listed history ops), print the
//!                                                     program, the ops with their results and the oracle verdicts
//!                                                     (`--trace`: the hook trace instead)
//!   structs demo-unwind                               reproducer: panic after an identity-changed update (DESIGN.md B.8)
//!
//! The harness tells the driver what it cannot see from inside salsa through `note` lines:
//!   note t0 case <n> seed <x>                 first line after `reset`
//!   note t0 prog …                            the generated program (human readable only)
//!   note t0 op <text>                         a history operation starts
//!   note t0 new <T|U> <k> <a> [<b>]           field values of the `new` call that follows
//!   note t0 eq-panic <n>                      the injected `PartialEq` panic; n tracked fields were
//!                                             already compared (and updated) in this `update`
//!   note t0 caught <class>                    the operation ended with a caught panic
//!
//! PROPERTY ORACLE (on the real results, independent of the hooks; `STRUCTS-FAIL case=<n> seed=<x> key=<key> …` lines and a
//! `STRUCTS-SUMMARY … failures=<failing cases>` line):
//!   duplicate-id  two `new` calls of one execution returned the same id, or an id (index, generation) was handed out for a
//!                 struct other than the one it was handed out for before (other creator / type / hash class / occurrence / k)
//!   readback      a field read through the returned handle (right after `new`, again at the end of the creator's body,
//!                 and at top level for the result of a creator request) is not the value passed to `new`
//!   value         a reader result / a creator's list of structs differs from the reference interpreter on the current inputs
//!   stale-memo    `on_ts(t)` / `on_us(u)` called right after `new` returned something else than the reference for the new fields
//!   id-changed    the creation with the same (type, hash class, occurrence) and the same identity value as in the creator's
//!                 previous completed execution got another id (not counted: a previous id at generation u32::MAX)
//!   abort-after-identity-change-stale-generation
//!                 any of the above AFTER a request was aborted by a panic during or after an identity-changed update
//!                 (recognised from the trace: `idchg=1`, or `update_unwind` without an injected PartialEq panic): listed finding kf4
//! The oracle is switched off for the rest of a case by the first `LeakRead` (a handle used outside its revision is a client error).
//!
//! Values: identity field `k` (type `CK`, hash class `k % hmod`: `hmod = 1` is a constant hash),
//! tracked fields `a`, `b` (type `PV`, user `PartialEq` that can be made to panic).
use salsa::plumbing::{AsId, FromId};
use salsa::{Database, Durability, Setter};
use std::cell::Cell;
use std::io::Write as _;
use std::sync::atomic::{AtomicI64, Ordering};
use std::sync::{Arc, OnceLock};
use vh::{Args, Rng};

use salsa::verif_hooks::trace;

const DURS: [Durability; 3] = [Durability::LOW, Durability::MEDIUM, Durability::HIGH];

thread_local! {
    static HMOD: Cell<u32> = const { Cell::new(1) };
    static EQ_TICK: Cell<i64> = const { Cell::new(-1) };
    static EQ_DONE: Cell<u32> = const { Cell::new(0) };
}

// ---------------------------------------------------------------------------------------------
// program

#[derive(Clone, Copy, Debug)]
enum Ex {
    C(u32),
    In(usize),
    InPlus(usize, u32),
}

#[derive(Clone, Debug)]
struct Mk {
    /// 0 = `Ts`, 1 = `Us`
    ty: u8,
    /// create only if `in[i] % 2 == c`
    cond: Option<(usize, u32)>,
    /// number of structs = `in[i] % 3` (None: 1)
    rep: Option<usize>,
    k: Ex,
    kstride: u32,
    a: Ex,
    b: Ex,
    /// call `on_ts` / `on_us` on the result
    call: bool,
    /// read the fields back inside the creator: bit 0 = a, bit 1 = b, bit 2 = k
    readback: u8,
}

#[derive(Clone, Debug)]
enum Step {
    Read(usize),
    Mk(Mk),
}

#[derive(Clone, Debug)]
struct Creator {
    lru: bool,
    steps: Vec<Step>,
}

#[derive(Clone, Debug)]
struct OnTs {
    reads_in: Option<usize>,
    /// nested `Us` structs: (count, k, a)
    nested: Option<(Ex, Ex, Ex)>,
    call_on_us: bool,
}

#[derive(Clone, Debug)]
struct Reader {
    creator: usize,
    fields: u8,
    call: bool,
}

#[derive(Clone, Debug)]
struct Prog {
    ni: usize,
    hmod: u32,
    creators: Vec<Creator>,
    on_ts: OnTs,
    readers: Vec<Reader>,
}

#[derive(Clone, Debug)]
enum Op {
    Set(usize, u32, Option<u8>),
    Bump,
    GetC(usize),
    GetR(usize),
    InjectEq(u32),
    InjectEv(u32),
    InjectBody(u32),
    Age(u32),
    LeakRead(usize, u8),
}

struct Case {
    prog: Prog,
    init: Vec<(u32, u8)>,
    ops: Vec<Op>,
}

fn gen_ex(r: &mut Rng, ni: usize) -> Ex {
    match r.below(5) {
        0 | 1 => Ex::C(r.below(4) as u32),
        2 | 3 => Ex::In(r.usize(ni)),
        _ => Ex::InPlus(r.usize(ni), 1 + r.below(3) as u32),
    }
}

fn gen_case(r: &mut Rng) -> Case {
    let ni = 2 + r.usize(3);
    let hmod = *r.pick(&[1u32, 1, 2, 2, 1000]);
    let nc = 1 + r.usize(3);
    let mut creators = vec![];
    for _ in 0..nc {
        let mut steps = vec![];
        for _ in 0..1 + r.usize(4) {
            if r.chance(1, 4) {
                steps.push(Step::Read(r.usize(ni)));
            } else {
                steps.push(Step::Mk(Mk {
                    ty: if r.chance(1, 4) { 1 } else { 0 },
                    cond: if r.chance(1, 3) { Some((r.usize(ni), r.below(2) as u32)) } else { None },
                    rep: if r.chance(1, 3) { Some(r.usize(ni)) } else { None },
                    k: gen_ex(r, ni),
                    kstride: r.below(3) as u32,
                    a: gen_ex(r, ni),
                    b: gen_ex(r, ni),
                    call: r.chance(1, 2),
                    readback: if r.chance(1, 3) { r.below(8) as u8 } else { 0 },
                }));
            }
        }
        creators.push(Creator { lru: r.chance(1, 3), steps });
    }
    let on_ts = OnTs {
        reads_in: if r.chance(1, 2) { Some(r.usize(ni)) } else { None },
        nested: if r.chance(1, 2) { Some((gen_ex(r, ni), gen_ex(r, ni), gen_ex(r, ni))) } else { None },
        call_on_us: r.chance(1, 2),
    };
    let nr = 1 + r.usize(2);
    let readers = (0..nr).map(|_| Reader { creator: r.usize(nc), fields: 1 + r.below(7) as u8, call: r.chance(1, 2) }).collect();
    let prog = Prog { ni, hmod, creators, on_ts, readers };
    let init = (0..ni).map(|_| (r.below(4) as u32, r.below(3) as u8)).collect();
    let mut ops = vec![];
    let aging = r.chance(1, 4);
    let leaky = r.chance(1, 4);
    let panicky = r.chance(1, 3);
    for _ in 0..6 + r.usize(14) {
        let x = r.below(100);
        if x < 30 {
            ops.push(Op::Set(r.usize(ni), r.below(4) as u32, if r.chance(1, 6) { Some(r.below(3) as u8) } else { None }));
        } else if x < 34 {
            ops.push(Op::Bump);
        } else if x < 58 {
            ops.push(Op::GetC(r.usize(nc)));
        } else if x < 80 {
            ops.push(Op::GetR(r.usize(nr)));
        } else if x < 88 && panicky {
            // change an input, arm one injection, then demand something
            ops.push(Op::Set(r.usize(ni), r.below(4) as u32, None));
            ops.push(match r.below(5) {
                0 | 1 | 2 => Op::InjectEq(1 + r.below(3) as u32),
                3 => Op::InjectEv(1 + r.below(3) as u32),
                _ => Op::InjectBody(1 + r.below(4) as u32),
            });
            ops.push(if r.chance(1, 2) { Op::GetC(r.usize(nc)) } else { Op::GetR(r.usize(nr)) });
        } else if x < 94 && aging {
            ops.push(Op::Age(u32::MAX - *r.pick(&[1u32, 1, 1, 2, 0])));
        } else if x < 98 && leaky {
            if r.chance(1, 2) {
                ops.push(Op::Set(r.usize(ni), r.below(4) as u32, None));
            }
            ops.push(Op::LeakRead(r.usize(4), r.below(3) as u8));
        } else {
            ops.push(Op::GetC(r.usize(nc)));
        }
    }
    Case { prog, init, ops }
}

// ---------------------------------------------------------------------------------------------
// property oracle: reference interpreter + id bookkeeping

fn ev_ref(e: Ex, inputs: &[u32]) -> u32 {
    match e {
        Ex::C(c) => c % 4,
        Ex::In(i) => inputs[i] % 4,
        Ex::InPlus(i, c) => (inputs[i] + c) % 4,
    }
}

/// the structs creator `c` makes on the given inputs: (type, k, a, b, call)
fn ref_creator(p: &Prog, inputs: &[u32], c: usize) -> Vec<(u8, u32, u32, u32, bool)> {
    let mut out = vec![];
    for s in &p.creators[c].steps {
        if let Step::Mk(m) = s {
            if let Some((i, want)) = m.cond {
                if inputs[i] % 2 != want {
                    continue;
                }
            }
            let n = match m.rep {
                Some(i) => inputs[i] % 3,
                None => 1,
            };
            for j in 0..n {
                out.push((m.ty, (ev_ref(m.k, inputs) + j * m.kstride) % 6, ev_ref(m.a, inputs), ev_ref(m.b, inputs), m.call));
            }
        }
    }
    out
}

fn ref_on_us(k: u32, a: u32) -> u32 {
    a + k
}

fn ref_on_ts(p: &Prog, inputs: &[u32], k: u32, a: u32) -> u32 {
    let mut r = a;
    if let Some(i) = p.on_ts.reads_in {
        r += inputs[i];
    }
    if let Some((n, kx, ax)) = p.on_ts.nested {
        let n = (ev_ref(n, inputs) + k) % 3;
        for j in 0..n {
            if p.on_ts.call_on_us {
                r += ref_on_us((ev_ref(kx, inputs) + j) % 6, ev_ref(ax, inputs));
            }
        }
    }
    r % 16
}

fn ref_reader(p: &Prog, inputs: &[u32], r: usize) -> u32 {
    let rd = &p.readers[r];
    let mut v = 0;
    for (ty, k, a, b, _) in ref_creator(p, inputs, rd.creator) {
        if ty == 0 {
            if rd.fields & 1 != 0 {
                v += a;
            }
            if rd.fields & 2 != 0 {
                v += b;
            }
            if rd.fields & 4 != 0 {
                v += k;
            }
            if rd.call {
                v += ref_on_ts(p, inputs, k, a);
            }
        } else {
            if rd.fields & 1 != 0 {
                v += a;
            }
            if rd.call {
                v += ref_on_us(k, a);
            }
        }
    }
    v % 64
}

#[derive(Clone, Copy, PartialEq, Eq, Hash, Debug)]
enum FrameKey {
    Creator(usize),
    OnTs(salsa::Id),
}

/// one `new` call of an execution; `occ` = earlier creations of the same (type, hash class) in that execution
#[derive(Clone, Copy, Debug)]
struct Made {
    ty: u8,
    k: u32,
    a: u32,
    b: u32,
    occ: u32,
    id: salsa::Id,
}

#[derive(Default)]
struct Oracle {
    off: bool,
    tainted: bool,
    op_no: usize,
    inputs: Vec<u32>,
    stack: Vec<(FrameKey, Vec<Made>)>,
    /// the creations of the last COMPLETED execution of a creator
    last: std::collections::HashMap<FrameKey, Vec<Made>>,
    /// id -> (creator, type, hash class, occurrence, k) it was handed out for
    owner: std::collections::HashMap<salsa::Id, (FrameKey, u8, u32, u32, u32)>,
    fails: Vec<(String, String)>,
}

impl Oracle {
    fn fail(&mut self, key: &str, what: String) {
        if self.off {
            return;
        }
        let key = if self.tainted { "abort-after-identity-change-stale-generation" } else { key };
        if self.fails.len() < 8 {
            self.fails.push((key.to_string(), format!("op#{} {}", self.op_no, what)));
        }
    }
}

fn oracle(db: &dyn PDb) -> std::sync::MutexGuard<'_, Oracle> {
    db.env().oracle.lock().unwrap_or_else(|e| e.into_inner())
}

/// pops the frame if the body unwinds (a completed body pops it itself in `frame_end`)
struct FrameGuard<'a> {
    db: &'a dyn PDb,
    depth: usize,
}

impl Drop for FrameGuard<'_> {
    fn drop(&mut self) {
        oracle(self.db).stack.truncate(self.depth);
    }
}

fn frame_begin<'a>(db: &'a dyn PDb, key: FrameKey) -> FrameGuard<'a> {
    let mut o = oracle(db);
    let depth = o.stack.len();
    o.stack.push((key, vec![]));
    FrameGuard { db, depth }
}

fn read_fields(db: &dyn PDb, m: &Made) -> (u32, u32, u32) {
    if m.ty == 0 {
        let t = Ts::from_id(m.id);
        (t.k(db).0, t.a(db).0, t.b(db).0)
    } else {
        let u = Us::from_id(m.id);
        (u.k(db).0, u.a(db).0, m.b)
    }
}

fn check_readback(db: &dyn PDb, m: &Made, when: &str) {
    if oracle(db).off {
        return;
    }
    let got = read_fields(db, m);
    if got != (m.k, m.a, m.b) {
        oracle(db).fail(
            "readback",
            format!("{when}: struct {:?} (type {}) created with k={} a={} b={} reads k={} a={} b={}", m.id, m.ty, m.k, m.a, m.b, got.0, got.1, got.2),
        );
    }
}

/// bookkeeping + checks (a), (b) for the struct just returned by `new`
fn made(db: &dyn PDb, ty: u8, k: u32, a: u32, b: u32, id: salsa::Id) {
    let class = k % HMOD.with(|h| h.get());
    let m = {
        let mut o = oracle(db);
        let Some((key, list)) = o.stack.last().cloned() else { return };
        let occ = list.iter().filter(|x| x.ty == ty && x.k % HMOD.with(|h| h.get()) == class).count() as u32;
        let m = Made { ty, k, a, b, occ, id };
        if let Some(prev) = list.iter().find(|x| x.id == id) {
            o.fail("duplicate-id", format!("two `new` calls of one execution of {key:?} returned {id:?}: (type {} k={}) and (type {ty} k={k})", prev.ty, prev.k));
        }
        let tuple = (key, ty, class, occ, k);
        match o.owner.get(&id).copied() {
            Some(t) if t != tuple => o.fail("duplicate-id", format!("{id:?} handed out for {tuple:?} was handed out for {t:?} before")),
            Some(_) => {}
            None => {
                o.owner.insert(id, tuple);
            }
        }
        o.stack.last_mut().unwrap().1.push(m);
        m
    };
    check_readback(db, &m, "right after new");
}

/// end of a completed body: checks (b) again and (d), then records the execution
fn frame_end(db: &dyn PDb) {
    let Some((key, list)) = oracle(db).stack.last().cloned() else { return };
    for m in &list {
        check_readback(db, m, "at the end of the body");
    }
    let mut o = oracle(db);
    if let Some(prev) = o.last.get(&key).cloned() {
        for m in &list {
            let class = |x: &Made| x.k % HMOD.with(|h| h.get());
            if let Some(p) = prev.iter().find(|p| p.ty == m.ty && class(p) == class(m) && p.occ == m.occ) {
                if p.k == m.k && p.id != m.id && p.id.generation() != u32::MAX {
                    o.fail(
                        "id-changed",
                        format!("{key:?}: creation (type {} k={} occurrence {}) had {:?} in the previous execution and has {:?} now", m.ty, m.k, m.occ, p.id, m.id),
                    );
                }
            }
        }
    }
    o.last.insert(key, list);
    o.stack.pop();
}

fn check_call(db: &dyn PDb, what: &str, id: salsa::Id, got: u32, want: u32) {
    if got != want {
        oracle(db).fail("stale-memo", format!("{what}({id:?}) = {got}, reference for the fields just passed to `new` = {want}"));
    }
}

// ---------------------------------------------------------------------------------------------
// salsa items

struct DbEnv {
    prog: Prog,
    inputs: OnceLock<Vec<In>>,
    keys: OnceLock<Vec<Key>>,
    inject_body: AtomicI64,
    inject_event: AtomicI64,
    oracle: std::sync::Mutex<Oracle>,
}

#[salsa::db]
trait PDb: salsa::Database {
    fn env(&self) -> &DbEnv;
}

#[salsa::db]
#[derive(Clone)]
struct Db {
    storage: salsa::Storage<Self>,
    env: Arc<DbEnv>,
}

#[salsa::db]
impl salsa::Database for Db {}

#[salsa::db]
impl PDb for Db {
    fn env(&self) -> &DbEnv {
        &self.env
    }
}

#[salsa::input]
struct In {
    #[returns(copy)]
    v: u32,
}

#[salsa::input]
struct Key {
    #[returns(copy)]
    idx: u32,
}

/// identity field: hash class `k % hmod` (`hmod = 1`: constant hash, every identity collides)
#[derive(Clone, Copy, Debug, PartialEq, Eq, salsa::SalsaValue)]
struct CK(u32);
impl std::hash::Hash for CK {
    fn hash<H: std::hash::Hasher>(&self, state: &mut H) {
        state.write_u32(self.0 % HMOD.with(|h| h.get()));
    }
}

/// tracked field whose `PartialEq` is user code that can be made to panic
#[derive(Clone, Copy, Debug, Hash, salsa::SalsaValue)]
struct PV(u32);
impl PartialEq for PV {
    fn eq(&self, other: &Self) -> bool {
        EQ_TICK.with(|t| {
            let v = t.get();
            if v > 0 {
                t.set(v - 1);
                if v == 1 {
                    trace::note(&format!("eq-panic {}", EQ_DONE.with(|d| d.get())));
                    panic!("injected-panic eq");
                }
            }
        });
        EQ_DONE.with(|d| d.set(d.get() + 1));
        self.0 == other.0
    }
}
impl Eq for PV {}

#[salsa::tracked]
struct Ts<'db> {
    #[returns(copy)]
    k: CK,
    #[tracked]
    #[returns(copy)]
    a: PV,
    #[tracked]
    #[returns(copy)]
    b: PV,
}

#[salsa::tracked]
struct Us<'db> {
    #[returns(copy)]
    k: CK,
    #[tracked]
    #[returns(copy)]
    a: PV,
}

type Out<'db> = Vec<(Option<Ts<'db>>, Option<Us<'db>>)>;

fn tick_body(db: &dyn PDb) {
    let c = &db.env().inject_body;
    let v = c.load(Ordering::Relaxed);
    if v > 0 {
        c.store(v - 1, Ordering::Relaxed);
        if v == 1 {
            panic!("injected-panic body");
        }
    }
}

fn read_in(db: &dyn PDb, i: usize) -> u32 {
    db.env().inputs.get().unwrap()[i].v(db)
}

fn ev(db: &dyn PDb, e: Ex) -> u32 {
    match e {
        Ex::C(c) => c % 4,
        Ex::In(i) => read_in(db, i) % 4,
        Ex::InPlus(i, c) => (read_in(db, i) + c) % 4,
    }
}

fn new_ts<'db>(db: &'db dyn PDb, k: u32, a: u32, b: u32) -> Ts<'db> {
    trace::note(&format!("new T {k} {a} {b}"));
    EQ_DONE.with(|d| d.set(0));
    let t = Ts::new(db, CK(k), PV(a), PV(b));
    made(db, 0, k, a, b, t.as_id());
    t
}

fn new_us<'db>(db: &'db dyn PDb, k: u32, a: u32) -> Us<'db> {
    trace::note(&format!("new U {k} {a}"));
    EQ_DONE.with(|d| d.set(0));
    let u = Us::new(db, CK(k), PV(a));
    made(db, 1, k, a, 0, u.as_id());
    u
}

fn body<'db>(db: &'db dyn PDb, key: Key) -> Out<'db> {
    let _frame = frame_begin(db, FrameKey::Creator(key.idx(db) as usize));
    tick_body(db);
    let c = &db.env().prog.creators[key.idx(db) as usize];
    let mut out: Out<'db> = vec![];
    for s in &c.steps {
        match s {
            Step::Read(i) => {
                read_in(db, *i);
            }
            Step::Mk(m) => {
                if let Some((i, want)) = m.cond {
                    if read_in(db, i) % 2 != want {
                        continue;
                    }
                }
                let n = match m.rep {
                    Some(i) => read_in(db, i) % 3,
                    None => 1,
                };
                for j in 0..n {
                    let k = (ev(db, m.k) + j * m.kstride) % 6;
                    let a = ev(db, m.a);
                    let b = ev(db, m.b);
                    if m.ty == 0 {
                        let t = new_ts(db, k, a, b);
                        if m.readback & 1 != 0 {
                            t.a(db);
                        }
                        if m.readback & 2 != 0 {
                            t.b(db);
                        }
                        if m.readback & 4 != 0 {
                            t.k(db);
                        }
                        if m.call {
                            let v = on_ts(db, t);
                            let want = ref_on_ts(&db.env().prog, &oracle(db).inputs.clone(), k, a);
                            check_call(db, "on_ts", t.as_id(), v, want);
                        }
                        out.push((Some(t), None));
                    } else {
                        let u = new_us(db, k, a);
                        if m.readback & 1 != 0 {
                            u.a(db);
                        }
                        if m.call {
                            let v = on_us(db, u);
                            check_call(db, "on_us", u.as_id(), v, ref_on_us(k, a));
                        }
                        out.push((None, Some(u)));
                    }
                }
            }
        }
    }
    frame_end(db);
    out
}

#[salsa::tracked(returns(clone))]
fn creator<'db>(db: &'db dyn PDb, k: Key) -> Out<'db> {
    body(db, k)
}

#[salsa::tracked(returns(clone), lru = 1)]
fn lru_creator<'db>(db: &'db dyn PDb, k: Key) -> Out<'db> {
    body(db, k)
}

fn call_creator<'db>(db: &'db dyn PDb, c: usize) -> Out<'db> {
    let k = db.env().keys.get().unwrap()[c];
    if db.env().prog.creators[c].lru { lru_creator(db, k) } else { creator(db, k) }
}

#[salsa::tracked(returns(copy))]
fn on_ts<'db>(db: &'db dyn PDb, t: Ts<'db>) -> u32 {
    let _frame = frame_begin(db, FrameKey::OnTs(t.as_id()));
    tick_body(db);
    let p = &db.env().prog.on_ts;
    let mut r = t.a(db).0;
    if let Some(i) = p.reads_in {
        r += read_in(db, i);
    }
    if let Some((n, k, a)) = p.nested {
        let n = (ev(db, n) + t.k(db).0) % 3;
        for j in 0..n {
            let (uk, ua) = ((ev(db, k) + j) % 6, ev(db, a));
            let u = new_us(db, uk, ua);
            if p.call_on_us {
                let v = on_us(db, u);
                check_call(db, "on_us", u.as_id(), v, ref_on_us(uk, ua));
                r += v;
            }
        }
    }
    frame_end(db);
    r % 16
}

#[salsa::tracked(returns(copy))]
fn on_us<'db>(db: &'db dyn PDb, u: Us<'db>) -> u32 {
    tick_body(db);
    u.a(db).0 + u.k(db).0
}

#[salsa::tracked(returns(copy))]
fn reader(db: &dyn PDb, k: Key) -> u32 {
    tick_body(db);
    let rd = &db.env().prog.readers[k.idx(db) as usize];
    let mut r = 0;
    for (t, u) in call_creator(db, rd.creator) {
        if let Some(t) = t {
            if rd.fields & 1 != 0 {
                r += t.a(db).0;
            }
            if rd.fields & 2 != 0 {
                r += t.b(db).0;
            }
            if rd.fields & 4 != 0 {
                r += t.k(db).0;
            }
            if rd.call {
                r += on_ts(db, t);
            }
        }
        if let Some(u) = u {
            if rd.fields & 1 != 0 {
                r += u.a(db).0;
            }
            if rd.call {
                r += on_us(db, u);
            }
        }
    }
    r % 64
}

// ---------------------------------------------------------------------------------------------
// running a case

fn panic_class(p: &(dyn std::any::Any + Send)) -> String {
    let m = p.downcast_ref::<String>().cloned().or(p.downcast_ref::<&str>().map(|s| s.to_string())).unwrap_or_default();
    if m.contains("injected-panic") {
        "user".into()
    } else if m.contains("cannot delete read-locked") {
        "delete-read-locked".into()
    } else if m.contains("cannot delete write-locked") {
        "delete-write-locked".into()
    } else if m.contains("write lock taken") {
        "read-write-locked".into()
    } else if m.contains("two concurrent writers") {
        "update-write-locked".into()
    } else {
        format!("other:{}", m.chars().take(60).collect::<String>().replace([' ', '\n'], "_"))
    }
}

struct CaseRun {
    /// the hook trace (starts with `reset`)
    lines: Vec<String>,
    /// oracle verdicts: (key, what)
    fails: Vec<(String, String)>,
    /// one line per executed history op: the op and its observable result
    log: Vec<String>,
}

/// `keep`: run only the history ops with these indices (shrinking / replay)
fn ora(env: &DbEnv) -> std::sync::MutexGuard<'_, Oracle> {
    env.oracle.lock().unwrap_or_else(|e| e.into_inner())
}

fn run_case(case: &Case, case_no: u64, seed: u64, keep: Option<&[usize]>) -> CaseRun {
    HMOD.with(|h| h.set(case.prog.hmod));
    EQ_TICK.with(|t| t.set(-1));
    let env = Arc::new(DbEnv {
        prog: case.prog.clone(),
        inputs: OnceLock::new(),
        keys: OnceLock::new(),
        inject_body: AtomicI64::new(-1),
        inject_event: AtomicI64::new(-1),
        oracle: std::sync::Mutex::new(Oracle { inputs: case.init.iter().map(|x| x.0).collect(), ..Default::default() }),
    });
    let env2 = env.clone();
    let storage = salsa::Storage::new(Some(Box::new(move |e: salsa::Event| {
        use salsa::EventKind::*;
        match &e.kind {
            DidDiscard { .. } | WillDiscardStaleOutput { .. } => {}
            _ => return,
        }
        let c = &env2.inject_event;
        let v = c.load(Ordering::Relaxed);
        if v > 0 {
            c.store(v - 1, Ordering::Relaxed);
            if v == 1 {
                panic!("injected-panic event");
            }
        }
    })));
    trace::enable();
    trace::set_struct_tracing(true);
    trace::note(&format!("case {case_no} seed {seed}"));
    trace::note(&format!("prog ni={} hmod={} on_ts={:?}", case.prog.ni, case.prog.hmod, case.prog.on_ts).replace('\n', " "));
    for (i, c) in case.prog.creators.iter().enumerate() {
        trace::note(&format!("prog creator {i} {c:?}"));
    }
    for (i, c) in case.prog.readers.iter().enumerate() {
        trace::note(&format!("prog reader {i} {c:?}"));
    }
    let mut db = Db { storage, env: env.clone() };
    let ins: Vec<In> = case.init.iter().map(|(v, d)| In::builder(*v).v_durability(DURS[*d as usize]).new(&db)).collect();
    let nk = case.prog.creators.len().max(case.prog.readers.len());
    let keys: Vec<Key> = (0..nk).map(|k| Key::builder(k as u32).durability(Durability::NEVER_CHANGE).new(&db)).collect();
    env.inputs.set(ins.clone()).ok();
    env.keys.set(keys.clone()).ok();
    // ids captured from the last creator result (leaked across revisions on purpose)
    let mut leaked: Vec<(u8, salsa::Id)> = vec![];
    let mut lines = vec!["reset".to_string()];
    let mut log = vec![];
    for (op_no, op) in case.ops.iter().enumerate() {
        if keep.is_some_and(|k| !k.contains(&op_no)) {
            continue;
        }
        trace::note(&format!("op {op:?}"));
        ora(&env).op_no = op_no;
        let mut result = String::new();
        let res = std::panic::catch_unwind(std::panic::AssertUnwindSafe(|| match op {
            Op::Set(i, v, d) => {
                ora(&env).inputs[*i] = *v;
                match d {
                    Some(d) => {
                        ins[*i].set_v(&mut db).with_durability(DURS[*d as usize]).to(*v);
                    }
                    None => {
                        ins[*i].set_v(&mut db).to(*v);
                    }
                }
            }
            Op::Bump => db.synthetic_write(Durability::LOW),
            Op::GetC(c) => {
                let out = call_creator(&db, *c);
                leaked = out
                    .iter()
                    .map(|(t, u)| match (t, u) {
                        (Some(t), _) => (0u8, t.as_id()),
                        (_, Some(u)) => (1u8, u.as_id()),
                        _ => unreachable!(),
                    })
                    .collect();
                // (c): the list of structs and their fields against the reference interpreter
                let inputs = ora(&env).inputs.clone();
                let want = ref_creator(&case.prog, &inputs, *c);
                let off = ora(&env).off;
                let got: Vec<(u8, u32, u32, u32)> = if off {
                    vec![]
                } else {
                    out.iter()
                        .map(|(t, u)| match (t, u) {
                            (Some(t), _) => (0u8, t.k(&db).0, t.a(&db).0, t.b(&db).0),
                            (_, Some(u)) => (1u8, u.k(&db).0, u.a(&db).0, 0),
                            _ => unreachable!(),
                        })
                        .collect()
                };
                let want: Vec<(u8, u32, u32, u32)> = want.iter().map(|x| (x.0, x.1, x.2, if x.0 == 0 { x.3 } else { 0 })).collect();
                result = format!("creator {c} = {:?} ids {:?}", got, leaked.iter().map(|x| x.1).collect::<Vec<_>>());
                if !off && got != want {
                    ora(&env).fail("value", format!("creator {c} returned structs (type, k, a, b) {got:?}, reference {want:?}"));
                }
            }
            Op::GetR(r) => {
                let v = reader(&db, keys[*r]);
                trace::note(&format!("result reader {r} = {v}"));
                let want = ref_reader(&case.prog, &ora(&env).inputs.clone(), *r);
                result = format!("reader {r} = {v}");
                if v != want {
                    ora(&env).fail("value", format!("reader {r} = {v}, reference {want}"));
                }
            }
            Op::InjectEq(n) => EQ_TICK.with(|t| t.set(*n as i64)),
            Op::InjectEv(n) => env.inject_event.store(*n as i64, Ordering::Relaxed),
            Op::InjectBody(n) => env.inject_body.store(*n as i64, Ordering::Relaxed),
            Op::Age(g) => salsa::verif_hooks::structs::age_free_lists(&db, *g),
            Op::LeakRead(j, f) => {
                // a handle used outside its revision is a client error: no verdicts from here on
                ora(&env).off = true;
                if let Some((ty, id)) = leaked.get(*j).copied() {
                    if ty == 0 {
                        let t = Ts::from_id(id);
                        match f {
                            0 => {
                                t.a(&db);
                            }
                            1 => {
                                t.b(&db);
                            }
                            _ => {
                                t.k(&db);
                            }
                        }
                    } else {
                        let u = Us::from_id(id);
                        if *f == 0 {
                            u.a(&db);
                        } else {
                            u.k(&db);
                        }
                    }
                }
            }
        }));
        if matches!(op, Op::GetC(_) | Op::GetR(_)) {
            // injections are one-shot per request
            EQ_TICK.with(|t| t.set(-1));
            env.inject_event.store(-1, Ordering::Relaxed);
            env.inject_body.store(-1, Ordering::Relaxed);
        }
        let panicked = res.is_err();
        if let Err(p) = res {
            result = format!("panic:{}", panic_class(&*p));
            trace::note(&format!("caught {}", panic_class(&*p)));
        }
        let chunk = trace::take();
        if panicked {
            ora(&env).stack.clear();
            // listed finding kf4: a request aborted by a panic during or after an identity-changed update
            let idchg = chunk.iter().any(|l| l.starts_with("ts update ") && l.contains(" idchg=1 "));
            let unwind_in_clear = chunk.iter().any(|l| l.starts_with("ts update_unwind ")) && !chunk.iter().any(|l| l.contains(" eq-panic "));
            if idchg || unwind_in_clear {
                ora(&env).tainted = true;
            }
        }
        log.push(format!("op#{op_no} {op:?} => {}", if result.is_empty() { "ok" } else { &result }));
        lines.extend(chunk.into_iter().filter(|l| l.starts_with("ts ") || l.starts_with("note ") || l.starts_with("memo publish ")));
    }
    trace::disable();
    trace::set_struct_tracing(false);
    lines.extend(trace::take().into_iter().filter(|l| l.starts_with("ts ") || l.starts_with("note ") || l.starts_with("memo publish ")));
    let fails = std::mem::take(&mut ora(&env).fails);
    drop(db);
    CaseRun { lines, fails, log }
}

/// histogram of the protocol events hit (printed in the summary line)
#[derive(Default)]
struct Hist(std::collections::BTreeMap<String, u64>);

impl Hist {
    fn hit(&mut self, k: &str) {
        *self.0.entry(k.to_string()).or_insert(0) += 1;
    }
    fn scan(&mut self, lines: &[String]) {
        for l in lines {
            let w: Vec<&str> = l.split(' ').collect();
            match w.as_slice() {
                ["ts", "ident", _, _, _, _, _, f, ..] => {
                    self.hit(if f.starts_with("found") { "ident_found" } else { "ident_fresh" });
                    if w[6] != "0" {
                        self.hit("disambiguator_gt0");
                    }
                }
                ["ts", "update", _, _, _, _, _, _, o, rest @ ..] => match *o {
                    "ok" => {
                        self.hit("update_ok");
                        if rest.iter().any(|x| *x == "idchg=1") {
                            self.hit("update_identity_changed");
                        }
                    }
                    o => self.hit(&format!("update_{o}")),
                },
                ["ts", "alloc", _, _, how, _, lk, ..] => {
                    self.hit(&format!("alloc_{how}"));
                    if *lk != "leaked=0" {
                        self.hit("alloc_leaked_entries");
                    }
                }
                ["ts", "delete", _, _, _, _, o] => self.hit(&format!("delete_{o}")),
                ["ts", "read", _, _, seen, ..] => self.hit(if *seen == "seen=none" { "read_panic" } else { "read" }),
                ["ts", "mread", _, seen, ..] => self.hit(if *seen == "seen=none" { "mread_panic" } else { "mread" }),
                ["ts", "pop", _, _, "aborted"] => self.hit("pop_aborted"),
                ["ts", "pop", _, _, "done", _, s] => {
                    self.hit("pop_done");
                    if *s != "S[]" {
                        self.hit("pop_with_stale");
                    }
                }
                ["ts", "remove_outputs", _, _, l] => self.hit(if *l == "[]" { "remove_outputs_empty" } else { "remove_outputs_structs" }),
                ["ts", "clear_memos", _, _, n] => self.hit(if *n == "0" { "clear_memos_0" } else { "clear_memos_n" }),
                ["ts", op, ..] => self.hit(op),
                ["note", _, "caught", c] => self.hit(&format!("caught_{c}")),
                ["note", _, "eq-panic", n] => self.hit(&format!("eq_panic_after_{n}")),
                _ => {}
            }
        }
    }
}

fn main() {
    let args = Args::from_env();
    std::panic::set_hook(Box::new(|_| {}));
    let cmd = args.0.first().cloned().unwrap_or_default();
    match cmd.as_str() {
        "run" => {
            let seed = args.num("--seed", 1);
            let cases = args.num("--cases", 100);
            let path = args.get("--trace-file").expect("--trace-file");
            let mut f = std::io::BufWriter::new(std::fs::File::create(path).expect("create trace file"));
            let mut top = Rng::new(seed);
            let (mut hist, mut total, mut ts_lines) = (Hist::default(), 0u64, 0u64);
            let (mut failing, mut by_key, mut printed) = (0u64, std::collections::BTreeMap::<String, u64>::new(), 0);
            let mut distinct = std::collections::HashSet::new();
            for n in 0..cases {
                let cs = top.next();
                let case = gen_case(&mut Rng::new(cs));
                let run = run_case(&case, n, cs, None);
                if !run.fails.is_empty() {
                    failing += 1;
                    // one line per distinct key of the case
                    let mut seen = vec![];
                    for (key, what) in &run.fails {
                        if !seen.contains(key) {
                            seen.push(key.clone());
                            *by_key.entry(key.clone()).or_insert(0) += 1;
                            if printed < 40 {
                                printed += 1;
                                println!("STRUCTS-FAIL case={n} seed={cs} key={key} {what}");
                            }
                        }
                    }
                }
                let lines = run.lines;
                hist.scan(&lines);
                total += lines.len() as u64;
                ts_lines += lines.iter().filter(|l| l.starts_with("ts ")).count() as u64;
                use std::hash::{Hash, Hasher};
                let mut h = std::collections::hash_map::DefaultHasher::new();
                for l in lines.iter().skip(2).filter(|l| l.starts_with("ts ")) {
                    l.hash(&mut h);
                }
                distinct.insert(h.finish());
                for l in &lines {
                    writeln!(f, "{l}").unwrap();
                }
            }
            f.flush().unwrap();
            let h: Vec<String> = hist.0.iter().map(|(k, v)| format!("{k}={v}")).collect();
            println!("STRUCTS cases={cases} distinct={} lines={total} ts_lines={ts_lines} hist: {}", distinct.len(), h.join(" "));
            let k: Vec<String> = by_key.iter().map(|(k, v)| format!("{k}={v}")).collect();
            println!("STRUCTS-SUMMARY cases={cases} failures={failing} by_key: {}", if k.is_empty() { "-".to_string() } else { k.join(" ") });
        }
        "one" => {
            let cs = args.num("--case-seed", 1);
            let case = gen_case(&mut Rng::new(cs));
            let keep: Option<Vec<usize>> = args.get("--keep").map(|s| s.split(',').filter_map(|x| x.parse().ok()).collect());
            let run = run_case(&case, 0, cs, keep.as_deref());
            if args.flag("--trace") {
                for l in &run.lines {
                    println!("{l}");
                }
            } else {
                println!("case-seed {cs} hmod={} inputs(value, durability)={:?}", case.prog.hmod, case.init);
                println!("on_ts {:?}", case.prog.on_ts);
                for (i, c) in case.prog.creators.iter().enumerate() {
                    println!("creator {i} {c:?}");
                }
                for (i, c) in case.prog.readers.iter().enumerate() {
                    println!("reader {i} {c:?}");
                }
                for l in &run.log {
                    println!("{l}");
                }
            }
            let mut seen = vec![];
            for (key, what) in &run.fails {
                if !seen.contains(key) {
                    seen.push(key.clone());
                    println!("STRUCTS-FAIL case=0 seed={cs} key={key} {what}");
                }
            }
            println!("STRUCTS-SUMMARY cases=1 failures={} by_key: {}", u8::from(!run.fails.is_empty()), if seen.is_empty() { "-".to_string() } else { seen.join(" ") });
        }
        "demo-unwind" => {
            // Reproducer for the observation recorded in DESIGN.md B.8: an execution aborted by a panic AFTER an
            // identity-changed update leaves the old generation in the creator's memo; the retry hands it out again.
            let mk = Mk { ty: 0, cond: None, rep: None, k: Ex::In(0), kstride: 0, a: Ex::C(0), b: Ex::C(0), call: true, readback: 0 };
            let prog = Prog {
                ni: 1,
                hmod: 1,
                creators: vec![Creator { lru: false, steps: vec![Step::Mk(mk)] }],
                on_ts: OnTs { reads_in: None, nested: None, call_on_us: false },
                readers: vec![Reader { creator: 0, fields: 4, call: false }],
            };
            // reader = identity field k of the struct = input 0; the second tick_body (inside on_ts) panics
            let ops = vec![Op::GetR(0), Op::Set(0, 1, None), Op::InjectBody(2), Op::GetR(0), Op::GetR(0)];
            let case = Case { prog, init: vec![(0, 0)], ops };
            for l in run_case(&case, 0, 0, None).lines {
                if l.starts_with("note t0 op") || l.starts_with("note t0 caught") || l.starts_with("note t0 result") || l.starts_with("ts update") || l.starts_with("ts new") {
                    println!("{l}");
                }
            }
            println!("expected: the last `result reader` is 1 (input 0 = 1); a from-scratch database returns 1");
        }
        _ => {
            eprintln!("usage: structs run --seed S --cases N --trace-file F | structs one --case-seed X");
            std::process::exit(2);
        }
    }
}
