//! The program language shared by the implementation harness, the Rust reference interpreter
//! (property oracle) and the Lean drivers (DESIGN.md §2.2), its text form, generators, and the
//! reference semantics (plain recursion over the current inputs, no memoisation across ops).
use crate::Rng;
use std::collections::BTreeMap;
use std::fmt::Write as _;

#[derive(Clone, Copy, Debug, PartialEq, Eq, Hash)]
pub enum Kind {
    Plain,
    NoEq,
    Lru,
    /// fixpoint, `cycle_fn` = default (return the new value)
    Fix,
    /// fixpoint, `cycle_fn` = join with the previous provisional value
    FixJoin,
    /// `cycle_result` fallback
    Fb,
    /// no cycle recovery, used in cyclic programs (panics when re-entered)
    NoCyc,
}

impl Kind {
    pub fn name(self) -> &'static str {
        match self {
            Kind::Plain => "plain",
            Kind::NoEq => "noeq",
            Kind::Lru => "lru",
            Kind::Fix => "fix",
            Kind::FixJoin => "fixjoin",
            Kind::Fb => "fb",
            Kind::NoCyc => "nocyc",
        }
    }
    pub fn parse(s: &str) -> Option<Kind> {
        Some(match s {
            "plain" => Kind::Plain,
            "noeq" => Kind::NoEq,
            "lru" => Kind::Lru,
            "fix" => Kind::Fix,
            "fixjoin" => Kind::FixJoin,
            "fb" => Kind::Fb,
            "nocyc" => Kind::NoCyc,
            _ => return None,
        })
    }
    pub fn cyclic(self) -> bool {
        matches!(self, Kind::Fix | Kind::FixJoin | Kind::Fb | Kind::NoCyc)
    }
}

#[derive(Clone, Debug, PartialEq, Eq, Hash)]
pub enum E {
    C(u32),
    In(usize),
    Call(usize),
    Cell(usize),
    Add(Box<E>, Box<E>),
    Min(Box<E>, Box<E>),
    Max(Box<E>, Box<E>),
    BOr(Box<E>, Box<E>),
    BAnd(Box<E>, Box<E>),
    If(Box<E>, Box<E>, Box<E>),
    /// create `Ts(k % 2, v)`; if `flag` is odd also `spec::specify(ts, sv)`; value = handle (n = v)
    Mk(Box<E>, Box<E>, Box<E>, Box<E>),
    TsV(Box<E>),
    TsK(Box<E>),
    OnTs(Box<E>),
    Spec(Box<E>),
    Intern(Box<E>),
    SymF(Box<E>),
    OnSym(Box<E>),
    Two(usize, Box<E>),
    Push(Box<E>),
    /// only in the bodies of `on_ts` / `spec`: the key struct's identity / tracked field
    SelfK,
    SelfV,
    /// only in the bodies of `on_sym` (the interned field) and `two` (the second argument)
    Arg,
}

#[derive(Clone, Debug, PartialEq, Eq, Hash)]
pub struct Prog {
    pub nodes: Vec<(Kind, E)>,
    pub on_ts: E,
    pub spec: E,
    pub on_sym: E,
    pub two: E,
    pub ninputs: usize,
    pub ncells: usize,
}

impl Prog {
    pub fn empty() -> Prog {
        Prog { nodes: vec![], on_ts: E::SelfV, spec: E::SelfV, on_sym: E::Arg, two: E::Arg, ninputs: 0, ncells: 0 }
    }
}

// ---------------------------------------------------------------------------------------------
// text form: prefix polish tokens

pub fn fmt_e(e: &E, o: &mut String) {
    let mut bin = |t: &str, a: &E, b: &E, o: &mut String| {
        o.push_str(t);
        o.push(' ');
        fmt_e(a, o);
        o.push(' ');
        fmt_e(b, o);
    };
    match e {
        E::C(n) => write!(o, "c{}", n).unwrap(),
        E::In(i) => write!(o, "i{}", i).unwrap(),
        E::Call(j) => write!(o, "q{}", j).unwrap(),
        E::Cell(c) => write!(o, "u{}", c).unwrap(),
        E::Add(a, b) => bin("+", a, b, o),
        E::Min(a, b) => bin("&", a, b, o),
        E::Max(a, b) => bin("|", a, b, o),
        E::BOr(a, b) => bin("U", a, b, o),
        E::BAnd(a, b) => bin("N", a, b, o),
        E::If(c, a, b) => {
            o.push_str("? ");
            fmt_e(c, o);
            o.push(' ');
            fmt_e(a, o);
            o.push(' ');
            fmt_e(b, o);
        }
        E::Mk(k, v, f, s) => {
            o.push_str("mk ");
            fmt_e(k, o);
            o.push(' ');
            fmt_e(v, o);
            o.push(' ');
            fmt_e(f, o);
            o.push(' ');
            fmt_e(s, o);
        }
        E::TsV(a) => un("tv", a, o),
        E::TsK(a) => un("tk", a, o),
        E::OnTs(a) => un("ot", a, o),
        E::Spec(a) => un("sp", a, o),
        E::Intern(a) => un("in", a, o),
        E::SymF(a) => un("sf", a, o),
        E::OnSym(a) => un("os", a, o),
        E::Two(j, a) => un(&format!("tw{}", j), a, o),
        E::Push(a) => un("pu", a, o),
        E::SelfK => o.push_str("sk"),
        E::SelfV => o.push_str("sv"),
        E::Arg => o.push_str("ar"),
    }
}
fn un(t: &str, a: &E, o: &mut String) {
    o.push_str(t);
    o.push(' ');
    fmt_e(a, o);
}
pub fn e_to_string(e: &E) -> String {
    let mut s = String::new();
    fmt_e(e, &mut s);
    s
}

pub fn parse_e(toks: &[&str], pos: &mut usize) -> Option<E> {
    let t = *toks.get(*pos)?;
    *pos += 1;
    let num = |s: &str| s.parse::<usize>().ok();
    let b = |toks: &[&str], pos: &mut usize| parse_e(toks, pos).map(Box::new);
    Some(match t {
        "+" => E::Add(b(toks, pos)?, b(toks, pos)?),
        "&" => E::Min(b(toks, pos)?, b(toks, pos)?),
        "|" => E::Max(b(toks, pos)?, b(toks, pos)?),
        "U" => E::BOr(b(toks, pos)?, b(toks, pos)?),
        "N" => E::BAnd(b(toks, pos)?, b(toks, pos)?),
        "?" => E::If(b(toks, pos)?, b(toks, pos)?, b(toks, pos)?),
        "mk" => E::Mk(b(toks, pos)?, b(toks, pos)?, b(toks, pos)?, b(toks, pos)?),
        "tv" => E::TsV(b(toks, pos)?),
        "tk" => E::TsK(b(toks, pos)?),
        "ot" => E::OnTs(b(toks, pos)?),
        "sp" => E::Spec(b(toks, pos)?),
        "in" => E::Intern(b(toks, pos)?),
        "sf" => E::SymF(b(toks, pos)?),
        "os" => E::OnSym(b(toks, pos)?),
        "pu" => E::Push(b(toks, pos)?),
        "sk" => E::SelfK,
        "sv" => E::SelfV,
        "ar" => E::Arg,
        _ => {
            if let Some(r) = t.strip_prefix("tw") {
                E::Two(num(r)?, b(toks, pos)?)
            } else if let Some(r) = t.strip_prefix('c') {
                E::C(num(r)? as u32)
            } else if let Some(r) = t.strip_prefix('i') {
                E::In(num(r)?)
            } else if let Some(r) = t.strip_prefix('q') {
                E::Call(num(r)?)
            } else if let Some(r) = t.strip_prefix('u') {
                E::Cell(num(r)?)
            } else {
                return None;
            }
        }
    })
}

impl Prog {
    /// the `prog`/`q`/`b` header lines
    pub fn to_lines(&self) -> Vec<String> {
        let mut v = vec![format!("prog {} {} {}", self.nodes.len(), self.ninputs, self.ncells)];
        for (i, (k, e)) in self.nodes.iter().enumerate() {
            v.push(format!("q {} {} {}", i, k.name(), e_to_string(e)));
        }
        for (n, e) in [("ots", &self.on_ts), ("spec", &self.spec), ("osym", &self.on_sym), ("two", &self.two)] {
            let d = match n {
                "ots" | "spec" => E::SelfV,
                _ => E::Arg,
            };
            if *e != d {
                v.push(format!("b {} {}", n, e_to_string(e)));
            }
        }
        v
    }
}

// ---------------------------------------------------------------------------------------------
// operations

#[derive(Clone, Debug, PartialEq, Eq, Hash)]
pub enum Op {
    /// `set i v d` (d: None = keep)
    Set(usize, u32, Option<u8>),
    Synth(u8),
    Get(usize),
    Cell(usize, u32),
    LruCap(usize),
    Evict,
    /// accumulated values of node q
    Acc(usize),
    /// the k-th user-code call of the following op panics (0 = off); `what`: b body, e event
    /// callback, q tracked-field PartialEq
    Inject(char, u32),
}

impl Op {
    pub fn to_line(&self) -> String {
        match self {
            Op::Set(i, v, d) => format!("set {} {} {}", i, v, d.map(|d| d.to_string()).unwrap_or("k".into())),
            Op::Synth(d) => format!("synth {}", d),
            Op::Get(q) => format!("get {}", q),
            Op::Cell(c, v) => format!("cell {} {}", c, v),
            Op::LruCap(n) => format!("lrucap {}", n),
            Op::Evict => "evict".into(),
            Op::Acc(q) => format!("acc {}", q),
            Op::Inject(w, k) => format!("inject {} {}", w, k),
        }
    }
    pub fn parse(line: &str) -> Option<Op> {
        let p: Vec<&str> = line.split(' ').collect();
        let n = |s: &str| s.parse::<usize>().ok();
        Some(match p.as_slice() {
            ["set", i, v, d] => Op::Set(n(i)?, n(v)? as u32, if *d == "k" { None } else { Some(n(d).filter(|d| *d < 4)? as u8) }),
            ["synth", d] => Op::Synth(n(d).filter(|d| *d < 4)? as u8),
            ["get", q] => Op::Get(n(q)?),
            ["cell", c, v] => Op::Cell(n(c)?, n(v)? as u32),
            ["lrucap", c] => Op::LruCap(n(c)?),
            ["evict"] => Op::Evict,
            ["acc", q] => Op::Acc(n(q)?),
            ["inject", w, k] if w.len() == 1 => Op::Inject(w.chars().next()?, n(k)? as u32),
            _ => return None,
        })
    }
}

#[derive(Clone, Debug)]
pub struct Case {
    pub prog: Prog,
    /// initial (value, durability) per input field
    pub init: Vec<(u32, u8)>,
    pub ops: Vec<Op>,
}

impl Case {
    pub fn to_lines(&self) -> Vec<String> {
        let mut v = self.prog.to_lines();
        for (i, (x, d)) in self.init.iter().enumerate() {
            v.push(format!("input {} {} {}", i, x, d));
        }
        v.extend(self.ops.iter().map(|o| o.to_line()));
        v
    }

    /// Parse consecutive cases from a line stream; malformed lines are errors.
    pub fn parse_all(text: &str) -> Result<Vec<Case>, String> {
        let mut cases: Vec<Case> = vec![];
        for (ln, line) in text.lines().enumerate() {
            let p: Vec<&str> = line.split(' ').collect();
            let err = || format!("line {}: cannot parse `{}`", ln + 1, line);
            match p.as_slice() {
                ["prog", nq, ni, nc] => {
                    let mut prog = Prog::empty();
                    prog.ninputs = ni.parse().map_err(|_| err())?;
                    prog.ncells = nc.parse().map_err(|_| err())?;
                    let _: usize = nq.parse().map_err(|_| err())?;
                    let init = vec![(0, 0); prog.ninputs];
                    cases.push(Case { prog, init, ops: vec![] });
                }
                ["q", idx, kind, rest @ ..] => {
                    let c = cases.last_mut().ok_or_else(err)?;
                    let idx: usize = idx.parse().map_err(|_| err())?;
                    if idx != c.prog.nodes.len() {
                        return Err(err());
                    }
                    let mut pos = 0;
                    let e = parse_e(rest, &mut pos).ok_or_else(err)?;
                    if pos != rest.len() {
                        return Err(err());
                    }
                    c.prog.nodes.push((Kind::parse(kind).ok_or_else(err)?, e));
                }
                ["b", which, rest @ ..] => {
                    let c = cases.last_mut().ok_or_else(err)?;
                    let mut pos = 0;
                    let e = parse_e(rest, &mut pos).ok_or_else(err)?;
                    match *which {
                        "ots" => c.prog.on_ts = e,
                        "spec" => c.prog.spec = e,
                        "osym" => c.prog.on_sym = e,
                        "two" => c.prog.two = e,
                        _ => return Err(err()),
                    }
                }
                ["input", i, v, d] => {
                    let c = cases.last_mut().ok_or_else(err)?;
                    let i: usize = i.parse().map_err(|_| err())?;
                    if i >= c.init.len() {
                        return Err(err());
                    }
                    c.init[i] = (v.parse().map_err(|_| err())?, d.parse().map_err(|_| err())?);
                }
                _ => {
                    let c = cases.last_mut().ok_or_else(err)?;
                    c.ops.push(Op::parse(line).ok_or_else(err)?);
                }
            }
        }
        Ok(cases)
    }
}

// ---------------------------------------------------------------------------------------------
// reference semantics (the property oracle)

/// A value: number + optional tracked-struct handle + optional interned handle, handles by content.
#[derive(Clone, Debug, PartialEq, Eq)]
pub struct RV {
    pub n: u32,
    pub ts: Option<RTs>,
    pub sym: Option<u32>,
}
#[derive(Clone, Debug, PartialEq, Eq)]
pub struct RTs {
    pub creator: usize,
    pub k: u32,
    pub occ: u32,
    pub v: u32,
    pub spec: Option<u32>,
}
impl RV {
    pub fn num(n: u32) -> RV {
        RV { n, ts: None, sym: None }
    }
}

#[derive(Clone, Debug, PartialEq, Eq)]
pub enum Outcome {
    Val(RV),
    /// reachable re-entry of a `nocyc` node
    PanicCycle,
    /// fixpoint that does not stabilise within the iteration bound
    PanicTooMany,
    /// the expression specifies a struct it did not create / twice (not generated)
    PanicOther(&'static str),
    /// a no-recovery function on a cycle that also contains recovering functions: the request
    /// either panics with a cycle error or returns the fixpoint value
    ValOrPanicCycle(RV),
    /// non-monotone cyclic program: the value (if any) depends on the evaluation order; only the
    /// iteration bound is checked by the oracle (values are compared with the Lean cycle model)
    Unconstrained,
}

pub struct Env<'a> {
    pub prog: &'a Prog,
    pub inputs: &'a [u32],
    pub cells: &'a [u32],
}

#[derive(Clone, Copy)]
enum Ctx {
    Node(usize),
    Ts(u32, u32),
    Arg(u32),
}

#[derive(Clone, Debug, PartialEq, Eq, Hash, PartialOrd, Ord)]
pub enum FnId {
    Node(usize),
    OnTs(usize, u32, u32, u32),
    Spec(usize, u32, u32, u32),
    OnSym(u32),
    Two(usize, u32),
}

/// Acyclic reference: plain recursion over the current environment (no memoisation at all).
pub struct Ref<'a> {
    pub env: Env<'a>,
    /// frame of the function being evaluated: its own pushes and its callees in first-call order
    pushes: Vec<u32>,
    callees: Vec<FnId>,
    occ: BTreeMap<(usize, u32), u32>,
    /// log of every struct creation (creator node, identity value, occurrence)
    pub created: Vec<(usize, u32, u32)>,
    /// input fields read by the function being evaluated / by the last finished `run_fn`
    in_reads: Vec<usize>,
    last_reads: Vec<usize>,
    in_untracked: bool,
    last_untracked: bool,
}

impl<'a> Ref<'a> {
    pub fn new(env: Env<'a>) -> Self {
        Ref { env, pushes: vec![], callees: vec![], occ: BTreeMap::new(), created: vec![], in_reads: vec![], last_reads: vec![], in_untracked: false, last_untracked: false }
    }

    /// identities (identity value, occurrence) of the structs a from-scratch run of node q creates
    pub fn created_by(&mut self, q: usize) -> Vec<(u32, u32)> {
        self.created.clear();
        self.run_fn(&FnId::Node(q));
        self.created.iter().filter(|c| c.0 == q).map(|c| (c.1, c.2)).collect()
    }

    /// value of node q (acyclic programs only)
    pub fn node(&mut self, q: usize) -> RV {
        self.run_fn(&FnId::Node(q)).0
    }

    /// evaluate one function in a fresh frame: (value, own pushes, callees in first-call order)
    fn run_fn(&mut self, f: &FnId) -> (RV, Vec<u32>, Vec<FnId>) {
        let saved = (std::mem::take(&mut self.pushes), std::mem::take(&mut self.callees), std::mem::take(&mut self.occ));
        let saved_reads = std::mem::take(&mut self.in_reads);
        let saved_untracked = std::mem::take(&mut self.in_untracked);
        let v = match f {
            FnId::Node(q) => {
                let e = self.env.prog.nodes[*q].1.clone();
                self.eval(&e, Ctx::Node(*q))
            }
            FnId::OnTs(_, k, _, v) => {
                let e = self.env.prog.on_ts.clone();
                self.eval(&e, Ctx::Ts(*k, *v))
            }
            FnId::Spec(_, k, _, v) => {
                let e = self.env.prog.spec.clone();
                self.eval(&e, Ctx::Ts(*k, *v))
            }
            FnId::OnSym(x) => {
                let e = self.env.prog.on_sym.clone();
                self.eval(&e, Ctx::Arg(*x))
            }
            FnId::Two(_, x) => {
                let e = self.env.prog.two.clone();
                self.eval(&e, Ctx::Arg(*x))
            }
        };
        let out = (v, std::mem::take(&mut self.pushes), std::mem::take(&mut self.callees));
        self.pushes = saved.0;
        self.callees = saved.1;
        self.occ = saved.2;
        self.last_reads = std::mem::replace(&mut self.in_reads, saved_reads);
        self.last_untracked = std::mem::replace(&mut self.in_untracked, saved_untracked);
        out
    }

    /// input fields read by the body of the specifiable function on struct `t`
    pub fn spec_reads(&mut self, t: &RTs) -> Vec<usize> {
        self.run_fn(&FnId::Spec(t.creator, t.k, t.occ, t.v));
        self.last_reads.clone()
    }

    /// does a from-scratch run of node q itself perform an untracked read (of a cell)?
    pub fn direct_untracked(&mut self, q: usize) -> bool {
        self.run_fn(&FnId::Node(q));
        self.last_untracked
    }

    /// direct dependencies of a from-scratch run of node q: (input fields read, nodes called)
    pub fn direct_deps(&mut self, q: usize) -> (Vec<usize>, Vec<usize>) {
        let (_, _, callees) = self.run_fn(&FnId::Node(q));
        let reads = self.last_reads.clone();
        let nodes = callees.into_iter().filter_map(|c| if let FnId::Node(j) = c { Some(j) } else { None }).collect();
        (reads, nodes)
    }

    fn call(&mut self, f: FnId) -> RV {
        if !self.callees.contains(&f) {
            self.callees.push(f.clone());
        }
        self.run_fn(&f).0
    }

    /// `accumulated` of node q: every function reachable through calls contributes its own pushes
    /// once, in preorder of the call tree (own pushes first, then callees in first-call order).
    pub fn accumulated(&mut self, q: usize) -> Vec<u32> {
        let mut out = vec![];
        let mut visited = std::collections::BTreeSet::new();
        let mut stack = vec![FnId::Node(q)];
        while let Some(f) = stack.pop() {
            if !visited.insert(f.clone()) {
                continue;
            }
            let (_, pushes, callees) = self.run_fn(&f);
            out.extend(pushes);
            stack.extend(callees.into_iter().rev());
        }
        out
    }

    fn eval(&mut self, e: &E, ctx: Ctx) -> RV {
        match e {
            E::C(n) => RV::num(*n),
            E::In(i) => {
                if !self.in_reads.contains(i) {
                    self.in_reads.push(*i);
                }
                RV::num(self.env.inputs[*i])
            }
            E::Cell(c) => {
                self.in_untracked = true;
                RV::num(self.env.cells[*c])
            }
            E::Call(j) => self.call(FnId::Node(*j)),
            E::Add(a, b) => {
                let x = self.eval(a, ctx);
                let y = self.eval(b, ctx);
                RV { n: (x.n + y.n) % 4, ts: x.ts.or(y.ts), sym: x.sym.or(y.sym) }
            }
            E::Min(a, b) => {
                let x = self.eval(a, ctx);
                let y = self.eval(b, ctx);
                RV { n: x.n.min(y.n), ts: x.ts.or(y.ts), sym: x.sym.or(y.sym) }
            }
            E::Max(a, b) => {
                let x = self.eval(a, ctx);
                let y = self.eval(b, ctx);
                RV { n: x.n.max(y.n), ts: x.ts.or(y.ts), sym: x.sym.or(y.sym) }
            }
            E::BOr(a, b) => {
                let x = self.eval(a, ctx);
                let y = self.eval(b, ctx);
                RV::num(x.n | y.n)
            }
            E::BAnd(a, b) => {
                let x = self.eval(a, ctx);
                let y = self.eval(b, ctx);
                RV::num(x.n & y.n)
            }
            E::If(c, a, b) => {
                if self.eval(c, ctx).n % 2 == 1 {
                    self.eval(a, ctx)
                } else {
                    self.eval(b, ctx)
                }
            }
            E::Mk(k, v, f, s) => {
                let kk = self.eval(k, ctx).n % 2;
                let vv = self.eval(v, ctx).n;
                let ff = self.eval(f, ctx).n;
                let ss = self.eval(s, ctx).n;
                let creator = match ctx {
                    Ctx::Node(q) => q,
                    _ => usize::MAX,
                };
                let occ = self.occ.entry((creator, kk)).or_insert(0);
                let o = *occ;
                *occ += 1;
                self.created.push((creator, kk, o));
                RV { n: vv, ts: Some(RTs { creator, k: kk, occ: o, v: vv, spec: if ff % 2 == 1 { Some(ss) } else { None } }), sym: None }
            }
            E::TsV(a) => {
                let h = self.eval(a, ctx);
                RV::num(h.ts.map(|t| t.v).unwrap_or(h.n))
            }
            E::TsK(a) => {
                let h = self.eval(a, ctx);
                RV::num(h.ts.map(|t| t.k).unwrap_or(h.n))
            }
            E::OnTs(a) => {
                let h = self.eval(a, ctx);
                match h.ts {
                    Some(t) => RV::num(self.call(FnId::OnTs(t.creator, t.k, t.occ, t.v)).n),
                    None => RV::num(h.n),
                }
            }
            E::Spec(a) => {
                let h = self.eval(a, ctx);
                match h.ts {
                    Some(t) => match t.spec {
                        Some(s) => RV::num(s),
                        None => RV::num(self.call(FnId::Spec(t.creator, t.k, t.occ, t.v)).n),
                    },
                    None => RV::num(h.n),
                }
            }
            E::Intern(a) => {
                let h = self.eval(a, ctx);
                RV { n: h.n, ts: None, sym: Some((h.n + 4 * self.env.inputs[0]) % 16) }
            }
            E::SymF(a) => {
                let h = self.eval(a, ctx);
                RV::num(h.sym.unwrap_or(h.n))
            }
            E::OnSym(a) => {
                let h = self.eval(a, ctx);
                match h.sym {
                    Some(f) => RV::num(self.call(FnId::OnSym(f)).n),
                    None => RV::num(h.n),
                }
            }
            E::Two(j, a) => {
                let x = self.eval(a, ctx).n % 4;
                RV::num(self.call(FnId::Two(*j, x)).n)
            }
            E::Push(a) => {
                let v = self.eval(a, ctx);
                self.pushes.push(v.n);
                RV::num(v.n)
            }
            E::SelfK => match ctx {
                Ctx::Ts(k, _) => RV::num(k),
                _ => RV::num(0),
            },
            E::SelfV => match ctx {
                Ctx::Ts(_, v) => RV::num(v),
                _ => RV::num(0),
            },
            E::Arg => match ctx {
                Ctx::Arg(x) => RV::num(x),
                _ => RV::num(0),
            },
        }
    }
}

// ---------------------------------------------------------------------------------------------
// cyclic reference: Kleene iteration for fixpoint kinds, SCC analysis for fallback kinds

pub const FB_BASE: u32 = 200;

/// call graph edges reachable under the current inputs when every call returns `vals[j]`
fn calls_of(e: &E, env: &Env, vals: &[u32], out: &mut Vec<usize>) -> u32 {
    match e {
        E::C(n) => *n,
        E::In(i) => env.inputs[*i],
        E::Call(j) => {
            out.push(*j);
            vals[*j]
        }
        E::Cell(c) => env.cells[*c],
        E::BOr(a, b) => calls_of(a, env, vals, out) | calls_of(b, env, vals, out),
        E::BAnd(a, b) => calls_of(a, env, vals, out) & calls_of(b, env, vals, out),
        E::Add(a, b) => (calls_of(a, env, vals, out) + calls_of(b, env, vals, out)) % 4,
        E::Min(a, b) => calls_of(a, env, vals, out).min(calls_of(b, env, vals, out)),
        E::Max(a, b) => calls_of(a, env, vals, out).max(calls_of(b, env, vals, out)),
        E::If(c, a, b) => {
            if calls_of(c, env, vals, out) % 2 == 1 {
                calls_of(a, env, vals, out)
            } else {
                calls_of(b, env, vals, out)
            }
        }
        _ => 0,
    }
}

/// Result of the cyclic reference for every node: value, or which panic class a request of that
/// node must end in.
/// every call inside node `q` goes to `q` itself or to a node of lower index, and recursion
/// happens only in `fix` / `fixjoin` nodes: each cyclic node is a self-loop head on top of final
/// values, so iterating it ALONE from bottom until two consecutive values agree is exactly what
/// salsa does — whatever the body looks like (value-dependent branches, untracked reads included)
pub fn selfloop_only(prog: &Prog) -> bool {
    fn calls(e: &E, out: &mut Vec<usize>) {
        match e {
            E::Call(j) => out.push(*j),
            E::Add(a, b) | E::Min(a, b) | E::Max(a, b) | E::BOr(a, b) | E::BAnd(a, b) => {
                calls(a, out);
                calls(b, out);
            }
            E::If(c, a, b) => {
                calls(c, out);
                calls(a, out);
                calls(b, out);
            }
            _ => {}
        }
    }
    let mut any_self = false;
    for (q, (k, e)) in prog.nodes.iter().enumerate() {
        let mut cs = vec![];
        calls(e, &mut cs);
        for j in cs {
            if j > q {
                return false;
            }
            if j == q {
                if !matches!(k, Kind::Fix | Kind::FixJoin) {
                    return false;
                }
                any_self = true;
            }
        }
        if matches!(k, Kind::Fb | Kind::NoCyc) {
            return false;
        }
    }
    any_self
}

fn selfloop_reference(env: &Env, max_iter: u32) -> Vec<Outcome> {
    let n = env.prog.nodes.len();
    let mut vals = vec![0u32; n];
    let mut out: Vec<Outcome> = vec![];
    let mut poisoned = vec![false; n];
    for q in 0..n {
        let (kind, body) = &env.prog.nodes[q];
        let mut v = 0u32;
        let mut it = 0u32;
        let mut deps = vec![];
        let res = loop {
            vals[q] = v;
            deps.clear();
            let mut nv = calls_of(body, env, &vals, &mut deps);
            if !deps.contains(&q) {
                break Some(nv);
            }
            if *kind == Kind::FixJoin {
                nv |= v;
            }
            if nv == v {
                break Some(v);
            }
            it += 1;
            if it >= max_iter {
                break None;
            }
            v = nv;
        };
        // a node that reads a diverging node panics with it
        let dep_poisoned = deps.iter().any(|d| *d != q && poisoned[*d]);
        match res {
            Some(v) if !dep_poisoned => {
                vals[q] = v;
                out.push(Outcome::Val(RV::num(v)));
            }
            _ => {
                poisoned[q] = true;
                vals[q] = 0;
                out.push(Outcome::PanicTooMany);
            }
        }
    }
    out
}

pub fn cyclic_reference(env: &Env, max_iter: u32) -> Vec<Outcome> {
    let n = env.prog.nodes.len();
    let kinds: Vec<Kind> = env.prog.nodes.iter().map(|x| x.0).collect();
    if kinds.iter().any(|k| matches!(k, Kind::Fb)) {
        return fallback_reference(env);
    }
    if env.prog.ncells > 0 && selfloop_only(env.prog) {
        return selfloop_reference(env, max_iter);
    }
    // Kleene iteration from bottom = 0; conditions are input-controlled so the call graph is
    // fixed; all fixpoint kinds converge to the least fixpoint if the bodies are monotone.
    let mut vals = vec![0u32; n];
    let mut stable = false;
    for _ in 0..(max_iter + 8 * n as u32 + 8) {
        let mut next = vals.clone();
        for q in 0..n {
            let mut calls = vec![];
            next[q] = calls_of(&env.prog.nodes[q].1, env, &vals, &mut calls);
        }
        if next == vals {
            stable = true;
            break;
        }
        vals = next;
    }
    // static call graph under the current inputs
    let mut graph = vec![vec![]; n];
    for q in 0..n {
        calls_of(&env.prog.nodes[q].1, env, &vals, &mut graph[q]);
    }
    let reach = |from: usize| -> Vec<bool> {
        let mut seen = vec![false; n];
        let mut st = vec![from];
        while let Some(x) = st.pop() {
            for &y in &graph[x] {
                if !seen[y] {
                    seen[y] = true;
                    st.push(y);
                }
            }
        }
        seen
    };
    let on_cycle: Vec<bool> = (0..n).map(|q| reach(q)[q]).collect();
    // cycles that consist of no-recovery nodes only: reachability inside the induced subgraph
    let reach_nocyc = |from: usize| -> Vec<bool> {
        let mut seen = vec![false; n];
        let mut st = vec![from];
        while let Some(x) = st.pop() {
            for &y in &graph[x] {
                if kinds[y] == Kind::NoCyc && !seen[y] {
                    seen[y] = true;
                    st.push(y);
                }
            }
        }
        seen
    };
    let on_pure_nocyc_cycle: Vec<bool> = (0..n).map(|q| kinds[q] == Kind::NoCyc && reach_nocyc(q)[q]).collect();
    let monotone = env.prog.nodes.iter().all(|(_, e)| is_monotone_live(e, env));
    (0..n)
        .map(|q| {
            let r = reach(q);
            // every evaluation of a cycle made only of no-recovery functions re-enters one of them
            let must = (0..n).any(|x| (x == q || r[x]) && on_pure_nocyc_cycle[x]);
            // a mixed cycle (some member recovers): whether a no-recovery member is re-entered
            // depends on the entry point and on what is already memoised
            let may = (0..n).any(|x| (x == q || r[x]) && on_cycle[x] && kinds[x] == Kind::NoCyc);
            if must {
                Outcome::PanicCycle
            } else if !monotone {
                Outcome::Unconstrained
            } else if !stable {
                Outcome::PanicTooMany
            } else if may {
                Outcome::ValOrPanicCycle(RV::num(vals[q]))
            } else {
                Outcome::Val(RV::num(vals[q]))
            }
        })
        .collect()
}

/// value of a cyclic-profile body when every call `q<j>` returns `vals[j]`
pub fn eval_over(e: &E, env: &Env, vals: &[u32]) -> u32 {
    let mut calls = vec![];
    calls_of(e, env, vals, &mut calls) % 256
}

/// no `+` (mod-4 addition is not monotone on bit sets) and conditions on inputs only
pub fn is_monotone(e: &E) -> bool {
    match e {
        E::C(_) | E::In(_) | E::Call(_) => true,
        E::BOr(a, b) | E::BAnd(a, b) => is_monotone(a) && is_monotone(b),
        E::If(c, a, b) => matches!(**c, E::In(_)) && is_monotone(a) && is_monotone(b),
        _ => false,
    }
}

/// monotone in the branches that are LIVE under the current inputs (conditions are inputs): a
/// program whose non-monotone operations sit in dead branches has a least fixpoint now, whatever
/// happened in earlier revisions
pub fn is_monotone_live(e: &E, env: &Env) -> bool {
    match e {
        E::C(_) | E::In(_) | E::Call(_) | E::Cell(_) => true,
        E::BOr(a, b) | E::BAnd(a, b) => is_monotone_live(a, env) && is_monotone_live(b, env),
        E::If(c, a, b) => match **c {
            E::In(i) => {
                if env.inputs[i] % 2 == 1 {
                    is_monotone_live(a, env)
                } else {
                    is_monotone_live(b, env)
                }
            }
            // a GATE: `? c a c0` = a if bit 0 of c is set, bottom otherwise — monotone in c and a
            // (the bit, once set, stays set as values ascend); `a` is only CALLED once the gate is
            // open, so the call graph depends on the values
            _ => **b == E::C(0) && is_monotone_live(c, env) && is_monotone_live(a, env),
        },
        _ => false,
    }
}

fn fallback_reference(env: &Env) -> Vec<Outcome> {
    let n = env.prog.nodes.len();
    // call edges depend on inputs only (conditions are input-controlled): evaluate with dummy values
    let dummy = vec![0u32; n];
    let mut graph = vec![vec![]; n];
    for q in 0..n {
        calls_of(&env.prog.nodes[q].1, env, &dummy, &mut graph[q]);
    }
    let reach = |from: usize| -> Vec<bool> {
        let mut seen = vec![false; n];
        let mut st = vec![from];
        while let Some(x) = st.pop() {
            for &y in &graph[x] {
                if !seen[y] {
                    seen[y] = true;
                    st.push(y);
                }
            }
        }
        seen
    };
    let on_cycle: Vec<bool> = (0..n).map(|q| reach(q)[q]).collect();
    // values: participants get the fallback; others their body over those results (a DAG now)
    let mut vals: Vec<Option<u32>> = (0..n).map(|q| if on_cycle[q] { Some(FB_BASE + q as u32) } else { None }).collect();
    fn go(q: usize, env: &Env, vals: &mut Vec<Option<u32>>) -> u32 {
        if let Some(v) = vals[q] {
            return v;
        }
        // evaluate the body with recursive calls
        fn ev(e: &E, env: &Env, vals: &mut Vec<Option<u32>>) -> u32 {
            match e {
                E::C(n) => *n,
                E::In(i) => env.inputs[*i],
                E::Call(j) => go(*j, env, vals),
                E::BOr(a, b) => ev(a, env, vals) | ev(b, env, vals),
                E::BAnd(a, b) => ev(a, env, vals) & ev(b, env, vals),
                E::Add(a, b) => (ev(a, env, vals) + ev(b, env, vals)) % 4,
                E::Min(a, b) => ev(a, env, vals).min(ev(b, env, vals)),
                E::Max(a, b) => ev(a, env, vals).max(ev(b, env, vals)),
                E::If(c, a, b) => {
                    if ev(c, env, vals) % 2 == 1 {
                        ev(a, env, vals)
                    } else {
                        ev(b, env, vals)
                    }
                }
                _ => 0,
            }
        }
        let e = env.prog.nodes[q].1.clone();
        let v = ev(&e, env, vals);
        vals[q] = Some(v);
        v
    }
    (0..n).map(|q| Outcome::Val(RV::num(go(q, env, &mut vals)))).collect()
}

/// call graph of a cyclic-profile program under the current inputs (conditions are
/// input-controlled): (`on_cycle[q]`, `reach[q][x]` = a non-empty path q → x exists)
pub fn cycle_info(env: &Env) -> (Vec<bool>, Vec<Vec<bool>>) {
    let n = env.prog.nodes.len();
    // calls behind value-controlled gates belong to the graph once the gate opens: take the call
    // graph at the converged (Kleene) values; for programs without gates this is the static graph
    let mut vals = vec![0u32; n];
    if !env.prog.nodes.iter().any(|x| x.0 == Kind::Fb) {
        for _ in 0..(8 * n + 16) {
            let mut next = vals.clone();
            for q in 0..n {
                let mut calls = vec![];
                next[q] = calls_of(&env.prog.nodes[q].1, env, &vals, &mut calls);
            }
            if next == vals {
                break;
            }
            vals = next;
        }
    }
    let mut graph = vec![vec![]; n];
    for q in 0..n {
        calls_of(&env.prog.nodes[q].1, env, &vals, &mut graph[q]);
    }
    let reach: Vec<Vec<bool>> = (0..n)
        .map(|from| {
            let mut seen = vec![false; n];
            let mut st = vec![from];
            while let Some(x) = st.pop() {
                for &y in &graph[x] {
                    if !seen[y] {
                        seen[y] = true;
                        st.push(y);
                    }
                }
            }
            seen
        })
        .collect();
    ((0..n).map(|q| reach[q][q]).collect(), reach)
}

/// for a fallback program under the current inputs: does node `q` lie on a cycle, or can it reach
/// a node that does?  (Only such a node's value can be touched by known finding C13/kf1 — a
/// participant that does not return its fallback; a node whose cone holds no cycle at all has a
/// plain from-scratch value and a mismatch there is something else.)
pub fn fallback_cone_has_cycle(env: &Env) -> Vec<bool> {
    let n = env.prog.nodes.len();
    let dummy = vec![0u32; n];
    let mut graph = vec![vec![]; n];
    for q in 0..n {
        calls_of(&env.prog.nodes[q].1, env, &dummy, &mut graph[q]);
    }
    let reach = |from: usize| -> Vec<bool> {
        let mut seen = vec![false; n];
        let mut st = vec![from];
        while let Some(x) = st.pop() {
            for &y in &graph[x] {
                if !seen[y] {
                    seen[y] = true;
                    st.push(y);
                }
            }
        }
        seen
    };
    let on_cycle: Vec<bool> = (0..n).map(|q| reach(q)[q]).collect();
    (0..n)
        .map(|q| {
            let r = reach(q);
            (0..n).any(|x| (x == q || r[x]) && on_cycle[x])
        })
        .collect()
}

// ---------------------------------------------------------------------------------------------
// generators

#[derive(Clone, Copy, Debug, PartialEq, Eq)]
pub enum Profile {
    /// S2 fragment: plain kinds, inputs, calls, arithmetic, branches (Lean model `core`)
    Core,
    /// S3: + noeq, lru, untracked cells (Lean model `core3`)
    Core3,
    /// everything acyclic: + tracked structs, specify, interning, multi-arg, accumulators
    Full,
    /// cyclic programs over 8-bit sets
    Cycle,
    /// core + `mk`/`sp`/`tv`/`tk` with at most one struct per creator (Lean model `corespec`)
    Spec,
    /// core + `pu` and `acc` ops (Lean model `coreacc`)
    Acc,
}

impl Profile {
    pub fn parse(s: &str) -> Option<Profile> {
        Some(match s {
            "core" => Profile::Core,
            "core3" => Profile::Core3,
            "full" => Profile::Full,
            "cycle" => Profile::Cycle,
            "spec" => Profile::Spec,
            "acc" => Profile::Acc,
            _ => return None,
        })
    }
}

fn gb(r: &mut Rng, p: Profile, rank: usize, pr: &Prog, d: u32, special: u8) -> Box<E> {
    Box::new(gen_e(r, p, rank, pr, d, special))
}

/// `special`: 0 node body, 1 on_ts/spec body (SelfK/SelfV allowed), 2 on_sym/two body (Arg allowed)
pub fn gen_e(r: &mut Rng, p: Profile, rank: usize, pr: &Prog, depth: u32, special: u8) -> E {
    let x = r.below(100);
    if depth == 0 || x < 10 {
        return match special {
            1 if r.chance(1, 2) => {
                if r.chance(1, 2) {
                    E::SelfV
                } else {
                    E::SelfK
                }
            }
            2 if r.chance(1, 2) => E::Arg,
            _ => {
                if r.chance(1, 2) && pr.ninputs > 0 {
                    E::In(r.usize(pr.ninputs))
                } else {
                    E::C(r.below(4) as u32)
                }
            }
        };
    }
    if x < 30 && pr.ninputs > 0 {
        return E::In(r.usize(pr.ninputs));
    }
    if x < 52 && rank > 0 {
        return E::Call(r.usize(rank));
    }
    if x < 62 {
        // branch on an input so that dependency sets are dynamic
        let c = if r.chance(2, 3) && pr.ninputs > 0 { Box::new(E::In(r.usize(pr.ninputs))) } else { gb(r, p, rank, pr, depth - 1, special) };
        return E::If(c, gb(r, p, rank, pr, depth - 1, special), gb(r, p, rank, pr, depth - 1, special));
    }
    if x < 70 {
        return E::Add(gb(r, p, rank, pr, depth - 1, special), gb(r, p, rank, pr, depth - 1, special));
    }
    if x < 76 {
        return if r.chance(1, 2) {
            E::Min(gb(r, p, rank, pr, depth - 1, special), gb(r, p, rank, pr, depth - 1, special))
        } else {
            E::Max(gb(r, p, rank, pr, depth - 1, special), gb(r, p, rank, pr, depth - 1, special))
        };
    }
    if matches!(p, Profile::Core3 | Profile::Full) && x < 80 && pr.ncells > 0 {
        return E::Cell(r.usize(pr.ncells));
    }
    if p == Profile::Full {
        if special == 0 && x < 86 {
            return E::Mk(gb(r, p, rank, pr, depth - 1, 0), gb(r, p, rank, pr, depth - 1, 0), gb(r, p, rank, pr, depth - 1, 0), gb(r, p, rank, pr, depth - 1, 0));
        }
        let a = gb(r, p, rank, pr, depth - 1, special);
        return match x {
            80..=87 => E::TsV(a),
            88 => E::TsK(a),
            89..=90 => E::OnTs(a),
            91..=92 => E::Spec(a),
            93..=94 => E::Intern(a),
            95 => E::SymF(a),
            96 => E::OnSym(a),
            97 => E::Two(r.usize(2), a),
            _ => E::Push(a),
        };
    }
    E::C(r.below(4) as u32)
}

/// core-language expression (no cells, no structs)
fn gen_core_e(r: &mut Rng, rank: usize, ni: usize, depth: u32) -> E {
    let pr = Prog { ninputs: ni, ..Prog::empty() };
    gen_e(r, Profile::Core, rank, &pr, depth, 0)
}

fn gen_history(r: &mut Rng, n: usize, ni: usize, init: &[(u32, u8)], with_acc: bool) -> Vec<Op> {
    let mut ops = vec![];
    let len = 5 + r.usize(30);
    let mut cur: Vec<u32> = init.iter().map(|x| x.0).collect();
    for _ in 0..len {
        let x = r.below(100);
        if x < 50 {
            ops.push(if with_acc && r.chance(1, 2) { Op::Acc(r.usize(n)) } else { Op::Get(r.usize(n)) });
        } else if x < 90 {
            let i = r.usize(ni);
            let v = if r.chance(1, 3) { cur[i] } else { r.below(4) as u32 };
            cur[i] = v;
            let d = match r.below(10) {
                0..=6 => None,
                7 => Some(0),
                8 => Some(1 + r.below(2) as u8),
                _ => Some(r.below(4) as u8),
            };
            ops.push(Op::Set(i, v, d));
        } else {
            ops.push(Op::Synth(r.below(4) as u8));
        }
    }
    ops
}

/// creators with at most one struct (identity c0), conditionally created and conditionally
/// specified; readers ask `sp`, `tv`, `tk` of the creators' results
pub fn gen_spec_case(r: &mut Rng) -> Case {
    let n = 3 + r.usize(5);
    let ni = 2 + r.usize(3);
    let mut prog = Prog::empty();
    prog.ninputs = ni;
    let ncreators = 1 + r.usize(2);
    let small = |r: &mut Rng| -> Box<E> { Box::new(if r.chance(2, 3) { E::In(r.usize(ni)) } else { E::C(r.below(4) as u32) }) };
    // spec body over sk / sv / inputs
    prog.spec = match r.below(4) {
        0 => E::SelfV,
        1 => E::Add(Box::new(E::SelfV), small(r)),
        2 => E::If(small(r), Box::new(E::SelfV), small(r)),
        _ => *small(r),
    };
    for k in 0..n {
        let e = if k < ncreators {
            let mk = E::Mk(Box::new(E::C(0)), small(r), Box::new(E::In(r.usize(ni))), small(r));
            match r.below(4) {
                0 => E::If(Box::new(E::In(r.usize(ni))), Box::new(mk), Box::new(gen_core_e(r, k, ni, 1))),
                _ => mk,
            }
        } else if r.chance(3, 4) {
            let src = Box::new(E::Call(r.usize(ncreators)));
            match r.below(6) {
                0 | 1 => E::Spec(src),
                2 => E::TsV(src),
                3 => E::Add(Box::new(E::Spec(src)), Box::new(gen_core_e(r, k, ni, 1))),
                4 => E::If(Box::new(E::In(r.usize(ni))), Box::new(E::Spec(src)), Box::new(gen_core_e(r, k, ni, 1))),
                _ => E::Add(Box::new(E::TsK(src.clone())), Box::new(E::Spec(src))),
            }
        } else {
            gen_core_e(r, k, ni, 2)
        };
        prog.nodes.push((Kind::Plain, e));
    }
    let init: Vec<(u32, u8)> = (0..ni).map(|_| (r.below(4) as u32, if r.chance(2, 3) { 0 } else { r.below(4) as u8 })).collect();
    let ops = gen_history(r, n, ni, &init, false);
    Case { prog, init, ops }
}

pub fn gen_acc_case(r: &mut Rng) -> Case {
    let n = 2 + r.usize(6);
    let ni = 1 + r.usize(4);
    let mut prog = Prog::empty();
    prog.ninputs = ni;
    for k in 0..n {
        let mut e = gen_core_e(r, k, ni, 3);
        if r.chance(1, 2) {
            let push = E::Push(Box::new(if r.chance(1, 2) { E::In(r.usize(ni)) } else { E::C(r.below(4) as u32) }));
            e = match r.below(3) {
                0 => E::Add(Box::new(push), Box::new(e)),
                1 => E::Add(Box::new(e), Box::new(push)),
                _ => E::If(Box::new(E::In(r.usize(ni))), Box::new(E::Add(Box::new(push), Box::new(e))), Box::new(gen_core_e(r, k, ni, 2))),
            };
        }
        prog.nodes.push((Kind::Plain, e));
    }
    let init: Vec<(u32, u8)> = (0..ni).map(|_| (r.below(4) as u32, if r.chance(1, 2) { 0 } else { r.below(4) as u8 })).collect();
    let ops = gen_history(r, n, ni, &init, true);
    Case { prog, init, ops }
}

pub fn gen_case(r: &mut Rng, p: Profile) -> Case {
    if p == Profile::Cycle {
        return gen_cycle_case(r);
    }
    if p == Profile::Spec {
        return gen_spec_case(r);
    }
    if p == Profile::Acc {
        return gen_acc_case(r);
    }
    if matches!(p, Profile::Core3 | Profile::Full) && r.chance(1, 6) {
        return gen_durswitch_case(r, p);
    }
    if p == Profile::Full && r.chance(1, 12) {
        return gen_acc_lru_case(r);
    }
    let n = 2 + r.usize(7);
    let mut prog = Prog::empty();
    prog.ninputs = 1 + r.usize(4);
    prog.ncells = if matches!(p, Profile::Core3 | Profile::Full) { 1 + r.usize(2) } else { 0 };
    if p == Profile::Full {
        prog.on_ts = gen_e(r, p, 0, &prog, 2, 1);
        prog.spec = gen_e(r, p, 0, &prog, 2, 1);
        prog.on_sym = gen_e(r, p, 0, &prog, 2, 2);
        prog.two = gen_e(r, p, 0, &prog, 2, 2);
        // special bodies must not create structs, push, or call nodes of unknown rank
        for b in [&mut prog.on_ts, &mut prog.spec, &mut prog.on_sym, &mut prog.two] {
            sanitize_special(b);
        }
    }
    // structured shapes (full profile): creators whose structs / interned values flow to readers
    let shape = if p == Profile::Full { r.below(10) } else { 0 };
    for k in 0..n {
        let kind = match p {
            Profile::Core => Kind::Plain,
            _ => [Kind::Plain, Kind::Plain, Kind::NoEq, Kind::Lru][r.usize(4)],
        };
        let small = |r: &mut Rng, prog: &Prog| -> Box<E> {
            Box::new(if r.chance(2, 3) { E::In(r.usize(prog.ninputs)) } else { E::C(r.below(4) as u32) })
        };
        let e = match shape {
            // handle flow: creators conditionally specify; readers ask spec / on_ts / fields
            5..=7 if k < 2 => {
                // one third: "late specify" order with constant fields (identity literal >= 2), so
                // that the struct exists before the creator has read anything
                let mk = if r.chance(1, 3) {
                    E::Mk(Box::new(E::C(1000 + r.below(2) as u32)), Box::new(E::C(r.below(4) as u32)), Box::new(E::In(r.usize(prog.ninputs))), small(r, &prog))
                } else {
                    E::Mk(small(r, &prog), small(r, &prog), Box::new(E::In(r.usize(prog.ninputs))), small(r, &prog))
                };
                if r.chance(1, 3) { E::If(Box::new(E::In(r.usize(prog.ninputs))), Box::new(mk), Box::new(gen_e(r, p, k, &prog, 2, 0))) } else { mk }
            }
            5..=7 if r.chance(2, 3) => {
                let src = Box::new(E::Call(r.usize(2.min(k))));
                match r.below(6) {
                    0 | 1 => E::Spec(src),
                    2 => E::OnTs(src),
                    3 => E::TsV(src),
                    4 => E::Add(Box::new(E::Spec(src)), Box::new(gen_e(r, p, k, &prog, 1, 0))),
                    _ => E::Add(Box::new(E::OnTs(src.clone())), Box::new(E::Spec(src))),
                }
            }
            // interned churn: values come and go with the inputs
            8 if r.chance(2, 3) => {
                let i = Box::new(E::Intern(small(r, &prog)));
                match r.below(3) {
                    0 => E::SymF(i),
                    1 => E::OnSym(i),
                    _ => E::Add(Box::new(E::OnSym(i)), Box::new(gen_e(r, p, k, &prog, 1, 0))),
                }
            }
            // accumulators under input-controlled branches
            9 if r.chance(2, 3) => {
                let push = E::Push(small(r, &prog));
                let rest = gen_e(r, p, k, &prog, 2, 0);
                if r.chance(1, 2) {
                    E::If(Box::new(E::In(r.usize(prog.ninputs))), Box::new(E::Add(Box::new(push), Box::new(rest))), Box::new(gen_e(r, p, k, &prog, 2, 0)))
                } else {
                    E::Add(Box::new(rest), Box::new(push))
                }
            }
            _ => gen_e(r, p, k, &prog, 3, 0),
        };
        prog.nodes.push((kind, e));
    }
    let init: Vec<(u32, u8)> = (0..prog.ninputs).map(|_| (r.below(4) as u32, if r.chance(1, 2) { 0 } else { r.below(4) as u8 })).collect();
    let mut ops = vec![];
    let len = 5 + r.usize(36);
    let mut cur: Vec<u32> = init.iter().map(|x| x.0).collect();
    for _ in 0..len {
        let x = r.below(100);
        if x < 50 {
            ops.push(Op::Get(r.usize(n)));
        } else if x < 82 {
            let i = r.usize(prog.ninputs);
            // >= 30 % of the writes re-write the same value
            let v = if r.chance(1, 3) { cur[i] } else { r.below(4) as u32 };
            cur[i] = v;
            let d = match r.below(10) {
                0..=6 => None,
                7 => Some(0),
                8 => Some(1 + r.below(2) as u8),
                _ => Some(r.below(4) as u8),
            };
            ops.push(Op::Set(i, v, d));
        } else if x < 88 {
            ops.push(Op::Synth(r.below(4) as u8));
        } else if matches!(p, Profile::Core3 | Profile::Full) {
            match x {
                88..=91 if prog.ncells > 0 => {
                    // the property speaks about cell changes followed by a new revision
                    ops.push(Op::Cell(r.usize(prog.ncells), r.below(4) as u32));
                    ops.push(Op::Synth(r.below(3) as u8));
                }
                92..=94 => ops.push(Op::LruCap(r.usize(4))),
                95..=96 => ops.push(Op::Evict),
                _ if p == Profile::Full => ops.push(Op::Acc(r.usize(n))),
                _ => ops.push(Op::Get(r.usize(n))),
            }
        } else {
            ops.push(Op::Get(r.usize(n)));
        }
    }
    Case { prog, init, ops }
}

/// Directed family (full profile): ACCUMULATING `lru` nodes under eviction pressure.  `k` lru nodes (more than the
/// capacity) push a value each; a chain of non-pushing plain callers sits between the root and the first lru node, so that
/// after an eviction and a revision that leaves the chain merely verified the accumulated values must still be found.
fn gen_acc_lru_case(r: &mut Rng) -> Case {
    let mut prog = Prog::empty();
    prog.ninputs = 2 + r.usize(2);
    prog.ncells = 1;
    let k = 3 + r.usize(2);
    for q in 0..k {
        let v = if r.chance(1, 2) { E::In(r.usize(prog.ninputs)) } else { E::C(r.below(4) as u32) };
        let body = if q > 0 && r.chance(1, 3) {
            E::Add(Box::new(E::Push(Box::new(v))), Box::new(E::Call(q - 1)))
        } else {
            E::Push(Box::new(v))
        };
        prog.nodes.push((Kind::Lru, body));
    }
    let depth = 1 + r.usize(3);
    let mut below = r.usize(k);
    for _ in 0..depth {
        let e = if r.chance(1, 4) { E::Add(Box::new(E::Call(below)), Box::new(E::In(r.usize(prog.ninputs)))) } else { E::Call(below) };
        prog.nodes.push((Kind::Plain, e));
        below = prog.nodes.len() - 1;
    }
    let root = below;
    let init: Vec<(u32, u8)> = (0..prog.ninputs).map(|_| (r.below(4) as u32, r.below(3) as u8)).collect();
    let mut ops = vec![Op::Acc(root)];
    for _ in 0..(2 + r.usize(6)) {
        match r.below(10) {
            0..=3 => ops.push(Op::Get(r.usize(k))),
            4..=5 => ops.push(Op::Synth(r.below(3) as u8)),
            6 => ops.push(Op::Set(r.usize(prog.ninputs), r.below(4) as u32, None)),
            7 => ops.push(Op::Acc(r.usize(prog.nodes.len()))),
            _ => ops.push(Op::Acc(root)),
        }
    }
    for q in 0..k {
        ops.push(Op::Get(q));
    }
    ops.push(Op::Synth(r.below(3) as u8));
    ops.push(Op::Acc(root));
    Case { prog, init, ops }
}

/// directed family "durability switch": node 0 reads, under a (usually durable) flag input, either a
/// durable input or something less durable (an untracked cell, a low-durability input, a constant);
/// the histories flip the flag while the two alternatives hold EQUAL values (so that the new memo
/// is a backdating candidate whose durability dropped), then change only the newly read source with
/// a low-durability write and ask a consumer again.
fn gen_durswitch_case(r: &mut Rng, p: Profile) -> Case {
    let mut prog = Prog::empty();
    prog.ninputs = 3 + r.usize(2);
    prog.ncells = 1 + r.usize(2);
    let alt_kind = r.below(4);
    let alt = match alt_kind {
        0 | 1 => E::Cell(0),
        2 => E::In(2),
        _ => E::C(r.below(4) as u32),
    };
    let sw = if r.chance(1, 2) {
        E::If(Box::new(E::In(0)), Box::new(alt), Box::new(E::In(1)))
    } else {
        E::If(Box::new(E::In(0)), Box::new(E::In(1)), Box::new(alt))
    };
    let n = 2 + r.usize(4);
    prog.nodes.push(([Kind::Plain, Kind::Plain, Kind::NoEq, Kind::Lru][r.usize(4)], sw));
    for k in 1..n {
        let kind = [Kind::Plain, Kind::Plain, Kind::NoEq, Kind::Lru][r.usize(4)];
        let e = if k == 1 || r.chance(1, 2) {
            let j = if r.chance(1, 2) { 0 } else { r.usize(k) };
            match r.below(4) {
                0 | 1 => E::Call(j),
                2 => E::Add(Box::new(E::Call(j)), Box::new(E::C(r.below(4) as u32))),
                _ => E::Max(Box::new(E::Call(j)), Box::new(E::In(r.usize(prog.ninputs)))),
            }
        } else {
            gen_e(r, p, k, &prog, 2, 0)
        };
        prog.nodes.push((kind, e));
    }
    let dh = 1 + r.below(3) as u8;
    let mut init: Vec<(u32, u8)> = vec![
        (r.below(2) as u32, if r.chance(5, 6) { dh } else { 0 }),
        (r.below(4) as u32, if r.chance(5, 6) { 1 + r.below(3) as u8 } else { 0 }),
        (r.below(4) as u32, if r.chance(2, 3) { 0 } else { r.below(4) as u8 }),
    ];
    while init.len() < prog.ninputs {
        init.push((r.below(4) as u32, if r.chance(1, 2) { 0 } else { r.below(4) as u8 }));
    }
    let mut cur: Vec<u32> = init.iter().map(|x| x.0).collect();
    let mut ops = vec![];
    let consumer = |r: &mut Rng| if r.chance(1, 4) { 0 } else { 1 + r.usize(n - 1) };
    for _ in 0..2 + r.usize(4) {
        ops.push(Op::Get(consumer(r)));
        // make the alternative equal to the durable input most of the time
        let eq = if r.chance(3, 4) { cur[1] } else { r.below(4) as u32 };
        match alt_kind {
            0 | 1 => ops.push(Op::Cell(0, eq)),
            2 => {
                cur[2] = eq;
                ops.push(Op::Set(2, eq, if r.chance(2, 3) { None } else { Some(0) }));
            }
            _ => {}
        }
        // flip the flag, usually keeping its durability
        cur[0] = 1 - cur[0] % 2;
        ops.push(Op::Set(0, cur[0], if r.chance(3, 4) { None } else { Some(r.below(4) as u8) }));
        if r.chance(3, 4) {
            ops.push(Op::Get(consumer(r)));
        }
        // change only what is read now (or nothing), with a low-durability revision bump
        match r.below(4) {
            0 | 1 => {
                ops.push(Op::Cell(0, r.below(4) as u32));
                ops.push(Op::Synth(0));
            }
            2 => {
                let i = 2 + r.usize(prog.ninputs - 2);
                cur[i] = r.below(4) as u32;
                ops.push(Op::Set(i, cur[i], if r.chance(2, 3) { None } else { Some(0) }));
            }
            _ => {
                cur[1] = r.below(4) as u32;
                ops.push(Op::Set(1, cur[1], None));
            }
        }
        ops.push(Op::Get(consumer(r)));
        for _ in 0..r.usize(3) {
            match r.below(6) {
                0 => ops.push(Op::Synth(r.below(4) as u8)),
                1 => ops.push(Op::Evict),
                2 => ops.push(Op::LruCap(r.usize(4))),
                _ => ops.push(Op::Get(r.usize(n))),
            }
        }
    }
    Case { prog, init, ops }
}

fn sanitize_special(e: &mut E) {
    match e {
        E::Call(_) | E::Mk(..) | E::Push(_) | E::OnTs(_) | E::Spec(_) | E::OnSym(_) | E::Two(..) | E::Intern(_) => *e = E::C(1),
        E::Add(a, b) | E::Min(a, b) | E::Max(a, b) | E::BOr(a, b) | E::BAnd(a, b) => {
            sanitize_special(a);
            sanitize_special(b);
        }
        E::If(c, a, b) => {
            sanitize_special(c);
            sanitize_special(a);
            sanitize_special(b);
        }
        E::TsV(a) | E::TsK(a) | E::SymF(a) => sanitize_special(a),
        _ => {}
    }
}

/// monotone body over 8-bit sets: `const ∪ ⋃ (call j ∩ mask)` with input masks and input-controlled
/// branches
fn gen_mono(r: &mut Rng, n: usize, ni: usize, depth: u32) -> E {
    let x = r.below(100);
    if depth == 0 || x < 15 {
        return if r.chance(1, 2) { E::C(1 << r.below(8)) } else { E::In(r.usize(ni)) };
    }
    if x < 50 {
        return E::Call(r.usize(n));
    }
    if GATES.with(|g| g.get()) && x < 62 {
        // value-controlled gate: the guarded sub-expression (and its calls) only happens once
        // bit 0 of the guard's value is set — cycles that form, grow and reshape WHILE iterating
        let guard = if r.chance(2, 3) { E::Call(r.usize(n)) } else { gen_mono(r, n, ni, depth - 1) };
        return E::If(Box::new(guard), Box::new(gen_mono(r, n, ni, depth - 1)), Box::new(E::C(0)));
    }
    if x < 70 {
        return E::BOr(Box::new(gen_mono(r, n, ni, depth - 1)), Box::new(gen_mono(r, n, ni, depth - 1)));
    }
    if x < 85 {
        return E::BAnd(Box::new(gen_mono(r, n, ni, depth - 1)), Box::new(gen_mono(r, n, ni, depth - 1)));
    }
    E::If(Box::new(E::In(r.usize(ni))), Box::new(gen_mono(r, n, ni, depth - 1)), Box::new(gen_mono(r, n, ni, depth - 1)))
}

fn strip_calls(e: &mut E) {
    match e {
        E::Call(_) => *e = E::C(5),
        E::BOr(a, b) | E::BAnd(a, b) => {
            strip_calls(a);
            strip_calls(b);
        }
        E::If(_, a, b) => {
            strip_calls(a);
            strip_calls(b);
        }
        _ => {}
    }
}

thread_local! {
    /// flavour 6: `gen_mono` also emits value-controlled gates
    static GATES: std::cell::Cell<bool> = const { std::cell::Cell::new(false) };
}

thread_local! {
    /// restriction of the cyclic generator to some flavours (0 monotone fixpoint, 1 fallback,
    /// 2 with no-recovery nodes, 3 non-monotone, 4 acyclic feeders + fixpoint); empty = all
    pub static CYCLE_FLAVOURS: std::cell::RefCell<Vec<u8>> = const { std::cell::RefCell::new(Vec::new()) };
}

pub fn gen_cycle_case(r: &mut Rng) -> Case {
    let n = 2 + r.usize(5);
    let mut prog = Prog::empty();
    prog.ninputs = 2 + r.usize(3);
    // flavour: 0 monotone fixpoint (C12), 1 fallback (C13), 2 with a no-recovery node (C14),
    // 3 non-monotone / diverging (C15)
    let allowed = CYCLE_FLAVOURS.with(|f| f.borrow().clone());
    let flavour = if allowed.is_empty() { [0, 0, 0, 1, 1, 2, 3, 4, 4][r.usize(9)] } else { allowed[r.usize(allowed.len())] };
    if flavour == 5 {
        return gen_cycle_untracked_case(r);
    }
    GATES.with(|g| g.set(flavour == 6));
    if flavour == 6 && r.chance(1, 4) {
        return gen_gated_nested_case(r);
    }
    let flavour = if flavour == 6 { 0 } else { flavour };
    let nplain = if flavour == 4 { 1 + r.usize(2) } else { 0 };
    for q in 0..n {
        let (kind, body) = match flavour {
            // finalised acyclic functions feeding a fixpoint cycle (C12: incremental history)
            4 if q < nplain => {
                let mut e = gen_mono(r, q.max(1), prog.ninputs, 2);
                if q == 0 {
                    strip_calls(&mut e);
                }
                (Kind::Plain, e)
            }
            4 => (Kind::Fix, gen_mono(r, n, prog.ninputs, 3)),
            0 => ([Kind::Fix, Kind::FixJoin][r.usize(2)], gen_mono(r, n, prog.ninputs, 3)),
            1 => (Kind::Fb, gen_mono(r, n, prog.ninputs, 3)),
            2 => (if q == 0 || r.chance(1, 4) { Kind::NoCyc } else { Kind::Fix }, gen_mono(r, n, prog.ninputs, 3)),
            _ => {
                // an increasing counter through a cycle: (call + 1) mod 256, cut by an input
                let j = r.usize(n);
                // half of the counters join two calls, so that diverging revisions have nested heads
                let src = if r.chance(1, 2) { E::Call(j) } else { E::BOr(Box::new(E::Call(j)), Box::new(E::Call(r.usize(n)))) };
                let inc = E::Add(Box::new(src), Box::new(E::C(1)));
                if q > 0 && r.chance(1, 3) {
                    // a reader that does not look at the input steering divergence itself: its
                    // validation walks into the (possibly poisoned) cycle members first
                    (Kind::Fix, E::BOr(Box::new(E::Call(r.usize(q))), Box::new(gen_mono(r, q, prog.ninputs, 1))))
                } else {
                    (Kind::Fix, E::If(Box::new(E::In(0)), Box::new(inc), Box::new(gen_mono(r, n, prog.ninputs, 2))))
                }
            }
        };
        prog.nodes.push((kind, body));
    }
    let init: Vec<(u32, u8)> = (0..prog.ninputs).map(|_| (r.below(256) as u32, if r.chance(2, 3) { 0 } else { r.below(3) as u8 })).collect();
    let mut ops = vec![];
    if flavour == 3 && r.chance(1, 3) {
        // directed history for diverging programs: converge (input 0 even) and memoise some readers,
        // diverge (odd) and ask (too-many-iterations panic), converge again and ask a READER of the
        // revision-1 results first — recovery must not depend on which function is asked first
        let mut init = init.clone();
        init[0].0 &= !1;
        for _ in 0..1 + r.usize(3) {
            ops.push(Op::Get(r.usize(n)));
        }
        ops.push(Op::Set(0, r.below(128) as u32 * 2 + 1, None));
        for _ in 0..1 + r.usize(2) {
            ops.push(Op::Get(r.usize(n)));
        }
        ops.push(Op::Set(0, r.below(128) as u32 * 2, None));
        for _ in 0..2 + r.usize(3) {
            ops.push(Op::Get(r.usize(n)));
        }
        if r.chance(1, 2) {
            ops.push(Op::Set(r.usize(prog.ninputs), r.below(256) as u32, None));
            ops.push(Op::Get(r.usize(n)));
        }
        return Case { prog, init, ops };
    }
    let len = 4 + r.usize(20);
    for _ in 0..len {
        let x = r.below(100);
        if x < 60 {
            ops.push(Op::Get(r.usize(n)));
        } else if x < 92 {
            let d = if r.chance(3, 4) { None } else { Some(r.below(3) as u8) };
            ops.push(Op::Set(r.usize(prog.ninputs), r.below(256) as u32, d));
        } else {
            ops.push(Op::Synth(r.below(3) as u8));
        }
    }
    Case { prog, init, ops }
}

/// directed part of flavour 6: an outer head over an inner query that turns into a NESTED,
/// self-referential head only in a later iteration of the outer one (its self-call sits behind a
/// gate on the outer value), and whose value computed from a bottom self-read equals the value it
/// had as a plain participant one iteration earlier: `outer = base_o | inner`,
/// `inner = base_i | gate(outer, gate(inner, extra))` with bit 0 in `base_i`.  Least fixpoint:
/// `inner = base_i | extra`.  Histories write the inner query's own inputs right before entering
/// through either member.
fn gen_gated_nested_case(r: &mut Rng) -> Case {
    let mut prog = Prog::empty();
    prog.ninputs = 3 + r.usize(2);
    let n = 2 + r.usize(4);
    let fixk = |r: &mut Rng| [Kind::Fix, Kind::FixJoin][r.usize(2)];
    let gate = |c: E, a: E| E::If(Box::new(c), Box::new(a), Box::new(E::C(0)));
    let or = |a: E, b: E| E::BOr(Box::new(a), Box::new(b));
    // node 0 = outer, node 1 = inner
    let base_o = if r.chance(1, 2) { E::In(0) } else { E::C(1 << r.below(8)) };
    prog.nodes.push((fixk(r), or(base_o, E::Call(1))));
    let base_i = or(E::In(1), E::C(1));
    let extra = if r.chance(1, 2) { E::In(2) } else { E::C(2 << r.below(7)) };
    let inner_self = gate(E::Call(1), extra);
    prog.nodes.push((fixk(r), or(base_i, gate(E::Call(0), inner_self))));
    for q in 2..n {
        prog.nodes.push((fixk(r), gen_mono(r, q + 1, prog.ninputs, 2)));
    }
    let init: Vec<(u32, u8)> = (0..prog.ninputs).map(|_| (r.below(256) as u32, if r.chance(2, 3) { 0 } else { r.below(3) as u8 })).collect();
    let mut ops = vec![];
    for _ in 0..2 + r.usize(4) {
        if r.chance(2, 3) {
            ops.push(Op::Set(1, r.below(256) as u32, None));
        }
        if r.chance(1, 3) {
            ops.push(Op::Set(r.usize(prog.ninputs), r.below(256) as u32, None));
        }
        let first = if r.chance(2, 3) { 0 } else { r.usize(n) };
        ops.push(Op::Get(first));
        ops.push(Op::Get(r.usize(n)));
        if r.chance(1, 3) {
            ops.push(Op::Synth(r.below(3) as u8));
        }
    }
    Case { prog, init, ops }
}

/// flavour 5 (C04 inside cycles): self-loop fixpoint heads that read an untracked cell in SOME
/// iterations only (the read sits in a branch steered by the provisional value), in every
/// iteration, or never; plain / fixpoint readers on top; histories change cells (followed by a new
/// revision of any durability) and inputs.  `selfloop_reference` is exact for these programs.
fn gen_cycle_untracked_case(r: &mut Rng) -> Case {
    let mut prog = Prog::empty();
    prog.ninputs = 2 + r.usize(2);
    prog.ncells = 1 + r.usize(2);
    let n = 2 + r.usize(4);
    for q in 0..n {
        let cell = || E::Cell(0);
        let _ = cell;
        let c = r.usize(prog.ncells);
        let odd = E::BOr(Box::new(E::Cell(c)), Box::new(E::C(1)));
        let slf = || Box::new(E::Call(q));
        let (kind, e) = match if q == 0 { 0 } else { r.below(6) } {
            // read the cell only while the provisional value is still even (iteration 0)
            0 => (Kind::Fix, E::If(slf(), slf(), Box::new(odd))),
            // same with an input mixed in after convergence
            1 => (Kind::FixJoin, E::If(slf(), Box::new(E::BOr(slf(), Box::new(E::In(r.usize(prog.ninputs))))), Box::new(odd))),
            // the cell is read in every iteration
            2 => (Kind::Fix, E::BOr(slf(), Box::new(odd))),
            // plain reader of an earlier node
            3 => (Kind::Plain, E::BOr(Box::new(E::Call(r.usize(q))), Box::new(E::C(1 << r.below(8))))),
            // fixpoint self-loop over an earlier node, no untracked read of its own
            4 => (Kind::Fix, E::BOr(slf(), Box::new(E::Call(r.usize(q))))),
            _ => (Kind::Plain, E::BAnd(Box::new(E::Call(r.usize(q))), Box::new(E::In(r.usize(prog.ninputs))))),
        };
        prog.nodes.push((kind, e));
    }
    let init: Vec<(u32, u8)> = (0..prog.ninputs).map(|_| (r.below(256) as u32, if r.chance(1, 2) { 0 } else { r.below(3) as u8 })).collect();
    let mut ops = vec![];
    for _ in 0..3 + r.usize(6) {
        ops.push(Op::Get(r.usize(n)));
        match r.below(4) {
            0 | 1 => {
                ops.push(Op::Cell(r.usize(prog.ncells), r.below(128) as u32 * 2));
                ops.push(Op::Synth(r.below(3) as u8));
            }
            2 => ops.push(Op::Set(r.usize(prog.ninputs), r.below(256) as u32, None)),
            _ => ops.push(Op::Synth(r.below(3) as u8)),
        }
        if r.chance(1, 2) {
            ops.push(Op::Get(r.usize(n)));
        }
    }
    ops.push(Op::Get(n - 1));
    Case { prog, init, ops }
}

/// C22: systematic panic injection. For a small base case, every request position × every kind of
/// user code (b = tracked function body, e = event callback, q = tracked-field `PartialEq`) ×
/// every k = 1..=kmax ("the k-th such user call of that op panics") gives one derived case.
pub fn gen_inject_cases(r: &mut Rng, kmax: u32) -> Vec<Case> {
    let mut base = gen_case(r, Profile::Full);
    if r.chance(1, 3) {
        // directed base: a creator whose struct's tracked field follows an input, readers through
        // a tracked function on the struct / the field / the specifiable function, and a history
        // that re-creates the struct with a changed field (where `update` runs user `PartialEq`)
        let mut prog = Prog::empty();
        prog.ninputs = 2 + r.usize(2);
        prog.ncells = 1;
        prog.on_ts = if r.chance(1, 2) { E::SelfV } else { E::Add(Box::new(E::SelfV), Box::new(E::In(1))) };
        prog.spec = E::SelfV;
        let val = if r.chance(2, 3) { E::In(0) } else { E::Add(Box::new(E::In(0)), Box::new(E::In(1))) };
        let flag = if r.chance(2, 3) { E::C(0) } else { E::In(1) };
        prog.nodes.push((Kind::Plain, E::Mk(Box::new(E::C(0)), Box::new(val), Box::new(flag), Box::new(E::C(r.below(4) as u32)))));
        for _ in 0..1 + r.usize(3) {
            let src = Box::new(E::Call(0));
            let e = match r.below(4) {
                0 => E::OnTs(src),
                1 => E::TsV(src),
                2 => E::Spec(src),
                _ => E::Add(Box::new(E::OnTs(src.clone())), Box::new(E::TsV(src))),
            };
            prog.nodes.push(([Kind::Plain, Kind::NoEq, Kind::Lru][r.usize(3)], e));
        }
        let n = prog.nodes.len();
        let init: Vec<(u32, u8)> = (0..prog.ninputs).map(|_| (r.below(4) as u32, 0)).collect();
        let mut ops = vec![];
        let mut cur0 = init[0].0;
        for _ in 0..2 + r.usize(2) {
            ops.push(Op::Get(1 + r.usize(n - 1)));
            cur0 = (cur0 + 1 + r.below(3) as u32) % 4;
            ops.push(Op::Set(if r.chance(3, 4) { 0 } else { 1 }, cur0, None));
        }
        ops.push(Op::Get(1 + r.usize(n - 1)));
        base = Case { prog, init, ops };
    }
    base.ops.truncate(12);
    // a cell change is only meaningful together with the revision bump that follows it
    if matches!(base.ops.last(), Some(Op::Cell(..))) {
        base.ops.pop();
    }
    // make sure there are requests after the injected one
    let n = base.prog.nodes.len();
    for _ in 0..3 {
        base.ops.push(Op::Get(r.usize(n)));
    }
    let mut out = vec![];
    for p in 0..base.ops.len() {
        if !matches!(base.ops[p], Op::Get(_)) {
            continue;
        }
        for w in ['b', 'e', 'q', 'h'] {
            for k in 1..=kmax {
                let mut c = base.clone();
                c.ops.insert(p, Op::Inject(w, k));
                // two thirds: the same request is retried at once, in the SAME revision (a retry
                // that finds half-updated state is where unwind-safety defects show); the rest
                // meet whatever the history does next (often a write first)
                if (p + k as usize) % 3 != 0 {
                    let retry = c.ops[p + 1].clone();
                    c.ops.insert(p + 2, retry);
                }
                out.push(c);
            }
        }
    }
    out
}

pub fn case_hash(c: &Case) -> u64 {
    use std::hash::{Hash, Hasher};
    let mut h = std::collections::hash_map::DefaultHasher::new();
    c.prog.hash(&mut h);
    c.init.hash(&mut h);
    c.ops.hash(&mut h);
    h.finish()
}
