//! Program family for the `conc` binary (concurrency scenarios C08, C14, C16–C22, C24).
//!
//! A fixed family of salsa items interprets an immutable *program table* stored in a non-salsa
//! field of the database: `node(db, key)` functions of several kinds (plain, lru, fixpoint,
//! fallback, tracked-struct creator) whose bodies combine inputs and calls to other nodes. The same
//! table is evaluated by a sequential reference interpreter ([`oracle`]): plain recursion for DAGs,
//! Kleene iteration for fixpoint cycles, "fallback iff on a cycle" for fallback kinds, "panic iff a
//! cycle through a no-recovery function is reachable".
//!
//! All harness-side shared state uses `std::sync` (never shuttle's primitives) so that it adds no
//! scheduling points of its own.

use std::collections::HashMap;
use std::sync::atomic::{AtomicBool, AtomicU32, AtomicUsize, Ordering};
use std::sync::{Arc, Mutex, OnceLock};

use salsa::plumbing::AsId;
use salsa::verif_hooks::trace;

use crate::Rng;

// ------------------------------------------------------------------------------------------------
// program table
// ------------------------------------------------------------------------------------------------

#[derive(Clone, Copy, PartialEq, Eq, Debug, Hash)]
pub enum Kind {
    /// plain tracked fn (no cycle recovery)
    Plain,
    /// `lru = 3`
    Lru,
    /// `cycle_initial` (default `cycle_fn`)
    Fix,
    /// `cycle_fn` (join) + `cycle_initial`
    Fix2,
    /// `cycle_result`
    Fb,
    /// plain tracked fn that also creates tracked structs
    Mk,
}

impl Kind {
    pub fn name(self) -> &'static str {
        match self {
            Kind::Plain => "plain",
            Kind::Lru => "lru",
            Kind::Fix => "fix",
            Kind::Fix2 => "fix2",
            Kind::Fb => "fb",
            Kind::Mk => "mk",
        }
    }
    pub fn parse(s: &str) -> Option<Kind> {
        Some(match s {
            "plain" => Kind::Plain,
            "lru" => Kind::Lru,
            "fix" => Kind::Fix,
            "fix2" => Kind::Fix2,
            "fb" => Kind::Fb,
            "mk" => Kind::Mk,
            _ => return None,
        })
    }
    pub fn is_fix(self) -> bool {
        matches!(self, Kind::Fix | Kind::Fix2)
    }
    /// Kinds whose `execute` installs the `DisableLocalCancellationGuard`.
    pub fn disables_local_cancellation(self) -> bool {
        matches!(self, Kind::Fix | Kind::Fix2 | Kind::Fb)
    }
}

#[derive(Clone, Debug, PartialEq, Eq, Hash)]
pub enum Expr {
    Const(u8),
    In(usize),
    Call(usize),
    Or(Box<Expr>, Box<Expr>),
    And(Box<Expr>, Box<Expr>),
    Add(Box<Expr>, Box<Expr>),
    Xor(Box<Expr>, Box<Expr>),
    /// `if ins[i] & mask != 0 { a } else { b }`
    IfIn(usize, u8, Box<Expr>, Box<Expr>),
    /// intern the value and read it back (identity)
    Intern(Box<Expr>),
}

#[derive(Clone, Debug, PartialEq, Eq, Hash)]
pub struct Node {
    pub kind: Kind,
    pub body: Expr,
}

#[derive(Clone, Debug, PartialEq, Eq, Hash)]
pub struct Program {
    pub n_inputs: usize,
    pub nodes: Vec<Node>,
}

impl Expr {
    fn write(&self, o: &mut String) {
        match self {
            Expr::Const(c) => o.push_str(&format!("(c {c})")),
            Expr::In(i) => o.push_str(&format!("(in {i})")),
            Expr::Call(n) => o.push_str(&format!("(call {n})")),
            Expr::Or(a, b) => Self::bin(o, "or", a, b),
            Expr::And(a, b) => Self::bin(o, "and", a, b),
            Expr::Add(a, b) => Self::bin(o, "add", a, b),
            Expr::Xor(a, b) => Self::bin(o, "xor", a, b),
            Expr::IfIn(i, m, a, b) => {
                o.push_str(&format!("(ifin {i} {m} "));
                a.write(o);
                o.push(' ');
                b.write(o);
                o.push(')');
            }
            Expr::Intern(a) => {
                o.push_str("(intern ");
                a.write(o);
                o.push(')');
            }
        }
    }
    fn bin(o: &mut String, op: &str, a: &Expr, b: &Expr) {
        o.push('(');
        o.push_str(op);
        o.push(' ');
        a.write(o);
        o.push(' ');
        b.write(o);
        o.push(')');
    }

    fn parse(toks: &[String], pos: &mut usize) -> Option<Expr> {
        let next = |pos: &mut usize| -> Option<&String> {
            let t = toks.get(*pos)?;
            *pos += 1;
            Some(t)
        };
        if next(pos)? != "(" {
            return None;
        }
        let op = next(pos)?.clone();
        let e = match op.as_str() {
            "c" => Expr::Const(next(pos)?.parse().ok()?),
            "in" => Expr::In(next(pos)?.parse().ok()?),
            "call" => Expr::Call(next(pos)?.parse().ok()?),
            "or" | "and" | "add" | "xor" => {
                let a = Box::new(Expr::parse(toks, pos)?);
                let b = Box::new(Expr::parse(toks, pos)?);
                match op.as_str() {
                    "or" => Expr::Or(a, b),
                    "and" => Expr::And(a, b),
                    "add" => Expr::Add(a, b),
                    _ => Expr::Xor(a, b),
                }
            }
            "ifin" => {
                let i = next(pos)?.parse().ok()?;
                let m = next(pos)?.parse().ok()?;
                let a = Box::new(Expr::parse(toks, pos)?);
                let b = Box::new(Expr::parse(toks, pos)?);
                Expr::IfIn(i, m, a, b)
            }
            "intern" => Expr::Intern(Box::new(Expr::parse(toks, pos)?)),
            _ => return None,
        };
        if next(pos)? != ")" {
            return None;
        }
        Some(e)
    }

    /// Callees in evaluation order under the given inputs (taken branches only).
    fn eff_calls(&self, ins: &[u8], out: &mut Vec<usize>) {
        match self {
            Expr::Const(_) | Expr::In(_) => {}
            Expr::Call(n) => out.push(*n),
            Expr::Or(a, b) | Expr::And(a, b) | Expr::Add(a, b) | Expr::Xor(a, b) => {
                a.eff_calls(ins, out);
                b.eff_calls(ins, out);
            }
            Expr::IfIn(i, m, a, b) => {
                if ins[*i] & m != 0 {
                    a.eff_calls(ins, out)
                } else {
                    b.eff_calls(ins, out)
                }
            }
            Expr::Intern(a) => a.eff_calls(ins, out),
        }
    }

    /// Reference evaluation; `get(n)` is the value of node `n` (`None`: that request panics).
    fn eval(&self, ins: &[u8], get: &dyn Fn(usize) -> Option<u8>) -> Option<u8> {
        Some(match self {
            Expr::Const(c) => *c,
            Expr::In(i) => ins[*i],
            Expr::Call(n) => get(*n)?,
            Expr::Or(a, b) => a.eval(ins, get)? | b.eval(ins, get)?,
            Expr::And(a, b) => a.eval(ins, get)? & b.eval(ins, get)?,
            Expr::Add(a, b) => a.eval(ins, get)?.wrapping_add(b.eval(ins, get)?),
            Expr::Xor(a, b) => a.eval(ins, get)? ^ b.eval(ins, get)?,
            Expr::IfIn(i, m, a, b) => {
                if ins[*i] & m != 0 {
                    a.eval(ins, get)?
                } else {
                    b.eval(ins, get)?
                }
            }
            Expr::Intern(a) => a.eval(ins, get)?,
        })
    }
}

impl Program {
    pub fn to_text(&self) -> String {
        let mut o = format!("inputs {}\n", self.n_inputs);
        for (i, n) in self.nodes.iter().enumerate() {
            o.push_str(&format!("node {i} {} ", n.kind.name()));
            n.body.write(&mut o);
            o.push('\n');
        }
        o
    }

    pub fn parse(text: &str) -> Option<Program> {
        let mut p = Program {
            n_inputs: 0,
            nodes: Vec::new(),
        };
        for line in text.lines() {
            let line = line.trim();
            if let Some(r) = line.strip_prefix("inputs ") {
                p.n_inputs = r.trim().parse().ok()?;
            } else if let Some(r) = line.strip_prefix("node ") {
                let mut it = r.splitn(3, ' ');
                let idx: usize = it.next()?.parse().ok()?;
                let kind = Kind::parse(it.next()?)?;
                let toks: Vec<String> = it
                    .next()?
                    .replace('(', " ( ")
                    .replace(')', " ) ")
                    .split_whitespace()
                    .map(str::to_string)
                    .collect();
                let mut pos = 0;
                let body = Expr::parse(&toks, &mut pos)?;
                if pos != toks.len() || idx != p.nodes.len() {
                    return None;
                }
                p.nodes.push(Node { kind, body });
            }
        }
        Some(p)
    }

    pub fn hash(&self) -> u64 {
        fnv(self.to_text().as_bytes())
    }

    pub fn eff_calls(&self, ins: &[u8], n: usize) -> Vec<usize> {
        let mut v = Vec::new();
        self.nodes[n].body.eff_calls(ins, &mut v);
        v
    }

    /// `reach[n][m]`: `n` reaches `m` (reflexively) in the effective call graph.
    pub fn reach(&self, ins: &[u8]) -> Vec<Vec<bool>> {
        let n = self.nodes.len();
        let mut r = vec![vec![false; n]; n];
        for (s, row) in r.iter_mut().enumerate() {
            let mut stack = vec![s];
            row[s] = true;
            while let Some(x) = stack.pop() {
                for c in self.eff_calls(ins, x) {
                    if !row[c] {
                        row[c] = true;
                        stack.push(c);
                    }
                }
            }
        }
        r
    }
}

pub fn fnv(bytes: &[u8]) -> u64 {
    let mut h = 0xcbf2_9ce4_8422_2325u64;
    for b in bytes {
        h ^= *b as u64;
        h = h.wrapping_mul(0x0000_0100_0000_01b3);
    }
    h
}

/// The constant a fallback node answers when it is on a cycle.
pub fn fallback_value(node: usize) -> u8 {
    (node as u8).wrapping_mul(37) | 1
}

// ------------------------------------------------------------------------------------------------
// oracle
// ------------------------------------------------------------------------------------------------

#[derive(Clone, Copy, PartialEq, Eq, Debug)]
pub enum Out {
    Val(u8),
    /// the request panics: a cycle through a function without recovery is reachable
    Cycle,
}

/// Sequential reference results of every node under the given inputs.
pub fn oracle(p: &Program, ins: &[u8]) -> Vec<Out> {
    let n = p.nodes.len();
    let calls: Vec<Vec<usize>> = (0..n).map(|i| p.eff_calls(ins, i)).collect();
    let sccs = tarjan(&calls);
    let mut out: Vec<Option<Out>> = vec![None; n];
    for scc in sccs {
        let cyclic = scc.len() > 1 || calls[scc[0]].contains(&scc[0]);
        if !cyclic {
            let x = scc[0];
            let get = |m: usize| match out[m] {
                Some(Out::Val(v)) => Some(v),
                _ => None,
            };
            out[x] = Some(match p.nodes[x].body.eval(ins, &get) {
                Some(v) => Out::Val(v),
                None => Out::Cycle,
            });
            continue;
        }
        let inside = |m: usize| scc.contains(&m);
        // a panicking callee outside of the component propagates to every member
        let ext_panic = scc.iter().any(|&x| {
            calls[x]
                .iter()
                .any(|&c| !inside(c) && out[c] == Some(Out::Cycle))
        });
        let all_fix = scc.iter().all(|&x| p.nodes[x].kind.is_fix());
        let all_fb = scc.iter().all(|&x| p.nodes[x].kind == Kind::Fb);
        if ext_panic || !(all_fix || all_fb) {
            for &x in &scc {
                out[x] = Some(Out::Cycle);
            }
        } else if all_fb {
            for &x in &scc {
                out[x] = Some(Out::Val(fallback_value(x)));
            }
        } else {
            // Kleene iteration from bottom
            let mut cur: HashMap<usize, u8> = scc.iter().map(|&x| (x, 0u8)).collect();
            for _round in 0..4096 {
                let mut changed = false;
                for &x in &scc {
                    let get = |m: usize| match cur.get(&m) {
                        Some(v) => Some(*v),
                        None => match out[m] {
                            Some(Out::Val(v)) => Some(v),
                            _ => None,
                        },
                    };
                    let v = p.nodes[x].body.eval(ins, &get).expect("no panicking callee");
                    if cur[&x] != v {
                        cur.insert(x, v);
                        changed = true;
                    }
                }
                if !changed {
                    break;
                }
            }
            for &x in &scc {
                out[x] = Some(Out::Val(cur[&x]));
            }
        }
    }
    out.into_iter().map(|o| o.expect("all nodes visited")).collect()
}

/// Strongly connected components, callees first (reverse topological order).
fn tarjan(calls: &[Vec<usize>]) -> Vec<Vec<usize>> {
    struct S<'a> {
        calls: &'a [Vec<usize>],
        index: Vec<Option<usize>>,
        low: Vec<usize>,
        on: Vec<bool>,
        stack: Vec<usize>,
        next: usize,
        out: Vec<Vec<usize>>,
    }
    fn go(s: &mut S<'_>, v: usize) {
        s.index[v] = Some(s.next);
        s.low[v] = s.next;
        s.next += 1;
        s.stack.push(v);
        s.on[v] = true;
        for i in 0..s.calls[v].len() {
            let w = s.calls[v][i];
            match s.index[w] {
                None => {
                    go(s, w);
                    s.low[v] = s.low[v].min(s.low[w]);
                }
                Some(iw) if s.on[w] => s.low[v] = s.low[v].min(iw),
                _ => {}
            }
        }
        if Some(s.low[v]) == s.index[v] {
            let mut c = Vec::new();
            loop {
                let w = s.stack.pop().unwrap();
                s.on[w] = false;
                c.push(w);
                if w == v {
                    break;
                }
            }
            c.sort_unstable();
            s.out.push(c);
        }
    }
    let n = calls.len();
    let mut s = S {
        calls,
        index: vec![None; n],
        low: vec![0; n],
        on: vec![false; n],
        stack: Vec::new(),
        next: 0,
        out: Vec::new(),
    };
    for v in 0..n {
        if s.index[v].is_none() {
            go(&mut s, v);
        }
    }
    s.out
}

// ------------------------------------------------------------------------------------------------
// generators
// ------------------------------------------------------------------------------------------------

fn leaf(rng: &mut Rng, n_inputs: usize, callable: &[usize], call_bias: u64) -> Expr {
    if !callable.is_empty() && rng.chance(call_bias, 100) {
        Expr::Call(*rng.pick(callable))
    } else if rng.chance(60, 100) {
        Expr::In(rng.usize(n_inputs))
    } else {
        Expr::Const(1u8 << rng.usize(8) | rng.below(4) as u8)
    }
}

fn gen_expr(
    rng: &mut Rng,
    depth: usize,
    n_inputs: usize,
    callable: &[usize],
    monotone: bool,
    call_bias: u64,
) -> Expr {
    if depth == 0 || rng.chance(25, 100) {
        return leaf(rng, n_inputs, callable, call_bias);
    }
    let a = Box::new(gen_expr(rng, depth - 1, n_inputs, callable, monotone, call_bias));
    let b = Box::new(gen_expr(rng, depth - 1, n_inputs, callable, monotone, call_bias));
    match rng.below(if monotone { 3 } else { 6 }) {
        0 | 1 => Expr::Or(a, b),
        2 => Expr::And(a, b),
        3 => Expr::Add(a, b),
        4 => Expr::Xor(a, b),
        _ => Expr::IfIn(rng.usize(n_inputs), 1 << rng.usize(3), a, b),
    }
}

/// Acyclic program with shared sub-queries: node `i` only calls nodes `< i`.
pub fn gen_acyclic(rng: &mut Rng, with_mk: bool) -> Program {
    let n_inputs = 2 + rng.usize(2);
    let n = 5 + rng.usize(7);
    let mut nodes = Vec::new();
    for i in 0..n {
        // prefer few, low callees so that several requests share sub-queries
        let callable: Vec<usize> = (0..i).collect();
        let depth = 1 + rng.usize(3);
        let mut body = gen_expr(rng, depth, n_inputs, &callable, false, 70);
        if i > 0 && rng.chance(50, 100) {
            // guarantee at least one call for most nodes
            body = Expr::Xor(Box::new(body), Box::new(Expr::Call(rng.usize(i))));
        }
        if rng.chance(10, 100) {
            body = Expr::Intern(Box::new(body));
        }
        let kind = match rng.below(10) {
            0 => Kind::Lru,
            1 if with_mk => Kind::Mk,
            _ => Kind::Plain,
        };
        nodes.push(Node { kind, body });
    }
    Program { n_inputs, nodes }
}

#[derive(Clone, Copy, PartialEq, Eq, Debug)]
pub enum CycFlavor {
    /// fixpoint components only
    Fix,
    /// fallback components only
    Fb,
    /// both kinds of components (each component homogeneous)
    Mixed,
    /// one component of plain (no recovery) functions whose ring is closed iff `ins[0] & 1 != 0`
    NoRecovery,
    /// ONE large fixpoint component (5–8 members, every member with 1–2 extra edges, duplicate
    /// callees allowed: a member that calls the same callee twice re-claims a transferred query)
    /// between a single base node and a single top node; meant for 5–6 threads (`vh conc` c18/c19,
    /// generator version 2)
    Wide,
}

/// Program with 1–2 strongly connected components (ring + extra edges = nested cycles) on top of a
/// few plain base nodes, and plain nodes above that call into the components.
pub fn gen_cyclic(rng: &mut Rng, flavor: CycFlavor) -> Program {
    let n_inputs = 2 + rng.usize(2);
    let mut nodes: Vec<Node> = Vec::new();
    let wide = flavor == CycFlavor::Wide;
    let n_base = if wide { 1 } else { 1 + rng.usize(3) };
    for i in 0..n_base {
        let callable: Vec<usize> = (0..i).collect();
        let depth = 1 + rng.usize(2);
        nodes.push(Node {
            kind: Kind::Plain,
            body: gen_expr(rng, depth, n_inputs, &callable, false, 40),
        });
    }
    let n_comp = if flavor == CycFlavor::NoRecovery || wide { 1 } else { 1 + rng.usize(2) };
    let mut members_all: Vec<usize> = Vec::new();
    for _ in 0..n_comp {
        let size = if wide { 5 + rng.usize(4) } else { 2 + rng.usize(3) };
        let first = nodes.len();
        let members: Vec<usize> = (first..first + size).collect();
        let lower: Vec<usize> = (0..first).collect();
        let comp_kind = match flavor {
            CycFlavor::Fix | CycFlavor::Wide => Kind::Fix,
            CycFlavor::Fb => Kind::Fb,
            CycFlavor::Mixed => {
                if rng.chance(1, 2) {
                    Kind::Fix
                } else {
                    Kind::Fb
                }
            }
            CycFlavor::NoRecovery => Kind::Plain,
        };
        for (j, &m) in members.iter().enumerate() {
            let next = members[(j + 1) % size];
            let monotone = comp_kind.is_fix();
            // ring edge
            let mut ring = Expr::Call(next);
            if flavor == CycFlavor::NoRecovery && j == 0 {
                ring = Expr::IfIn(0, 1, Box::new(ring), Box::new(Expr::Const(3)));
            }
            // own contribution (inputs / lower nodes / constants)
            let depth = 1 + rng.usize(2);
            let own = gen_expr(rng, depth, n_inputs, &lower, monotone, 35);
            let mut body = if rng.chance(30, 100) {
                // mask what flows around the ring so that values differ per member
                Expr::Or(
                    Box::new(own),
                    Box::new(Expr::And(
                        Box::new(ring),
                        Box::new(Expr::Const(0xff ^ (1u8 << rng.usize(8)))),
                    )),
                )
            } else {
                Expr::Or(Box::new(own), Box::new(ring))
            };
            // extra edges inside the component: nested cycles, several heads
            let extra = if wide { 1 + rng.below(2) } else { rng.below(3) };
            for _ in 0..extra {
                let other = *rng.pick(&members);
                // without recovery only the (input-controlled) ring may close a cycle: extra
                // edges go forward and never leave the first member
                if flavor == CycFlavor::NoRecovery && (j == 0 || other <= m) {
                    continue;
                }
                body = if rng.chance(1, 2) {
                    Expr::Or(Box::new(Expr::Call(other)), Box::new(body))
                } else {
                    Expr::Or(Box::new(body), Box::new(Expr::Call(other)))
                };
            }
            let kind = if comp_kind == Kind::Fix && rng.chance(1, 3) {
                Kind::Fix2
            } else {
                comp_kind
            };
            debug_assert_eq!(m, nodes.len());
            nodes.push(Node { kind, body });
        }
        members_all.extend(members);
    }
    let n_top = if wide { 1 } else { 1 + rng.usize(3) };
    for _ in 0..n_top {
        let callable: Vec<usize> = (0..nodes.len()).collect();
        let a = Expr::Call(*rng.pick(&members_all));
        let depth = 1 + rng.usize(2);
        let b = gen_expr(rng, depth, n_inputs, &callable, false, 60);
        nodes.push(Node {
            kind: Kind::Plain,
            body: if rng.chance(1, 2) {
                Expr::Xor(Box::new(a), Box::new(b))
            } else {
                Expr::Add(Box::new(b), Box::new(a))
            },
        });
    }
    Program { n_inputs, nodes }
}

/// Nodes that sit on an effective cycle under `ins`.
pub fn cyclic_nodes(p: &Program, ins: &[u8]) -> Vec<usize> {
    let r = p.reach(ins);
    (0..p.nodes.len())
        .filter(|&x| p.eff_calls(ins, x).iter().any(|&c| r[c][x]))
        .collect()
}

// ------------------------------------------------------------------------------------------------
// salsa items
// ------------------------------------------------------------------------------------------------

#[salsa::input]
pub struct In {
    #[returns(copy)]
    pub v: u8,
}

/// Key of a node; never read through salsa (the node index is looked up in the program state).
#[salsa::input]
pub struct Key {
    #[returns(copy)]
    pub idx: u32,
}

#[salsa::tracked]
pub struct Ts<'db> {
    #[returns(copy)]
    pub k: u32,
    #[tracked]
    #[returns(copy)]
    pub v: u8,
}

#[salsa::tracked]
pub struct Ts2<'db> {
    #[returns(copy)]
    pub a: u32,
    #[returns(copy)]
    pub b: u8,
}

#[salsa::interned]
pub struct SymA<'db> {
    #[returns(copy)]
    pub v: u8,
}

#[salsa::interned]
pub struct SymB<'db> {
    #[returns(copy)]
    pub a: u16,
    #[returns(copy)]
    pub b: u8,
}

/// Payload of an injected user panic.
#[derive(Debug)]
pub struct Injected(pub usize);

/// Events counted through the salsa event callback (works without the hook trace).
#[derive(Default)]
pub struct Counters {
    /// `WillExecute`: `(ingredient debug string hash, key id index)` in arrival order
    pub execs: Mutex<Vec<u32>>,
    pub will_block: AtomicUsize,
}

/// A created struct, recorded by the creating thread (C24 / C08).
#[derive(Clone, Debug, PartialEq, Eq)]
pub struct Created {
    /// "in", "ts", "ts2", "syma", "symb"
    pub ty: &'static str,
    pub id: salsa::Id,
    pub fields: (u32, u32),
    pub hid: usize,
}

pub struct State {
    pub prog: Program,
    keys: OnceLock<Vec<Key>>,
    ins: OnceLock<Vec<In>>,
    key_to_node: OnceLock<HashMap<u32, usize>>,
    pub counters: Arc<Counters>,
    next_hid: AtomicUsize,
    /// node index + 1 whose body panics with [`Injected`]; 0 = none
    pub panic_node: AtomicUsize,
    /// panic after the body has evaluated its calls (otherwise at entry)
    pub panic_at_exit: AtomicBool,
    /// node index + 1 at whose entry handle `cancel_hid` cancels itself (once); 0 = none
    pub cancel_node: AtomicUsize,
    pub cancel_hid: AtomicUsize,
    /// 0 = not fired, 1 = fired outside of fixpoint/fallback frames, 2 = fired below such a frame
    pub cancel_fired: AtomicUsize,
    /// index (in its plan) of the request the victim handle is making right now, and the index at
    /// which the self-cancel fired (usize::MAX = not fired)
    pub victim_req: AtomicUsize,
    pub cancel_fired_req: AtomicUsize,
    /// node index + 1 at whose entry handle `gate_hid` reports `gate_reached` and waits for
    /// `gate_open` (at most ~5 s); 0 = none
    pub gate_node: AtomicUsize,
    pub gate_hid: AtomicUsize,
    pub gate_reached: AtomicBool,
    pub gate_open: AtomicBool,
    /// the injected panic fires once (the flag is cleared by the panicking body)
    pub panic_once: AtomicBool,
    /// busy work per node entry (threads mode, widens the race windows)
    pub spin: AtomicU32,
    pub created: Mutex<Vec<Created>>,
    /// harness-side violations noticed inside query bodies
    pub violations: Mutex<Vec<String>>,
}

impl State {
    pub fn keys(&self) -> &[Key] {
        self.keys.get().expect("keys created")
    }
    pub fn ins(&self) -> &[In] {
        self.ins.get().expect("inputs created")
    }
    pub fn node_of(&self, key: Key) -> usize {
        self.key_to_node.get().expect("keys created")[&key.as_id().index()]
    }
    /// Node of a key id index (as printed in traces), if it is a node key.
    pub fn node_of_index(&self, idx: u32) -> Option<usize> {
        self.key_to_node.get()?.get(&idx).copied()
    }
    pub fn violation(&self, s: String) {
        self.violations.lock().unwrap().push(s);
    }
}

#[salsa::db]
pub trait PDb: salsa::Database {
    fn st(&self) -> &State;
    fn hid(&self) -> usize;
    fn frames(&self) -> &Mutex<Vec<usize>>;
    fn note_unwound_cycle_frame(&self);
}

#[salsa::db]
pub struct Db {
    storage: salsa::Storage<Self>,
    pub st: Arc<State>,
    pub hid: usize,
    /// stack of node indices currently executing on this handle
    frames: Mutex<Vec<usize>>,
    /// an unwind passed through the body of a fixpoint/fallback function on this handle
    pub unwound_cycle_frame: AtomicBool,
}

impl Clone for Db {
    fn clone(&self) -> Self {
        Db {
            storage: self.storage.clone(),
            st: self.st.clone(),
            hid: self.st.next_hid.fetch_add(1, Ordering::Relaxed),
            frames: Mutex::new(Vec::new()),
            unwound_cycle_frame: AtomicBool::new(false),
        }
    }
}

#[salsa::db]
impl salsa::Database for Db {}

#[salsa::db]
impl PDb for Db {
    fn st(&self) -> &State {
        &self.st
    }
    fn hid(&self) -> usize {
        self.hid
    }
    fn frames(&self) -> &Mutex<Vec<usize>> {
        &self.frames
    }
    fn note_unwound_cycle_frame(&self) {
        self.unwound_cycle_frame.store(true, Ordering::Relaxed);
    }
}

impl Db {
    /// Fresh database for `prog` with the given input values; creates the inputs and node keys.
    pub fn new(prog: Program, ins0: &[u8]) -> Db {
        let counters = Arc::new(Counters::default());
        let cb = {
            let counters = counters.clone();
            move |event: salsa::Event| match event.kind {
                salsa::EventKind::WillExecute { database_key } => {
                    counters
                        .execs
                        .lock()
                        .unwrap()
                        .push(database_key.key_index().index());
                }
                salsa::EventKind::WillBlockOn { .. } => {
                    counters.will_block.fetch_add(1, Ordering::Relaxed);
                }
                _ => {}
            }
        };
        let st = Arc::new(State {
            prog,
            keys: OnceLock::new(),
            ins: OnceLock::new(),
            key_to_node: OnceLock::new(),
            counters,
            next_hid: AtomicUsize::new(1),
            panic_node: AtomicUsize::new(0),
            panic_at_exit: AtomicBool::new(false),
            cancel_node: AtomicUsize::new(0),
            cancel_hid: AtomicUsize::new(usize::MAX),
            cancel_fired: AtomicUsize::new(0),
            victim_req: AtomicUsize::new(0),
            cancel_fired_req: AtomicUsize::new(usize::MAX),
            gate_node: AtomicUsize::new(0),
            gate_hid: AtomicUsize::new(usize::MAX),
            gate_reached: AtomicBool::new(false),
            gate_open: AtomicBool::new(false),
            panic_once: AtomicBool::new(false),
            spin: AtomicU32::new(0),
            created: Mutex::new(Vec::new()),
            violations: Mutex::new(Vec::new()),
        });
        let db = Db {
            storage: salsa::Storage::new(Some(Box::new(cb))),
            st: st.clone(),
            hid: 0,
            frames: Mutex::new(Vec::new()),
            unwound_cycle_frame: AtomicBool::new(false),
        };
        let ins: Vec<In> = (0..st.prog.n_inputs)
            .map(|i| In::new(&db, ins0.get(i).copied().unwrap_or(0)))
            .collect();
        let keys: Vec<Key> = (0..st.prog.nodes.len())
            .map(|i| Key::new(&db, i as u32))
            .collect();
        let map = keys
            .iter()
            .enumerate()
            .map(|(i, k)| (k.as_id().index(), i))
            .collect();
        let _ = st.ins.set(ins);
        let _ = st.keys.set(keys);
        let _ = st.key_to_node.set(map);
        db
    }

    /// Identity of this handle in hook traces (`h<N>`).
    pub fn trace_handle(&self) -> u64 {
        use salsa::plumbing::ZalsaDatabase;
        self.zalsa_local().verif_id()
    }

    pub fn set_input(&mut self, i: usize, v: u8) {
        use salsa::Setter;
        let input = self.st.ins()[i];
        input.set_v(self).to(v);
    }

    pub fn set_lru(&mut self, cap: usize) {
        lru::set_lru_capacity(self, cap);
    }
}

struct FrameGuard<'a> {
    db: &'a dyn PDb,
    node: usize,
}

impl Drop for FrameGuard<'_> {
    fn drop(&mut self) {
        let popped = self.db.frames().lock().unwrap().pop();
        debug_assert_eq!(popped, Some(self.node));
        if std::thread::panicking()
            && self.db.st().prog.nodes[self.node]
                .kind
                .disables_local_cancellation()
        {
            self.db.note_unwound_cycle_frame();
        }
    }
}

fn body(db: &dyn PDb, key: Key) -> u8 {
    let st = db.st();
    let n = st.node_of(key);
    db.frames().lock().unwrap().push(n);
    let _frame = FrameGuard { db, node: n };
    trace::perturb();
    for _ in 0..st.spin.load(Ordering::Relaxed) {
        std::hint::spin_loop();
    }
    if st.cancel_node.load(Ordering::Relaxed) == n + 1
        && st.cancel_hid.load(Ordering::Relaxed) == db.hid()
        && st.cancel_fired.load(Ordering::Relaxed) == 0
    {
        let below_cycle_frame = db
            .frames()
            .lock()
            .unwrap()
            .iter()
            .any(|&f| st.prog.nodes[f].kind.disables_local_cancellation());
        st.cancel_fired
            .store(if below_cycle_frame { 2 } else { 1 }, Ordering::SeqCst);
        st.cancel_fired_req
            .store(st.victim_req.load(Ordering::SeqCst), Ordering::SeqCst);
        trace::note(&format!("self-cancel node {n} handle {}", db.hid()));
        db.cancellation_token().cancel();
    }
    if st.gate_node.load(Ordering::SeqCst) == n + 1
        && st.gate_hid.load(Ordering::SeqCst) == db.hid()
        && !st.gate_reached.swap(true, Ordering::SeqCst)
    {
        trace::note(&format!("gate node {n} handle {}", db.hid()));
        let t0 = std::time::Instant::now();
        while !st.gate_open.load(Ordering::SeqCst) {
            if t0.elapsed() > std::time::Duration::from_secs(5) {
                st.violation(format!("harness: gate at node {n} never opened"));
                break;
            }
            // sleep rather than spin: the threads we wait for need the cores
            std::thread::sleep(std::time::Duration::from_micros(100));
        }
    }
    let fire = |st: &State| {
        if st.panic_once.load(Ordering::SeqCst) {
            st.panic_node.store(0, Ordering::SeqCst);
        }
        std::panic::panic_any(Injected(n));
    };
    let panics = st.panic_node.load(Ordering::SeqCst) == n + 1;
    if panics && !st.panic_at_exit.load(Ordering::Relaxed) {
        fire(st);
    }
    let v = eval(db, st, &st.prog.nodes[n].body);
    trace::perturb();
    if panics && st.panic_node.load(Ordering::SeqCst) == n + 1 {
        fire(st);
    }
    v
}

fn eval(db: &dyn PDb, st: &State, e: &Expr) -> u8 {
    match e {
        Expr::Const(c) => *c,
        Expr::In(i) => st.ins()[*i].v(db),
        Expr::Call(n) => call(db, *n),
        Expr::Or(a, b) => eval(db, st, a) | eval(db, st, b),
        Expr::And(a, b) => eval(db, st, a) & eval(db, st, b),
        Expr::Add(a, b) => eval(db, st, a).wrapping_add(eval(db, st, b)),
        Expr::Xor(a, b) => eval(db, st, a) ^ eval(db, st, b),
        Expr::IfIn(i, m, a, b) => {
            if st.ins()[*i].v(db) & m != 0 {
                eval(db, st, a)
            } else {
                eval(db, st, b)
            }
        }
        Expr::Intern(a) => {
            let v = eval(db, st, a);
            let s = SymA::new(db, v);
            st.created.lock().unwrap().push(Created {
                ty: "syma",
                id: s.as_id(),
                fields: (v as u32, 0),
                hid: db.hid(),
            });
            s.v(db)
        }
    }
}

/// Request node `n` through the tracked function of its kind.
pub fn call(db: &dyn PDb, n: usize) -> u8 {
    let st = db.st();
    let key = st.keys()[n];
    trace::perturb();
    match st.prog.nodes[n].kind {
        Kind::Plain => plain(db, key),
        Kind::Lru => lru(db, key),
        Kind::Fix => fix(db, key),
        Kind::Fix2 => fix2(db, key),
        Kind::Fb => fb(db, key),
        Kind::Mk => mk(db, key),
    }
}

#[salsa::tracked(returns(copy))]
pub fn plain(db: &dyn PDb, key: Key) -> u8 {
    body(db, key)
}

#[salsa::tracked(returns(copy), lru = 3)]
pub fn lru(db: &dyn PDb, key: Key) -> u8 {
    body(db, key)
}

#[salsa::tracked(returns(copy), cycle_initial = fix_initial)]
pub fn fix(db: &dyn PDb, key: Key) -> u8 {
    body(db, key)
}

#[salsa::tracked(returns(copy), cycle_fn = fix2_recover, cycle_initial = fix_initial)]
pub fn fix2(db: &dyn PDb, key: Key) -> u8 {
    body(db, key)
}

#[salsa::tracked(returns(copy), cycle_result = fb_result)]
pub fn fb(db: &dyn PDb, key: Key) -> u8 {
    body(db, key)
}

fn fix_initial(_db: &dyn PDb, _id: salsa::Id, _key: Key) -> u8 {
    0
}

/// a tracked function requested from inside `cycle_fn` (salsa supports that): the fetch is a point
/// where a pending local cancellation would unwind — it must not, while a fixpoint iterates
#[salsa::tracked(returns(copy))]
pub fn recover_probe(_db: &dyn PDb, _key: Key) -> u8 {
    0
}

fn fix2_recover(db: &dyn PDb, _cycle: &salsa::Cycle, last: &u8, value: u8, key: Key) -> u8 {
    // join: monotone, keeps the least fixpoint; the probe contributes nothing to the value
    *last | value | recover_probe(db, key)
}

fn fb_result(db: &dyn PDb, _id: salsa::Id, key: Key) -> u8 {
    fallback_value(db.st().node_of(key))
}

/// Creates two tracked structs of different types per execution and reads one back.
#[salsa::tracked(returns(copy))]
pub fn mk(db: &dyn PDb, key: Key) -> u8 {
    let st = db.st();
    let n = st.node_of(key) as u32;
    let v = body(db, key);
    let t = Ts::new(db, n, v);
    let t2 = Ts2::new(db, n + 1000, v ^ 0xff);
    {
        let mut c = st.created.lock().unwrap();
        c.push(Created {
            ty: "ts",
            id: t.as_id(),
            fields: (n, v as u32),
            hid: db.hid(),
        });
        c.push(Created {
            ty: "ts2",
            id: t2.as_id(),
            fields: (n + 1000, (v ^ 0xff) as u32),
            hid: db.hid(),
        });
    }
    if t2.a(db) != n + 1000 || t2.b(db) != v ^ 0xff {
        st.violation(format!("mk node {n}: Ts2 read back differs right after creation"));
    }
    t.v(db)
}

// ------------------------------------------------------------------------------------------------
// requests
// ------------------------------------------------------------------------------------------------

#[derive(Clone, Debug, PartialEq, Eq)]
pub enum Res {
    Val(u8),
    Local,
    PendingWrite,
    PropagatedPanic,
    /// "dependency graph cycle" panic of a function without recovery
    CyclePanic,
    Injected(usize),
    Other(String),
}

impl Res {
    pub fn show(&self) -> String {
        match self {
            Res::Val(v) => v.to_string(),
            Res::Local => "cancelled:local".into(),
            Res::PendingWrite => "cancelled:pending-write".into(),
            Res::PropagatedPanic => "cancelled:propagated-panic".into(),
            Res::CyclePanic => "panic:cycle".into(),
            Res::Injected(n) => format!("panic:user@{n}"),
            Res::Other(s) => format!("panic:other({s})"),
        }
    }
}

pub fn classify(payload: Box<dyn std::any::Any + Send>) -> Res {
    let payload = match payload.downcast::<salsa::Cancelled>() {
        Ok(c) => {
            return match *c {
                salsa::Cancelled::Local => Res::Local,
                salsa::Cancelled::PendingWrite => Res::PendingWrite,
                salsa::Cancelled::PropagatedPanic => Res::PropagatedPanic,
                _ => Res::Other("cancelled:?".into()),
            };
        }
        Err(p) => p,
    };
    let payload = match payload.downcast::<Injected>() {
        Ok(i) => return Res::Injected(i.0),
        Err(p) => p,
    };
    let msg = if let Some(s) = payload.downcast_ref::<String>() {
        s.clone()
    } else if let Some(s) = payload.downcast_ref::<&str>() {
        s.to_string()
    } else {
        "<non-string payload>".to_string()
    };
    if msg.contains("dependency graph cycle") {
        Res::CyclePanic
    } else {
        Res::Other(msg.lines().next().unwrap_or("").chars().take(160).collect())
    }
}

/// Request node `n`; in `threads` builds panics are caught and classified, under shuttle a panic
/// is a failure of the run (shuttle cannot continue past a caught unwind, DESIGN §2.5a).
pub fn request(db: &Db, n: usize) -> Res {
    #[cfg(feature = "shuttle")]
    {
        Res::Val(call(db, n))
    }
    #[cfg(not(feature = "shuttle"))]
    {
        match std::panic::catch_unwind(std::panic::AssertUnwindSafe(|| call(db, n))) {
            Ok(v) => Res::Val(v),
            Err(p) => {
                // the frames of an unwound request are popped by their guards
                classify(p)
            }
        }
    }
}

/// Does `res` agree with the oracle outcome (no concurrency effects allowed)?
pub fn agrees(res: &Res, want: Out) -> bool {
    match (res, want) {
        (Res::Val(a), Out::Val(b)) => *a == b,
        (Res::CyclePanic, Out::Cycle) => true,
        _ => false,
    }
}
