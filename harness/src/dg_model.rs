//! Rust port of DESIGN.md Appendix B (the transcription of `DependencyGraph`,
//! src/runtime/dependency_graph.rs) used to replay the `dg` lines of a hook trace in-process:
//! every logged top-level operation is applied to the model, the model's digest must equal the
//! logged digest, the logged answers (`block`, `block_transferred`, `transfer_lock` kind / new
//! owner thread / block flag) must equal the model's, and the decidable invariants
//! W1 (blocked iff in exactly one dependents list), W2 (edges acyclic), W4 (transferred is a
//! forest, tdeps its inverse) and W5 (result present ⇒ no edge) are evaluated on every state.
//!
//! Lists keep the Rust order: `push` appends, `SmallSet::remove` / `swap_remove` move the last
//! element into the hole. See TRACE_FORMAT.md for the line format.

use std::collections::BTreeMap;

pub type Thread = u32;
/// `(ingredient, index)`
pub type Key = (u32, u32);

#[derive(Default, Clone, Debug)]
pub struct Dg {
    pub edges: BTreeMap<Thread, Thread>,
    pub qdeps: BTreeMap<Key, Vec<Thread>>,
    pub results: BTreeMap<Thread, String>,
    pub transferred: BTreeMap<Key, (Thread, Key)>,
    pub tdeps: BTreeMap<Key, Vec<Key>>,
}

fn fmt_key(k: &Key) -> String {
    format!("{}:{}", k.0, k.1)
}

fn swap_remove_value<T: PartialEq>(l: &mut Vec<T>, v: &T) -> bool {
    if let Some(i) = l.iter().position(|x| x == v) {
        l.swap_remove(i);
        true
    } else {
        false
    }
}

impl Dg {
    /// `Edges::depends_on`
    pub fn depends_on(&self, from: Thread, to: Thread) -> bool {
        let mut p = from;
        let mut fuel = self.edges.len() + 2;
        while let Some(&q) = self.edges.get(&p) {
            if q == to {
                return true;
            }
            p = q;
            fuel -= 1;
            if fuel == 0 {
                return false; // cyclic edges: reported by W2
            }
        }
        p == to
    }

    pub fn add_edge(&mut self, from: Thread, key: Key, to: Thread) -> Result<(), String> {
        if from == to {
            return Err("add_edge: from == to".into());
        }
        if self.edges.contains_key(&from) {
            return Err(format!("add_edge: t{from} already blocked"));
        }
        if self.depends_on(to, from) {
            return Err(format!("add_edge: t{to} depends on t{from} (would close a wait cycle)"));
        }
        self.edges.insert(from, to);
        self.qdeps.entry(key).or_default().push(from);
        Ok(())
    }

    fn unblock_runtime(&mut self, t: Thread, res: &str) -> Result<(), String> {
        if self.edges.remove(&t).is_none() {
            return Err(format!("unblock_runtime: t{t} not blocked"));
        }
        if self.results.insert(t, res.to_string()).is_some() {
            return Err(format!("unblock_runtime: t{t} already has an unconsumed result"));
        }
        Ok(())
    }

    pub fn unblock_on(&mut self, key: Key, res: &str) -> Result<(), String> {
        for t in self.qdeps.remove(&key).unwrap_or_default() {
            self.unblock_runtime(t, res)?;
        }
        Ok(())
    }

    fn remove_from_owner(&mut self, key: Key) -> Result<(), String> {
        if let Some((_, owner)) = self.transferred.remove(&key) {
            let l = self
                .tdeps
                .get_mut(&owner)
                .ok_or_else(|| format!("tdeps[{}] missing", fmt_key(&owner)))?;
            swap_remove_value(l, &key);
        }
        Ok(())
    }

    pub fn unblock_transferred_owned_by(&mut self, key: Key, res: &str) -> Result<(), String> {
        self.remove_from_owner(key)?;
        fn rec(s: &mut Dg, q: Key, res: &str) -> Result<(), String> {
            s.transferred.remove(&q);
            for q2 in s.tdeps.remove(&q).unwrap_or_default() {
                s.unblock_on(q2, res)?;
                rec(s, q2, res)?;
            }
            Ok(())
        }
        rec(self, key, res)
    }

    pub fn undo_transfer(&mut self, key: Key) -> Result<(), String> {
        self.remove_from_owner(key)
    }

    /// `thread_id_of_transferred_query`
    pub fn thread_of_transferred(&self, key: Key, skip: Option<Key>) -> Option<Thread> {
        let &(mut resolved, owner) = self.transferred.get(&key)?;
        let mut cur = owner;
        let mut fuel = self.transferred.len() + 2;
        while let Some(&(nt, nk)) = self.transferred.get(&cur) {
            cur = nk;
            fuel -= 1;
            if fuel == 0 {
                break; // cyclic transfers: reported by W4
            }
            if Some(nk) == skip {
                continue;
            }
            resolved = nt;
        }
        Some(resolved)
    }

    /// `transfer_lock` up to (not including) the final `block_on`.
    /// `owner`: `Some(t)` = `SyncOwner::Thread(t)`, `None` = `SyncOwner::Transferred`.
    /// Returns `(kind, new_owner_thread, would_block)`.
    pub fn transfer_lock(
        &mut self,
        query: Key,
        cur: Thread,
        new_owner: Key,
        owner: Option<Thread>,
    ) -> Result<(&'static str, Thread, bool), String> {
        let nt = match owner {
            Some(t) => t,
            None => self
                .thread_of_transferred(new_owner, Some(query))
                .ok_or("transfer_lock: new owner should be blocked on `query`")?,
        };
        if !(nt == cur || self.depends_on(nt, cur)) {
            return Err(format!(
                "transfer_lock: new owner t{nt} is not blocked on t{cur} (debug_assert)"
            ));
        }
        let changed;
        let mut register = true;
        match self.transferred.get(&query).copied() {
            None => {
                self.transferred.insert(query, (nt, new_owner));
                changed = cur != nt;
            }
            Some(e) if e == (nt, new_owner) => {
                // same owner as before: a no-op when the owner runs on this thread, otherwise the
                // key was re-claimed by `cur` and its waiters are handed over as for a first
                // transfer (without registering the dependent again)
                if cur == nt {
                    return Ok(("noop", nt, false));
                }
                changed = true;
                register = false;
            }
            Some((old_thread, old_owner)) => {
                let l = self
                    .tdeps
                    .get_mut(&old_owner)
                    .ok_or("transfer_lock: tdeps[old_owner] missing")?;
                swap_remove_value(l, &query);
                self.transferred.insert(query, (nt, new_owner));
                let mut seg = new_owner;
                let mut fuel = self.transferred.len() + 2;
                while let Some(&(_, nxt)) = self.transferred.get(&seg) {
                    let source = seg;
                    if nxt == query {
                        let l = self
                            .tdeps
                            .get_mut(&query)
                            .ok_or("transfer_lock: tdeps[query] missing")?;
                        swap_remove_value(l, &source);
                        if old_owner == new_owner {
                            self.transferred.remove(&source);
                        } else {
                            self.transferred.insert(source, (old_thread, old_owner));
                            self.tdeps
                                .get_mut(&old_owner)
                                .ok_or("transfer_lock: tdeps[old_owner] missing (re-point)")?
                                .push(source);
                        }
                        break;
                    }
                    seg = nxt;
                    fuel -= 1;
                    if fuel == 0 {
                        return Err("transfer_lock: re-pointing loop does not terminate".into());
                    }
                }
                changed = true;
            }
        }
        if register {
            let l = self.tdeps.entry(new_owner).or_default();
            if l.contains(&new_owner) || l.contains(&query) {
                return Err("transfer_lock: duplicate transferred dependent (debug_assert)".into());
            }
            l.push(query);
        }
        if changed {
            self.unblock_transfer_target(query, nt)?;
            self.update_transferred_edges(query, nt, 0)?;
            let block = cur != nt && !self.depends_on(nt, cur);
            Ok(("changed", nt, block))
        } else {
            Ok(("same", nt, false))
        }
    }

    fn find_blocked_thread(&self, q: Key, new_owner: Thread, depth: usize) -> Option<(Key, usize)> {
        if depth > self.tdeps.len() + 2 {
            return None;
        }
        if let Some(l) = self.qdeps.get(&q) {
            for (i, &t) in l.iter().enumerate() {
                if t == new_owner || self.depends_on(new_owner, t) {
                    return Some((q, i));
                }
            }
        }
        for &d in self.tdeps.get(&q).into_iter().flatten() {
            if let Some(r) = self.find_blocked_thread(d, new_owner, depth + 1) {
                return Some(r);
            }
        }
        None
    }

    fn unblock_transfer_target(&mut self, source: Key, new_owner: Thread) -> Result<(), String> {
        if let Some((q, i)) = self.find_blocked_thread(source, new_owner, 0) {
            let l = self.qdeps.get_mut(&q).unwrap();
            let t = l.swap_remove(i);
            if l.is_empty() {
                self.qdeps.remove(&q);
            }
            self.unblock_runtime(t, "Completed")?;
        }
        Ok(())
    }

    fn update_transferred_edges(&mut self, q: Key, nt: Thread, depth: usize) -> Result<(), String> {
        if depth > self.tdeps.len() + 2 {
            return Err("update_transferred_edges: tdeps is cyclic".into());
        }
        for t in self.qdeps.get(&q).cloned().unwrap_or_default() {
            match self.edges.get_mut(&t) {
                Some(e) => *e = nt,
                None => return Err(format!("update_transferred_edges: t{t} has no edge")),
            }
            if self.depends_on(nt, t) {
                return Err(format!(
                    "update_transferred_edges: circular reference t{t} <-> t{nt} (debug_assert)"
                ));
            }
        }
        for d in self.tdeps.get(&q).cloned().unwrap_or_default() {
            self.update_transferred_edges(d, nt, depth + 1)?;
        }
        Ok(())
    }

    pub fn wake(&mut self, t: Thread, res: &str) -> Result<(), String> {
        match self.results.remove(&t) {
            Some(r) if r == res => Ok(()),
            Some(r) => Err(format!("wake: t{t} consumed {res}, model has {r}")),
            None => Err(format!("wake: t{t} has no result in the model")),
        }
    }

    /// `E{..} Q{..} W{..} T{..} D{..}` exactly as printed by the hook.
    pub fn digest(&self) -> String {
        let e: Vec<String> = self.edges.iter().map(|(a, b)| format!("t{a}>t{b}")).collect();
        let q: Vec<String> = self
            .qdeps
            .iter()
            .map(|(k, l)| {
                let l: Vec<String> = l.iter().map(|t| format!("t{t}")).collect();
                format!("{}=[{}]", fmt_key(k), l.join(","))
            })
            .collect();
        let w: Vec<String> = self.results.iter().map(|(t, r)| format!("t{t}={r}")).collect();
        let t: Vec<String> = self
            .transferred
            .iter()
            .map(|(k, (th, o))| format!("{}>t{th},{}", fmt_key(k), fmt_key(o)))
            .collect();
        let d: Vec<String> = self
            .tdeps
            .iter()
            .map(|(k, l)| {
                let l: Vec<String> = l.iter().map(fmt_key).collect();
                format!("{}=[{}]", fmt_key(k), l.join(","))
            })
            .collect();
        format!(
            "E{{{}}} Q{{{}}} W{{{}}} T{{{}}} D{{{}}}",
            e.join(";"),
            q.join(";"),
            w.join(";"),
            t.join(";"),
            d.join(";")
        )
    }

    /// Violated invariants of the current state (empty = all hold).
    pub fn check(&self) -> Vec<String> {
        let mut bad = Vec::new();
        let mut cnt: BTreeMap<Thread, usize> = BTreeMap::new();
        for l in self.qdeps.values() {
            for t in l {
                *cnt.entry(*t).or_default() += 1;
            }
        }
        for t in self.edges.keys() {
            let c = cnt.get(t).copied().unwrap_or(0);
            if c != 1 {
                bad.push(format!("W1: blocked t{t} is in {c} dependents lists"));
            }
        }
        for t in cnt.keys() {
            if !self.edges.contains_key(t) {
                bad.push(format!("W1: t{t} in a dependents list but has no edge"));
            }
        }
        for (k, l) in &self.qdeps {
            if l.is_empty() {
                bad.push(format!("W1: empty dependents list for {}", fmt_key(k)));
            }
        }
        for t in self.results.keys() {
            if self.edges.contains_key(t) {
                bad.push(format!("W5: t{t} has a result and an edge"));
            }
        }
        for &t in self.edges.keys() {
            let mut p = t;
            let mut steps = 0;
            while let Some(&q) = self.edges.get(&p) {
                p = q;
                steps += 1;
                if steps > self.edges.len() {
                    bad.push(format!("W2: wait cycle through t{t}"));
                    break;
                }
            }
        }
        for &k in self.transferred.keys() {
            let mut p = k;
            let mut steps = 0;
            while let Some(&(_, o)) = self.transferred.get(&p) {
                p = o;
                steps += 1;
                if steps > self.transferred.len() {
                    bad.push(format!("W4: transfer cycle through {}", fmt_key(&k)));
                    break;
                }
            }
        }
        for (k, (_, o)) in &self.transferred {
            if !self.tdeps.get(o).is_some_and(|l| l.contains(k)) {
                bad.push(format!("W4: {} -> {} missing in tdeps", fmt_key(k), fmt_key(o)));
            }
        }
        for (o, l) in &self.tdeps {
            for k in l {
                if self.transferred.get(k).map(|e| e.1) != Some(*o) {
                    bad.push(format!("W4: tdeps[{}] lists {} not transferred to it", fmt_key(o), fmt_key(k)));
                }
            }
            for (i, k) in l.iter().enumerate() {
                if l[..i].contains(k) {
                    bad.push(format!("W4: duplicate in tdeps[{}]", fmt_key(o)));
                }
            }
        }
        bad
    }
}

// ------------------------------------------------------------------------------------------------
// trace replay
// ------------------------------------------------------------------------------------------------

pub fn parse_thread(s: &str) -> Option<Thread> {
    s.strip_prefix('t')?.parse().ok()
}

pub fn parse_key(s: &str) -> Option<Key> {
    let (a, b) = s.split_once(':')?;
    Some((a.parse().ok()?, b.parse().ok()?))
}

#[derive(Default, Debug, Clone)]
pub struct ReplayStats {
    pub ops: usize,
    pub nested: usize,
    pub add_edges: usize,
    pub transfers: usize,
    pub transfers_changed: usize,
    pub cycles_answered: usize,
    pub contended_claims: usize,
    pub states_with_transfers: usize,
    /// `release_panicking` lines whose `result == Cancelled ⇔ tok == 0b01` was checked
    pub release_panicking_checked: usize,
    /// `transfer_lock` calls whose new owner is the query itself or (vacant entry) is already
    /// transitively transferred to the query: the explicit hypothesis of the Lean theorem
    /// `w4_forest`, not asserted by the Rust code. Expected 0.
    pub w4_precondition_violations: usize,
}

#[derive(Debug, Clone)]
pub struct ReplayError {
    /// "model" (digest / answer differs, operation not enabled) or "invariant"
    pub kind: &'static str,
    pub line_no: usize,
    pub line: String,
    pub what: String,
}

/// Replays the `dg` lines of `lines` (other classes are skipped; `reset` starts a fresh graph).
pub fn replay(lines: &[String]) -> Result<ReplayStats, ReplayError> {
    let mut dg = Dg::default();
    let mut st = ReplayStats::default();
    for (i, line) in lines.iter().enumerate() {
        let err = |kind: &'static str, what: String| ReplayError {
            kind,
            line_no: i + 1,
            line: line.clone(),
            what,
        };
        let toks: Vec<&str> = line.split(' ').collect();
        match toks[0] {
            "reset" => {
                dg = Dg::default();
                continue;
            }
            "sync" => {
                // `sync release_panicking t k <result> tok=<bits|?>`:
                // waiters are told `Cancelled` iff the releasing handle's token triggers (0b01)
                if toks[1] == "release_panicking" {
                    if let Some(tok) = toks.get(5).and_then(|t| t.strip_prefix("tok=")) {
                        if let Ok(bits) = tok.parse::<u8>() {
                            st.release_panicking_checked += 1;
                            if (toks[4] == "Cancelled") != (bits == 0b01) {
                                return Err(err(
                                    "model",
                                    format!("release_panicking reports {} with token bits {bits:#04b}", toks[4]),
                                ));
                            }
                        }
                    }
                }
                if toks.len() >= 6
                    && (toks[1] == "try_claim" || toks[1] == "peek_claim")
                    && toks[5] != "claimed"
                {
                    st.contended_claims += 1;
                }
                continue;
            }
            "dg" => {}
            _ => continue,
        }
        if toks.len() < 9 {
            return Err(err("model", "malformed dg line".into()));
        }
        let depth: usize = toks[1].parse().map_err(|_| err("model", "bad depth".into()))?;
        if depth > 0 {
            st.nested += 1;
            continue;
        }
        st.ops += 1;
        let op = toks[2];
        let args = &toks[4..toks.len() - 5];
        let logged = toks[toks.len() - 5..].join(" ");
        let bad = || err("model", "malformed arguments".into());
        let r: Result<(), String> = (|| -> Option<Result<(), String>> {
            Some(match op {
                "add_edge" => {
                    st.add_edges += 1;
                    dg.add_edge(parse_thread(args.first()?)?, parse_key(args.get(1)?)?, parse_thread(args.get(2)?)?)
                }
                "wake" => dg.wake(parse_thread(args.first()?)?, args.get(1)?),
                "unblock_runtimes_blocked_on" => dg.unblock_on(parse_key(args.first()?)?, args.get(1)?),
                "unblock_transferred_queries_owned_by" => {
                    dg.unblock_transferred_owned_by(parse_key(args.first()?)?, args.get(1)?)
                }
                "undo_transfer_lock" => dg.undo_transfer(parse_key(args.first()?)?),
                "transfer_lock" => {
                    st.transfers += 1;
                    let query = parse_key(args.first()?)?;
                    let cur = parse_thread(args.get(1)?)?;
                    let new_owner = parse_key(args.get(2)?)?;
                    let owner = match *args.get(3)? {
                        "X" => None,
                        s => Some(parse_thread(s.strip_prefix("T:")?)?),
                    };
                    let nt_logged = parse_thread(args.get(4)?)?;
                    let kind_logged = *args.get(7)?;
                    let block_logged = *args.get(8)? == "1";
                    let before = dg.transferred.get(&query).copied();
                    {
                        let mut p = new_owner;
                        let mut fuel = dg.transferred.len() + 2;
                        let mut hits = p == query;
                        while before.is_none() && !hits && fuel > 0 {
                            match dg.transferred.get(&p) {
                                Some(&(_, o)) => {
                                    p = o;
                                    hits = p == query;
                                }
                                None => break,
                            }
                            fuel -= 1;
                        }
                        if hits {
                            st.w4_precondition_violations += 1;
                        }
                    }
                    let fmt_entry = |e: Option<(Thread, Key)>| match e {
                        Some((t, k)) => format!("t{t},{}", fmt_key(&k)),
                        None => "-".to_string(),
                    };
                    if format!("before={}", fmt_entry(before)) != *args.get(5)? {
                        return Some(Err(format!(
                            "transfer_lock: before entry differs (model {})",
                            fmt_entry(before)
                        )));
                    }
                    match dg.transfer_lock(query, cur, new_owner, owner) {
                        Err(e) => Err(e),
                        Ok((kind, nt, block)) => {
                            if kind == "changed" {
                                st.transfers_changed += 1;
                            }
                            let after = dg.transferred.get(&query).copied();
                            if kind != kind_logged || nt != nt_logged || block != block_logged {
                                Err(format!(
                                    "transfer_lock: model answers {kind} t{nt} block={} ",
                                    block as u8
                                ))
                            } else if format!("after={}", fmt_entry(after)) != *args.get(6)? {
                                Err(format!("transfer_lock: after entry differs (model {})", fmt_entry(after)))
                            } else {
                                Ok(())
                            }
                        }
                    }
                }
                "block" | "block_owner" => {
                    let me = parse_thread(toks[3])?;
                    let other = parse_thread(args.get(1)?)?;
                    let want = if me == other || dg.depends_on(other, me) { "cycle" } else { "running" };
                    if want == "cycle" {
                        st.cycles_answered += 1;
                    }
                    if want == *args.get(2)? {
                        Ok(())
                    } else {
                        Err(format!("{op}: model answers {want}"))
                    }
                }
                "block_transferred" => {
                    let me = parse_thread(toks[3])?;
                    let key = parse_key(args.first()?)?;
                    let want = match dg.thread_of_transferred(key, None) {
                        None => "released".to_string(),
                        Some(o) if o == me || dg.depends_on(o, me) => "im_the_owner".to_string(),
                        Some(o) => format!("owned_by:t{o}"),
                    };
                    if want == *args.get(1)? {
                        Ok(())
                    } else {
                        Err(format!("block_transferred: model answers {want}"))
                    }
                }
                "unblock_runtime" => Err("unblock_runtime at depth 0".into()),
                _ => Err(format!("unknown dg op {op}")),
            })
        })()
        .ok_or_else(bad)?;
        r.map_err(|e| err("model", e))?;
        let got = dg.digest();
        if got != logged {
            return Err(err("model", format!("digest differs; model: {got}")));
        }
        if !dg.transferred.is_empty() {
            st.states_with_transfers += 1;
        }
        let badinv = dg.check();
        if !badinv.is_empty() {
            return Err(err("invariant", badinv.join("; ")));
        }
    }
    Ok(st)
}

/// Threads that are still blocked / hold an unconsumed result at the end of `lines`
/// (used by the watchdog report: the first lost wake-up).
pub fn residual(lines: &[String]) -> String {
    let mut last = None;
    for l in lines {
        if l.starts_with("dg ") {
            last = Some(l);
        }
    }
    match last {
        Some(l) => {
            let toks: Vec<&str> = l.split(' ').collect();
            toks[toks.len().saturating_sub(5)..].join(" ")
        }
        None => "no dg line".into(),
    }
}
