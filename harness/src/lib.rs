//! Shared helpers for the verification harness binaries.
pub mod prog;

/// SplitMix64: every random choice of a run derives from one seed.
#[derive(Clone, Debug)]
pub struct Rng(pub u64);

impl Rng {
    pub fn new(seed: u64) -> Self {
        Rng(seed ^ 0x9E37_79B9_7F4A_7C15)
    }
    pub fn next(&mut self) -> u64 {
        self.0 = self.0.wrapping_add(0x9E37_79B9_7F4A_7C15);
        let mut z = self.0;
        z = (z ^ (z >> 30)).wrapping_mul(0xBF58_476D_1CE4_E5B9);
        z = (z ^ (z >> 27)).wrapping_mul(0x94D0_49BB_1331_11EB);
        z ^ (z >> 31)
    }
    pub fn below(&mut self, n: u64) -> u64 {
        if n == 0 { 0 } else { self.next() % n }
    }
    pub fn usize(&mut self, n: usize) -> usize {
        self.below(n as u64) as usize
    }
    pub fn chance(&mut self, num: u64, den: u64) -> bool {
        self.below(den) < num
    }
    pub fn pick<'a, T>(&mut self, xs: &'a [T]) -> &'a T {
        &xs[self.usize(xs.len())]
    }
}

/// Minimal command-line parsing: `--key value` pairs and flags.
pub struct Args(pub Vec<String>);

impl Args {
    pub fn from_env() -> Self {
        Args(std::env::args().skip(1).collect())
    }
    pub fn get(&self, key: &str) -> Option<&str> {
        self.0
            .iter()
            .position(|a| a == key)
            .and_then(|i| self.0.get(i + 1))
            .map(|s| s.as_str())
    }
    pub fn num(&self, key: &str, default: u64) -> u64 {
        self.get(key).and_then(|s| s.parse().ok()).unwrap_or(default)
    }
    pub fn flag(&self, key: &str) -> bool {
        self.0.iter().any(|a| a == key)
    }
}

/// JSON string escaping for hand-written JSON output.
pub fn jstr(s: &str) -> String {
    let mut o = String::from("\"");
    for c in s.chars() {
        match c {
            '"' => o.push_str("\\\""),
            '\\' => o.push_str("\\\\"),
            '\n' => o.push_str("\\n"),
            c if (c as u32) < 0x20 => o.push_str(&format!("\\u{:04x}", c as u32)),
            c => o.push(c),
        }
    }
    o.push('"');
    o
}

/// Program family, generators and sequential oracle for the `conc` binary.
pub mod conc_prog;
/// In-process replay model of salsa's `DependencyGraph` (DESIGN.md Appendix B).
pub mod dg_model;

/// Threads of the concurrency harness: shuttle's under the `shuttle` feature, `std`'s otherwise.
#[cfg(feature = "shuttle")]
pub use shuttle::thread as cthread;
#[cfg(not(feature = "shuttle"))]
pub use std::thread as cthread;
