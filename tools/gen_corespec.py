#!/usr/bin/env python3
"""Richer generator for the `corespec` sub-language (superset of `seq gen --profile spec`):
creators that read after specifying, call sp/tv/tk on their own struct, hold a `mk` in both
branches of a `?`; handles flowing through intermediate queries; readers mixing several creators.
usage: gen.py SEED CASES > file.ops"""
import random, sys

def small(r, ni):
    return f"i{r.randrange(ni)}" if r.random() < 0.7 else f"c{r.randrange(4)}"

def core_e(r, k, ni, depth, callable_):
    x = r.random()
    if depth == 0 or x < 0.3:
        y = r.random()
        if y < 0.45: return f"i{r.randrange(ni)}"
        if y < 0.7 and callable_: return f"q{r.choice(callable_)}"
        return f"c{r.randrange(4)}"
    if x < 0.6:
        return f"{r.choice('+&|')} {core_e(r,k,ni,depth-1,callable_)} {core_e(r,k,ni,depth-1,callable_)}"
    if x < 0.85:
        return f"? {core_e(r,k,ni,depth-1,callable_)} {core_e(r,k,ni,depth-1,callable_)} {core_e(r,k,ni,depth-1,callable_)}"
    return f"i{r.randrange(ni)}"

def mk_(r, ni, lower, kc=0):
    def arg():
        y = r.random()
        if y < 0.6: return f"i{r.randrange(ni)}"
        if y < 0.75: return f"c{r.randrange(4)}"
        if y < 0.85 and lower: return f"tv q{r.choice(lower)}"
        if y < 0.93 and lower: return f"sp q{r.choice(lower)}"
        return f"+ i{r.randrange(ni)} c{r.randrange(2)}"
    f = f"i{r.randrange(ni)}" if r.random() < 0.8 else f"c{r.randrange(2)}"
    return f"mk c{kc} {arg()} {f} {arg()}"

def creator(r, k, ni, lower):
    """lower: indices of smaller queries (any kind)"""
    kc = r.choice([0,0,0,1,2])
    def mk(r, ni, lower): return mk_(r, ni, lower, kc)
    m = mk(r, ni, lower)
    x = r.randrange(12)
    if x <= 2: return m
    if x == 3: return f"? i{r.randrange(ni)} {m} {core_e(r,k,ni,1,lower)}"
    if x == 4: return f"? i{r.randrange(ni)} {m} {mk(r,ni,lower)}"
    if x == 5: return f"+ {m} i{r.randrange(ni)}"          # read after specify
    if x == 6: return f"sp {m}"                            # creator asks spec of its own struct
    if x == 7: return f"+ sp {m} i{r.randrange(ni)}"
    if x == 8: return f"+ tv {m} {small(r,ni)}"
    if x == 9: return f"+ i{r.randrange(ni)} {m}"
    if x == 10: return f"? i{r.randrange(ni)} + {m} i{r.randrange(ni)} sp {mk(r,ni,lower)}"
    return f"| tk {m} sp {mk(r,ni,lower)}" if False else f"+ {m} sp q{r.choice(lower)}" if lower else m

def reader(r, k, ni, holders, lower):
    src = f"q{r.choice(holders)}"
    x = r.randrange(12)
    if x <= 1: return f"sp {src}"
    if x == 2: return f"tv {src}"
    if x == 3: return f"+ sp {src} {core_e(r,k,ni,1,lower)}"
    if x == 4: return f"? i{r.randrange(ni)} sp {src} {core_e(r,k,ni,1,lower)}"
    if x == 5: return f"+ tk {src} sp {src}"
    if x == 6: return src                                   # pass the handle on
    if x == 7: return f"+ {src} i{r.randrange(ni)}"         # handle + number
    if x == 8: return f"+ sp {src} tv q{r.choice(holders)}"
    if x == 9: return f"? i{r.randrange(ni)} q{r.choice(holders)} {src}"
    if x == 10: return f"+ tv {src} sp {src}"
    return f"sp ? i{r.randrange(ni)} {src} q{r.choice(holders)}"

def history(r, n, ni, init):
    ops = []
    cur = [v for v, _ in init]
    for _ in range(5 + r.randrange(30)):
        x = r.randrange(100)
        if x < 50:
            ops.append(f"get {r.randrange(n)}")
        elif x < 90:
            i = r.randrange(ni)
            v = cur[i] if r.random() < 0.33 else r.randrange(4)
            cur[i] = v
            y = r.randrange(10)
            d = "k" if y <= 6 else "0" if y == 7 else str(1 + r.randrange(2)) if y == 8 else str(r.randrange(4))
            ops.append(f"set {i} {v} {d}")
        else:
            ops.append(f"synth {r.randrange(4)}")
    return ops

def case(r):
    n = 3 + r.randrange(6)
    ni = 2 + r.randrange(3)
    lines = [f"prog {n} {ni} 0"]
    ncre = 1 + r.randrange(2)
    holders = []
    for k in range(n):
        lower = list(range(k))
        if k < ncre or (holders and r.random() < 0.1):
            e = creator(r, k, ni, lower)
            holders.append(k)
        elif r.random() < 0.75:
            e = reader(r, k, ni, holders, lower)
            if e.startswith("q") or e.startswith("+ q") or e.startswith("? i"):
                holders.append(k)
        else:
            e = core_e(r, k, ni, 2, lower)
        lines.append(f"q {k} plain {e}")
    x = r.randrange(6)
    sb = ["sv", f"+ sv {small(r,ni)}", f"? {small(r,ni)} sv {small(r,ni)}", small(r, ni), f"+ sk {small(r,ni)}", f"| sv i{r.randrange(ni)}"][x]
    if sb != "sv":
        lines.append(f"b spec {sb}")
    init = [(r.randrange(4), 0 if r.random() < 0.66 else r.randrange(4)) for _ in range(ni)]
    for i, (v, d) in enumerate(init):
        lines.append(f"input {i} {v} {d}")
    lines += history(r, n, ni, init)
    return lines

def main():
    seed, cases = int(sys.argv[1]), int(sys.argv[2])
    r = random.Random(seed)
    out = []
    for _ in range(cases):
        out += case(r)
    sys.stdout.write("\n".join(out) + "\n")

main()
