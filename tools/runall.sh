#!/bin/sh
# runs every claimed check (quick tier) sequentially and prints one line each
cd "$(dirname "$0")/.."
for p in $(python3 -c "import json;print(' '.join(c['property_id'] for c in json.load(open('MANIFEST.json'))['checks']))"); do
  /usr/bin/time -f "%es" ./check $p --tier ${1:-quick} 2>&1 | grep -E "^C[0-9]+ (ok|FAIL)|VIOLATION|^[0-9.]+s$|KNOWN-FINDING" | cut -c1-160
done
