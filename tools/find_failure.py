#!/usr/bin/env python3
"""tools/find_failure.py PROFILE CASES SEED — runs vh seq + oracle and prints minimised failing cases per key."""
import sys, os
sys.path.insert(0, os.path.join(os.path.dirname(os.path.abspath(__file__)), '..'))
sys.path.insert(0, os.path.join(os.path.dirname(os.path.abspath(__file__)), '..', 'checks'))
import checklib, seq_common
os.environ['VERIF_SEED'] = sys.argv[3] if len(sys.argv) > 3 else '1'
ctx = checklib.Ctx('SCRATCH', 'quick', int(os.environ['VERIF_SEED']))
t = seq_common.run_seq(ctx, sys.argv[1], int(sys.argv[2]))
print(t.info)
for f in t.failures:
    print(f.kind, f.key, f.summary)
    print(open(f.replay).read())
