#!/usr/bin/env python3
"""tools/seeded.py <seed-id> <property> <worktree> [checks...]
Confirms a seeded property-breaking change made by an independent sub-agent in a scratch worktree
(demo fails with the change, passes without), stores it under /verif/seeded/<seed-id>/ and runs the
given checks (default: the property's own) against /repo with the patch applied, then reverts."""
import sys, os, subprocess, json, shutil, time
sid, prop, wt = sys.argv[1], sys.argv[2], sys.argv[3]
checks = sys.argv[4:] or [prop]
out = '/verif/seeded/%s' % sid
os.makedirs(out, exist_ok=True)
def sh(cmd, cwd=None, timeout=3600):
    p = subprocess.run(cmd, shell=True, cwd=cwd, stdout=subprocess.PIPE, stderr=subprocess.STDOUT, timeout=timeout)
    return p.returncode, p.stdout.decode('utf-8', 'replace')
if wt != '-':      # '-' = the worktree is gone: re-run against the stored patch
    rc, diff = sh('git diff -- src components', cwd=wt)
    open(os.path.join(out, 'patch.diff'), 'w').write(diff)
    demo = os.path.join(wt, 'tests', 'seeded_demo.rs')
    if os.path.exists(demo):
        shutil.copy(demo, os.path.join(out, 'seeded_demo.rs'))
env = 'CARGO_TARGET_DIR=%s/target CARGO_NET_OFFLINE=true' % wt
meta = {'seed_id': sid, 'property': prop, 'ran': []}
if os.path.exists(os.path.join(out, 'meta.json')):
    old = json.load(open(os.path.join(out, 'meta.json')))
    meta = dict(old, seed_id=sid, property=prop)
    meta.setdefault('earlier_runs', []).append({'checks': old.get('checks_run_with_patch_applied'), 'caught_by': old.get('caught_by')})
if '--skip-demo' not in sys.argv and wt != '-':
    rc1, o1 = sh('%s cargo test --offline --test seeded_demo 2>&1 | tail -5' % env, cwd=wt)
    sh('git stash -- src components', cwd=wt)
    rc2, o2 = sh('%s cargo test --offline --test seeded_demo 2>&1 | tail -5' % env, cwd=wt)
    sh('git stash pop', cwd=wt)
    meta['demo_with_change'] = o1.strip().split('\n')[-3:]
    meta['demo_without_change'] = o2.strip().split('\n')[-3:]
    print('demo with change   :', meta['demo_with_change'])
    print('demo without change:', meta['demo_without_change'])
# apply to /repo
rc, o = sh('git -C /repo apply %s/patch.diff' % out)
if rc != 0:
    print('PATCH DOES NOT APPLY to /repo:', o); sys.exit(2)
results = {}
# evidence written by checks that run against the mutated tree must not replace the evidence of
# the unchanged tree: keep copies and put them back afterwards
saved = {}
for c in checks:
    ev = '/verif/evidence/%s.json' % c
    if not c.startswith('--') and os.path.exists(ev):
        saved[ev] = open(ev).read()
try:
    for c in checks:
        if c.startswith('--'):
            continue
        t0 = time.time()
        rc, o = sh('./check %s --tier quick' % c, cwd='/verif', timeout=3000)
        lines = [l for l in o.split('\n') if l.startswith('VIOLATION') or l.startswith('KNOWN-FINDING') or ' ok:' in l or 'FAIL:' in l]
        results[c] = {'exit': rc, 'lines': lines[:6], 'seconds': round(time.time() - t0, 1)}
        print(c, 'exit', rc, lines[:3])
finally:
    sh('git -C /repo checkout -- .')
    sh('python3 /verif/translate/gen.py')      # Gen/*.lean back to the unchanged tree
    for ev, text in saved.items():
        open(ev, 'w').write(text)
meta['checks_run_with_patch_applied'] = results
meta['caught_by'] = [c for c, r in results.items() if r['exit'] != 0]
json.dump(meta, open(os.path.join(out, 'meta.json'), 'w'), indent=1)
print('caught by:', meta['caught_by'])
