"""`vh store`: real Lru / RevisionQueue / constant-hash interner vs the Lean drivers lru|rq|intern."""
import os, re
from checklib import Tie, Failure, diff_streams, HarnessError, sh

def run_store(ctx, model, cases):
    t = Tie('store-' + model)
    t.rule = ('random op sequences for the real `%s` component (`vh store gen --model %s`), one independent case per reset; '
              'every output line is compared with the Lean driver; distinct = distinct op lines in context is not tracked, so '
              'distinct_nontrivial counts cases (each case has a fresh random configuration and >= 5 ops)' % (model, model))
    binp = ctx.cargo_bin('store')
    ops = os.path.join(ctx.work, 'store-%s.ops' % model); imp = os.path.join(ctx.work, 'store-%s.impl' % model); mod = os.path.join(ctx.work, 'store-%s.model' % model)
    rc, out, _ = sh([binp, 'gen', '--model', model, '--seed', str(ctx.seed), '--cases', str(cases), '--out', ops])
    if rc != 0:
        raise HarnessError('store gen failed: ' + out[-400:])
    # corpus first
    cdir = os.path.join(os.path.dirname(os.path.dirname(os.path.abspath(__file__))), 'corpus', {'lru': 'LRU', 'rq': 'INTERN', 'intern': 'INTERN'}[model])
    rc, out, _ = sh([binp, 'run', '--model', model, '--ops', ops, '--out', imp], timeout=900)
    if rc != 0:
        raise HarnessError('store run failed: ' + out[-400:])
    ctx.run_driver(model, ops, mod)
    n, mism, total = diff_streams(ops, imp, mod)
    t.evaluations = n
    t.distinct_nontrivial = cases
    t.traces_validated = cases
    with open(imp) as f:
        text = f.read()
    t.info['lines'] = n
    if model == 'intern':
        t.info['reuse_steps'] = text.count('\nreuse ')
        t.info['hit_steps'] = text.count('\nhit ')
    if model == 'lru':
        t.info['eviction_lines_nonempty'] = len(re.findall(r'^\d+( \d+)*$', text, re.M))
    with open(ops) as f:
        lines = f.read().split('\n')
    if model == 'intern':
        ob = intern_oracle(lines, text.split('\n'))
        t.info['retention_oracle_failures'] = len(ob)
        for (i, msg) in ob[:2]:
            start = i
            while start > 0 and not lines[start].startswith('new '):
                start -= 1
            rp = ctx.save_replay('store-intern-oracle-line%d.ops' % (i + 1), '\n'.join(lines[start:i + 1]) + '\n')
            t.failures.append(Failure('oracle', 'interner line %d `%s`: %s' % (i + 1, lines[i], msg), replay=rp, key='intern-retention'))
    for (ln, op, a, b) in mism[:2]:
        # replay = the enclosing case (from the previous reset line)
        start = ln - 1
        while start > 0 and not (lines[start].startswith('new ') or lines[start] == 'cap 0'):
            start -= 1
        rp = ctx.save_replay('store-%s-line%d.ops' % (model, ln), '\n'.join(lines[start:ln]) + '\n')
        t.failures.append(Failure('model', 'store %s line %d `%s`: impl `%s` vs model `%s` (%d mismatching lines)' % (model, ln, op, a[:100], b[:100], total), replay=rp))
    t.samples.append({'ops': lines[:12]})
    return t


def run_store_nat(ctx, cases):
    """natural-hash interned families (values spread over all shards; a reclaimed slot gets a value
    whose hash differs from the old occupant's). No Lean twin: shard choice is internal to the
    hash table, so the tie here is the retention/canonicity reference `intern_oracle` alone."""
    t = Tie('store-intern-natural-hash')
    t.rule = ('large batches of ordinary-hash interned values over several revisions on the real interner (families with '
              'revisions = 1, 2); every answer (hit / new / reuse, slot, generation) is checked against the retention and '
              'canonicity reference (one handle per live value; a slot is reclaimed only for a LOW value not interned in the '
              'last N used revisions); evaluations = intern requests')
    binp = ctx.cargo_bin('store')
    ops = os.path.join(ctx.work, 'store-internnat.ops'); imp = os.path.join(ctx.work, 'store-internnat.impl')
    rc, out, _ = sh([binp, 'gen', '--model', 'internnat', '--seed', str(ctx.seed + 17), '--cases', str(cases), '--out', ops])
    if rc != 0:
        raise HarnessError('store gen failed: ' + out[-400:])
    rc, out, _ = sh([binp, 'run', '--model', 'internnat', '--ops', ops, '--out', imp], timeout=1800)
    with open(ops) as f:
        lines = f.read().split('\n')
    if rc != 0:
        # the implementation died (a signal / abort: memory unsafety inside the interner is one way a
        # broken reuse shows): find the case that kills it and report it as the failing input
        starts = [i for i, l in enumerate(lines) if l.startswith('new ')] + [len(lines)]
        for a, b in zip(starts, starts[1:]):
            one = os.path.join(ctx.work, 'store-internnat-one.ops')
            with open(one, 'w') as f:
                f.write('\n'.join(lines[a:b]) + '\n')
            rc1, out1, _ = sh([binp, 'run', '--model', 'internnat', '--ops', one, '--out', one + '.impl'], timeout=600)
            if rc1 != 0:
                rp = ctx.save_replay('store-internnat-crash-line%d.ops' % (a + 1), '\n'.join(lines[a:b]) + '\n')
                t.evaluations = b - a
                t.failures.append(Failure('oracle', 'the interner (natural hash) killed the process (exit status %d) on the case starting at '
                                                    'line %d: %s' % (rc1, a + 1, out1[-200:]), replay=rp, key='impl-crash'))
                return t
        raise HarnessError('store run failed (rc=%d) but no single case reproduces it: %s' % (rc, out[-400:]))
    with open(imp) as f:
        text = f.read()
    t.evaluations = sum(1 for l in lines if l.startswith('intern '))
    t.distinct_nontrivial = cases
    t.info['reuse_steps'] = text.count('\nreuse ')
    t.info['hit_steps'] = text.count('\nhit ')
    t.info['panics'] = text.count('\npanic')
    ob = intern_oracle(lines, text.split('\n'))
    if t.info['panics']:
        i = text.split('\n').index('panic')
        ob = [(i, 'the interner panicked')] + ob
    t.info['retention_oracle_failures'] = len(ob)
    for (i, msg) in ob[:2]:
        start = i
        while start > 0 and not lines[start].startswith('new '):
            start -= 1
        rp = ctx.save_replay('store-internnat-oracle-line%d.ops' % (i + 1), '\n'.join(lines[start:i + 1]) + '\n')
        t.failures.append(Failure('oracle', 'interner (natural hash) line %d `%s`: %s' % (i + 1, lines[i], msg), replay=rp, key='intern-retention'))
    t.samples.append({'ops': lines[:8], 'reuse_steps': t.info['reuse_steps']})
    return t


def intern_oracle(ops_lines, impl_lines):
    """C09/C08 retention-rule reference evaluated on the implementation's answers (independent of
    the Lean model). Returns list of (lineno, message)."""
    bad = []
    fam = 3; cur = 1; used = set(); slots = {}; start = 0
    for i, (op, out) in enumerate(zip(ops_lines, impl_lines)):
        p = op.split(' ')
        if p[0] == 'new' and len(p) == 2 and out == 'ok':
            fam = {'max': None, 'n1': 1, 'n2': 2}.get(p[1], int(p[1]) if p[1].isdigit() else 3); cur = 1; used = set(); slots = {}; start = i
        elif p[0] == 'rev' and out == 'ok':
            cur = int(p[1])
        elif p[0] == 'intern' and len(p) == 4 and out not in ('bad-op', 'panic'):
            dur, inq, f = int(p[1]), p[2] == '1', int(p[3])
            kind, k, g = out.split(' ')
            k = int(k)
            edur = dur if inq else 3
            elast = cur if inq else 10**18
            if cur > 1:
                used.add(cur)
            holder = [s for s, v in slots.items() if v['value'] == f]
            if kind == 'hit':
                if holder != [k]:
                    bad.append((i, 'hit on slot %d but value %d is held by %s' % (k, f, holder)))
                else:
                    # a hit from outside any function leaves the durability alone and only
                    # refreshes the revision (src/interned.rs, fast path)
                    if inq:
                        slots[k]['maxdur'] = max(slots[k]['maxdur'], edur)
                    slots[k]['last'] = max(slots[k]['last'], cur)
                continue
            if holder:
                bad.append((i, 'value %d interned twice: new handle although slot %s holds it (not canonical)' % (f, holder)))
            if kind == 'new':
                if k in slots:
                    bad.append((i, 'fresh id %d already in use' % k))
                slots[k] = {'value': f, 'maxdur': edur, 'last': elast}
            elif kind == 'reuse':
                old = slots.get(k)
                if old is None:
                    bad.append((i, 'reuse of unknown slot %d' % k)); slots[k] = {'value': f, 'maxdur': edur, 'last': elast}; continue
                u = sorted(used)
                why = None
                if fam is None:
                    why = 'type disables collection (revisions = usize::MAX)'
                elif old['maxdur'] != 0:
                    why = 'old value was interned by a function of durability %d (not LOW)' % old['maxdur']
                elif len(u) < fam:
                    why = 'only %d revisions used the type so far (< %d)' % (len(u), fam)
                elif not (old['last'] < u[-fam]):
                    why = 'old value was interned in revision %d, within the last %d used revisions %s' % (old['last'], fam, u[-fam:])
                if why:
                    bad.append((i, 'slot %d (value %d) reclaimed for value %d although %s [case starts at line %d]' % (k, old['value'], f, why, start + 1)))
                slots[k] = {'value': f, 'maxdur': edur, 'last': elast}
    return bad


def replay_store(ctx, path):
    """replays a saved store replay: `.ops` files whose first line is `new n1|n2|1|2|3|max` go to the
    interner (natural-hash families have no Lean twin), `cap …` files to the LRU."""
    binp = ctx.cargo_bin('store')
    with open(path) as f:
        lines = f.read().split('\n')
    first = next((l for l in lines if l), '')
    model = 'lru' if first.startswith('cap') else ('internnat' if first in ('new n1', 'new n2') else 'intern')
    imp = os.path.join(ctx.work, 'replay-store.impl')
    rc, out, _ = sh([binp, 'run', '--model', model, '--ops', path, '--out', imp], timeout=600)
    if rc != 0:
        print('the implementation killed the process: exit status %d %s' % (rc, out[-300:]))
        return 1
    outs = open(imp).read().split('\n')
    bad = 0
    if model != 'lru':
        for (i, msg) in intern_oracle(lines, outs):
            print('ORACLE line %d `%s`: %s' % (i + 1, lines[i], msg)); bad += 1
    if model in ('lru', 'intern'):
        mod = os.path.join(ctx.work, 'replay-store.model')
        ctx.run_driver(model, path, mod)
        n, mism, total = diff_streams(path, imp, mod)
        for m in mism:
            print('MODEL-DIFF line %d op=%s impl=%s model=%s' % m)
        bad += total
    for a, b in list(zip(lines, outs))[-12:]:
        print('%-28s => %s' % (a, b))
    return 1 if bad else 0
