"""`vh store`: real Lru / RevisionQueue / constant-hash interner vs the Lean drivers lru|rq|intern."""
import os, re
from checklib import Tie, Failure, diff_streams, HarnessError, sh

def run_store(ctx, model, cases):
    t = Tie('store-' + model)
    t.rule = ('random op sequences for the real `%s` component (`vh store gen --model %s`), one independent case per reset; '
              'every output line is compared with the Lean driver; distinct = distinct op lines in context is not tracked, so '
              'distinct_nontrivial counts cases (each case has a fresh random configuration and >= 5 ops)' % (model, model))
    binp = ctx.cargo_bin('store')
    ops = os.path.join(ctx.work, 'store-%s.ops' % model); imp = os.path.join(ctx.work, 'store-%s.impl' % model); mod = os.path.join(ctx.work, 'store-%s.model' % model)
    rc, out, _ = sh([binp, 'gen', '--model', model, '--seed', str(ctx.seed), '--cases', str(cases), '--out', ops])
    if rc != 0:
        raise HarnessError('store gen failed: ' + out[-400:])
    # corpus first
    cdir = os.path.join(os.path.dirname(os.path.dirname(os.path.abspath(__file__))), 'corpus', {'lru': 'LRU', 'rq': 'INTERN', 'intern': 'INTERN'}[model])
    rc, out, _ = sh([binp, 'run', '--model', model, '--ops', ops, '--out', imp], timeout=900)
    if rc != 0:
        raise HarnessError('store run failed: ' + out[-400:])
    ctx.run_driver(model, ops, mod)
    n, mism, total = diff_streams(ops, imp, mod)
    t.evaluations = n
    t.distinct_nontrivial = cases
    t.traces_validated = cases
    with open(imp) as f:
        text = f.read()
    t.info['lines'] = n
    if model == 'intern':
        t.info['reuse_steps'] = text.count('\nreuse ')
        t.info['hit_steps'] = text.count('\nhit ')
    if model == 'lru':
        t.info['eviction_lines_nonempty'] = len(re.findall(r'^\d+( \d+)*$', text, re.M))
    with open(ops) as f:
        lines = f.read().split('\n')
    for (ln, op, a, b) in mism[:2]:
        # replay = the enclosing case (from the previous reset line)
        start = ln - 1
        while start > 0 and not (lines[start].startswith('new ') or lines[start] == 'cap 0'):
            start -= 1
        rp = ctx.save_replay('store-%s-line%d.ops' % (model, ln), '\n'.join(lines[start:ln]) + '\n')
        t.failures.append(Failure('model', 'store %s line %d `%s`: impl `%s` vs model `%s` (%d mismatching lines)' % (model, ln, op, a[:100], b[:100], total), replay=rp))
    t.samples.append({'ops': lines[:12]})
    return t
