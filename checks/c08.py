"""C08 — interning is canonical within a revision, across queries and threads."""
from checks_path import *  # noqa
from store_common import replay_store, run_store, run_store_nat
from seq_common import run_seq

PROPERTY = 'C08'
GEN = ['LogicIntern']
PROPS = ['SalsaVerif.Props.C08', 'SalsaVerif.Props.GenLogicIntern']
EXPLANATION = ('Theorems about the interner model: equal fields interned within one revision give the same id and generation, unequal '
               'fields different ids, read-back returns the interned fields, a never-stale value keeps its identity; and linearizability of '
               'concurrent interning in an interleaving LTS where the per-shard step is atomic (the shard lock). Sequential behaviour tied '
               'to salsa by the constant-hash interner comparison (ids, generations, new/hit/reuse) and by the reference interpreter on '
               'generated programs that intern from several queries; the multi-threaded part is explored by the concurrency harness.')
ASSUMPTIONS = ['atomicity of the shard-locked section is the lock\'s contract (trusted)', 'hash function determinism']

def ties(ctx):
    n = 1500 if ctx.tier == 'quick' else 60000
    m = 1500 if ctx.tier == 'quick' else 100000
    return [run_store(ctx, 'intern', n), run_store_nat(ctx, 6 if ctx.tier == 'quick' else 300), run_seq(ctx, 'full', m, seed_offset=8)]

def search(ctx, reason):
    t = run_seq(ctx, 'full', 150000, seed_offset=91, tag='search-full')
    for f in t.failures:
        if f.kind == 'oracle' and f.key not in listed_keys():
            return f
    return None

def replay(ctx, path):
    if '/store-' in path or path.endswith('.store.ops'):
        return replay_store(ctx, path)
    from seq_common import replay_seq
    return replay_seq(ctx, path)
