"""C07 — reclaimed identities never alias memoized state or field data."""
from checks_path import *  # noqa
from seq_common import run_seq, replay_seq
from store_common import run_store, run_store_nat
from structs_common import run_structs, replay_structs, replay_structs_oracle

PROPERTY = 'C07'
GEN = ['LogicIntern', 'LogicStructs']
PROPS = ['SalsaVerif.Props.C07', 'SalsaVerif.Props.GenLogicIntern', 'SalsaVerif.Props.GenLogicStructs']
EXPLANATION = ('Component theorems over the struct-table and interner models: every step that bumps a slot\'s generation (free-list reuse, '
               'identity collision, interned reuse) clears its memos and replaces its fields; every stored memo was inserted under the '
               'slot\'s current generation; an interned dependency edge of an older generation answers "changed"; a struct read or created in '
               'revision r is not deleted in r and an interned value touched in r is not reused in r. The integrated statement (no stale '
               'handle inside a verified memo, `c07_no_stale_handle`) needs the full engine model and is listed as NOT YET PROVED. Tied to '
               'salsa by the constant-hash interner comparison (reuse steps, generations), by the step-by-step replay of tracked-struct hook '
               'traces through the struct-table model (`vh structs` + `svdriver structs`: generation bump and memo clearing on identity '
               'change and on free-list reuse, FIFO reuse order, read/write lock stamps, deletes, invariant MemoGen/FreeOK after every line; '
               'see C06) and by churn-heavy generated programs (conditional '
               'struct creation, functions keyed by structs, interned values and tuples) against the reference interpreter: aliasing shows up '
               'as a wrong value or a changed id.')
ASSUMPTIONS = ['integrated claim rests on the oracle comparison, the theorems are component-level (labelled partial)',
               'the struct-table trace tie shares the assumptions listed under C06 (field values announced by the harness, unmodelled unwinds cut short)']

def ties(ctx):
    n = 2500 if ctx.tier == 'quick' else 200000
    m = 1500 if ctx.tier == 'quick' else 60000
    k = 1500 if ctx.tier == 'quick' else 100000
    return [run_store(ctx, 'intern', m), run_store_nat(ctx, 6 if ctx.tier == 'quick' else 300), run_structs(ctx, k, seed_offset=71), run_seq(ctx, 'full', n, seed_offset=9, structs_trace=True)]

def search(ctx, reason):
    t = run_seq(ctx, 'full', 300000, seed_offset=94, tag='search-full')
    for f in t.failures:
        if f.kind == 'oracle' and f.key not in listed_keys():
            return f
    return None

def replay(ctx, path):
    if open(path).readline().startswith('structs-oracle'):
        return replay_structs_oracle(ctx, path)
    if path.endswith('.trace') or open(path).readline().startswith('reset'):
        return replay_structs(ctx, path)
    return replay_seq(ctx, path)
