"""C23 — memory safety / reference validity (partial by nature)."""
from checks_path import *  # noqa
from edges_common import run_edges, replay_edges

PROPERTY = 'C23'
GEN = ['Ids', 'Edge']
PROPS = ['SalsaVerif.Props.C23']
EXPLANATION = ('What is logic is proved: make_id/split_id round trip, injectivity and range (translated from src/table.rs, src/id.rs); the '
               'memo allocation life cycle (Live/Deferred/Freed: no outstanding reference to a freed allocation, nothing freed twice, drop '
               'frees everything); the SliceWithHeaderBuilder discipline; slot initialisation before publication. Raw-pointer arithmetic, '
               'provenance and lifetime extension are runtime facts no Lean model exhibits: PARTIAL.')
ASSUMPTIONS = ['pointer-level safety is not modelled; a concrete memory error can only be exhibited by running the implementation '
               '(Miri / sanitizer), which is a search aid, not part of the proof']

def ties(ctx):
    return [run_edges(ctx, set('MXDA'))]

def replay(ctx, path):
    return replay_edges(ctx, path)
