"""C23 — memory safety / reference validity (partial by nature)."""
import os, re
from checks_path import *  # noqa
from checklib import Tie, Failure, HarnessError, sh
from edges_common import run_edges, replay_edges
from life_common import run_life, replay_life

PROPERTY = 'C23'
GEN = ['Ids', 'Edge']
PROPS = ['SalsaVerif.Props.C23']
EXPLANATION = ('What is logic is proved: make_id/split_id round trip, injectivity and range (translated from src/table.rs, src/id.rs); the '
               'memo allocation life cycle (Live/Deferred/Freed: no outstanding reference to a freed allocation, nothing freed twice, drop '
               'frees everything); the SliceWithHeaderBuilder discipline; slot initialisation before publication. Raw-pointer arithmetic, '
               'provenance and lifetime extension are runtime facts no Lean model exhibits: PARTIAL. To be able to EXHIBIT a failure the check '
               'also runs generated engine histories (requests, writes, evictions, cycle iterations, struct deletions, interned reclamation, '
               'injected panics) on real salsa under valgrind memcheck with leak checking (invalid read/write, use after free, double free, '
               'definite leaks after the database is dropped) — a search aid, not part of the proof. Those engine histories copy every '
               'result out (`returns(copy)`), so a third tie (`vh life`) covers the clause "every reference returned by a tracked function '
               'or field getter keeps its value until the database is next borrowed mutably": all its items hand out references '
               '(returns(ref) functions, tracked and untracked struct fields, a memo stored on a tracked struct, an lru function, an '
               'interned field, a fixpoint pair), the runner RETAINS every reference until the next `&mut` op (Rust enforces that it '
               'cannot keep one longer) and after every op revalidates all of them: the payload type logs its own Drop, so a value '
               'destroyed or overwritten while a reference to it is retained (deletion of a struct already read in this revision, a memo '
               'freed instead of deferred, a slot reused too early) is reported as `retained-reference-invalid` without touching freed '
               'memory; `peek` reads structs of the previous revision through the ingredient entries before their creator re-ran; after '
               'drop-db every payload must have been dropped exactly once (`leak` / `double-drop`); salsa refusing with a panic '
               '(`cannot delete read-locked id`) is a legitimate outcome. A sample of the same histories also runs under valgrind.')
ASSUMPTIONS = ['pointer-level safety is not modelled; a concrete memory error can only be exhibited by running the implementation '
               '(valgrind memcheck on sampled histories)', 'multi-threaded memory safety (data races) is not examined',
               'retained-reference revalidation is single-threaded and observes values through the Drop of the payload type: memory '
               'released without running Drop, or read only by salsa itself (e.g. an old memo freed immediately on replacement, which '
               'no single-threaded caller can still reference), is visible to the valgrind sample only',
               '`peek` uses salsa::plumbing (ingredient `entries`, `FromId`) to obtain ids of the previous revision; no public safe API '
               'hands out such ids']

def run_valgrind(ctx):
    t = Tie('valgrind-seq')
    t.rule = ('generated histories of the full / cycle / inject profiles run on real salsa under `valgrind --leak-check=full '
              '--errors-for-leak-kinds=definite`; every case is a distinct generated (program, history); non-trivial = the case '
              'executed at least one eviction, deletion, reuse or cycle iteration is not measured per case, so all cases count')
    binp = ctx.cargo_bin('seq')
    n = 40 if ctx.tier == 'quick' else 1500
    total = 0
    for prof, cases, extra in (('full', n, []), ('cycle', n, []), ('inject', max(1, n // 20), ['--kmax', '3'])):
        ops = os.path.join(ctx.work, 'vg-%s.ops' % prof)
        rc, out, _ = sh([binp, 'gen', '--profile', prof, '--seed', str(ctx.seed + 11), '--cases', str(cases), '--out', ops] + extra)
        m = re.search(r'GEN cases=(\d+)', out)
        if rc != 0 or not m:
            raise HarnessError('seq gen failed: ' + out[-300:])
        total += int(m.group(1))
        rc, out, dt = sh(['valgrind', '--error-exitcode=9', '--leak-check=full', '--errors-for-leak-kinds=definite',
                          binp, 'run', '--ops', ops, '--out', os.path.join(ctx.work, 'vg-%s.impl' % prof)], timeout=3000)
        t.info['valgrind_%s' % prof] = (re.findall(r'ERROR SUMMARY: .*', out) or ['?'])[-1] + ' (%.0fs)' % dt
        if rc != 0:
            errs = re.findall(r'==\d+== (Invalid .*|.*definitely lost.*|Mismatched .*|.*uninitialised.*)', out)
            rp = ctx.save_replay('valgrind-%s.ops' % prof, open(ops).read())
            t.failures.append(Failure('oracle', 'valgrind reports memory errors on the %s histories: %s' % (prof, '; '.join(errs[:4]) or out[-400:]), replay=rp, key='valgrind'))
    t.evaluations = total
    t.distinct_nontrivial = total
    t.samples.append({'cmd': 'valgrind --error-exitcode=9 --leak-check=full --errors-for-leak-kinds=definite seq run --ops vg-full.ops'})
    return t

def ties(ctx):
    return [run_edges(ctx, set('MXDA')), run_valgrind(ctx), run_life(ctx, 300 if ctx.tier == 'quick' else 20000)]

def replay(ctx, path):
    if path.endswith('.life.ops'):
        return replay_life(ctx, path)
    return replay_edges(ctx, path)
