"""C24 — concurrently created Salsa structs receive distinct identities."""
from checks_path import *  # noqa
from conc_common import run_conc, replay_conc

PROPERTY = 'C24'
GEN = ['Ids']
PROPS = ['SalsaVerif.Props.C24']
EXPLANATION = ('Theorems about the Lean page-allocation transition system (three-step allocate per handle, per-handle page cache, shared '
               'non-full list, handle clone/drop) for any number of handles: every page is in at most one of {a handle\'s cache, the non-full '
               'list} (single writer), ids handed out (through the translated make_id) are pairwise distinct and decode back, a reader that '
               'sees idx < allocated sees the initialised slot. Tied to salsa by shuttle-scheduled runs of 2-4 threads creating inputs, '
               'tracked structs and interned values while handles are cloned and dropped: the page-operation trace is replayed through '
               'the Lean driver (each step enabled, single-writer invariant after each) and the oracle checks ids pairwise distinct and '
               'read-back of fields.')
ASSUMPTIONS = ['atomic pop of the tracked-struct free list (crossbeam queue) and interned reuse under the shard lock are trusted',
               'PageIndex::new only debug-asserts idx < MAX_PAGES (model precondition)']

def ties(ctx):
    n = 800 if ctx.tier == 'quick' else 20000
    return [run_conc(ctx, 'c24', 'shuttle', n, drivers=('alloc',)), run_conc(ctx, 'c24', 'threads', n, seed_offset=1)]

def search(ctx, reason):
    t = run_conc(ctx, 'c24', 'shuttle', 10000, seed_offset=53)
    for f in t.failures:
        if f.kind == 'oracle' and f.key not in listed_keys():
            return f
    return None

def replay(ctx, path):
    return replay_conc(ctx, 'c24', 'shuttle', path)
