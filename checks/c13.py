"""C13 — fallback cycles return the fallback for exactly the cycle participants."""
from checks_path import *  # noqa
from cycle_common import run_cycle
from seq_common import replay_seq

PROPERTY = 'C13'
PROPS = ['SalsaVerif.Props.C13']
KNOWN = ('fb-participant-after-revalidated-head', 'fix-participant-stale-after-revalidation')
EXPLANATION = ('Theorems about the Lean cycle model for programs whose cycle members use cycle_result: every memo is either the fallback value '
               'WITH a witness that the node reaches itself in the input-determined call graph, or its body over the results '
               '(`c13_participants_partial`), a node on no cycle gets its body over those results (`c13_outside`, full), no iteration happens, '
               'results do not mention the entry (`c13_entry_independent_partial`). The converse ("every node on a cycle gets its fallback") is '
               'proved for direct calls of an active query only; the general DFS/SCC completeness argument is NOT yet proved. Tied to salsa '
               'by generated fallback programs x histories compared with the Lean model and with an independent SCC oracle; the known '
               'history-dependence finding (kf1) is reported as KNOWN-FINDING.')
ASSUMPTIONS = ['the "if on a cycle then fallback" direction is partial in Lean; it is checked by the SCC oracle on every generated case',
               'known finding: fb-participant-after-revalidated-head (later revisions only)']

def ties(ctx):
    n = 1500 if ctx.tier == 'quick' else 100000
    return [run_cycle(ctx, n, known_keys=KNOWN, flavours='1', corpus='C13')]

def search(ctx, reason):
    t = run_cycle(ctx, 200000, known_keys=KNOWN, flavours='1', seed_offset=97, tag='search-cycle')
    for f in t.failures:
        if f.kind == 'oracle' and f.key not in KNOWN:
            return f
    return None

def replay(ctx, path):
    return replay_seq(ctx, path)
