"""C13 — fallback cycles return the fallback for exactly the cycle participants."""
from checks_path import *  # noqa
from cycle_common import run_cycle, compare_cycle_rev
from seq_common import replay_seq

PROPERTY = 'C13'
GEN = ['Stamp', 'LogicCycle']
PROPS = ['SalsaVerif.Props.C13', 'SalsaVerif.Props.GenLogicCycle', 'SalsaVerif.Props.C13Rev']
KNOWN = ('fb-participant-after-revalidated-head', 'fix-participant-stale-after-revalidation')
EXPLANATION = ('Theorems about the Lean cycle model for programs whose cycle members use cycle_result, for ANY entry node and ANY history of requests '
               'in a revision: a memoised fallback node holds its fallback value IFF it lies on a cycle of the input-determined call graph, '
               'otherwise its body over the results (`c13_participants`, both directions; head sets are proved complete: every active query '
               'reachable through non-active nodes is a head); nodes on no cycle get their body over those results (`c13_outside`); no iteration '
               'happens; two different request histories give every commonly memoised node the same value (`c13_entry_independent`) and that '
               'value is the executable SCC reference (`c13_reference`, Boolean reachability proved complete: `c13_onCycle_iff`). The model '
               'drops all memos at a write, so histories ACROSS revisions are covered by the oracle only. Tied to salsa by generated fallback '
               'programs x histories compared with the Lean model and with an independent SCC oracle; the known history-dependence finding '
               '(kf1, later revisions only) is reported as KNOWN-FINDING. The revision-aware model `CycleRev` is compared byte for byte with salsa on every request of every revision (it reproduces known finding kf1: `c13rev_history_dependence_witness`, `c13rev_lazy_finalisation`); `c13rev_reference_if_closed` certifies answers of all-fallback programs per run.')
ASSUMPTIONS = ['`c13_entry_independent` / `c13_reference` assume every node on a cycle is a fallback node (no `panic` member on a cycle)',
               'cross-revision reuse is not in the Lean model; known finding fb-participant-after-revalidated-head lives there (key narrowed: '
               'the requested node must lie on, or reach, a cycle under the current inputs)']

def ties(ctx):
    n = 8000 if ctx.tier == "quick" else 150000
    return [compare_cycle_rev(ctx, run_cycle(ctx, n, known_keys=KNOWN, flavours='1', corpus='C13'), 'cycle')]

def search(ctx, reason):
    t = run_cycle(ctx, 200000, known_keys=KNOWN, flavours='1', seed_offset=97, tag='search-cycle')
    for f in t.failures:
        if f.kind == 'oracle' and f.key not in KNOWN and f.key not in listed_keys():
            return f
    return None

def replay(ctx, path):
    return replay_seq(ctx, path)
