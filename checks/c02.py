"""C02 — durabilities never cause stale results; never-change fields stay frozen."""
from checks_path import *  # noqa
from seq_common import run_seq, replay_seq

PROPERTY = 'C02'
GEN = ['LogicVerify', 'LogicRuntime']
PROPS = ['SalsaVerif.Props.C02', 'SalsaVerif.Props.GenLogicVerify', 'SalsaVerif.Props.GenLogicRuntime']
EXPLANATION = ('`c02_sound`: for every well-formed program, any initial inputs and ANY list of get / set(value, keep|LOW|MEDIUM|HIGH|NEVER) / '
               'synthetic-write operations the Lean engine model returns the from-scratch value; `c02_shortcut_sound`, `c02_write_marks`, '
               '`c02_revs_antitone`, `c02_never_write_frozen` (+ results corollary). Model tied to salsa by exact value + event-sequence '
               'comparison on generated histories that draw durabilities from {keep, LOW, MEDIUM, HIGH, NEVER_CHANGE}; the oracle also checks '
               'that every write to a NEVER_CHANGE field / NEVER_CHANGE synthetic write panics and that later results are unchanged. '
               'The write-side bookkeeping itself (report_tracked_write, last_changed_revision, new_revision, set_field, synthetic_write, the input '
               'field comparison) is regenerated from the source on every run (Gen/LogicRuntime) and proved equal to `write` / `synth` / `lc` of '
               'the Core, Core3, CoreSpec and CoreAcc models (Props/GenLogicRuntime).')
ASSUMPTIONS = ['bodies are deterministic', 'multi-threading is out of scope of this property']

def ties(ctx):
    a, b = (3000, 6000) if ctx.tier == 'quick' else (30000, 200000)
    return [run_seq(ctx, 'core', a, model='core', corpus='CORE-SEQ'), run_seq(ctx, 'core3', b, seed_offset=5)]

def search(ctx, reason):
    for prof, n in (('core', 200000), ('core3', 200000)):
        t = run_seq(ctx, prof, n, seed_offset=78, tag='search-' + prof)
        for f in t.failures:
            if f.kind == 'oracle' and f.key not in listed_keys():
                return f
    return None

def replay(ctx, path):
    return replay_seq(ctx, path, model=None)
