"""Retained-reference tie of C23: runs `vh life` (real salsa; every item hands out `returns(ref)`
references, the runner RETAINS them until the next `&mut` borrow of the database and revalidates
them after every op), its built-in oracle, and the same histories under valgrind for a sample."""
import os, re
from checklib import Tie, Failure, HarnessError, sh, ROOT

KEYS = ('retained-reference-invalid', 'leak', 'double-drop')
HEADER = ('case', 'src')
VALGRIND = ['valgrind', '--error-exitcode=9', '--leak-check=full', '--errors-for-leak-kinds=definite']
FAIL_RE = r'LIFE-FAIL case=(\d+) op#(\d+) line=(\d+) `(.*?)`: key=(\S+) (.*)'


def split_cases(lines):
    cases, cur = [], None
    for i, l in enumerate(lines):
        if l.startswith('case '):
            cur = [i, i]
            cases.append(cur)
        if cur is not None and l != '':
            cur[1] = i + 1
    return cases


def run_one(binp, work, text, tag='life-shrink', valgrind=False):
    """-> (rc, output); rc 0 = no failure, 1 = the oracle reported failures, 9 = valgrind errors"""
    ops = os.path.join(work, tag + '.ops'); imp = os.path.join(work, tag + '.impl')
    with open(ops, 'w') as f:
        f.write(text)
    rc, out, _ = sh((VALGRIND if valgrind else []) + [binp, 'run', '--ops', ops, '--out', imp], timeout=600 if valgrind else 60)
    return rc, out


def shrink(case_lines, fails, budget=400):
    """greedy delta debugging over the op lines of one failing case. The header (`case`, `src`
    lines) is kept. EVERY subsequence of op lines is a valid history: the runner retains references
    only inside an epoch (a maximal run of lines between two `&mut` ops), whatever the lines are, so
    no candidate can keep a reference across a mutable borrow. Then `peek all` / `get sum` lines
    are replaced by their more specific forms where the failure survives."""
    header = [l for l in case_lines if l.split(' ')[0] in HEADER]
    ops = [l for l in case_lines if l.split(' ')[0] not in HEADER]
    if not fails(header + ops):
        return case_lines
    changed = True
    while changed and budget > 0:
        changed = False
        i = len(ops) - 1
        while i >= 0 and budget > 0:
            cand = ops[:i] + ops[i + 1:]
            budget -= 1
            if fails(header + cand):
                ops = cand
                changed = True
            i -= 1
    for i, l in enumerate(list(ops)):
        alts = []
        if l == 'peek all':
            alts = ['peek describe', 'peek payload', 'peek plain']
        elif l.startswith('get sum '):
            alts = ['get %s %s' % (w, l.split(' ')[2]) for w in ('build', 'payload', 'describe', 'lru', 'name', 'fix')]
        for a in alts:
            if budget <= 0:
                break
            budget -= 1
            cand = ops[:i] + [a] + ops[i + 1:]
            if fails(header + cand):
                ops = cand
                break
    # unused trailing `src` lines
    while len([l for l in header if l.startswith('src ')]) > 1 and budget > 0:
        budget -= 1
        if fails(header[:-1] + ops):
            header = header[:-1]
        else:
            break
    return header + ops


def first_bad_case(lines, cs, bad):
    """smallest k such that the file made of cases[0..k] is `bad` (cases are independent: each has
    its own database and the logs are reset); returns the lines of case k"""
    lo, hi = 0, len(cs) - 1          # invariant: prefix ..hi is bad
    while lo < hi:
        mid = (lo + hi) // 2
        if bad('\n'.join(lines[cs[0][0]:cs[mid][1]]) + '\n'):
            hi = mid
        else:
            lo = mid + 1
    a, b = cs[lo]
    return lo, [l for l in lines[a:b] if l != '']


def n_ops(case_lines):
    return len([l for l in case_lines if l.split(' ')[0] not in HEADER])


def gen(binp, path, seed, cases):
    rc, out, _ = sh([binp, 'gen', '--seed', str(seed), '--cases', str(cases), '--out', path])
    m = re.search(r'GEN cases=(\d+) distinct=(\d+) .*', out)
    if rc != 0 or not m:
        raise HarnessError('life gen failed: ' + out[-500:])
    return int(m.group(2)), m.group(0)


def run_life(ctx, cases, seed_offset=23, valgrind_cases=None, binp=None):
    """returns a Tie. `binp` overrides the binary (used by sensitivity experiments on a scratch build)."""
    t = Tie('life-retained-refs')
    t.rule = ('generated histories (`vh life gen`, SplitMix64 from VERIF_SEED) over returns(ref) tracked functions, tracked/untracked '
              'struct fields, a memo stored on a tracked struct, an lru function, an interned field and a fixpoint pair; every returned '
              'reference is retained until the next `&mut` op and revalidated after every op against a Drop log (no dereference of a '
              'dropped value) and by re-reading it; `peek` reaches structs of the previous revision through the ingredient entries; '
              'distinct = distinct histories; non-trivial = a reference was retained while salsa executed a function, discarded a '
              'struct/memo, iterated a cycle or reused an interned slot in the case')
    binp = binp or ctx.cargo_bin('life')
    ops = os.path.join(ctx.work, 'life.ops'); imp = os.path.join(ctx.work, 'life.impl')
    distinct, genline = gen(binp, ops, ctx.seed + seed_offset, cases)
    t.info['gen'] = genline[:1200]
    # corpus (hand-written regressions / minimised past failures) runs first
    cdir = os.path.join(ROOT, 'corpus', 'C23')
    extra = ''
    if os.path.isdir(cdir):
        for fn in sorted(os.listdir(cdir)):
            if fn.endswith('.life.ops'):
                extra += open(os.path.join(cdir, fn)).read()
    if extra:
        body = open(ops).read()
        with open(ops, 'w') as f:
            f.write(extra + body)
    with open(ops) as f:
        lines = f.read().split('\n')
    cs = split_cases(lines)
    rc, out, dt = sh([binp, 'run', '--ops', ops, '--out', imp], timeout=1800)
    t.info['run_seconds'] = round(dt, 2)
    if rc not in (0, 1):
        # the process died (e.g. a segmentation fault): find the case
        k, case_lines = first_bad_case(lines, cs, lambda text: run_one(binp, ctx.work, text, 'life-crash')[0] not in (0, 1))
        small = shrink(case_lines, lambda ls: run_one(binp, ctx.work, '\n'.join(ls) + '\n')[0] not in (0, 1), budget=200)
        rp = ctx.save_replay('life-crash-case%d.life.ops' % k, '\n'.join(small) + '\n')
        t.failures.append(Failure('oracle', 'life: the process running the history died (rc=%d) in case %d (minimised to %d ops): %s'
                                  % (rc, k, n_ops(small), out[-200:].replace('\n', ' ')), replay=rp, key='crash'))
        return t
    m = re.search(r'LIFE-SUMMARY cases=(\d+) ops=(\d+) retained=(\d+) revalidations=(\d+) stale_peeks=(\d+) failures=(\d+) nontrivial_cases=(\d+).*', out)
    if not m:
        raise HarnessError('life run gave no summary (rc=%d): %s' % (rc, out[-800:]))
    t.evaluations = int(m.group(1))
    t.distinct_nontrivial = min(int(m.group(7)), distinct + (t.evaluations - cases))
    t.info['summary'] = m.group(0)[:1500]
    t.info['revalidations'] = int(m.group(4))
    if int(m.group(3)) == 0 or int(m.group(4)) == 0:
        raise HarnessError('life run retained no reference at all: ' + m.group(0)[:300])
    seen = {}
    for cno, opno, line, op, key, msg in re.findall(FAIL_RE, out):
        seen[key] = seen.get(key, 0) + 1
        if seen[key] > 1:
            continue
        a, b = cs[int(cno)]
        case_lines = [l for l in lines[a:b] if l != '']
        def fails(ls, key=key):
            r, o = run_one(binp, ctx.work, '\n'.join(ls) + '\n')
            return r == 1 and ('key=' + key) in o
        small = shrink(case_lines, fails)
        _, o = run_one(binp, ctx.work, '\n'.join(small) + '\n')
        why = (re.findall(FAIL_RE, o) or [('', '', '', op, key, msg)])[0]
        rp = ctx.save_replay('life-%s-case%s.life.ops' % (key, cno), '\n'.join(small) + '\n')
        t.failures.append(Failure('oracle', 'life: %s at op `%s`: %s (minimised to %d ops; %d such failures)'
                                  % (key, why[3], why[5][:260], n_ops(small), 0), replay=rp, key=key))
    for f in t.failures:
        f.summary = f.summary.replace('; 0 such failures)', '; %d such failures in %d cases)' % (seen.get(f.key, 0), t.evaluations))
    t.info['failure_keys'] = seen
    run_life_valgrind(ctx, t, binp, valgrind_cases if valgrind_cases is not None else (60 if ctx.tier == 'quick' else 1500))
    for c in cs[:2]:
        t.samples.append({'case': lines[c[0]:min(c[1], c[0] + 16)]})
    return t


def run_life_valgrind(ctx, t, binp, cases):
    """the same kind of histories under memcheck: catches what no Drop log can see (salsa itself
    reading freed memory, frees without Drop, out-of-bounds, definite leaks)"""
    if cases <= 0:
        return
    ops = os.path.join(ctx.work, 'life-vg.ops')
    gen(binp, ops, ctx.seed + 29, cases)
    rc, out, dt = sh(VALGRIND + [binp, 'run', '--ops', ops, '--out', os.path.join(ctx.work, 'life-vg.impl')], timeout=3000)
    t.info['valgrind'] = '%d cases: %s (%.0fs)' % (cases, (re.findall(r'ERROR SUMMARY: .*', out) or ['?'])[-1], dt)
    t.samples.append({'cmd': ' '.join(VALGRIND) + ' life run --ops life-vg.ops'})
    if rc in (0, 1):       # 1: oracle failures, already reported by the plain run on its own histories
        return
    errs = re.findall(r'==\d+== (Invalid .*|.*definitely lost: [1-9].*|Mismatched .*|.*uninitialised.*|Process terminating.*)', out)
    with open(ops) as f:
        lines = f.read().split('\n')
    cs = split_cases(lines)
    bad = lambda text: run_one(binp, ctx.work, text, 'life-vg-shrink', valgrind=True)[0] not in (0, 1)
    k, case_lines = first_bad_case(lines, cs, bad)
    small = shrink(case_lines, lambda ls: bad('\n'.join(ls) + '\n'), budget=120)
    rp = ctx.save_replay('life-valgrind-case%d.life.ops' % k, '\n'.join(small) + '\n')
    t.failures.append(Failure('oracle', 'life: valgrind reports memory errors on a retained-reference history (case %d, minimised to %d ops): %s'
                              % (k, n_ops(small), '; '.join(sorted(set(errs))[:4]) or out[-300:]), replay=rp, key='valgrind'))


def replay_life(ctx, path, binp=None):
    binp = binp or ctx.cargo_bin('life')
    imp = os.path.join(ctx.work, 'replay.impl')
    rc, out, _ = sh([binp, 'run', '--ops', path, '--out', imp])
    with open(path) as f, open(imp) as g:
        for a, b in zip(f.read().split('\n'), g.read().split('\n')):
            if a:
                print('%-28s => %s' % (a[:60], b[:200]))
    print(out)
    vrc, vout, _ = sh(VALGRIND + [binp, 'run', '--ops', path, '--out', imp], timeout=1200)
    print('valgrind: rc=%d %s' % (vrc, (re.findall(r'ERROR SUMMARY: .*', vout) or ['?'])[-1]))
    for l in sorted(set(re.findall(r'==\d+== (Invalid .*|.*definitely lost: [1-9].*|Mismatched .*)', vout)))[:6]:
        print('valgrind: ' + l)
    return 1 if (rc != 0 or vrc not in (0,)) else 0
