"""C09 — interned values are reclaimed only when stale and reclaimable."""
from checks_path import *  # noqa
from store_common import replay_store, run_store, run_store_nat
from seq_common import run_seq

PROPERTY = 'C09'
GEN = ['LogicIntern']
PROPS = ['SalsaVerif.Props.C09', 'SalsaVerif.Props.GenLogicIntern']
EXPLANATION = ('Theorems about the Lean model of the interner (RevisionQueue exactly as coded, one shard with its LRU list, hit / miss / '
               'reuse scan, durability maximum, staleness): the queue holds the n most recent distinct revisions; reuse only of LOW-durability, '
               'stale values of a collectable type once the queue is primed; immortal otherwise. For every history of intern / validate / '
               'revision steps. The model is tied to salsa by driving the real RevisionQueue (hook) and a constant-hash interned type '
               '(revisions = 1, 2, 3, usize::MAX; durabilities LOW..NEVER; bursts of revisions) and comparing every answer '
               '(new / hit / reuse, id ordinal, generation).')
ASSUMPTIONS = ['single shard (constant hash) in the exact comparison; multi-shard behaviour rests on the sharding argument of C08',
               'interning happens from freshly keyed queries so that every intern op really calls the interner']

def ties(ctx):
    n = 1500 if ctx.tier == 'quick' else 60000
    return [run_store(ctx, 'rq', n), run_store(ctx, 'intern', n), run_store_nat(ctx, 6 if ctx.tier == 'quick' else 300)]

def search(ctx, reason):
    t = run_seq(ctx, 'full', 100000, seed_offset=90, tag='search-full')
    for f in t.failures:
        if f.kind == 'oracle' and f.key not in listed_keys():
            return f
    return None

def replay(ctx, path):
    if '/store-' in path or path.endswith('.store.ops'):
        return replay_store(ctx, path)
    from seq_common import replay_seq
    return replay_seq(ctx, path)
