"""C20 — writes exclude and cancel concurrent readers; results never mix revisions."""
from checks_path import *  # noqa
from conc_common import run_conc, replay_conc

PROPERTY = 'C20'
GEN = ['LogicCycle']
PROPS = ['SalsaVerif.Props.C20', 'SalsaVerif.Props.GenLogicProvisional']
EXPLANATION = ('Theorems about the Lean writer/reader machine (clones counter, cancellation flag, cancellation count, revision; order of '
               'operations as in cancel_others): the writer proceeds only with clones = 1 and clones = live handles; with the flag set '
               'every reader fetch step unwinds with PendingWrite; under an explicit fairness hypothesis the writer\'s wait terminates; the '
               'epoch (revision, cancellation count) strictly increases across every cancel_others, so a provisional memo of an abandoned '
               'epoch is never usable. Tied to salsa by real-thread runs (readers on generated acyclic and cyclic programs + a writer doing '
               'input writes / synthetic writes / LRU capacity changes) whose flag/clones/count trace is replayed through the Lean driver, '
               'with the sequential oracle checking every reader result against the revision it ran in and every post-write result.')
ASSUMPTIONS = ['condvar and Arc::get_mut are trusted; fairness is a hypothesis of c20_writer_progress',
               'schedules are sampled (real threads): shuttle cannot run a caught PendingWrite unwind past a salsa lock (DESIGN §2.5a)',
               'c20_no_mix needs the engine soundness theorem (C01) and is listed as not yet proved']

def ties(ctx):
    n = 400 if ctx.tier == 'quick' else 10000
    return [run_conc(ctx, 'c20', 'threads', n, drivers=('cancel',))]

def search(ctx, reason):
    t = run_conc(ctx, 'c20', 'threads', 6000, seed_offset=52)
    for f in t.failures:
        if f.kind == 'oracle' and f.key not in listed_keys():
            return f
    return None

def replay(ctx, path):
    return replay_conc(ctx, 'c20', 'threads', path)
