"""C25 — stored dependency edges round-trip exactly."""
from checks_path import *  # noqa
from edges_common import run_edges, replay_edges

PROPERTY = 'C25'
GEN = ['Edge']
PROPS = ['SalsaVerif.Props.C25']
EXPLANATION = ('Theorems over all edge lists / all 32-bit field values about the generated encoders (Gen/Edge.lean, '
               'translated from src/zalsa_local.rs, src/zalsa.rs, src/id.rs, src/key.rs on every run) and the hand model of '
               'OriginAndExtra; the hand model is tied to the implementation by running the real encoders through the '
               'salsa_verif hooks on boundary-class edge lists and comparing line by line with the Lean driver.')
ASSUMPTIONS = ['raw allocation / pointer layout of SliceWithHeader is not modelled (only the builder discipline)',
               'serde_json is trusted for the persisted form']

def ties(ctx):
    return [run_edges(ctx, set('DAJPUTG'), with_persist=True)]

def search(ctx, reason):
    # the oracle inside `run_edges` already evaluates the property equations on every generated
    # line; a deeper search re-runs it with the thorough generator
    old = ctx.tier
    ctx.tier = 'thorough'
    try:
        t = run_edges(ctx, set('DAJPUTG'), with_persist=True)
    finally:
        ctx.tier = old
    for f in t.failures:
        if f.kind == 'oracle' and f.key not in listed_keys():
            return f
    return None

def replay(ctx, path):
    return replay_edges(ctx, path)
