"""C22 — panics in user code leave the database consistent and unblocked."""
from checks_path import *  # noqa
from seq_common import run_seq, replay_seq
from conc_common import run_conc
import re
from checklib import Tie, Failure, HarnessError, sh

PROPERTY = 'C22'
PROPS = ['SalsaVerif.Props.C22Core', 'SalsaVerif.Props.C14Sync']
EXPLANATION = ('Theorems about the Lean engine model with an injected panic at the n-th user read of a body (`CoreP`): the engine invariant '
               'holds after a panic at ANY position and after any history with earlier panics (`c22_inv`), the interrupted key gets no new '
               'memo and nothing of lower rank, no input and no revision counter is disturbed (`c22_no_result`), every later request that '
               'completes returns the from-scratch value and a request without injection always completes (`c22_then_correct`); waiting '
               'threads: on a panicking release every dependent gets exactly `Panicked` and no edge (`c14_waiters_released`, sync model). '
               'Tied to salsa by SYSTEMATIC injection: for small generated cases, every request position x {tracked-function body, event '
               'callback, tracked-field PartialEq} x k = 1..6 ("the k-th such user call of that op panics") is run on real salsa and every '
               'later request is compared with the reference interpreter; plus a two-thread variant (a waiter on the panicking query gets '
               'Cancelled::PropagatedPanic, later results = oracle).')
ASSUMPTIONS = ['theorem covers bodies of the Core fragment; panics in PartialEq / event callback / interning hash are covered by the systematic injection run, not by a theorem',
               'user Hash panics during interner key-map growth are not injected (see DESIGN: C22 #3)', 'panic = abort builds are out of scope']

def run_abort_after_identity_change(ctx):
    """directed history of the struct harness (`vh structs demo-unwind`): a creator re-creates its struct under a COLLIDING
    identity hash with a changed identity field (slot updated in place, generation bumped), a later sub-query of the same execution
    panics, the request is retried in the same revision; the reader of the identity field must return the from-scratch value."""
    t = Tie('structs-abort-after-identity-change')
    t.rule = 'one directed 5-op history on real salsa (constant identity hash, panic injected into a sub-query after the identity-changed update)'
    binp = ctx.cargo_bin('structs')
    rc, out, _ = sh([binp, 'demo-unwind'], timeout=120)
    res = re.findall(r'note t0 result reader 0 = (\d+)', out)
    if rc != 0 or len(res) < 2:
        raise HarnessError('structs demo-unwind gave no results: ' + out[-400:])
    t.evaluations = 1
    t.distinct_nontrivial = 1
    t.samples.append({'trace': [l for l in out.split('\n') if l][:14]})
    if res[-1] != '1':
        rp = ctx.save_replay('structs-demo-unwind.txt', out)
        t.failures.append(Failure('oracle', 'after a panic that aborted an execution which had re-created a struct under a colliding identity hash, '
                                            'the retried request returns %s (from scratch: 1)' % res[-1], replay=rp,
                                  key='abort-after-identity-change-stale-generation'))
    return t

def ties(ctx):
    n = 30 if ctx.tier == 'quick' else 600
    m = 200 if ctx.tier == 'quick' else 5000
    return [run_seq(ctx, 'inject', n, corpus='C22'), run_conc(ctx, 'c22', 'threads', m), run_abort_after_identity_change(ctx)]

def search(ctx, reason):
    t = run_seq(ctx, 'inject', 600, seed_offset=96, tag='search-inject')
    for f in t.failures:
        if f.kind == 'oracle' and f.key not in listed_keys():
            return f
    return None

def replay(ctx, path):
    return replay_seq(ctx, path)
