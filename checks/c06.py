"""C06 — tracked struct identities survive re-execution; dropped structs are discarded."""
from checks_path import *  # noqa
from seq_common import run_seq, replay_seq

PROPERTY = 'C06'
PROPS = ['SalsaVerif.Props.C06']
EXPLANATION = ('Theorems about the Lean model of the tracked-struct table (identity map seeded from the previous execution, disambiguators '
               'per identity hash, slots with generation / updated_at / memos, FIFO free list, update, delete): the k-th creation of an '
               'identity gets the same (slot, generation) as in the previous execution absent hash collisions, memos are kept in that case, '
               'live handles are pairwise distinct with Live ∩ Free = ∅, a struct that is no longer created ends on the free list with no '
               'memos, disambiguators count 0,1,2,… per hash — for every reachable world. Tied to salsa by generated programs that create '
               '0..k structs with colliding identities conditionally: the oracle compares every result with the reference interpreter and a '
               'monitor checks that a struct recreated with the same identity keeps its salsa Id (observed through the returned handle) '
               'unless the creator dropped it in between.')
ASSUMPTIONS = ['the struct model has no line-protocol driver yet: its tie to the code is the id-stability monitor and the value oracle, not a step-by-step replay',
               'identity hash is an uninterpreted function in the model (collisions allowed)']

def ties(ctx):
    n = 2500 if ctx.tier == 'quick' else 200000
    return [run_seq(ctx, 'full', n, seed_offset=6, corpus='C06'), run_seq(ctx, 'spec', n, seed_offset=7)]

def search(ctx, reason):
    t = run_seq(ctx, 'full', 300000, seed_offset=93, tag='search-full')
    for f in t.failures:
        if f.kind == 'oracle' and f.key not in listed_keys():
            return f
    return None

def replay(ctx, path):
    return replay_seq(ctx, path)
