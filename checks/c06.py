"""C06 — tracked struct identities survive re-execution; dropped structs are discarded."""
from checks_path import *  # noqa
from seq_common import run_seq, replay_seq
from structs_common import run_structs, replay_structs, replay_structs_oracle

PROPERTY = 'C06'
GEN = ['LogicStructs']
PROPS = ['SalsaVerif.Props.C06', 'SalsaVerif.Props.GenLogicStructs']
EXPLANATION = ('Theorems about the Lean model of the tracked-struct table (identity map seeded from the previous execution, disambiguators '
               'per identity hash, slots with generation / updated_at / memos, FIFO free list, update, delete): the k-th creation of an '
               'identity gets the same (slot, generation) as in the previous execution absent hash collisions, memos are kept in that case, '
               'live handles are pairwise distinct with Live ∩ Free = ∅, a struct that is no longer created ends on the free list with no '
               'memos, disambiguators count 0,1,2,… per hash — for every reachable world. Tied to salsa (1) step by step: `vh structs` runs '
               'struct-heavy histories (colliding identity hashes, identity changes, re-creation after deletion, nested creators, lru '
               'creators, injected panics, generations aged to the u32 limit, leaked handles) on real salsa with the `ts` hook class of '
               'src/tracked_struct.rs / active_query.rs / diff_outputs.rs switched on, and `svdriver structs` replays every trace line through '
               'the model\'s own functions (newIdentity, IdentityMap.reuse / drain, update, allocate, newStruct / step, deleteEntity, '
               'readField), comparing disambiguator, idmap hit, update outcome, returned id and generation, tracked-field revisions, '
               'durability, lock word, fresh slot vs FIFO free-list pop, stale list, every delete and free-list push, and evaluating the '
               'invariant WInv of the theorems (Bool form proved equivalent in Proofs/StructsInv.lean) after every line; the same histories are '
               'judged on their REAL results by a property oracle independent of the hooks (ids of one execution pairwise distinct and never '
               'handed out for another struct, fields read back = values passed to `new`, reader / creator results = reference interpreter, '
               'struct-keyed memo = reference, same identity in the same order keeps its id), failures shrunk to a replayable history; (2) by generated '
               'seq programs whose results the oracle compares with the reference interpreter, with a monitor that a struct recreated with '
               'the same identity keeps its salsa Id unless the creator dropped it in between.')
ASSUMPTIONS = ['identity hash is an uninterpreted function in the model (collisions allowed); the driver feeds the traced hash and checks that it is a function of the identity value',
               'field values are not visible to the hooks: the struct harness announces them in `note` lines (a harness that lied would be caught only through the revision / identity-change outcomes)',
               'hash-table iteration order of the active list is an input to the model (checked to be a permutation)',
               'outside the model, cut short and counted (info.cases_cut_short_as_unmodelled): fixpoint iterations (seed_iteration), an unwind that starts inside clear_memos of an identity-changed update, and an execution aborted by a panic after it already replaced an id by its next generation (the creator\'s memo then keeps the old generation: an observable stale value, reproducer `vh structs demo-unwind`, DESIGN.md B.8)',
               'the delete cascade through memos stored in a deleted struct is replayed in its real nested order with deleteEntity per id (the World op `discard` of the theorems is the sequential approximation)']

def ties(ctx):
    n = 2500 if ctx.tier == 'quick' else 200000
    k = 1500 if ctx.tier == 'quick' else 100000
    return [run_structs(ctx, k, seed_offset=61), run_seq(ctx, 'full', n, seed_offset=6, corpus='C06', structs_trace=True), run_seq(ctx, 'spec', n, seed_offset=7, structs_trace=True)]

def search(ctx, reason):
    t = run_seq(ctx, 'full', 300000, seed_offset=93, tag='search-full')
    for f in t.failures:
        if f.kind == 'oracle' and f.key not in listed_keys():
            return f
    return None

def replay(ctx, path):
    if open(path).readline().startswith('structs-oracle'):
        return replay_structs_oracle(ctx, path)
    if path.endswith('.trace') or open(path).readline().startswith('reset'):
        return replay_structs(ctx, path)
    return replay_seq(ctx, path)
