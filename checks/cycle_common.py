"""Cyclic programs: `vh seq --profile cycle` on real salsa, the reference (Kleene lfp / fallback by SCC /
must-panic analysis) as oracle, and the Lean Cycle model (`svdriver cycle`) on a translation of the
same cases (values and panic classes only; the model drops all memos at a write, so it is the
from-scratch semantics of salsa's iteration scheme)."""
import os, re
from checklib import Tie, Failure, HarnessError, sh
from seq_common import run_seq, split_cases

def translate_expr(toks, pos):
    """seq prefix expr -> cycle-driver prefix expr; returns (tokens, newpos) or (None, pos) if unsupported"""
    t = toks[pos]; pos += 1
    if t in ('U', 'N'):
        a, pos = translate_expr(toks, pos)
        b, pos = translate_expr(toks, pos)
        if a is None or b is None:
            return None, pos
        return [('U' if t == 'U' else 'I')] + a + b, pos
    if t == '?':
        c = toks[pos]
        if not re.fullmatch(r'i\d+', c):
            # value-controlled gate `? <cond> <e> c0` (condition is not a plain input read): the
            # cycle driver parses the same form
            ce, pos = translate_expr(toks, pos)
            a, pos = translate_expr(toks, pos)
            b, pos = translate_expr(toks, pos)
            if ce is None or a is None or b != ['c0']:
                return None, pos
            return ['?'] + ce + a + ['c0'], pos
        pos += 1
        a, pos = translate_expr(toks, pos)
        b, pos = translate_expr(toks, pos)
        if a is None or b is None:
            return None, pos
        return ['?%d' % (8 + int(c[1:]))] + a + b, pos
    if re.fullmatch(r'c\d+', t) or re.fullmatch(r'i\d+', t):
        return [t], pos
    if re.fullmatch(r'q\d+', t):
        return ['n' + t[1:]], pos
    if t in ('+', '&', '|'):
        a, pos = translate_expr(toks, pos)
        b, pos = translate_expr(toks, pos)
        return None, pos
    return None, pos

def translate_case(lines):
    """returns (model op lines, map model-line -> original line index) or None if not expressible"""
    out, idx = [], []
    vals = {}
    kinds = [l.split(' ')[2] for l in lines if l.startswith('q ')]
    # a no-recovery function on a cycle that also contains recovering functions panics or not
    # depending on what is already memoised: only the first request of such a case is comparable
    mixed = 'nocyc' in kinds and any(k in ('fix', 'fixjoin', 'fb') for k in kinds)
    seen_get = False
    for li, l in enumerate(lines):
        if mixed and seen_get:
            break
        p = l.split(' ')
        if p[0] == 'prog':
            if int(p[2]) > 7:
                return None
            out.append('prog %s' % p[1]); idx.append(li)
        elif p[0] == 'q':
            kind = {'fix': 'fix', 'fixjoin': 'fixjoin', 'nocyc': 'panic', 'plain': 'panic'}.get(p[2])
            if p[2] == 'fb':
                kind = 'fb:%d' % (200 + int(p[1]))
            if kind is None:
                return None
            e, pos = translate_expr(p[3:], 0)
            if e is None or pos != len(p) - 3:
                return None
            out.append('node %s %s %s' % (p[1], kind, ' '.join(e))); idx.append(li)
        elif p[0] == 'input':
            out.append('input %s %s' % (p[1], p[2])); idx.append(None)
            out.append('input %d %d' % (8 + int(p[1]), int(p[2]) & 1)); idx.append(li)
        elif p[0] == 'set':
            out.append('input %s %s' % (p[1], p[2])); idx.append(None)
            out.append('input %d %d' % (8 + int(p[1]), int(p[2]) & 1)); idx.append(li)
        elif p[0] == 'synth':
            out.append('input 7 0'); idx.append(li)
        elif p[0] == 'get':
            out.append('get %s' % p[1]); idx.append(li)
            seen_get = True
        elif p[0] == 'b':
            return None
        else:
            return None
    return out, idx

def norm_impl(s):
    main = s.split(' ev=')[0]
    if main.startswith('v='):
        return main[2:]
    if main.startswith('panic:cancelled'):
        return 'panic:cancelled'
    return main

def norm_model(s):
    if s.startswith('panic:cancelled'):
        return 'panic:cancelled'
    return s

def run_cycle(ctx, cases, known_keys=(), seed_offset=0, corpus=None, tag='cycle', flavours=None):
    t = run_seq(ctx, 'cycle', cases, seed_offset=seed_offset, corpus=corpus, tag=tag,
                gen_extra=(['--flavours', flavours] if flavours else []))
    ops = os.path.join(ctx.work, 'seq-%s.ops' % tag); imp = os.path.join(ctx.work, 'seq-%s.impl' % tag)
    with open(ops) as f:
        lines = f.read().split('\n')
    with open(imp) as f:
        ilines = f.read().split('\n')
    excused = set()
    fc = imp + '.failcases'
    if os.path.exists(fc):
        for l in open(fc):
            c, k = l.split()
            if k.replace('key=', '') in known_keys:
                excused.add(int(c))
    cs = split_cases(lines)
    mops, back = [], []
    translated = 0
    for ci, (a, b) in enumerate(cs):
        if ci in excused:
            continue
        tr = translate_case([l for l in lines[a:b] if l != ''])
        if tr is None:
            continue
        translated += 1
        o, idx = tr
        for ol, il in zip(o, idx):
            mops.append(ol); back.append(None if il is None else a + il)
    mfile = os.path.join(ctx.work, 'cycle-%s.mops' % tag); mout = os.path.join(ctx.work, 'cycle-%s.model' % tag)
    with open(mfile, 'w') as f:
        f.write('\n'.join(mops) + '\n')
    ctx.run_driver('cycle', mfile, mout)
    with open(mout) as f:
        mlines = f.read().split('\n')
    bad = []
    compared = 0
    for k, ol in enumerate(mops):
        if not ol.startswith('get') or back[k] is None:
            continue
        compared += 1
        a, b = norm_impl(ilines[back[k]]), norm_model(mlines[k])
        if a != b:
            # a poisoned revision may answer with a propagated panic where the model has the original class
            if a == 'panic:cancelled' and b.startswith('panic:'):
                continue
            bad.append((back[k], lines[back[k]], a, b))
    t.info['cycle_model_cases_translated'] = translated
    t.info['cycle_model_gets_compared'] = compared
    t.info['cases_excused_by_known_findings'] = len(excused)
    t.traces_validated += translated
    for (ln, op, a, b) in bad[:2]:
        ci = next((c for c in cs if c[0] <= ln < c[1]), None)
        rp = ctx.save_replay('cycle-model-line%d.ops' % (ln + 1), '\n'.join(lines[ci[0]:ci[1]]) + '\n')
        t.failures.append(Failure('model', 'cycle line %d `%s`: impl `%s` vs Lean cycle model `%s` (%d mismatching gets)' % (ln + 1, op, a, b, len(bad)), replay=rp))
    return t


# ---------------------------------------------------------------------------------------------
# revision-aware cycle model (`svdriver cyclerev`, Model/CycleRev.lean): reads the seq op file
# UNCHANGED and answers in the format of `seq run`; compared on ALL requests of ALL revisions
# (values / panic classes, X/V event multisets, exact event sequences).  The model reproduces
# the recorded findings kf1 / kf2, so no case is excused here; the oracle is untouched.
# Corpus of the driver itself: corpus/CYCLEREV/*.ops + *.expected (`svdriver cyclerev`).

def _split_ev(s):
    p = s.split(' ev=')
    return p[0], (p[1] if len(p) > 1 else '')

def compare_cycle_rev(ctx, t, tag, events='exact'):
    """adds the salsa <-> `svdriver cyclerev-cert` comparison of work/seq-<tag>.{ops,impl} to Tie `t`.
    events: 'exact' (event sequence per request), 'multiset' (X/V multiset per request) or 'none'.
    The driver also prints the closed-table certificate `certB` of every value answer; by
    Props/C12Rev.c12rev_exact_if_closed a certified answer of the FIRST revision of a case without
    `fb` nodes and without `+` is the least fixpoint, by Props/C13Rev.c13rev_reference_if_closed a
    certified answer of ANY revision of an all-`fb` case is the fallback reference."""
    ops = os.path.join(ctx.work, 'seq-%s.ops' % tag); imp = os.path.join(ctx.work, 'seq-%s.impl' % tag)
    mout = os.path.join(ctx.work, 'cyclerev-%s.model' % tag)
    ctx.run_driver('cyclerev-cert', ops, mout, timeout=3600)
    with open(ops) as f:
        lines = f.read().split('\n')
    with open(imp) as f:
        ilines = f.read().split('\n')
    with open(mout) as f:
        mlines = f.read().split('\n')
    cs = split_cases(lines)
    n_cases = n_unsup = n_gets = 0
    bad = {'value': [], 'xv-multiset': [], 'event-sequence': [], 'uncertified-first-revision': []}
    cert = {'first_revision_value_answers': 0, 'first_revision_certified': 0,
            'later_revision_value_answers': 0, 'later_revision_certified': 0,
            'all_fb_value_answers': 0, 'all_fb_certified_is_fbReference': 0}
    for (a, b) in cs:
        n_cases += 1
        if any(mlines[i] == 'unsupported' for i in range(a, b)):
            n_unsup += 1
            continue
        kinds = [l.split(' ')[2] for l in lines[a:b] if l.startswith('q ')]
        plus = any(l.startswith('q ') and '+' in l.split(' ')[3:] for l in lines[a:b])
        # value-controlled gate: `? <cond> e c0` whose condition is not an input token
        def gated(l):
            t = l.split(' ')[3:]
            return any(x == '?' and k + 1 < len(t) and not re.fullmatch(r'i\d+', t[k + 1]) for k, x in enumerate(t))
        plus = plus or any(l.startswith('q ') and gated(l) for l in lines[a:b])
        # c12rev_exact_if_closed applies (program in the language of Model/Cycle.lean: no `+`, no gate)
        lfp_class = 'fb' not in kinds and not plus
        fb_class = kinds and all(k == 'fb' for k in kinds)  # c13rev_reference_if_closed applies
        first = True
        for i in range(a, b):
            w = lines[i].split(' ')[0]
            if w in ('set', 'synth'):
                first = False
            if w != 'get':
                continue
            n_gets += 1
            ml = mlines[i]
            certified = ml.endswith(' cert=1')
            if ml.endswith(' cert=1') or ml.endswith(' cert=0'):
                ml = ml[:-7]
            iv, ie = _split_ev(ilines[i]); mv, me = _split_ev(ml)
            if iv != mv:
                bad['value'].append(i)
            elif events != 'none' and sorted(e for e in ie.split(',') if e[:1] in 'XV') != sorted(e for e in me.split(',') if e[:1] in 'XV'):
                bad['xv-multiset'].append(i)
            elif events == 'exact' and ie != me:
                bad['event-sequence'].append(i)
            if mv.startswith('v='):
                if lfp_class:
                    k = 'first_revision' if first else 'later_revision'
                    cert[k + '_value_answers'] += 1
                    cert[k + '_certified'] += certified
                    if first and not certified:
                        bad['uncertified-first-revision'].append(i)
                if fb_class:
                    cert['all_fb_value_answers'] += 1
                    cert['all_fb_certified_is_fbReference'] += certified
    t.info['cyclerev_cases'] = n_cases
    t.info['cyclerev_cases_outside_model'] = n_unsup
    t.info['cyclerev_gets_compared'] = n_gets
    t.info['cyclerev_events'] = events
    t.info['cyclerev_certificates'] = cert
    for k, v in bad.items():
        t.info['cyclerev_%s' % k.replace('-', '_')] = len(v)
    t.traces_validated += n_cases - n_unsup
    for k, v in bad.items():
        for ln in v[:2]:
            ci = next((c for c in cs if c[0] <= ln < c[1]), None)
            rp = ctx.save_replay('cyclerev-%s-line%d.ops' % (k, ln + 1), '\n'.join(lines[ci[0]:ci[1]]) + '\n')
            t.failures.append(Failure('model', 'cyclerev %s, line %d `%s`: impl `%s` vs Lean CycleRev model `%s` (%d such requests)'
                                      % (k, ln + 1, lines[ln], ilines[ln][:160], mlines[ln][:160], len(v)), replay=rp))
    return t

def run_cycle_rev(ctx, cases, flavours=None, seed_offset=0, corpus=None, tag='cyclerev', events='exact'):
    """`vh seq --profile cycle` on real salsa (+ the property oracle, as in run_cycle) and the Lean
    CycleRev model on the same op file; every request of every revision is compared."""
    t = run_seq(ctx, 'cycle', cases, seed_offset=seed_offset, corpus=corpus, tag=tag,
                gen_extra=(['--flavours', flavours] if flavours else []))
    return compare_cycle_rev(ctx, t, tag, events=events)
