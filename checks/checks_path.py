import os, sys
sys.path.insert(0, os.path.dirname(os.path.abspath(__file__)))
sys.path.insert(0, os.path.dirname(os.path.dirname(os.path.abspath(__file__))))
