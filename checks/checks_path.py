import os, sys
sys.path.insert(0, os.path.dirname(os.path.abspath(__file__)))
sys.path.insert(0, os.path.dirname(os.path.dirname(os.path.abspath(__file__))))

def listed_keys():
    """oracle keys of every finding listed in known_findings.txt (any property): a search for a NEW
    failing input skips these — each is reported by its own property's check."""
    import checklib
    return {k['key'] for k in checklib.known_findings()}
