"""C01 — incremental results always equal a from-scratch evaluation."""
from checks_path import *  # noqa
from seq_common import run_seq, replay_seq

PROPERTY = 'C01'
GEN = ['LogicVerify', 'LogicRuntime']
PROPS = ['SalsaVerif.Props.C01', 'SalsaVerif.Props.C01Core3', 'SalsaVerif.Props.GenLogicVerify', 'SalsaVerif.Props.GenLogicRuntime']
EXPLANATION = ('Soundness theorem of the Lean engine model `Core` (written function-by-function after fetch / maybe_changed_after / '
               'execute / backdate): for every well-formed program and EVERY history of writes, synthetic writes and requests, each '
               'request returns the from-scratch semantics. Proved for the fragment named in the theorem (`c01_run_sound_partial`: plain '
               'functions with dynamic dependencies over durable inputs); the model is tied to salsa by exact comparison of values AND '
               'WillExecute/DidValidateMemoizedValue event sequences on generated programs x histories. Tracked structs, interning, '
               'specify, no_eq, lru, untracked reads, accumulators, multi-argument keys are covered by the independent reference '
               'interpreter (oracle) on the `full` profile, not by the theorem.')
ASSUMPTIONS = ['determinism of tracked function bodies (programs of the generated language are deterministic by construction)',
               'theorem covers the Core fragment; the remaining constructs of C01 rest on the oracle comparison (labelled partial)']

def budget(ctx):
    return (4000, 10000) if ctx.tier == 'quick' else (20000, 200000)

def ties(ctx):
    a, b = budget(ctx)
    return [run_seq(ctx, 'core', a, model='core', corpus='CORE-SEQ'),
            run_seq(ctx, 'core3', b, seed_offset=1, model='core3'),
            run_seq(ctx, 'full', b, seed_offset=2, corpus='C10'),
            run_seq(ctx, 'spec', b, seed_offset=3, model='corespec', corpus='CORESPEC'),
            run_seq(ctx, 'acc', a, seed_offset=4, model='coreacc')]

def search(ctx, reason):
    for prof, n in (('full', 300000), ('core3', 200000), ('core', 100000)):
        t = run_seq(ctx, prof, n, seed_offset=77, tag='search-' + prof)
        for f in t.failures:
            if f.kind == 'oracle' and f.key not in listed_keys():
                return f
    return None

def replay(ctx, path):
    return replay_seq(ctx, path)
