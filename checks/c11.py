"""C11 — accumulated values equal the from-scratch preorder, however the memos were brought up to date."""
from checks_path import *  # noqa
from seq_common import run_seq, replay_seq

PROPERTY = 'C11'
GEN = ['LogicVerify', 'LogicRuntime']
PROPS = ['SalsaVerif.Props.C11', 'SalsaVerif.Props.GenLogicVerify', 'SalsaVerif.Props.GenLogicRuntime']
EXPLANATION = ('`c11_equals_fresh`: for every well-formed program, any initial inputs and ANY list of get / accumulated / set / '
               'synthetic-write operations the Lean engine model `CoreAcc` (Core + accumulators: push, accumulated_inputs flag, '
               'recorded edges to NEVER_CHANGE accumulators, deep_verify_edges storing the flag, discard_edges_if_never_change, the '
               'depth-first search of accumulated_by with refresh_memo per key) returns the preorder of the from-scratch call tree, each '
               'function once; `c11_flag_sound`: an Empty flag on a memo that passes the shallow test means no reachable key has values; '
               '`c11_history_independent`, `c11_values_still_sound`. Model tied to salsa by exact comparison of values, accumulated lists '
               'and WillExecute/DidValidateMemoizedValue event sequences (the search itself emits events); the oracle compares the '
               'implementation with the independent reference interpreter.')
ASSUMPTIONS = ['bodies are deterministic', 'one accumulator type', 'no eviction / untracked reads / cycles in this model (stage S2)']

def ties(ctx):
    n = 6000 if ctx.tier == 'quick' else 150000
    # `full`: accumulated(q) requests on programs with lru / untracked / struct-creating nodes (outside the CoreAcc model:
    # decided by the oracle = preorder DFS of the reference interpreter), e.g. an EVICTED accumulating memo that is only verified
    m = 6000 if ctx.tier == 'quick' else 150000
    return [run_seq(ctx, 'acc', n, model='coreacc', corpus='COREACC'), run_seq(ctx, 'full', m, seed_offset=11, tag='full-acc')]

def search(ctx, reason):
    for prof, k in (('acc', 300000), ('full', 300000)):
        t = run_seq(ctx, prof, k, seed_offset=78, tag='search-' + prof)
        for f in t.failures:
            if f.kind == 'oracle' and f.key not in listed_keys():
                return f
    return None

def replay(ctx, path):
    return replay_seq(ctx, path, model='coreacc')
