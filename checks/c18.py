"""C18 — cross-thread cycles terminate with single-threaded results."""
from checks_path import *  # noqa
from conc_common import run_conc, replay_conc

PROPERTY = 'C18'
GEN = ['LogicVerify', 'LogicDG']
PROPS = ['SalsaVerif.Props.C18', 'SalsaVerif.Props.GenLogicVerify', 'SalsaVerif.Props.GenLogicDG']
EXPLANATION = ('Theorems about ownership transfer in the Lean dependency-graph model, over arbitrary step sequences including transfers: the '
               'transferred map is a forest with transferred_dependents as its exact inverse (under a stated client precondition whose '
               'violations are counted on real traces: expected 0), the wait-for graph stays acyclic across transfers, a transfer wakes at '
               'most the thread that becomes the owner (or one it waits for), resolving a transferred key always terminates at a '
               'non-transferred key, every blocked thread transitively waits for an unblocked one. Liveness (livelock-freedom, bounded '
               'retries) is NOT proved: it rests on exploration. Values of cyclic programs are those of C12/C13. Tied to salsa by '
               'shuttle-scheduled and real-thread runs of 2-3 threads entering generated fixpoint/fallback cycles (nested, conditional) at '
               'different members and, in half of the cases, of 5-6 threads entering one larger fixpoint component (5-8 members with '
               'duplicate callees; PCT with 6-20 change points and several schedules / repetitions per case: histories that need a '
               'fourth thread, such as the repaired same-owner re-transfer, are out of reach of the 2-3 thread cases): results vs the '
               'sequential fixpoint oracle, deadlock/step-bound detection, and trace replay through the Lean driver (digests equal, '
               'W1-W5 after every operation).')
ASSUMPTIONS = ['termination under every schedule is explored (shuttle deadlock / step-bound detector), not proved: PARTIAL',
               'fallback (cycle_result) components are excluded from multi-revision cases because of the known finding C13/kf1']

def ties(ctx):
    n = 800 if ctx.tier == 'quick' else 20000
    return [run_conc(ctx, 'c18', 'shuttle', n, drivers=('dg',)), run_conc(ctx, 'c18', 'threads', n, seed_offset=1)]

def search(ctx, reason):
    t = run_conc(ctx, 'c18', 'shuttle', 20000, seed_offset=55)
    for f in t.failures:
        if f.kind == 'oracle' and f.key not in listed_keys():
            return f
    return None

def replay(ctx, path):
    return replay_conc(ctx, 'c18', 'shuttle', path)
