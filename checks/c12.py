"""C12 — fixpoint cycles converge to the least fixpoint regardless of entry order."""
from checks_path import *  # noqa
from cycle_common import run_cycle
from seq_common import replay_seq

PROPERTY = 'C12'
GEN = ['Stamp']
PROPS = ['SalsaVerif.Props.C12']
KNOWN = ('fb-participant-after-revalidated-head', 'fix-participant-stale-after-revalidation')
EXPLANATION = ('Theorems about the Lean model of salsa\'s fixpoint iteration scheme (DFS with an explicit stack, provisional values, cycle '
               'heads, outermost-head iteration, per-iteration cache; bodies are monotone expressions over 8-bit sets): for programs '
               'without fallback nodes, entering at ANY node after ANY history (including panicking requests) every returned value and '
               'every memo equals the Kleene least fixpoint (`c12_lfp`, `c12_lfp_history`), the converged assignment is a fixpoint and the '
               'least one, provisional values stay below lfp (`c12_chain_partial`); the ascending-chain and "never hits the 200 bound" '
               'statements are NOT yet proved (listed in Props/C12.lean). The model abstracts salsa\'s cross-revision reuse of finalised '
               'cycle memos (a write drops all memos): it is the from-scratch semantics of the iteration scheme. Tied to salsa by comparing '
               'every request of generated cyclic programs x histories (create / remove / reshape cycles, finalised acyclic feeders) with '
               'the Lean model AND with an independent Kleene-iteration oracle.')
ASSUMPTIONS = ['cross-revision reuse of finalised cycle results is covered by the oracle only (known finding kf2 lives exactly there)',
               'c12_chain (ascending) and c12_terminates are partial']

def ties(ctx):
    n = 1500 if ctx.tier == 'quick' else 100000
    return [run_cycle(ctx, n, known_keys=KNOWN, flavours='0,4', corpus='C12')]

def search(ctx, reason):
    t = run_cycle(ctx, 200000, known_keys=KNOWN, flavours='0,4', seed_offset=97, tag='search-cycle')
    for f in t.failures:
        if f.kind == 'oracle' and f.key not in KNOWN:
            return f
    return None

def replay(ctx, path):
    return replay_seq(ctx, path)
