"""C12 — fixpoint cycles converge to the least fixpoint regardless of entry order."""
from checks_path import *  # noqa
from cycle_common import run_cycle, compare_cycle_rev
from seq_common import replay_seq

PROPERTY = 'C12'
GEN = ['Stamp', 'LogicCycle', 'LogicVerify']
PROPS = ['SalsaVerif.Props.C12', 'SalsaVerif.Props.GenLogicCycle', 'SalsaVerif.Props.GenLogicVerify', 'SalsaVerif.Props.C12Rev', 'SalsaVerif.Props.GenLogicProvisional']
KNOWN = ('fb-participant-after-revalidated-head', 'fix-participant-stale-after-revalidation')
EXPLANATION = ('Theorems about the Lean model of salsa\'s fixpoint iteration scheme (DFS with an explicit stack, provisional values, cycle '
               'heads, outermost-head iteration, per-iteration cache; bodies are monotone expressions over 8-bit sets): for well-formed programs '
               'without fallback nodes and with 8*n < 200, entering at ANY node after ANY history of the revision (including panicking requests) '
               'a request ends in the Kleene least fixpoint with every memo equal to lfp, or in a `cycle` / propagated panic of a non-recovering '
               'member, NEVER in too-many-iterations (`c12_full`, `c12_terminates`); with only recovering members it always returns lfp '
               '(`c12_full_recovering`: total correctness). The provisional values of consecutive passes of an outermost head form an ascending '
               'chain (`c12_chain`, by a simulation between consecutive DFS passes), the converged assignment is a fixpoint and the least one. '
               'The model abstracts salsa\'s cross-revision reuse of finalised cycle memos (a write drops all memos): it is the from-scratch '
               'semantics of the iteration scheme. Tied to salsa by comparing every request of generated cyclic programs x histories (create / '
               'remove / reshape cycles, finalised acyclic feeders) with the Lean model AND with an independent Kleene-iteration oracle. Since the second session: (a) the body language has VALUE-controlled gates (cycles that form and grow while iterating): soundness is proved with gates (`c12_full_gated`: lfp, or cycle / propagated / too-many-iterations), termination and the chain statement keep `NoGate` (`c12_chain_fails_with_gates` shows the chain is false with gates, in model and code alike); (b) the revision-aware model `CycleRev` follows the code function by function across revisions and is compared BYTE FOR BYTE (values, panic classes, X/V/C event sequences of every request of every revision) with salsa; its `decide` theorems `c12rev_history_dependence_witness(_recorded)` are the model-level twins of known finding kf2, `c12rev_stale_final_memo_repaired_witness` documents repair b4c96f4, `c12rev_exact_if_closed` certifies first-revision answers as least fixpoints per run.')
ASSUMPTIONS = ['conditionally formed cycles whose shape depends on VALUES (gates): both Lean models have the gate and are compared with salsa; the least-fixpoint theorems cover gated programs (`c12_lfp`, `c12_full_gated`, `c12rev_exact_if_closed`), but termination (`c12_terminates`), the ascending chain (`c12_chain`) and `c12_pass_total` are proved for gate-free programs only: with gates the chain is FALSE (`c12_chain_fails_with_gates`: a query that becomes a new nested head restarts from bottom and values drop between passes, in salsa as in the model) and termination is open (never observed to fail)',
               'cross-revision reuse of finalised cycle results is covered by the oracle only (known finding kf2 lives exactly there; its key is '
               'recognised by mechanism: a node that was a cycle member at its last execution and was only re-validated since)',
               'the termination bound is proved for 8*n < 200 (n <= 24 functions); the per-bit argument that would give n < 200 is not formalised']

def ties(ctx):
    n = 8000 if ctx.tier == "quick" else 150000
    from seq_common import run_seq
    return [compare_cycle_rev(ctx, run_cycle(ctx, n, known_keys=KNOWN, flavours='0,4', corpus='C12'), 'cycle'),
            # monotone programs with VALUE-controlled gates (`? <expr> <expr> c0`: the guarded calls only happen once bit 0 of
            # the guard is set), i.e. cycles that form, grow and reshape while iterating: Kleene-iteration oracle + comparison of
            # values / panic classes with the Lean Cycle model (whose lfp theorems cover gates: `c12_lfp`, `c12_full_gated`) +
            # byte-exact comparison with the CycleRev model (`NoAdd` no longer excludes gates: `c12rev_exact_if_closed`)
            compare_cycle_rev(ctx, run_cycle(ctx, n, known_keys=KNOWN, flavours='6', seed_offset=17, tag='cycle-gated'), 'cycle-gated')]

def search(ctx, reason):
    t = run_cycle(ctx, 200000, known_keys=KNOWN, flavours='0,4', seed_offset=97, tag='search-cycle')
    for f in t.failures:
        if f.kind == 'oracle' and f.key not in KNOWN and f.key not in listed_keys():
            return f
    return None

def replay(ctx, path):
    return replay_seq(ctx, path)
