"""C21 — local cancellation unwinds only its own handle (token state machine part)."""
from checks_path import *  # noqa
from edges_common import run_edges, replay_edges
from conc_common import run_conc, replay_conc

PROPERTY = 'C21'
GEN = ['Consts']
PROPS = ['SalsaVerif.Props.C21']
EXPLANATION = ('Token theorems (trigger iff cancelled and not disabled, LIFO guards restore the disabled bit, reset on the outermost '
               'attach, other handles untouched, cancel is sticky) over the CancellationToken operations translated from '
               'src/zalsa_local.rs on every run; the translated operations are run against the real token through the salsa_verif hook '
               'on all op sequences up to length 5 (6 in the thorough tier).')
ASSUMPTIONS = ['Relaxed atomics on one AtomicU8 are modelled as sequentially consistent single RMW steps',
               'cross-thread behaviour (waiters retry after Cancelled) is explored by the concurrency harness, not proved']

def ties(ctx):
    n = 300 if ctx.tier == 'quick' else 8000
    return [run_edges(ctx, set('K')),
            # real threads: a victim handle is cancelled through its token at a seeded point (from another thread or from
            # inside one of its own tracked functions), other handles wait on / share its computations; checked: the
            # victim's payload is Cancelled::Local only, every other answer = sequential oracle, and the victim's LATER
            # requests on the same handle run normally (token reset); hook trace replayed through `svdriver cancel`
            run_conc(ctx, 'c21', 'threads', n, drivers=('cancel',)),
            run_conc(ctx, 'c19p', 'threads', max(40, n // 8), drivers=('cancel',), seed_offset=3)]

def search(ctx, reason):
    t = run_conc(ctx, 'c21', 'threads', 6000, seed_offset=57)
    for f in t.failures:
        if f.kind == 'oracle' and f.key not in listed_keys():
            return f
    return None

def replay(ctx, path):
    if path.endswith('.replay'):
        return replay_conc(ctx, 'c21', 'threads', path)
    return replay_edges(ctx, path)
