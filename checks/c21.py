"""C21 — local cancellation unwinds only its own handle (token state machine part)."""
from checks_path import *  # noqa
from edges_common import run_edges, replay_edges

PROPERTY = 'C21'
GEN = ['Consts']
PROPS = ['SalsaVerif.Props.C21']
EXPLANATION = ('Token theorems (trigger iff cancelled and not disabled, LIFO guards restore the disabled bit, reset on the outermost '
               'attach, other handles untouched, cancel is sticky) over the CancellationToken operations translated from '
               'src/zalsa_local.rs on every run; the translated operations are run against the real token through the salsa_verif hook '
               'on all op sequences up to length 5 (6 in the thorough tier).')
ASSUMPTIONS = ['Relaxed atomics on one AtomicU8 are modelled as sequentially consistent single RMW steps',
               'cross-thread behaviour (waiters retry after Cancelled) is explored by the concurrency harness, not proved']

def ties(ctx):
    return [run_edges(ctx, set('K'))]

def replay(ctx, path):
    return replay_edges(ctx, path)
