"""C17 — a function executes at most once per key per revision across all handles."""
from checks_path import *  # noqa
from conc_common import run_conc, replay_conc

PROPERTY = 'C17'
GEN = ['LogicVerify', 'LogicDG']
PROPS = ['SalsaVerif.Props.C17', 'SalsaVerif.Props.GenLogicVerify', 'SalsaVerif.Props.GenLogicDG']
EXPLANATION = ('`c17_once`: in the Lean sync-table transition system extended with a ghost execution counter (ExecBegin requires holding the '
               'claim after a failed re-check; Publish precedes Release), every reachable state has execCount k <= 1 — mutual exclusion is '
               'derived from the sync table, not assumed; `c17_no_second_exec`, `c17_executed_then_memo`. Tied to salsa by counting '
               'executions per (key, revision) across threads (hook `memo exec` lines + event callback) on shuttle-scheduled and real-thread '
               'runs over several revisions, and by replaying the sync/graph traces through the Lean driver.')
ASSUMPTIONS = ['no cycles / panics / cancellation / eviction (as the property states)', 'one revision at a time in the theorem; several revisions are explored by the harness']

def ties(ctx):
    n = 800 if ctx.tier == 'quick' else 20000
    return [run_conc(ctx, 'c17', 'shuttle', n, drivers=('dg',)), run_conc(ctx, 'c17', 'threads', n, seed_offset=1)]

def search(ctx, reason):
    t = run_conc(ctx, 'c17', 'shuttle', 10000, seed_offset=51)
    for f in t.failures:
        if f.kind == 'oracle' and f.key not in listed_keys():
            return f
    return None

def replay(ctx, path):
    return replay_conc(ctx, 'c17', 'shuttle', path)
