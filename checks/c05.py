"""C05 — LRU eviction is transparent and bounded."""
from checks_path import *  # noqa
from store_common import replay_store, run_store
from seq_common import run_seq

PROPERTY = 'C05'
GEN = ['LogicVerify']
PROPS = ['SalsaVerif.Props.C05', 'SalsaVerif.Props.C05Engine', 'SalsaVerif.Props.GenLogicVerify', 'SalsaVerif.Props.C05Bound']
EXPLANATION = ('Theorems about the Lean model of the LRU policy (no duplicates, bound after eviction, the evicted ones are exactly the least '
               'recently used, capacity 0 disables, membership = used since enabled and not evicted) for every op sequence; the model is '
               'compared with the real `Lru` (salsa::plumbing::function::Lru) line by line. Engine level (model `Core3`, Props/C05Engine): '
               'TRANSPARENCY is a theorem — for every well-formed program (lru kinds included) and EVERY history, the answers with `lruCap` / '
               '`evict` operations equal the answers with those operations erased, also with different declared capacities '
               '(`c05_transparent`, `c05_transparent_cap`), both sides being the from-scratch values (`c05_sound`, stage S3b invariant `InvE` '
               'in which any tracked value may vanish at any time); eviction keeps edges and stamps and never happens inside '
               'maybe_changed_after (`c05_keeps_edges`, `c05_no_exec_in_mca`); BOUND: every evictable cached value is in the LRU set, hence at '
               'most `capacity` values stay cached after a revision bump, for histories that never set the capacity to 0 (`c05_cover`, '
               '`c05_bound`; holds only with the two repairs recorded in known_findings.txt). Core3 is tied to salsa by exact comparison of '
               'values and events on generated programs with lru functions and lrucap / evict ops; the bound is also monitored on real '
               'salsa through memory_usage().')
ASSUMPTIONS = ['c05_bound excludes histories with capacity-0 phases (values cached while disabled and kept afterwards need a ghost set); the '
               'monitor covers them', 'eviction of values reachable through accumulated_map / specify paths is covered by the monitor on the full profile, not by Core3']

def ties(ctx):
    n = 1500 if ctx.tier == 'quick' else 60000
    m = 2000 if ctx.tier == 'quick' else 200000
    return [run_store(ctx, 'lru', n), run_seq(ctx, 'core3', m, seed_offset=3, model='core3')]

def search(ctx, reason):
    t = run_seq(ctx, 'core3', 200000, seed_offset=92, tag='search-core3')
    for f in t.failures:
        if f.kind == 'oracle' and f.key not in listed_keys():
            return f
    return None

def replay(ctx, path):
    if '/store-' in path or path.endswith('.store.ops'):
        return replay_store(ctx, path)
    from seq_common import replay_seq
    return replay_seq(ctx, path)
