"""C05 — LRU eviction is transparent and bounded."""
from checks_path import *  # noqa
from store_common import run_store
from seq_common import run_seq

PROPERTY = 'C05'
PROPS = ['SalsaVerif.Props.C05', 'SalsaVerif.Props.C05Engine']
EXPLANATION = ('Theorems about the Lean model of the LRU policy (no duplicates, bound after eviction, the evicted ones are exactly the least '
               'recently used, capacity 0 disables, membership = used since enabled and not evicted) for every op sequence; the model is '
               'compared with the real `Lru` (salsa::plumbing::function::Lru) line by line. Transparency (same results with and without '
               'eviction, capacity changes, explicit eviction) is checked by the reference interpreter on generated programs with lru '
               'functions and lrucap/evict ops.')
ASSUMPTIONS = ['engine-level bound (retained values per function) is checked by the oracle, the engine-level theorems live in Props/C05Engine when stage S3 is complete']

def ties(ctx):
    n = 1500 if ctx.tier == 'quick' else 60000
    m = 2000 if ctx.tier == 'quick' else 200000
    return [run_store(ctx, 'lru', n), run_seq(ctx, 'core3', m, seed_offset=3, model='core3')]

def search(ctx, reason):
    t = run_seq(ctx, 'core3', 200000, seed_offset=92, tag='search-core3')
    for f in t.failures:
        if f.kind == 'oracle':
            return f
    return None
