"""`vh conc`: multi-threaded scenarios on real salsa (shuttle scheduler or real threads), the sequential
oracle, the in-process Rust port of the dependency-graph model, and replay of the recorded hook traces
through the Lean drivers `svdriver dg|cancel|alloc`."""
import os, re, glob, shutil
from checklib import Tie, Failure, HarnessError, sh

BAD = re.compile(r'^(digest-mismatch|answer-mismatch|not-enabled|bad-op|mismatch|client-precondition-violated)|inv=FAIL')

def run_conc(ctx, scenario, mode, cases, drivers=(), seed_offset=0, extra=()):
    t = Tie('conc-%s-%s' % (scenario, mode))
    t.rule = ('generated programs + per-thread request lists (+ writer / cancel / panic actions) run on real salsa under %s; '
              'distinct_nontrivial = distinct (program hash, trace hash) pairs in which at least one thread blocked or a claim was '
              'contended (as counted by the harness); every case is checked against the sequential oracle, a deadlock detector '
              '(shuttle) or watchdog (threads), the Rust port of the dependency-graph model with W1/W2/W4/W5, and its hook trace is '
              'replayed through the Lean drivers' % ('the shuttle scheduler (random/PCT schedules, replayable)' if mode == 'shuttle' else 'real threads with seeded perturbation'))
    if mode == 'shuttle':
        binp = ctx.cargo_bin('conc', features='shuttle', cfg='shuttle')
    else:
        binp = ctx.cargo_bin('conc', cfg='threads')
    tr = os.path.join(ctx.work, 'traces-%s-%s' % (scenario, mode))
    # traces of earlier runs (other seeds, other salsa trees, other numbers of schedules per case — the
    # file names then differ) must not be replayed as if this run had produced them
    shutil.rmtree(tr, ignore_errors=True)
    os.makedirs(tr, exist_ok=True)
    cmd = [binp, scenario, '--mode', mode, '--seed', str(ctx.seed + seed_offset), '--cases', str(cases),
           '--replay-dir', ctx.replays] + (['--trace-out', tr] if drivers else []) + list(extra)
    rc, out, dt = sh(cmd, timeout=3000)
    m = re.search(r'CONC scenario=\S+ mode=\S+ cases=(\d+) executions=(\d+) distinct_nontrivial=(\d+) blocked_events=(\d+) transfers=(\d+) dg_ops=(\d+) failures=(\d+).*', out)
    if not m:
        raise HarnessError('conc %s gave no summary (rc=%d): %s' % (scenario, rc, out[-1500:]))
    t.evaluations = int(m.group(2))
    t.distinct_nontrivial = int(m.group(3))
    t.info['summary'] = m.group(0)[:500]
    t.info['seconds'] = round(dt, 1)
    for fl in re.findall(r'CONC-FAIL kind=(\S+) case=(\d+) seed=(\d+) replay=(\S+) (.*)', out)[:6]:
        kind, case, seed, replay, msg = fl
        k = 'oracle' if kind in ('oracle', 'deadlock') else 'model'
        key = 'conc-%s-%s' % (scenario, kind)
        # known finding C12/kf2 seen from several threads: a wrong (stale) value of a fixpoint
        # program in a LATER revision (round >= 1); first-round results are never excused
        if kind == 'oracle' and scenario == 'c18' and re.match(r'round [1-9]\d* thread \d+: node \d+ = \d+ want \d+', msg):
            key = 'fix-participant-stale-after-revalidation'
        # the same finding met by the sequential re-check after a write of the writer scenarios: a stale
        # VALUE (never a panic / cancellation outcome) of a cyclic program in a revision after the first
        # (confirmed on the thorough-tier cases 2455 / 3265 / 7574 of c20: they pass with the candidate
        # repair corpus/C12/candidate-repair-kf2-verify-heads-edges.patch applied)
        if kind == 'oracle' and scenario == 'c20' and re.match(r'after write \d+: node \d+ = \d+ want \d+$', msg.strip()):
            try:
                progtext = open(replay).read().split('--- program')[1].split('--- inputs')[0]
            except Exception:
                progtext = ''
            if re.search(r'^node \d+ fix2? ', progtext, re.M):      # only programs with fixpoint functions
                key = 'fix-participant-stale-after-revalidation'
        # known finding C22/kf5: after a user panic inside nested fixpoint cycles entered by several threads, a request
        # that reaches the panicking function very rarely (1 in > 35 000 real-thread cases) dies with salsa's OWN
        # consistency panic instead of the user's panic / PropagatedPanic
        if kind == 'oracle' and 'must have an outer cycle responsible to finalize the query later' in msg:
            key = 'internal-panic-after-user-panic-in-cycle'
        t.failures.append(Failure(k, 'conc %s/%s case %s: %s: %s' % (scenario, mode, case, kind, msg[:300]), replay=replay, key=key))
    if int(m.group(7)) > 0 and not t.failures:
        t.failures.append(Failure('model', 'conc %s reports %s failures without CONC-FAIL lines: %s' % (scenario, m.group(7), out[-600:])))
    # Lean replay of the hook traces
    files = sorted(glob.glob(os.path.join(tr, '*.trace')))
    if drivers and files:
        allp = os.path.join(ctx.work, 'traces-%s-%s.ops' % (scenario, mode))
        index = []
        with open(allp, 'w') as w:
            n = 0
            for f in files:
                with open(f) as g:
                    txt = g.read()
                if not txt.endswith('\n'):
                    txt += '\n'
                cnt = txt.count('\n')
                index.append((n, n + cnt, f))
                n += cnt
                w.write(txt)
        for d in drivers:
            outp = os.path.join(ctx.work, 'traces-%s-%s.%s' % (scenario, mode, d))
            ctx.run_driver(d, allp, outp)
            bad = []
            acc = 0
            with open(outp) as g:
                for ln, line in enumerate(g):
                    if line.startswith('ok'):
                        acc += 1
                    if BAD.search(line):
                        bad.append((ln, line.strip()))
            t.info['lean_%s_accepted_lines' % d] = acc
            t.traces_validated += len(files)
            for (ln, line) in bad[:2]:
                f = next((f for (a, b, f) in index if a <= ln < b), files[0])
                rp = ctx.save_replay('conc-%s-%s-%s' % (scenario, d, os.path.basename(f)), open(f).read())
                t.failures.append(Failure('model', 'Lean driver `%s` rejects line %d of %s: %s (%d rejected lines)' % (d, ln, os.path.basename(f), line[:200], len(bad)), replay=rp))
        with open(files[0]) as g:
            t.samples.append({'trace': g.read().split('\n')[:14]})
    else:
        t.samples.append({'summary': m.group(0)[:300]})
    return t

def replay_conc(ctx, scenario, mode, path):
    binp = ctx.cargo_bin('conc', features='shuttle', cfg='shuttle') if mode == 'shuttle' else ctx.cargo_bin('conc', cfg='threads')
    rc, out, _ = sh([binp, scenario, '--mode', mode, '--replay', path], timeout=600)
    print(out[-4000:])
    return 1 if (rc != 0 or 'CONC-FAIL' in out) else 0
