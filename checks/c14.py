"""C14 — cycles through a function without recovery panic instead of hanging."""
from checks_path import *  # noqa
from cycle_common import run_cycle, compare_cycle_rev
from conc_common import run_conc
from seq_common import replay_seq

PROPERTY = 'C14'
GEN = ['LogicDG', 'LogicCycle']
PROPS = ['SalsaVerif.Props.C14', 'SalsaVerif.Props.C14Sync', 'SalsaVerif.Props.GenLogicDG', 'SalsaVerif.Props.GenLogicProvisional']
KNOWN = ('fb-participant-after-revalidated-head', 'fix-participant-stale-after-revalidation')
EXPLANATION = ('Single thread (Lean cycle model): a request that re-enters a no-recovery node while it is on the stack ends in `panic cycle`, '
               'never a value, and the evaluator is total so never hangs (`c14_panics`, `c14_total`); the reported panic names a no-recovery '
               'node on the reported stack; after the panic the stack is empty, nothing provisional is left and later requests are as from '
               'scratch (`c14_state_ok`, `c14_recovers`). Threads (Lean sync model): a claim that would close a wait cycle answers Cycle and '
               'blocks nobody; on a panicking release every waiter gets exactly `Panicked` and no edge. Tied to salsa by generated programs '
               'with cycles through no-recovery functions entered from one thread (values / panic classes vs the Lean model and a '
               'must-panic / may-panic reachability oracle, then histories that break the cycle) and from two real threads (every involved '
               'request ends in a cycle panic or Cancelled::PropagatedPanic, never a value or a hang; afterwards results = oracle). The revision-aware model `CycleRev` (including its panic classes and poisoning) is compared byte for byte with salsa on every request of every revision.')
ASSUMPTIONS = ['whether a no-recovery node on a MIXED cycle is re-entered depends on what is memoised; the oracle accepts panic or the fixpoint value there',
               'cross-thread part explored with real threads (sampled schedules)']

def ties(ctx):
    n = 8000 if ctx.tier == "quick" else 150000
    m = 150 if ctx.tier == 'quick' else 4000
    return [compare_cycle_rev(ctx, run_cycle(ctx, n, known_keys=KNOWN, flavours='2,0', seed_offset=2), 'cycle'), run_conc(ctx, 'c14', 'threads', m, drivers=('dg',))]

def search(ctx, reason):
    t = run_cycle(ctx, 200000, known_keys=KNOWN, flavours='2,0', seed_offset=98, tag='search-cycle')
    for f in t.failures:
        if f.kind == 'oracle' and f.key not in KNOWN and f.key not in listed_keys():
            return f
    return None

def replay(ctx, path):
    return replay_seq(ctx, path)
