"""C03 — memoized results are reused unless something they read has changed."""
from checks_path import *  # noqa
from seq_common import run_seq, replay_seq

PROPERTY = 'C03'
GEN = ['LogicVerify', 'LogicStructs']
PROPS = ['SalsaVerif.Props.C03', 'SalsaVerif.Props.GenLogicVerify', 'SalsaVerif.Props.C03Core3', 'SalsaVerif.Props.GenLogicStructs']
EXPLANATION = ('Theorems about the event trace of the Lean engine models: every `exec q` appended by a fetch is justified — S2 model `Core` '
               '(`c03_exec_justified`: no memo, or a recorded dependency changed since the last validation; backdating keeps the stamp and '
               'shields readers; writing an unread input never re-executes) and S3 model `Core3` (`c03_core3_exec_justified`: + value '
               'evicted, previous execution untracked, no_eq callee re-executed, evicted callee that fails verification; `c03_strict_false` '
               'is the LRU boundary witness: with a strict reading that lacks the "evicted" disjunct the statement is false of model and '
               'code alike). The decision predicates of backdating, shallow/deep verification and tracked-struct re-stamping are regenerated '
               'from the source on every run and proved equal to the models\' (GenLogicVerify, GenLogicStructs). The models\' WillExecute / '
               'DidValidateMemoizedValue sequences are compared for EQUALITY with real salsa on generated programs x histories: core '
               'fragment (`core`), kinds/cells/eviction (`core3`), tracked structs + specify (`spec`, model `CoreSpec`); on the core '
               'fragment a justification monitor additionally checks every WillExecute against the property\'s list directly.')
ASSUMPTIONS = ['interned values inside the engine and multi-struct creators have no event-exact model: there the property rests on the value '
               'oracle only (a spurious re-execution that keeps values right would not be seen)']

def ties(ctx):
    a = 6000 if ctx.tier == 'quick' else 50000
    b = 3000 if ctx.tier == 'quick' else 50000
    return [run_seq(ctx, 'core', a, model='core', corpus='CORE-SEQ'),
            run_seq(ctx, 'core3', b, model='core3', seed_offset=14),
            run_seq(ctx, 'spec', b, model='corespec', corpus='CORESPEC', seed_offset=15)]

def search(ctx, reason):
    for prof, model, off in (('spec', 'corespec', 88), ('core3', 'core3', 89), ('core', 'core', 87)):
        t = run_seq(ctx, prof, 100000, model=model, seed_offset=off, tag='search-' + prof)
        for f in t.failures:
            if f.kind == 'oracle' and f.key not in listed_keys():
                return f
        # for THIS property an event divergence between salsa and the proved model is the failing input itself: the model
        # executes only when justified (theorem), so a WillExecute the model does not have is an unjustified execution
        for f in t.failures:
            if f.kind == 'model' and f.replay:
                return f
    return None

def replay(ctx, path):
    head = open(path).read()
    model = 'corespec' if (' mk ' in head or ' sp ' in head) else ('core3' if (' lru ' in head or ' noeq ' in head or ' u0' in head) else 'core')
    return replay_seq(ctx, path, model=model)
