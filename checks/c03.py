"""C03 — memoized results are reused unless something they read has changed."""
from checks_path import *  # noqa
from seq_common import run_seq, replay_seq

PROPERTY = 'C03'
GEN = ['LogicVerify']
PROPS = ['SalsaVerif.Props.C03', 'SalsaVerif.Props.GenLogicVerify', 'SalsaVerif.Props.C03Core3']
EXPLANATION = ('Theorems about the event trace of the Lean engine model: every `exec q` appended by a fetch is justified (no memo, or a '
               'recorded dependency changed since the last validation), backdating keeps the stamp and shields readers, writing an unread '
               'input never re-executes. The model\'s WillExecute / DidValidateMemoizedValue sequences are compared for equality with real '
               'salsa on generated programs x histories.')
ASSUMPTIONS = ['proved for the Core fragment (plain functions, durable inputs); eviction / untracked / structs are covered by the '
               'correspondence of later model stages when available']

def ties(ctx):
    a = 6000 if ctx.tier == 'quick' else 50000
    return [run_seq(ctx, 'core', a, model='core', corpus='CORE-SEQ')]

def search(ctx, reason):
    return None

def replay(ctx, path):
    return replay_seq(ctx, path, model='core')
