"""C04 — queries that read untracked state re-execute in every later revision."""
from checks_path import *  # noqa
from seq_common import run_seq, replay_seq

PROPERTY = 'C04'
GEN = ['LogicVerify', 'LogicRuntime']
PROPS = ['SalsaVerif.Props.C04', 'SalsaVerif.Props.GenLogicVerify', 'SalsaVerif.Props.C04Core3', 'SalsaVerif.Props.GenLogicRuntime']
EXPLANATION = ('Theorems about the Lean engine model `Core3` (Core + no_eq + untracked cells + the lru kind): a memo whose last execution '
               'reported an untracked read and that is not yet verified in the current revision is re-executed (`exec q` is the FIRST event) '
               'by the first fetch or maybe_changed_after that reaches it — for ANY state and program (`c04_reexec_fetch`, `c04_reexec_mca`); '
               'such a memo has durability LOW and is never shallow-verified or evicted (`c04_never_shallow`, `c04_not_evicted`); results '
               'reflect the cell values of the revision (`c04_results`: soundness of Core3 for every history with cell writes, lru kinds '
               'and evictions included — stage S3b, invariant `InvE`). The Core3 model is tied to salsa by exact comparison of values and WillExecute / '
               'DidValidateMemoizedValue sequences on generated programs with cells, no_eq and lru kinds, lrucap / evict ops.')
ASSUMPTIONS = ['cell changes are followed by a new revision (as the property states)', 'untracked reads inside fixpoint cycles are covered by the oracle run only (flavour 5 of the cyclic generator)', '`c04_dependents_reused` (dependents of an untracked query whose value did not change are reused) is checked by the event comparison, not yet a theorem']

def ties(ctx):
    n = 8000 if ctx.tier == 'quick' else 100000
    m = 4000 if ctx.tier == 'quick' else 100000
    return [run_seq(ctx, 'core3', n, model='core3', corpus='CORE3-SEQ'),
            # untracked reads INSIDE fixpoint cycles (a head that reads the cell in some iterations only, in all, in none): oracle
            # only — the exact self-loop reference of the harness; neither Core3 nor CycleRev models cells inside cycles
            run_seq(ctx, 'cycle', m, seed_offset=16, tag='cycle-untracked', gen_extra=['--flavours', '5'])]

def search(ctx, reason):
    t = run_seq(ctx, 'core3', 300000, seed_offset=95, tag='search-core3')
    for f in t.failures:
        if f.kind == 'oracle' and f.key not in listed_keys():
            return f
    return None

def replay(ctx, path):
    return replay_seq(ctx, path, model='core3')
