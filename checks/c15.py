"""C15 — non-converging fixpoint iteration ends in a bounded panic."""
from checks_path import *  # noqa
from cycle_common import run_cycle, compare_cycle_rev
from edges_common import run_edges
from seq_common import replay_seq

PROPERTY = 'C15'
GEN = ['Stamp', 'LogicCycle', 'LogicVerify']
PROPS = ['SalsaVerif.Props.C15', 'SalsaVerif.Props.GenLogicCycle', 'SalsaVerif.Props.C15Rev', 'SalsaVerif.Props.GenLogicVerify']
KNOWN = ('fb-participant-after-revalidated-head', 'fix-participant-stale-after-revalidation')
EXPLANATION = ('Theorems about IterationStamp (translated from src/cycle.rs on every run: increment adds exactly one to the iteration byte, '
               'never carries into the cancellation byte, and refuses at MAX_ITERATIONS = 200) and about the head loop of the Lean cycle '
               'model: any run performs at most MAX_ITERATIONS iterations and ends converged or in `panic tooManyIterations` (`c15_bounded`, '
               'stated with the literal 200 so that an edit of the constant breaks the proof); after the panic nothing poisoned survives a '
               'new revision (`c15_poison_then_ok`). Tied to salsa by running the real IterationStamp on all 65536 values through the hook, and '
               'by generated non-monotone (oscillating / increasing) cyclic programs: the oracle checks that no WillIterateCycle event '
               'announces an iteration above 200, that the request ends in a value or the bounded panic, and that later revisions recover. The revision-aware model `CycleRev` is compared byte for byte with salsa (iteration events included); `c15rev_iterations_bounded`: no WillIterateCycle event ever carries an iteration above 200, for every program (gates included) and state.')
ASSUMPTIONS = ['for non-monotone programs the value (if any) depends on evaluation order; only the bound and recovery are checked there',
               'stamp_none needs iteration < 255 (increment 255 wraps into the cancellation byte; unreachable because iteration <= 200)']

def ties(ctx):
    n = 8000 if ctx.tier == "quick" else 150000
    return [run_edges(ctx, set('SI')), compare_cycle_rev(ctx, run_cycle(ctx, n, known_keys=KNOWN, flavours='3,0', seed_offset=4), 'cycle')]

def search(ctx, reason):
    t = run_cycle(ctx, 200000, known_keys=KNOWN, flavours='3,0', seed_offset=99, tag='search-cycle')
    for f in t.failures:
        if f.kind == 'oracle' and f.key not in KNOWN and f.key not in listed_keys():
            return f
    return None

def replay(ctx, path):
    return replay_seq(ctx, path)
