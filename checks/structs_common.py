"""`vh structs` + `svdriver structs`: the line-protocol tie of the tracked-struct model (Model/Structs.lean).

Struct-heavy single-threaded histories run on real salsa with the `ts` hook class switched on; the
recorded trace of every case is replayed through the model's own functions by the Lean driver, which
compares every traced outcome (disambiguator, idmap hit, update outcome / new generation / bumped field
revisions / lock word, fresh slot vs FIFO free-list pop, stale list, every delete with the lock word it
saw, free-list pushes, read-lock stamps) with the model's answer and evaluates the invariant `WInv`
after each line."""
import os, re, glob
from checklib import Tie, Failure, HarnessError, sh, ROOT

BAD = re.compile(r'^(answer-mismatch|not-enabled|bad-op)|inv=FAIL')
CHUNK = 20000


def _split_cases(path):
    """[(first line number, text)] of the `reset`-delimited sections of a trace file"""
    cases, cur, start = [], [], 0
    with open(path) as f:
        for ln, line in enumerate(f):
            if line.startswith('reset') and cur:
                cases.append((start, cur))
                cur, start = [], ln
            cur.append(line)
    if cur:
        cases.append((start, cur))
    return cases


def _scan(trace_path, out_path):
    """returns (accepted ts lines, cut cases by reason, [(case index, line in case, traced line, answer)])"""
    acc, cut, bad = 0, {}, []
    case, in_case, case_bad = -1, 0, False
    with open(trace_path) as ft, open(out_path) as fo:
        for tl, ol in zip(ft, fo):
            if tl.startswith('reset'):
                case += 1
                in_case, case_bad = 0, False
            if ol.startswith('ok') and tl.startswith('ts '):
                acc += 1
            elif ol.startswith('skip-unmodelled ') and len(ol.split(' ')) > 1:
                why = ol.strip().split(' ', 1)[1]
                cut[why] = cut.get(why, 0) + 1
            if BAD.search(ol) and not case_bad:
                case_bad = True
                bad.append((case, in_case, tl.strip(), ol.strip()))
            in_case += 1
    return acc, cut, bad


KF4 = 'abort-after-identity-change-stale-generation'


def _one(binp, seed, keep=None):
    cmd = [binp, 'one', '--case-seed', str(seed)] + (['--keep', ','.join(map(str, keep))] if keep is not None else [])
    rc, out, _ = sh(cmd, timeout=120)
    return out


def shrink_oracle_case(binp, seed, key):
    """greedy: drop history ops (last first) while the oracle still reports the same key; returns (kept indices, output)"""
    out = _one(binp, seed)
    ops = [int(x) for x in re.findall(r'^op#(\d+) ', out, re.M)]
    if ('key=%s ' % key) not in out:
        return None, out
    keep = list(ops)
    for i in reversed(ops):
        cand = [j for j in keep if j != i]
        o = _one(binp, seed, cand)
        if ('key=%s ' % key) in o:
            keep, out = cand, o
    return keep, out


def oracle_failures(ctx, binp, out, tag):
    """STRUCTS-FAIL lines -> Failure('oracle', …) with a replay that `./check C06 --replay` re-runs (first two cases per key)"""
    fails, per_key = [], {}
    for (case, seed, key, what) in re.findall(r'STRUCTS-FAIL case=(\d+) seed=(\d+) key=(\S+) (.*)', out):
        per_key[key] = per_key.get(key, 0) + 1
        if per_key[key] > (1 if key == KF4 else 2):
            continue
        keep, o = (None, _one(binp, seed)) if key == KF4 else shrink_oracle_case(binp, seed, key)
        text = 'structs-oracle case-seed=%s keep=%s key=%s\n%s' % (seed, 'all' if keep is None else ','.join(map(str, keep)), key, o)
        rp = ctx.save_replay('structs-%s-%s-seed%s.txt' % (tag, key, seed), text)
        nops = len(re.findall(r'^op#\d+ ', o, re.M))
        fails.append(Failure('oracle', 'structs case %s (seed %s): %s: %s (history of %d ops)' % (case, seed, key, what[:300], nops), replay=rp, key=key))
    return fails, per_key


def run_structs(ctx, cases, seed_offset=0, corpus=True):
    t = Tie('structs-trace')
    t.rule = ('struct-heavy generated programs x histories (`vh structs run`, SplitMix64 from VERIF_SEED): 1-3 creators '
              '(plain / lru) making 0..n structs of two struct types with identity hashes of 1, 2 or many classes (collisions '
              '=> disambiguators, identity changes), functions keyed by structs that create nested structs (delete cascades), '
              'readers, input writes with durabilities, injected panics (tracked-field PartialEq, event callback, body), '
              'free-list ageing towards the generation limit, reads through handles leaked across revisions; every case runs on '
              'real salsa with the `ts` hook class on and its trace is replayed by `svdriver structs`; traces_validated = cases '
              'whose every line was accepted with inv=ok; distinct = distinct ts-line sequences. Property oracle on the real results '
              '(independent of the hooks): ids of one execution pairwise distinct and never handed out for another struct '
              '(duplicate-id), fields read back through the handle = the values passed to `new` (readback), reader / creator results = '
              'reference interpreter on the current inputs (value), struct-keyed memo after `new` = reference (stale-memo), same '
              'identity in the same order keeps its id across executions (id-changed); verdicts after the kf4 pattern carry its key')
    binp = ctx.cargo_bin('structs')
    hist, total_bad, cut_total, oracle_keys = {}, 0, {}, {}
    done, chunk_no = 0, 0
    # hand-checked corpus traces first
    cdir = os.path.join(ROOT, 'corpus', 'structs')
    if corpus and os.path.isdir(cdir):
        for fn in sorted(glob.glob(os.path.join(cdir, '*.ops'))):
            outp = os.path.join(ctx.work, 'structs-corpus.out')
            ctx.run_driver('structs', fn, outp)
            exp = fn[:-4] + '.expected'
            if os.path.exists(exp) and open(exp).read() != open(outp).read():
                t.failures.append(Failure('model', 'corpus %s: driver output differs from %s' % (os.path.basename(fn), os.path.basename(exp)), replay=fn))
    while done < cases:
        n = min(CHUNK, cases - done)
        tr = os.path.join(ctx.work, 'structs-%d.trace' % chunk_no)
        outp = os.path.join(ctx.work, 'structs-%d.out' % chunk_no)
        rc, out, dt = sh([binp, 'run', '--seed', str(ctx.seed + seed_offset + 7919 * chunk_no), '--cases', str(n), '--trace-file', tr], timeout=3000)
        m = re.search(r'STRUCTS cases=(\d+) distinct=(\d+) lines=(\d+) ts_lines=(\d+) hist: (.*)', out)
        if rc != 0 or not m:
            raise HarnessError('structs run failed (rc=%d): %s' % (rc, out[-1500:]))
        t.evaluations += int(m.group(1))
        t.distinct_nontrivial += int(m.group(2))
        ms = re.search(r'STRUCTS-SUMMARY cases=(\d+) failures=(\d+) by_key: (.*)', out)
        if not ms:
            raise HarnessError('structs run gave no oracle summary: ' + out[-800:])
        if int(ms.group(2)) > 0:
            fs, per_key = oracle_failures(ctx, binp, out, 'chunk%d' % chunk_no)
            known = set(f.key for f in t.failures)
            t.failures += [f for f in fs if not (f.key == KF4 and KF4 in known)]
            for kv in ms.group(3).split():
                k, v = kv.rsplit('=', 1)
                oracle_keys[k] = oracle_keys.get(k, 0) + int(v)
        for kv in m.group(5).split():
            k, v = kv.split('=')
            hist[k] = hist.get(k, 0) + int(v)
        ctx.run_driver('structs', tr, outp, timeout=3000)
        acc, cut, bad = _scan(tr, outp)
        t.info['lean_structs_accepted_lines'] = t.info.get('lean_structs_accepted_lines', 0) + acc
        for k, v in cut.items():
            cut_total[k] = cut_total.get(k, 0) + v
        t.traces_validated += int(m.group(1)) - len(bad)
        total_bad += len(bad)
        if bad and len(t.failures) < 3:
            sections = _split_cases(tr)
            for (case, ln, tl, ol) in bad[:2]:
                text = ''.join(sections[case][1])
                rp = ctx.save_replay('structs-case%d-%d.trace' % (chunk_no, case), text)
                t.failures.append(Failure('model', 'Lean driver `structs` rejects line %d of case %d (chunk %d): `%s` => `%s` (%d cases with rejected lines so far)'
                                          % (ln, case, chunk_no, tl[:160], ol[:200], total_bad), replay=rp))
        if chunk_no == 0:
            with open(tr) as g:
                sample = [next(g).rstrip('\n') for _ in range(400)]
            t.samples.append({'trace': [l for l in sample if l.startswith('ts ') and not l.startswith('ts memos') and not l.startswith('ts mread') and not l.startswith('ts locked')][:16]})
        if not bad:
            os.remove(tr)
            os.remove(outp)
        done += n
        chunk_no += 1
    t.info['rejected_cases'] = total_bad
    ncut = sum(cut_total.values())
    if ncut * 100 > 3 * max(t.evaluations, 1):
        t.failures.append(Failure('model', 'the Lean driver `structs` cut %d of %d cases short as unmodelled (%s): more than 3%%, the traces no longer '
                                  'look like the modelled protocol' % (ncut, t.evaluations, cut_total)))
    t.info['oracle_failing_cases_by_key'] = oracle_keys
    t.info['events'] = hist
    t.info['cases_cut_short_as_unmodelled'] = cut_total
    return t


def replay_trace_file(ctx, t, trace_path, tag):
    """replay a trace file written by `seq run --trace-out` through `svdriver structs`; results go into tie `t`"""
    outp = trace_path + '.structs-out'
    ctx.run_driver('structs', trace_path, outp, timeout=3000)
    acc, cut, bad = _scan(trace_path, outp)
    ncases = sum(1 for l in open(trace_path) if l.startswith('reset'))
    t.info['lean_structs_accepted_lines'] = acc
    t.info['structs_traces_replayed'] = ncases
    t.info['structs_rejected_cases'] = len(bad)
    t.info['structs_cases_cut_short_as_unmodelled'] = cut
    t.traces_validated += ncases - len(bad)
    t.rule += ('; with --trace-out the tracked-struct hook trace (class `ts`) of every case is replayed through `svdriver structs` '
               '(every traced outcome compared with the struct-table model, invariant WInv after every line)')
    if bad:
        sections = _split_cases(trace_path)
        for (case, ln, tl, ol) in bad[:2]:
            rp = ctx.save_replay('%s-structs-case%d.trace' % (tag, case), ''.join(sections[case][1]))
            t.failures.append(Failure('model', 'Lean driver `structs` rejects line %d of the hook trace of case %d of %s: `%s` => `%s` (%d cases with rejected lines)'
                                      % (ln, case, tag, tl[:160], ol[:200], len(bad)), replay=rp))
    else:
        os.remove(trace_path)
        os.remove(outp)


def replay_structs_oracle(ctx, path):
    """`./check C06 --replay FILE`: FILE starts with `structs-oracle case-seed=<x> keep=<all|i,j,…> key=<key>`"""
    m = re.match(r'structs-oracle case-seed=(\d+) keep=(\S+) key=(\S+)', open(path).readline())
    binp = ctx.cargo_bin('structs')
    keep = None if m.group(2) == 'all' else [int(x) for x in m.group(2).split(',') if x]
    out = _one(binp, m.group(1), keep)
    print(out)
    return 1 if 'STRUCTS-FAIL' in out else 0


def replay_structs(ctx, path):
    """`./check C06 --replay FILE.trace`: run the driver on a saved trace and show the rejected lines"""
    outp = os.path.join(ctx.work, 'replay-structs.out')
    ctx.run_driver('structs', path, outp)
    bad = 0
    with open(path) as ft, open(outp) as fo:
        for ln, (tl, ol) in enumerate(zip(ft, fo)):
            if BAD.search(ol):
                bad += 1
                if bad <= 20:
                    print('line %d: %s\n      => %s' % (ln, tl.strip()[:200], ol.strip()[:300]))
    print('structs replay: %d rejected lines' % bad)
    return 1 if bad else 0
