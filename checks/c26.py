"""C26 — a persisted database restores (salsa feature `persistence`)."""
from checks_path import *  # noqa
import os, re
from checklib import Tie, Failure, diff_streams, HarnessError, sh, ROOT
from seq_common import split_cases, shrink

PROPERTY = 'C26'
PROPS = ['SalsaVerif.Props.C26']
EXPLANATION = ('Model `Persist` (Lean) = the S2 engine as compiled with `persistence` (every read records an edge) + `snapshot` (memos of '
               'persisted functions kept, edges flattened through non-persisted functions as `collect_minimum_serialized_edges` does, '
               'revisions and inputs kept) + `restore` (fresh database holding the snapshot). PROVED for ARBITRARY sets of persisted '
               'functions, snapshots taken in ANY reachable state (stale persisted memos included), any durabilities, any number of '
               'snapshots in a history: every request on a restored database returns the from-scratch value, also after any further '
               'history of writes / synthetic writes / snapshots (`c26_sound`, `c26_sound_history`, `c26_after_history`, '
               '`c26_same_results`, `c26_restore_inv`; semantic invariant `J` with a ghost input history replaces the S2 replay clause, '
               'which is false after flattening); a serialized memo mentions only inputs and persisted functions; a persisted memo '
               'verified in the snapshot\'s revision (or passing the durability shortcut) is answered on the restored database without '
               '`WillExecute` (`c26_no_exec_when_unchanged`, `c26_no_exec_when_durable`); the flattened edges of a memo still cut every '
               'evaluation path (`c26_flatten_cut`). Tied to salsa by this run: `vh persist` does a serde_json round trip into a fresh '
               'database in the middle of generated histories (even nodes persisted, odd nodes not), values AND X/V event sequences '
               'after the restore are compared line by line with `svdriver persist`; the oracle (independent reference interpreter + '
               'restore monitor "no WillExecute for a persisted function verified in the snapshot\'s revision") checks the property itself. '
               'Second family (oracle only): untracked reads (`u0` leaves) in persisted and non-persisted functions, cell changes followed by a new revision.')
ASSUMPTIONS = ['bodies are deterministic', 'the theorems cover bodies that read inputs and functions only; untracked reads are decided by the oracle family --cells (known finding kf6 lives there)', 'serde / serde_json are trusted', 'accumulators, tracked structs, interned values and cycles are outside this '
               'fragment (salsa does not serialize accumulators)', 'single thread', 'the fresh database has the same type (same ingredient indices)']
TRUSTED_EXTRA = ['serde_json round trip inside the harness (the serialized text is not inspected)']


def _corpus_text():
    cdir = os.path.join(ROOT, 'corpus', 'C26')
    text, exp = '', ''
    if os.path.isdir(cdir):
        for fn in sorted(os.listdir(cdir)):
            if fn.endswith('.ops'):
                t = open(os.path.join(cdir, fn)).read()
                e = os.path.join(cdir, fn[:-4] + '.expected')
                text += t
                exp += open(e).read() if os.path.exists(e) else 'skip\n' * t.count('\n')
    return text, exp


def run_persist(ctx, cases, seed_offset=0, tag='persist', with_model=True, gen_args=()):
    t = Tie('persist' if tag == 'persist' else 'persist-' + tag)
    t.rule = ('generated core-profile programs x histories with 1-2 `snapshot` ops (`vh persist gen`, SplitMix64 from VERIF_SEED); distinct = '
              'distinct (program, history, snapshot positions) hashes; non-trivial = after a restore the implementation executed or '
              'validated at least one memo (an X or V event on the restored database)')
    binp = ctx.cargo_bin('persist', features='persistence', cfg='persist')
    ops = os.path.join(ctx.work, '%s.ops' % tag)
    imp = os.path.join(ctx.work, '%s.impl' % tag)
    rc, out, _ = sh([binp, 'gen', '--seed', str(ctx.seed + seed_offset), '--cases', str(cases), '--out', ops] + list(gen_args))
    m = re.search(r'GEN cases=(\d+) distinct=(\d+)', out)
    if rc != 0 or not m:
        raise HarnessError('persist gen failed: ' + out[-500:])
    distinct = int(m.group(2))
    ctext, cexp = _corpus_text() if not gen_args else ('', '')
    ncorpus_lines = ctext.count('\n')
    if ctext:
        with open(ops) as f:
            body = f.read()
        with open(ops, 'w') as f:
            f.write(ctext + body)
    rc, out, dt = sh([binp, 'run', '--ops', ops, '--out', imp], timeout=1200)
    if rc != 0:
        raise HarnessError('persist run failed (rc=%d): %s' % (rc, out[-800:]))
    rc, out, _ = sh([binp, 'oracle', '--ops', ops, '--impl', imp], timeout=1200)
    m = re.search(r'ORACLE-SUMMARY cases=(\d+) gets=(\d+) nontrivial_cases=(\d+) failures=(\d+) hist=(.*)', out)
    if not m:
        raise HarnessError('persist oracle gave no summary: ' + out[-800:])
    t.evaluations = int(m.group(1))
    t.distinct_nontrivial = min(int(m.group(3)), distinct + (t.evaluations - cases))
    t.info['oracle'] = m.group(0)[:600]
    t.info['run_seconds'] = round(dt, 2)
    with open(ops) as f:
        lines = f.read().split('\n')
    cs = split_cases(lines)
    seen = {}
    for cno, opno, line, op, key, msg in re.findall(r'ORACLE-FAIL case=(\d+) op#(\d+) line=(\d+) `(.*?)`: key=(\S+) (.*)', out):
        if key in seen:
            seen[key] += 1
            continue
        seen[key] = 1
        a, b = cs[int(cno)]
        case_lines = [l for l in lines[a:b] if l != '']
        small = shrink(binp, ctx.work, case_lines, key)
        rp = ctx.save_replay('%s-%s-case%s.ops' % (tag, key, cno), '\n'.join(small) + '\n')
        nops = len([l for l in small if l.split(' ')[0] not in ('prog', 'q', 'b', 'input')])
        t.failures.append(Failure('oracle', '%s: %s op `%s`: %s (minimised to %d ops)' % (tag, key, op, msg[:200], nops), replay=rp, key=key))
    t.info['failure_keys'] = seen
    # hand-checked corpus expectations against the implementation
    if cexp:
        with open(imp) as f:
            got = f.read().split('\n')
        for i, e in enumerate(cexp.split('\n')[:ncorpus_lines]):
            if e != 'skip' and got[i] != e:
                rp = ctx.save_replay('%s-corpus-line%d.ops' % (tag, i + 1), ctext)
                t.failures.append(Failure('model', 'corpus line %d `%s`: impl `%s` vs hand-checked `%s`' % (i + 1, lines[i], got[i], e), replay=rp))
                break
    if with_model:
        mod = os.path.join(ctx.work, '%s.model' % tag)
        ctx.run_driver('persist', ops, mod)
        n, mism, total = diff_streams(ops, imp, mod)
        t.traces_validated = t.evaluations
        t.info['model_lines_compared'] = n
        for (ln, op, a, b) in mism[:2]:
            ci = next((c for c in cs if c[0] < ln <= c[1]), None)
            text = '\n'.join(lines[ci[0]:ci[1]]) + '\n' if ci else op + '\n'
            rp = ctx.save_replay('%s-model-line%d.ops' % (tag, ln), text)
            t.failures.append(Failure('model', '%s line %d `%s`: impl `%s` vs model `%s` (%d mismatching lines)' % (tag, ln, op[:120], a[:160], b[:160], total), replay=rp))
    for c in cs[:2] + cs[len(cs) // 2:len(cs) // 2 + 1]:
        t.samples.append({'case': lines[c[0]:min(c[1], c[0] + 16)]})
    return t


def ties(ctx):
    n = 8000 if ctx.tier == 'quick' else 100000
    # second family: UNTRACKED reads (`u0` leaves = report_untracked_read + a cell outside salsa) in persisted and
    # non-persisted functions, cell changes followed by a new revision; outside the Lean `Persist` model, decided by
    # the oracle (reference interpreter + restore monitor) only
    return [run_persist(ctx, n), run_persist(ctx, n // 2, seed_offset=3, tag='cells', with_model=False, gen_args=['--cells'])]


def search(ctx, reason):
    for t in (run_persist(ctx, 100000, seed_offset=77, tag='search', with_model=False),
              run_persist(ctx, 50000, seed_offset=78, tag='search-cells', with_model=False, gen_args=['--cells'])):
        for f in t.failures:
            if f.kind == 'oracle' and f.key not in listed_keys():
                return f
    return None


def replay(ctx, path):
    binp = ctx.cargo_bin('persist', features='persistence', cfg='persist')
    imp = os.path.join(ctx.work, 'replay.impl')
    rc0, out0, _ = sh([binp, 'run', '--ops', path, '--out', imp])
    if rc0 != 0:
        print(out0)
        return 2
    rc, out, _ = sh([binp, 'oracle', '--ops', path, '--impl', imp])
    mod = os.path.join(ctx.work, 'replay.model')
    ctx.run_driver('persist', path, mod)
    with open(path) as f, open(imp) as g, open(mod) as h:
        for a, b, c in zip(f.read().split('\n'), g.read().split('\n'), h.read().split('\n')):
            print('%-40s => %-28s %s' % (a[:80], b[:200], '' if b == c else '   MODEL: ' + c[:200]))
    print(out)
    n, mism, total = diff_streams(path, imp, mod)
    for mm in mism:
        print('MODEL-DIFF line %d op=%s impl=%s model=%s' % mm)
    return 1 if (rc != 0 or total > 0) else 0
