"""C16 — concurrent readers observe sequential results without deadlock."""
from checks_path import *  # noqa
from conc_common import run_conc, replay_conc

PROPERTY = 'C16'
GEN = ['LogicVerify', 'LogicDG']
PROPS = ['SalsaVerif.Props.C16', 'SalsaVerif.Props.GenLogicVerify', 'SalsaVerif.Props.GenLogicDG']
EXPLANATION = ('Theorems about a client layer (threads with frame stacks executing a ranked = acyclic program: hot hit / try-claim / '
               're-check / exec / request sub-key / publish / release / wake) on top of the Lean sync-table + dependency-graph model, for any '
               'number of threads and keys and every interleaving: a thread only ever waits for a thread executing a strictly lower rank '
               '(`c16_waits_descend`), there is no wait cycle and a claim never answers Cycle, whenever some thread is unfinished some step '
               'is enabled and some unfinished thread is not blocked (`c16_no_deadlock`), every published memo and every finished request '
               'equals the sequential evaluation (`c16_values`), each key executes at most once. Tied to salsa by shuttle-scheduled (random '
               '/ PCT) and real-thread runs of 2-4 clones over generated acyclic programs with shared sub-queries: results vs the '
               'sequential oracle, shuttle deadlock detection / watchdog, and replay of the sync/graph hook trace through the Lean driver.')
ASSUMPTIONS = ['the link from fetch/execute to the client steps rests on trace acceptance, not proof',
               'atomics weaker than SeqCst, parking_lot fairness and condvar spurious wake-ups are not modelled', 'termination (liveness) needs fairness and is not proved']

def ties(ctx):
    n = 800 if ctx.tier == 'quick' else 20000
    return [run_conc(ctx, 'c16', 'shuttle', n, drivers=('dg',)), run_conc(ctx, 'c16', 'threads', n, seed_offset=1),
            # readers after a history: rounds of concurrent requests separated by sequential writes, so that threads block
            # on each other inside VALIDATION (maybe_changed_after), not only inside first executions
            run_conc(ctx, 'c17', 'shuttle', max(200, n // 2), seed_offset=2)]

def search(ctx, reason):
    t = run_conc(ctx, 'c16', 'shuttle', 20000, seed_offset=54)
    for f in t.failures:
        if f.kind == 'oracle' and f.key not in listed_keys():
            return f
    return None

def replay(ctx, path):
    return replay_conc(ctx, 'c16', 'shuttle', path)
