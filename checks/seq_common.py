"""Shared by the engine properties: runs `vh seq` (real salsa on generated programs × histories),
the property oracle (independent reference interpreter) and, where a Lean model exists for the
profile, the Lean driver on the same op file."""
import os, re, json
from checklib import Tie, Failure, diff_streams, HarnessError, sh, ROOT

def split_cases(lines):
    cases, cur = [], None
    for i, l in enumerate(lines):
        if l.startswith('prog '):
            cur = [i, i]
            cases.append(cur)
        if cur is not None:
            cur[1] = i + 1
    return cases

def run_one(binp, work, text, tag='shrink'):
    ops = os.path.join(work, tag + '.ops'); imp = os.path.join(work, tag + '.impl')
    with open(ops, 'w') as f:
        f.write(text)
    rc, out, _ = sh([binp, 'run', '--ops', ops, '--out', imp], timeout=60)
    if rc != 0:
        return None, out
    rc, out, _ = sh([binp, 'oracle', '--ops', ops, '--impl', imp], timeout=60)
    return rc, out

def shrink(binp, work, case_lines, key):
    """greedy delta debugging on the operation lines of one failing case (keeps the header)"""
    header = [l for l in case_lines if l.split(' ')[0] in ('prog', 'q', 'b', 'input')]
    ops = [l for l in case_lines if l.split(' ')[0] not in ('prog', 'q', 'b', 'input')]
    def valid(o):
        # the protocol (and the property) speaks about untracked-cell changes FOLLOWED BY a new
        # revision; a candidate in which a `cell` line is not followed by a write before the
        # next request is outside the protocol (either answer would be right) and is skipped
        pending = False
        for l in o:
            w = l.split(' ')[0]
            if w == 'cell':
                pending = True
            elif w in ('set', 'synth'):
                pending = False
            elif pending:
                return False
        return True
    def fails(o):
        if not valid(o):
            return False
        rc, out = run_one(binp, work, '\n'.join(header + o) + '\n')
        return rc == 1 and ('key=' + key) in out
    if not fails(ops):
        return case_lines
    changed = True
    budget = 400
    while changed and budget > 0:
        changed = False
        i = len(ops) - 1
        while i >= 0 and budget > 0:
            cand = ops[:i] + ops[i + 1:]
            budget -= 1
            if fails(cand):
                ops = cand
                changed = True
            i -= 1
    return header + ops

def run_seq(ctx, profile, cases, model=None, keys_of_interest=None, seed_offset=0, tag=None, corpus=None, gen_extra=(), structs_trace=False):
    """returns a Tie. model: name of the svdriver model whose protocol matches this profile.
    structs_trace: also record the tracked-struct hook trace (class `ts`) of every case and replay it
    through `svdriver structs` (see structs_common)."""
    tag = tag or profile
    t = Tie('seq-' + tag)
    t.rule = ('generated programs x histories (`vh seq gen --profile %s`, SplitMix64 from VERIF_SEED); distinct = distinct '
              '(program, history) hashes; non-trivial = the implementation took at least one non-hot decision in the case '
              '(a DidValidateMemoizedValue, DidDiscard or reuse event was observed)' % profile)
    binp = ctx.cargo_bin('seq')
    ops = os.path.join(ctx.work, 'seq-%s.ops' % tag)
    imp = os.path.join(ctx.work, 'seq-%s.impl' % tag)
    rc, out, _ = sh([binp, 'gen', '--profile', profile, '--seed', str(ctx.seed + seed_offset), '--cases', str(cases), '--out', ops] + list(gen_extra))
    m = re.search(r'GEN cases=(\d+) distinct=(\d+)', out)
    if rc != 0 or not m:
        raise HarnessError('seq gen failed: ' + out[-500:])
    distinct = int(m.group(2))
    # corpus (minimised past failures / hand-written regressions) runs first
    if corpus:
        cdir = os.path.join(ROOT, 'corpus', corpus)
        extra = ''
        if os.path.isdir(cdir):
            for fn in sorted(os.listdir(cdir)):
                if fn.endswith('.ops'):
                    extra += open(os.path.join(cdir, fn)).read()
        if extra:
            with open(ops) as f:
                body = f.read()
            with open(ops, 'w') as f:
                f.write(extra + body)
    trp = os.path.join(ctx.work, 'seq-%s.trace' % tag)
    rc, out, dt = sh([binp, 'run', '--ops', ops, '--out', imp] + (['--trace-out', trp, '--trace-cases', '25000'] if structs_trace else []), timeout=2400)
    if rc != 0:
        raise HarnessError('seq run failed (rc=%d): %s' % (rc, out[-800:]))
    rc, out, _ = sh([binp, 'oracle', '--ops', ops, '--impl', imp], timeout=1200)
    m = re.search(r'ORACLE-SUMMARY cases=(\d+) gets=(\d+) nontrivial_cases=(\d+) failures=(\d+) hist=(.*)', out)
    if not m:
        raise HarnessError('seq oracle gave no summary: ' + out[-800:])
    t.evaluations = int(m.group(1))
    t.distinct_nontrivial = min(int(m.group(3)), distinct + (t.evaluations - cases))
    t.info['oracle'] = m.group(0)[:600]
    t.info['run_seconds'] = round(dt, 2)
    with open(ops) as f:
        lines = f.read().split('\n')
    cs = split_cases(lines)
    seen_keys = {}
    for fl in re.findall(r'ORACLE-FAIL case=(\d+) op#(\d+) line=(\d+) `(.*?)`: key=(\S+) (.*)', out):
        cno, opno, line, op, key, msg = fl
        if keys_of_interest is not None and key not in keys_of_interest:
            key_full = key
        if key in seen_keys:
            seen_keys[key] += 1
            continue
        seen_keys[key] = 1
        a, b = cs[int(cno)]
        case_lines = [l for l in lines[a:b] if l != '']
        small = shrink(binp, ctx.work, case_lines, key)
        rp = ctx.save_replay('seq-%s-%s-case%s.ops' % (tag, key, cno), '\n'.join(small) + '\n')
        t.failures.append(Failure('oracle', '%s: %s op `%s`: %s (minimised to %d ops)' % (tag, key, op, msg[:200], len([l for l in small if l.split(" ")[0] not in ("prog", "q", "b", "input")])),
                                  replay=rp, key=key))
    t.info['failure_keys'] = seen_keys
    if model:
        mod = os.path.join(ctx.work, 'seq-%s.model' % tag)
        ctx.run_driver(model, ops, mod)
        n, mism, total = diff_streams(ops, imp, mod)
        t.traces_validated = t.evaluations
        t.info['model_lines_compared'] = n
        for (ln, op, a, b) in mism[:2]:
            # extract the enclosing case as the replay
            ci = next((c for c in cs if c[0] < ln <= c[1]), None)
            text = '\n'.join(lines[ci[0]:ci[1]]) + '\n' if ci else op + '\n'
            rp = ctx.save_replay('seq-%s-model-line%d.ops' % (tag, ln), text)
            t.failures.append(Failure('model', '%s line %d `%s`: impl `%s` vs model `%s` (%d mismatching lines)' % (tag, ln, op[:120], a[:160], b[:160], total), replay=rp))
    if structs_trace:
        from structs_common import replay_trace_file
        replay_trace_file(ctx, t, trp, 'seq-%s' % tag)
    # samples: a few actual cases
    for c in cs[:2]:
        t.samples.append({'case': lines[c[0]:min(c[1], c[0] + 14)]})
    return t

def replay_seq(ctx, path, model=None):
    binp = ctx.cargo_bin('seq')
    imp = os.path.join(ctx.work, 'replay.impl')
    sh([binp, 'run', '--ops', path, '--out', imp])
    rc, out, _ = sh([binp, 'oracle', '--ops', path, '--impl', imp])
    with open(path) as f, open(imp) as g:
        for a, b in zip(f.read().split('\n'), g.read().split('\n')):
            print('%-40s => %s' % (a[:80], b[:200]))
    print(out)
    bad = rc != 0
    if model:
        mod = os.path.join(ctx.work, 'replay.model')
        ctx.run_driver(model, path, mod)
        n, mism, total = diff_streams(path, imp, mod)
        for m in mism:
            print('MODEL-DIFF line %d op=%s impl=%s model=%s' % m)
        bad = bad or total > 0
    return 1 if bad else 0
