"""C19 — waiting threads are always woken and waits never form a cycle."""
from checks_path import *  # noqa
from conc_common import run_conc, replay_conc

PROPERTY = 'C19'
GEN = ['LogicDG']
PROPS = ['SalsaVerif.Props.C19', 'SalsaVerif.Props.GenLogicDG']
EXPLANATION = ('Open-system theorems about the Lean transcription of salsa\'s DependencyGraph + per-key SyncState (one Lean function per Rust '
               'function), by induction over ARBITRARY finite sequences of protocol steps for any number of threads and keys: W1 (blocked iff '
               'in exactly one dependents list), W2 (wait-for graph acyclic), W5 (a result is delivered exactly once, never to a thread with '
               'an edge), W4 (transfer forest, under a stated client precondition), a cycle-closing claim is answered Cycle and blocks '
               'nobody, claims are always enabled, transfer wakes at most the new owner; W3/W6 proved for the protocol without transfers '
               '(`_partial`). The model is tied to salsa by replaying every dependency-graph / sync-table operation logged by the salsa_verif '
               'hooks (with a digest of the five maps after each operation) from shuttle-scheduled and real-thread runs through the Lean '
               'driver: every operation must be enabled, every digest equal, and the Bool forms of W1, W2, W4, W5 must hold after each.')
ASSUMPTIONS = ['hooks observe inside the critical sections; an operation moved outside its lock shows only as a diverging digest under some schedule',
               'parking_lot / condvar internals and spurious wake-ups are not modelled (a spurious wake-up re-checks wait_results)',
               'W3/W6 with transfers and enabledness of release/transfer with transfers are NOT proved (listed in Props/C19.lean)']

def ties(ctx):
    n = 800 if ctx.tier == 'quick' else 20000
    return [run_conc(ctx, 'c19', 'shuttle', n, drivers=('dg',)),
            run_conc(ctx, 'c18', 'shuttle', n, drivers=('dg',), seed_offset=1),
            run_conc(ctx, 'c14', 'threads', max(30, n // 5), drivers=('dg',), seed_offset=2),
            # panicking / cancelled owners with waiters: the outcome delivered to each waiter (tok= bits of
            # the release_panicking line) is checked by the Lean driver against the model's wake-up result
            run_conc(ctx, 'c19p', 'threads', max(40, n // 10), drivers=('dg',), seed_offset=3)]

def search(ctx, reason):
    for sc, mode in (('c19', 'shuttle'), ('c18', 'shuttle'), ('c16', 'threads')):
        t = run_conc(ctx, sc, mode, 8000, seed_offset=50)
        for f in t.failures:
            if f.kind == 'oracle' and f.key not in listed_keys():
                return f
    return None

def replay(ctx, path):
    return replay_conc(ctx, 'c19', 'shuttle', path)
