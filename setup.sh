#!/bin/sh
# Builds the framework from files on disk only (offline).
set -e
cd "$(dirname "$0")"
export CARGO_NET_OFFLINE=true
python3 translate/gen.py --repo /repo || true
(cd lean && lake build SalsaVerif svdriver)
cp -n /repo/Cargo.lock harness/Cargo.lock 2>/dev/null || true
(cd harness && CARGO_TARGET_DIR=/verif/.target/default cargo build --offline --bin edges --bin seq --bin store --bin life --bin structs)
(cd harness && CARGO_TARGET_DIR=/verif/.target/persist cargo build --offline --features persistence --bin edges)
(cd harness && CARGO_TARGET_DIR=/verif/.target/persist cargo build --offline --features persistence --bin persist)
(cd harness && CARGO_TARGET_DIR=/verif/.target/threads cargo build --offline --bin conc)
(cd harness && CARGO_TARGET_DIR=/verif/.target/shuttle cargo build --offline --features shuttle --bin conc)
echo setup done
