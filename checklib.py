"""Shared machinery for ./check and the per-property plug-ins in checks/."""
import json, os, re, subprocess, sys, time, shutil, hashlib

ROOT = os.path.dirname(os.path.abspath(__file__))
LEAN = os.path.join(ROOT, 'lean')
HARNESS = os.path.join(ROOT, 'harness')
REPO = '/repo'
AXIOM_WHITELIST = {'propext', 'Classical.choice', 'Quot.sound'}
FORBIDDEN = re.compile(r'\b(sorry|admit|native_decide|bv_decide|implemented_by)\b|^\s*axiom\s|^\s*unsafe\s|maxHeartbeats\s+0\b', re.M)


def sh(cmd, cwd=None, env=None, timeout=None, stdin=None):
    e = dict(os.environ)
    e['CARGO_NET_OFFLINE'] = 'true'
    if env:
        e.update(env)
    t0 = time.time()
    try:
        p = subprocess.run(cmd, cwd=cwd, env=e, stdout=subprocess.PIPE, stderr=subprocess.STDOUT,
                           timeout=timeout, stdin=stdin, shell=isinstance(cmd, str))
        out = p.stdout.decode('utf-8', 'replace')
        return p.returncode, out, time.time() - t0
    except subprocess.TimeoutExpired as ex:
        out = (ex.stdout or b'').decode('utf-8', 'replace')
        return 124, out + '\n[timeout]', time.time() - t0


class Failure:
    """kind: 'oracle' (implementation contradicts the property's own reference: a concrete failing
    input), 'model' (implementation and Lean model disagree: the tie broke), 'proof' (an obligation
    no longer checks), 'harness' (the machinery itself failed to run)."""
    def __init__(self, kind, summary, replay=None, key=None):
        self.kind, self.summary, self.replay, self.key = kind, summary, replay, key


class Tie:
    def __init__(self, name):
        self.name = name
        self.evaluations = 0
        self.distinct_nontrivial = 0
        self.traces_validated = 0
        self.samples = []
        self.failures = []
        self.info = {}
        self.rule = ''


class Ctx:
    def __init__(self, prop, tier, seed):
        self.prop, self.tier, self.seed = prop, tier, seed
        self.work = os.path.join(ROOT, 'work', prop)
        shutil.rmtree(self.work, ignore_errors=True)
        os.makedirs(self.work, exist_ok=True)
        self.replays = os.path.join(ROOT, 'replays', prop)
        os.makedirs(self.replays, exist_ok=True)
        self.log = []
        self.t0 = time.time()

    def note(self, s):
        self.log.append(s)
        print('  ' + s, flush=True)

    # ---- Rust harness
    def cargo_bin(self, bin_name, features=None, cfg='default'):
        """(re)build a harness binary against /repo's current tree; returns path or raises"""
        target = os.path.join(ROOT, '.target', cfg)
        lock = os.path.join(HARNESS, 'Cargo.lock')
        if not os.path.exists(lock):
            shutil.copy(os.path.join(REPO, 'Cargo.lock'), lock)
        cmd = ['cargo', 'build', '--offline', '--bin', bin_name]
        if features:
            cmd += ['--features', features]
        rc, out, dt = sh(cmd, cwd=HARNESS, env={'CARGO_TARGET_DIR': target}, timeout=1500)
        if rc != 0:
            raise HarnessError('cargo build %s failed:\n%s' % (bin_name, out[-4000:]))
        self.note('built harness bin %s [%s] in %.1fs' % (bin_name, cfg, dt))
        return os.path.join(target, 'debug', bin_name)

    # ---- Lean driver
    def driver(self):
        rc, out, dt = sh(['lake', 'build', 'svdriver'], cwd=LEAN, timeout=1500)
        if rc != 0:
            raise HarnessError('lake build svdriver failed:\n' + out[-4000:])
        return os.path.join(LEAN, '.lake', 'build', 'bin', 'svdriver')

    def run_driver(self, model, ops_path, out_path, timeout=1200):
        drv = self.driver()
        with open(ops_path, 'rb') as fin, open(out_path, 'wb') as fout:
            p = subprocess.run([drv, model], stdin=fin, stdout=fout, stderr=subprocess.PIPE, timeout=timeout)
        if p.returncode != 0:
            raise HarnessError('svdriver %s exited %d: %s' % (model, p.returncode, p.stderr.decode()[-2000:]))

    def save_replay(self, name, text):
        path = os.path.join(self.replays, name)
        with open(path, 'w') as f:
            f.write(text)
        return path


class HarnessError(Exception):
    pass


def diff_streams(ops_path, impl_path, model_path, skip=('skip',), limit=10):
    """line-by-line comparison; returns (compared, mismatches[list of (lineno, op, impl, model)])"""
    mism = []
    n = 0
    with open(ops_path) as fo, open(impl_path) as fi, open(model_path) as fm:
        ops, imp, mod = fo.read().split('\n'), fi.read().split('\n'), fm.read().split('\n')
    if ops and ops[-1] == '':
        ops.pop()
    if imp and imp[-1] == '':
        imp.pop()
    if mod and mod[-1] == '':
        mod.pop()
    if not (len(ops) == len(imp) == len(mod)):
        mism.append((0, '<length>', 'ops=%d impl=%d' % (len(ops), len(imp)), 'model=%d' % len(mod)))
    for i, (o, a, b) in enumerate(zip(ops, imp, mod)):
        if a in skip or b in skip:
            continue
        n += 1
        if a != b:
            if len(mism) < limit:
                mism.append((i + 1, o, a, b))
            else:
                mism.append(None)
    total = len(mism)
    return n, [m for m in mism if m is not None], total


# ----------------------------------------------------------------------------
# proof side
def lean_imports_closure(modules):
    seen, todo = set(), list(modules)
    while todo:
        m = todo.pop()
        if m in seen or not m.startswith('SalsaVerif'):
            continue
        seen.add(m)
        path = os.path.join(LEAN, *m.split('.')) + '.lean'
        if not os.path.exists(path):
            continue
        with open(path) as f:
            for line in f:
                mm = re.match(r'^\s*import\s+(\S+)', line)
                if mm:
                    todo.append(mm.group(1))
    return sorted(seen)


def strip_lean_comments(src):
    # remove block comments (nested-aware, simple) and line comments
    out, depth, i = [], 0, 0
    while i < len(src):
        if src.startswith('/-', i):
            depth += 1
            i += 2
        elif src.startswith('-/', i) and depth > 0:
            depth -= 1
            i += 2
        elif depth > 0:
            if src[i] == '\n':
                out.append('\n')
            i += 1
        elif src.startswith('--', i):
            while i < len(src) and src[i] != '\n':
                i += 1
        else:
            out.append(src[i])
            i += 1
    return ''.join(out)


def theorems_of(module):
    """fully qualified names of the (non-private) theorems of a Props module, with line numbers"""
    path = os.path.join(LEAN, *module.split('.')) + '.lean'
    res = []
    ns = []
    with open(path) as f:
        src = strip_lean_comments(f.read())
    for ln, line in enumerate(src.split('\n'), 1):
        m = re.match(r'^\s*namespace\s+(\S+)', line)
        if m:
            ns.append(m.group(1))
            continue
        m = re.match(r'^\s*end\s+(\S+)', line)
        if m and ns and ns[-1] == m.group(1):
            ns.pop()
            continue
        m = re.match(r'^\s*(private\s+)?(?:protected\s+)?theorem\s+([^\s:({\[]+)', line)
        if m and not m.group(1):
            res.append(('.'.join(ns + [m.group(2)]), ln))
    return res


def prove(ctx, gen_modules, props_modules, thorough=False):
    """returns dict(obligations, discharged, broken=[names], detail, checker_cmd, axioms)"""
    res = {'obligations': 0, 'discharged': 0, 'broken': [], 'detail': [], 'axioms': {}, 'theorems': []}
    cmds = []
    if gen_modules:
        cmd = [sys.executable, os.path.join(ROOT, 'translate', 'gen.py'), '--repo', REPO] + list(gen_modules)
        rc, out, dt = sh(cmd, cwd=ROOT, timeout=300)
        cmds.append('python3 translate/gen.py ' + ' '.join(gen_modules))
        if rc != 0:
            res['detail'].append('translator: ' + out.strip())
    names = []
    for m in props_modules:
        try:
            names += [(n, m, ln) for (n, ln) in theorems_of(m)]
        except FileNotFoundError:
            res['detail'].append('missing module ' + m)
    res['obligations'] = len(names)
    res['theorems'] = [n for (n, _, _) in names]
    # forbidden tokens in everything the property theorems import
    for m in lean_imports_closure(props_modules):
        path = os.path.join(LEAN, *m.split('.')) + '.lean'
        if os.path.exists(path):
            with open(path) as f:
                src = strip_lean_comments(f.read())
            for mm in FORBIDDEN.finditer(src):
                res['detail'].append('forbidden token %r in %s' % (mm.group(0).strip(), m))
    rc, out, dt = sh(['lake', 'build'] + list(props_modules), cwd=LEAN, timeout=3000)
    cmds.append('cd lean && lake build ' + ' '.join(props_modules))
    ctx.note('lake build %s: rc=%d (%.1fs)' % (' '.join(props_modules), rc, dt))
    broken = set()
    if rc != 0:
        # attribute errors to theorems where possible
        errs = re.findall(r'error: (SalsaVerif/\S+?\.lean):(\d+):\d+: (.*)', out)
        for path, ln, msg in errs:
            mod = path[:-5].replace('/', '.')
            owner = None
            for (n, m, l) in names:
                if m == mod and l <= int(ln):
                    owner = n
            res['detail'].append('%s:%s: %s%s' % (path, ln, msg[:200], (' (in %s)' % owner) if owner else ''))
            if owner:
                broken.add(owner)
        if not errs:
            res['detail'].append(out[-1500:])
        # modules that failed to build: every theorem in a failed Props module that is not
        # individually identified is unproved as well (its olean does not exist)
        failed_mods = set(re.findall(r'^- (SalsaVerif\.\S+)', out, re.M))
        for (n, m, l) in names:
            if m in failed_mods or any(fm in lean_imports_closure([m]) for fm in failed_mods):
                broken.add(n)
    else:
        # axiom audit
        audit = os.path.join(ctx.work, 'Audit.lean')
        with open(audit, 'w') as f:
            for m in props_modules:
                f.write('import %s\n' % m)
            for (n, _, _) in names:
                f.write('#print axioms %s\n' % n)
        rc2, out2, dt2 = sh(['lake', 'env', 'lean', audit], cwd=LEAN, timeout=900)
        cmds.append('lake env lean Audit.lean  (#print axioms on every property theorem)')
        cur = None
        # long names make Lean wrap the axiom list over several lines ("[propext,\n Classical.choice, …")
        text = re.sub(r'\n[ \t]+', ' ', out2)
        for line in text.split('\n'):
            m = re.match(r"^'(.+?)' depends on axioms: \[(.*)\]", line)   # names may contain a prime
            if m:
                axs = [a.strip() for a in m.group(2).split(',') if a.strip()]
                res['axioms'][m.group(1)] = axs
                bad = [a for a in axs if a not in AXIOM_WHITELIST]
                if bad:
                    broken.add(m.group(1))
                    res['detail'].append('%s depends on non-whitelisted axioms %s' % (m.group(1), bad))
                continue
            m = re.match(r"^'(.+?)' does not depend on any axioms", line)
            if m:
                res['axioms'][m.group(1)] = []
        for (n, _, _) in names:
            if n not in res['axioms']:
                broken.add(n)
                res['detail'].append('axiom audit has no entry for %s: %s' % (n, out2[-300:] if rc2 else ''))
        if thorough:
            for m in props_modules:
                rc3, out3, dt3 = sh(['lake', 'env', 'leanchecker', m], cwd=LEAN, timeout=1800)
                cmds.append('lake env leanchecker ' + m)
                ctx.note('leanchecker %s rc=%d (%.1fs)' % (m, rc3, dt3))
                if rc3 != 0:
                    res['detail'].append('leanchecker %s: %s' % (m, out3[-500:]))
                    broken.update(n for (n, mm, _) in names if mm == m)
    if any(d.startswith('forbidden token') or d.startswith('translator') or d.startswith('missing module') for d in res['detail']) and not broken:
        broken.update(n for (n, _, _) in names) if names else broken.add('<translator>')
    res['broken'] = sorted(broken)
    res['discharged'] = res['obligations'] - len([b for b in broken if not b.startswith('<')])
    res['checker_cmd'] = ' && '.join(cmds)
    return res


# ----------------------------------------------------------------------------
# known findings
def known_findings():
    path = os.path.join(ROOT, 'known_findings.txt')
    res = []
    if os.path.exists(path):
        with open(path) as f:
            for line in f:
                line = line.strip()
                m = re.match(r'^finding:\s+property=(\S+)\s+key=(\S+)\s+(.*)$', line)
                if m:
                    res.append({'property': m.group(1), 'key': m.group(2), 'text': m.group(3)})
    return res


def write_evidence(ctx, level, coverage, assumptions, violations):
    ev = {
        'property_id': ctx.prop,
        'tier': ctx.tier,
        'seed': ctx.seed,
        'level': level,
        'coverage': coverage,
        'assumptions': assumptions,
        'wall_s': round(time.time() - ctx.t0, 2),
        'violations': violations,
    }
    os.makedirs(os.path.join(ROOT, 'evidence'), exist_ok=True)
    path = os.path.join(ROOT, 'evidence', ctx.prop + '.json')
    with open(path, 'w') as f:
        json.dump(ev, f, indent=1, sort_keys=True)
    return path
