//! C18 finding `merge-cycle-heads-different-iterations` — standalone reproduction on plain salsa
//! (no `--cfg salsa_verif`, no harness). Documentation only: nothing compiles this file. To run it,
//! copy it to `<salsa>/tests/kf_merge_heads_repro.rs` and
//!
//!   real threads : cargo test --offline --test kf_merge_heads_repro
//!                  (tree with 451fce7 and without the follow-up fix: 2-17 % of the attempts panic,
//!                  timing dependent)
//!   shuttle      : cargo test --offline --features shuttle --test kf_merge_heads_repro -- --nocapture
//!                  (`search` finds it within ~5 000 random schedules of seed 1; `replay` replays the
//!                  recorded schedule below deterministically)
//!
//! Symptom (fresh database, revision 1, no writes, no user panic):
//!   assertion `left == right` failed: Can't merge cycle heads a(Id(0)) with different iterations
//!   (IterationStamp { iteration: 0, .. }, IterationStamp { iteration: 1, .. })      src/cycle.rs:344
//! raised from `ActiveQuery::add_read` -> `CycleHeads::extend` while `b` reads `d`.
//!
//! Found by `conc c18 --mode threads --seed 2` case 699 (7 nodes, requests 2 6 3 | 3 | 4 2 3; replay
//! next to this file). Minimised program (every further edge removal / reordering / 2 threads: 0 of 1000):
//!
//!   a -> c, d        b -> c, d        c -> d, b        d -> a          threads: a | b | c
//!
//! all four `cycle_initial = 0`, default `cycle_fn`, body = own bit | callees.
//!
//! Interleaving (T1 runs a, T2 runs b, T3 runs c):
//!  1. T1 `a->c` and T2 `b->c` block on `c` (T3).
//!  2. T3: `c->d->a` hits T1 (cycle): initial memo a{a:0}; `d` completes provisional {a:0}, lock
//!     transferred to `a` (T1). `c->b` hits T2 (cycle): initial memo b{b:0}; `c` completes provisional
//!     {a:0,b:0}, lock transferred to `b` (T2). T3 waits for `b`.
//!  3. T2 resumes `b` (its first execution, iteration 0): reads c{a:0,b:0} — b's active query now holds
//!     head a@0 — then wants `d`, which belongs to `a` (T1): T2 blocks on T1.
//!  4. T1 resumes `a`: reads `c`, then re-claims the transferred `d` (it owns the target `a`), reads
//!     it, and `release_self` hands `d` back. Commit 451fce7 wakes everybody waiting on `d` here,
//!     i.e. T2, although T2's wait-for edge (T2 -> T1) was accurate.
//!  5. Before T2 has retried `d` and blocked again, T1 completes `a` and asks `outer_cycle()`:
//!     `peek_claim(b)` answers "running on T2", not "cycle", because T2 is momentarily not in the
//!     wait-for graph. `a` therefore believes it is the outermost head and iterates on its own:
//!     a -> iteration 1, re-executes `c` {a:1,b:1} and `d` {a:1}.
//!  6. T2 is blocked on `d` again; `a`'s second completion now sees the outer cycle `b`, transfers to
//!     it and wakes T2.
//!  7. T2 — still in the *same* execution of `b` that read c@{a:0} — reads d@{a:1}:
//!     `CycleHeads::insert(a, 1)` meets the existing a@0 and asserts.
//! Without the wake-up in step 4 (tree before 451fce7, or with the wake-up restricted to the case
//! where the transfer target is owned by another thread) T2 stays blocked on T1, step 5 finds the
//! outer cycle `b`, and `a` is iterated as part of `b`.

use salsa::Database;

fn initial(_db: &dyn Database, _id: salsa::Id) -> u32 {
    0
}

#[salsa::tracked(returns(copy), cycle_initial = initial)]
fn a(db: &dyn Database) -> u32 {
    1 | c(db) | d(db)
}

#[salsa::tracked(returns(copy), cycle_initial = initial)]
fn b(db: &dyn Database) -> u32 {
    2 | c(db) | d(db)
}

#[salsa::tracked(returns(copy), cycle_initial = initial)]
fn c(db: &dyn Database) -> u32 {
    4 | d(db) | b(db)
}

#[salsa::tracked(returns(copy), cycle_initial = initial)]
fn d(db: &dyn Database) -> u32 {
    8 | a(db)
}

#[cfg(not(feature = "shuttle"))]
mod real_threads {
    use super::*;
    use std::panic::{self, AssertUnwindSafe};
    use std::sync::{Arc, Barrier};

    /// One attempt on a fresh database; returns the panic messages / wrong values.
    fn attempt() -> Vec<String> {
        let db = salsa::DatabaseImpl::default();
        let barrier = Arc::new(Barrier::new(3));
        let fns: [(&str, fn(&dyn Database) -> u32); 3] = [("a", a), ("b", b), ("c", c)];
        let handles: Vec<_> = fns
            .into_iter()
            .map(|(name, f)| {
                let db = db.clone();
                let barrier = barrier.clone();
                std::thread::spawn(move || {
                    barrier.wait();
                    match panic::catch_unwind(AssertUnwindSafe(|| f(&db))) {
                        Ok(15) => None,
                        Ok(v) => Some(format!("{name} = {v}, want 15")),
                        Err(p) => Some(format!(
                            "{name} panicked: {}",
                            p.downcast_ref::<String>()
                                .cloned()
                                .or_else(|| p.downcast_ref::<&str>().map(|s| s.to_string()))
                                .unwrap_or_else(|| "<Cancelled / non-string payload>".into())
                        )),
                    }
                })
            })
            .collect();
        handles
            .into_iter()
            .filter_map(|h| h.join().unwrap())
            .collect()
    }

    #[test]
    fn merge_heads_real_threads() {
        let attempts: usize = std::env::var("ATTEMPTS")
            .ok()
            .and_then(|s| s.parse().ok())
            .unwrap_or(2000);
        let prev = panic::take_hook();
        panic::set_hook(Box::new(|_| {}));
        let mut failed = 0;
        let mut first = None;
        for i in 0..attempts {
            let errs = attempt();
            if !errs.is_empty() {
                failed += 1;
                first.get_or_insert((i, errs));
            }
        }
        panic::set_hook(prev);
        if let Some((i, errs)) = first {
            panic!("{failed} of {attempts} attempts failed; first at attempt {i}: {errs:#?}");
        }
    }
}

#[cfg(feature = "shuttle")]
mod scheduled {
    use super::*;
    use shuttle::thread;

    fn scenario() {
        let db = salsa::DatabaseImpl::default();
        let (d1, d2, d3) = (db.clone(), db.clone(), db.clone());
        let t1 = thread::spawn(move || a(&d1));
        let t2 = thread::spawn(move || b(&d2));
        let t3 = thread::spawn(move || c(&d3));
        assert_eq!(t1.join().unwrap(), 15);
        assert_eq!(t2.join().unwrap(), 15);
        assert_eq!(t3.join().unwrap(), 15);
    }

    fn config() -> shuttle::Config {
        let mut config = shuttle::Config::default();
        config.stack_size = 1024 * 1024;
        config
    }

    /// Random search; seed 1 fails within ~5 000 schedules on the defective tree,
    /// 90 000 schedules (seeds 1, 2, 3 x 30 000) pass on the repaired tree.
    #[test]
    fn search() {
        let iters: usize = std::env::var("ITERS")
            .ok()
            .and_then(|s| s.parse().ok())
            .unwrap_or(20000);
        let seed: u64 = std::env::var("SEED")
            .ok()
            .and_then(|s| s.parse().ok())
            .unwrap_or(1);
        let scheduler = shuttle::scheduler::RandomScheduler::new_from_seed(seed, iters);
        shuttle::Runner::new(scheduler, config()).run(scenario);
    }

    /// Schedule recorded by `search` (seed 1) on the tree at 7063b46.
    const SCHEDULE: &str = concat!(
        "9102bc07c6e096caf48ec0cbe8010000009224c0a42dd3946489b224db3269512645ca926d59",
        "126dd99648da9669492245d2a64dda266d92b469d2b46ddbb66ddbb66ddbb66ddbb66ddbb66d",
        "dbb66ddbb66ddbb66ddbb66ddbb66ddbb66ddbb66ddbb66ddbb66ddbb66ddbb66ddbb66ddbb6",
        "6dd224499224499224499224499224499224499224499222298a942892244952124992222549",
        "9224499224499224499224499224499224499224499224499224499224499224499224491225",
        "8a124549a42851922449a22849a4244992244992244992244992244992244992244992244992",
        "2449922449922449922449922449922449922449922449922449922449922449922449922449",
        "9224499224499224499224499224499224499224499224499224499224499224499224499224",
        "4992244992244992244992244992244992244992244992244912455292448a92444a12259192",
        "24499224499224499224912249922449922449922449922449922449922409",
    );

    /// Deterministic replay. The first execution in a process takes extra scheduling points
    /// (lazily initialised statics), so one warm-up execution runs before the replay. Only
    /// meaningful on the tree the schedule was recorded on (7063b46): on a tree where the
    /// interleaving is impossible shuttle reports "scheduled task is not runnable".
    #[test]
    fn replay() {
        shuttle::Runner::new(
            shuttle::scheduler::RandomScheduler::new_from_seed(1, 1),
            config(),
        )
        .run(scenario);
        let scheduler = shuttle::scheduler::ReplayScheduler::new_from_encoded(SCHEDULE);
        shuttle::Runner::new(scheduler, config()).run(scenario);
    }
}
