//! C18 finding `noop-retransfer-stale-edge` — standalone reproduction on plain salsa (no
//! `--cfg salsa_verif`, no harness). Documentation only: nothing compiles this file. To run it, copy
//! it to `<salsa>/tests/kf_noop_retransfer_repro.rs` and
//!
//!   real threads : cargo test --offline --test kf_noop_retransfer_repro
//!                  (tree with 451fce7 and without the repair: roughly every 10th-100th attempt panics
//!                  or hangs, timing dependent; `ATTEMPTS=n` to change the default 3000)
//!   shuttle      : cargo test --offline --features shuttle --test kf_noop_retransfer_repro -- --nocapture
//!                  (`search`: PCT scheduler, depth 10, finds it within a few thousand schedules;
//!                  `replay` replays the recorded schedule below deterministically)
//!
//! Symptom (fresh database, revision 1, no writes, no user panic, every query returns 0):
//!   debug builds : panic "Circular reference between blocked edges"
//!                  (src/runtime/dependency_graph.rs, `update_transferred_edges`), the other threads
//!                  get `Cancelled::PropagatedPanic`
//!   release      : the same edge update makes a thread wait for itself: hang
//!
//! Found by a random-graph stress test (10 nodes, 5 threads, seed 1115; 5 of 46 attempts on
//! /repo 35f4330). Minimised program (every further node / edge / thread removal: 0 failures in
//! 8 x 6000 PCT schedules), all `cycle_initial = 0`, default `cycle_fn`, every body = max of callees:
//!
//!   a -> b        b -> c, c        c -> e, d        d -> a        e -> f        f -> g        g -> c
//!   threads: a | b | g | c
//!
//! Two nested cycles share `c`: a -> b -> c -> d -> a and c -> e -> f -> g -> c; `b` reads `c` TWICE.
//!
//! Mechanism. `transfer_lock(query -> new_owner)` returned early when `query` already had the mapping
//! `(new_owner_thread, new_owner)`. That is a no-op only if the new owner runs on the transferring
//! thread. Here a thread T re-claims a query q that is transferred to a cycle head H of ANOTHER thread
//! O (allowed, because O is blocked on T), and q's re-execution ends in H's cycle again, so q is
//! transferred to H again: same mapping, early return. A thread W that blocked on q while T held it
//! recorded the edge W -> T; after the hand-back q belongs to H (thread O) but the edge still says T.
//! (`release_self`, the other way a re-claimed query goes back, was repaired by 451fce7; since then
//! the woken waiters retry at once and block on q while it is re-claimed the next time, which is what
//! makes this frequent. The early return itself is as old as the transfer code.)
//! With the stale edge `depends_on` answers for the wrong thread: when O later transfers H to a
//! query of W, `unblock_transfer_target` looks for "W or a thread W waits for" among the waiters of H
//! and its transferred queries, finds T first (W "waits for" T), wakes T instead of W, and
//! `update_transferred_edges` then points W at W.
//! Lean model of the same history: /verif/lean/SalsaVerif/Props/C19.lean `noopHandbackOps`
//! (op language: /verif/corpus/DG/noop-retransfer.ops).

use salsa::Database;

fn initial(_db: &dyn Database, _id: salsa::Id) -> u32 {
    0
}

#[salsa::tracked(returns(copy), cycle_initial = initial)]
fn a(db: &dyn Database) -> u32 {
    b(db)
}

#[salsa::tracked(returns(copy), cycle_initial = initial)]
fn b(db: &dyn Database) -> u32 {
    c(db).max(c(db))
}

#[salsa::tracked(returns(copy), cycle_initial = initial)]
fn c(db: &dyn Database) -> u32 {
    e(db).max(d(db))
}

#[salsa::tracked(returns(copy), cycle_initial = initial)]
fn d(db: &dyn Database) -> u32 {
    a(db)
}

#[salsa::tracked(returns(copy), cycle_initial = initial)]
fn e(db: &dyn Database) -> u32 {
    f(db)
}

#[salsa::tracked(returns(copy), cycle_initial = initial)]
fn f(db: &dyn Database) -> u32 {
    g(db)
}

#[salsa::tracked(returns(copy), cycle_initial = initial)]
fn g(db: &dyn Database) -> u32 {
    c(db)
}

const ENTRIES: [(&str, fn(&dyn Database) -> u32); 4] = [("a", a), ("b", b), ("g", g), ("c", c)];

#[cfg(not(feature = "shuttle"))]
mod real_threads {
    use super::*;
    use std::panic::{self, AssertUnwindSafe};
    use std::sync::mpsc;
    use std::sync::{Arc, Barrier};
    use std::time::Duration;

    /// One attempt on a fresh database; returns the panic messages / wrong values / "hang".
    fn attempt() -> Vec<String> {
        let db = salsa::DatabaseImpl::default();
        let barrier = Arc::new(Barrier::new(ENTRIES.len()));
        let (tx, rx) = mpsc::channel();
        for (name, f) in ENTRIES {
            let db = db.clone();
            let barrier = barrier.clone();
            let tx = tx.clone();
            std::thread::spawn(move || {
                barrier.wait();
                let r = match panic::catch_unwind(AssertUnwindSafe(|| f(&db))) {
                    Ok(0) => None,
                    Ok(v) => Some(format!("{name} = {v}, want 0")),
                    Err(p) => Some(format!(
                        "{name} panicked: {}",
                        p.downcast_ref::<String>()
                            .map(|s| s.lines().next().unwrap_or("").to_string())
                            .or_else(|| p.downcast_ref::<&str>().map(|s| s.to_string()))
                            .unwrap_or_else(|| "<Cancelled / non-string payload>".into())
                    )),
                };
                let _ = tx.send(r);
            });
        }
        drop(tx);
        let mut errs = Vec::new();
        for _ in 0..ENTRIES.len() {
            match rx.recv_timeout(Duration::from_secs(10)) {
                Ok(Some(e)) => errs.push(e),
                Ok(None) => {}
                // the stuck threads are leaked
                Err(_) => {
                    errs.push("hang (no result within 10 s)".into());
                    break;
                }
            }
        }
        errs
    }

    #[test]
    fn noop_retransfer_real_threads() {
        let attempts: usize = std::env::var("ATTEMPTS")
            .ok()
            .and_then(|s| s.parse().ok())
            .unwrap_or(3000);
        let prev = panic::take_hook();
        panic::set_hook(Box::new(|_| {}));
        let mut failed = 0;
        let mut made = 0;
        let mut first = None;
        for i in 0..attempts {
            let errs = attempt();
            made += 1;
            if !errs.is_empty() {
                failed += 1;
                let hang = errs.iter().any(|e| e.starts_with("hang"));
                first.get_or_insert((i, errs));
                // stuck threads are leaked and keep their locks: stop after the first hang
                if hang {
                    break;
                }
            }
        }
        panic::set_hook(prev);
        if let Some((i, errs)) = first {
            panic!("{failed} of {made} attempts failed; first at attempt {i}: {errs:#?}");
        }
    }
}

#[cfg(feature = "shuttle")]
mod scheduled {
    use super::*;
    use shuttle::thread;

    fn scenario() {
        let db = salsa::DatabaseImpl::default();
        let handles: Vec<_> = ENTRIES
            .into_iter()
            .map(|(_, f)| {
                let db = db.clone();
                thread::spawn(move || f(&db))
            })
            .collect();
        for h in handles {
            assert_eq!(h.join().unwrap(), 0);
        }
    }

    fn config() -> shuttle::Config {
        let mut config = shuttle::Config::default();
        config.stack_size = 1024 * 1024;
        config
    }

    fn env(k: &str, d: u64) -> u64 {
        std::env::var(k).ok().and_then(|s| s.parse().ok()).unwrap_or(d)
    }

    /// PCT search (`SEED`, `PCT` = depth, `ITERS`); prints the failing schedule.
    #[test]
    fn search() {
        let scheduler = shuttle::scheduler::PctScheduler::new_from_seed(
            env("SEED", 11),
            env("PCT", 10) as usize,
            env("ITERS", 20000) as usize,
        );
        shuttle::Runner::new(scheduler, config()).run(scenario);
    }

    /// Schedule recorded by `search` on the tree at 35f4330.
    const SCHEDULE: &str = concat!(
        "9103ee06e38ab9dceb8da5fe5f00000000000040444444444444448488888888888888888888",
        "8888888888888888666666666666666666666666666666666626222222222222222222222222",
        "2222222222444444444444444444848888888888888888888888888888888888888888888888",
        "8888888888888888888888888888888888888888888888888888888888888888888888888888",
        "8888888888888888888888888888888888888888888888888888888888888888888888888888",
        "8888888888888888888888888888888888888888888888888888888888888888888888884888",
        "4444444444444444444444444444444444444444444444444444444444444666464444444444",
        "4444444444444444444444444444444444444444446466666646444444444444444444444444",
        "4444444444444444444444444444444444444444444444444444444444444444444444444444",
        "4444444444444444444444444444444444444444444444444444444444444444444444444444",
        "4444444444444444444444444444444444444224222222222222222222222222222222222222",
        "22222222222222222222222222222222222222222222222222222222222222222222",
    );

    /// Deterministic replay. The first execution in a process takes extra scheduling points
    /// (lazily initialised statics), so one warm-up execution runs before the replay. Only
    /// meaningful on the tree the schedule was recorded on (35f4330): on the repaired tree the run
    /// takes other scheduling points and shuttle reports a schedule mismatch or simply passes.
    #[test]
    fn replay() {
        shuttle::Runner::new(
            shuttle::scheduler::RandomScheduler::new_from_seed(1, 1),
            config(),
        )
        .run(scenario);
        let schedule = std::env::var("SCHEDULE_FILE")
            .ok()
            .map(|p| std::fs::read_to_string(p).unwrap())
            .unwrap_or_else(|| SCHEDULE.to_string());
        let schedule: String = schedule.chars().filter(|c| !c.is_whitespace() && *c != '"').collect();
        let scheduler = shuttle::scheduler::ReplayScheduler::new_from_encoded(&schedule);
        shuttle::Runner::new(scheduler, config()).run(scenario);
    }
}
