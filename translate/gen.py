#!/usr/bin/env python3
"""Regenerates /verif/lean/SalsaVerif/Gen/*.lean from /repo's current sources.

usage: gen.py [--repo /repo] [--out /verif/lean/SalsaVerif/Gen] [module ...]
Exit code 0: all requested modules generated; 2: a TranslateError (printed as
`TRANSLATE-ERROR module=<m> <message>`), the old file is replaced by a stub that
fails to compile so no stale theorem can be re-checked against outdated code.
"""
import sys, os, argparse, re
sys.path.insert(0, os.path.dirname(os.path.abspath(__file__)))
from rs2lean import *

def gen_edge(repo):
    ctx = Ctx()
    zl = read(repo, 'src/zalsa_local.rs')
    za = read(repo, 'src/zalsa.rs')
    idr = read(repo, 'src/id.rs')
    key = read(repo, 'src/key.rs')
    ctx.newtypes.update({'IngredientIndex': 'u32', 'NonZeroU32': 'u32'})
    struct_def(ctx, 'Id', [('index', 'NonZeroU32'), ('generation', 'u32')])
    struct_def(ctx, 'DatabaseKeyIndex', [('key_index', 'Id'), ('ingredient_index', 'IngredientIndex')])
    struct_def(ctx, 'QueryEdge', [('index', 'u32'), ('generation', 'u32'), ('ingredient', 'IngredientIndex')])
    struct_def(ctx, 'PackedQueryEdge', [('index', 'u32'), ('metadata', 'u32')])
    ctx.enums['QueryEdgeKind'] = {'Input': 0, 'Output': 1}
    ctx.out.append("def QueryEdgeKind_Input : Nat := 0\ndef QueryEdgeKind_Output : Nat := 1\n")
    translate_const(ctx, idr, 'Id', 'MAX_U32', 'Id.MAX_U32')
    translate_fn(ctx, idr, 'Id', 'from_index', 'Id.from_index', 'src/id.rs')
    translate_fn(ctx, idr, 'Id', 'from_bits_unchecked', 'Id.from_bits_unchecked', 'src/id.rs')
    translate_fn(ctx, idr, 'Id', 'as_bits', 'Id.as_bits', 'src/id.rs')
    translate_fn(ctx, idr, 'Id', 'with_generation', 'Id.with_generation', 'src/id.rs')
    translate_fn(ctx, idr, 'Id', 'index', 'Id.index0', 'src/id.rs')
    translate_fn(ctx, idr, 'Id', 'generation', 'Id.generation0', 'src/id.rs')
    translate_const(ctx, za, 'IngredientIndex', 'MAX_INDEX', 'IngredientIndex.MAX_INDEX')
    translate_fn(ctx, za, 'IngredientIndex', 'as_u32', 'IngredientIndex.as_u32', 'src/zalsa.rs')
    translate_fn(ctx, za, 'IngredientIndex', 'with_tag', 'IngredientIndex.with_tag', 'src/zalsa.rs')
    translate_fn(ctx, za, 'IngredientIndex', 'tag', 'IngredientIndex.tag', 'src/zalsa.rs')
    translate_fn(ctx, key, 'DatabaseKeyIndex', 'new', 'DatabaseKeyIndex.new', 'src/key.rs')
    translate_fn(ctx, key, 'DatabaseKeyIndex', 'ingredient_index', 'DatabaseKeyIndex.ingredient_index0', 'src/key.rs')
    translate_fn(ctx, key, 'DatabaseKeyIndex', 'key_index', 'DatabaseKeyIndex.key_index0', 'src/key.rs')
    translate_fn(ctx, zl, 'QueryEdge', 'input', 'QueryEdge.input', 'src/zalsa_local.rs')
    translate_fn(ctx, zl, 'QueryEdge', 'output', 'QueryEdge.output', 'src/zalsa_local.rs')
    translate_fn(ctx, zl, 'QueryEdge', 'id', 'QueryEdge.id', 'src/zalsa_local.rs')
    translate_fn(ctx, zl, 'QueryEdge', 'key', 'QueryEdge.key', 'src/zalsa_local.rs')
    translate_fn(ctx, zl, 'QueryEdge', 'kind', 'QueryEdge.kind', 'src/zalsa_local.rs')
    translate_const(ctx, zl, 'PackedQueryEdge', 'INGREDIENT_SHIFT', 'PackedQueryEdge.INGREDIENT_SHIFT')
    translate_const(ctx, zl, 'PackedQueryEdge', 'GENERATION_MASK', 'PackedQueryEdge.GENERATION_MASK')
    translate_const(ctx, zl, 'PackedQueryEdge', 'INGREDIENT_MASK', 'PackedQueryEdge.INGREDIENT_MASK')
    translate_fn(ctx, zl, 'PackedQueryEdge', 'new', 'PackedQueryEdge.new', 'src/zalsa_local.rs')
    translate_fn(ctx, zl, 'PackedQueryEdge', 'edge', 'PackedQueryEdge.edge', 'src/zalsa_local.rs')
    # origin tags
    ctx.newtypes.update({'QueryOriginTag': 'u8', 'OriginAndExtraTag': 'u8'})
    translate_enum(ctx, zl, 'QueryOriginKind', 'QueryOriginKind')
    translate_enum(ctx, zl, 'DerivedOriginKind', 'DerivedOriginKind')
    translate_enum(ctx, zl, 'QueryEdgeLayout', 'QueryEdgeLayout')
    translate_enum(ctx, zl, 'OriginAndExtraLayout', 'OriginAndExtraLayout')
    translate_const(ctx, zl, 'QueryOriginTag', 'KIND_MASK', 'QueryOriginTag.KIND_MASK')
    translate_const(ctx, zl, 'QueryOriginTag', 'LAYOUT_MASK', 'QueryOriginTag.LAYOUT_MASK')
    translate_fn(ctx, zl, 'QueryOriginTag', 'assigned', 'QueryOriginTag.assigned', 'src/zalsa_local.rs')
    translate_fn(ctx, zl, 'QueryOriginTag', 'derived', 'QueryOriginTag.derived', 'src/zalsa_local.rs')
    translate_fn(ctx, zl, 'QueryOriginTag', 'layout', 'QueryOriginTag.layout', 'src/zalsa_local.rs')
    translate_const(ctx, zl, 'OriginAndExtraTag', 'WITH_EXTRA_MASK', 'OriginAndExtraTag.WITH_EXTRA_MASK')
    translate_fn(ctx, zl, 'OriginAndExtraTag', 'without_extra', 'OriginAndExtraTag.without_extra', 'src/zalsa_local.rs')
    translate_fn(ctx, zl, 'OriginAndExtraTag', 'with_extra', 'OriginAndExtraTag.with_extra', 'src/zalsa_local.rs')
    translate_fn(ctx, zl, 'OriginAndExtraTag', 'layout', 'OriginAndExtraTag.layout', 'src/zalsa_local.rs')
    translate_fn(ctx, zl, 'OriginAndExtraTag', 'origin', 'OriginAndExtraTag.origin', 'src/zalsa_local.rs')
    return HEADER % ('src/zalsa_local.rs, src/zalsa.rs, src/id.rs, src/key.rs', 'Edge') + "\n".join(ctx.out) + "\nend SalsaVerif.Gen.Edge\n"

def gen_stamp(repo):
    ctx = Ctx()
    cy = read(repo, 'src/cycle.rs')
    ctx.newtypes.update({'IterationStamp': 'u16'})
    translate_const(ctx, cy, None, 'MAX_ITERATIONS', 'MAX_ITERATIONS')
    translate_fn(ctx, cy, 'IterationStamp', 'new', 'IterationStamp.new', 'src/cycle.rs')
    translate_fn(ctx, cy, 'IterationStamp', 'initial', 'IterationStamp.initial', 'src/cycle.rs')
    translate_fn(ctx, cy, 'IterationStamp', 'iteration', 'IterationStamp.iteration', 'src/cycle.rs')
    translate_fn(ctx, cy, 'IterationStamp', 'cancellation_count', 'IterationStamp.cancellation_count', 'src/cycle.rs')
    translate_fn(ctx, cy, 'IterationStamp', 'is_default', 'IterationStamp.is_default', 'src/cycle.rs')
    translate_fn(ctx, cy, 'IterationStamp', 'is_initial_iteration', 'IterationStamp.is_initial_iteration', 'src/cycle.rs')
    translate_fn(ctx, cy, 'IterationStamp', 'increment_iteration', 'IterationStamp.increment_iteration', 'src/cycle.rs')
    return HEADER % ('src/cycle.rs', 'Stamp') + "\n".join(ctx.out) + "\nend SalsaVerif.Gen.Stamp\n"

def gen_ids(repo):
    ctx = Ctx()
    tb = read(repo, 'src/table.rs')
    idr = read(repo, 'src/id.rs')
    ctx.newtypes.update({'NonZeroU32': 'u32', 'PageIndex': 'usize', 'SlotIndex': 'usize'})
    struct_def(ctx, 'Id', [('index', 'NonZeroU32'), ('generation', 'u32')])
    translate_const(ctx, idr, 'Id', 'MAX_U32', 'Id.MAX_U32')
    translate_const(ctx, idr, 'Id', 'MAX_USIZE', 'Id.MAX_USIZE')
    translate_fn(ctx, idr, 'Id', 'from_index', 'Id.from_index', 'src/id.rs')
    translate_fn(ctx, idr, 'Id', 'index', 'Id.index0', 'src/id.rs')
    translate_const(ctx, tb, None, 'PAGE_LEN_BITS', 'PAGE_LEN_BITS')
    translate_const(ctx, tb, None, 'PAGE_LEN', 'PAGE_LEN')
    translate_const(ctx, tb, None, 'PAGE_LEN_MASK', 'PAGE_LEN_MASK')
    translate_const(ctx, tb, None, 'MAX_PAGES', 'MAX_PAGES')
    translate_fn(ctx, tb, None, 'make_id', 'make_id', 'src/table.rs')
    translate_fn(ctx, tb, None, 'split_id', 'split_id', 'src/table.rs')
    return HEADER % ('src/table.rs, src/id.rs', 'Ids') + "\n".join(ctx.out) + "\nend SalsaVerif.Gen.Ids\n"

def gen_consts(repo):
    ctx = Ctx()
    du = read(repo, 'src/durability.rs')
    zl = read(repo, 'src/zalsa_local.rs')
    rt = read(repo, 'src/runtime.rs')
    translate_enum(ctx, du, 'DurabilityVal', 'Durability')
    got = None
    for sc in find_impl_blocks(du, 'Durability'):
        got = got or find_const(sc, 'LEN')
    if not got or re.sub(r"\s+", "", got[1]) != "Self::HIGH.0asusize+1":
        raise TranslateError("Durability::LEN changed shape: %r" % (got,))
    ctx.out.append("/-- translated from `const Durability::LEN = Self::HIGH.0 as usize + 1` -/\ndef Durability.LEN : Nat := Durability_High + 1\n")
    translate_const(ctx, zl, 'CancellationToken', 'CANCELLED_MASK', 'CancellationToken.CANCELLED_MASK')
    translate_const(ctx, zl, 'CancellationToken', 'DISABLED_MASK', 'CancellationToken.DISABLED_MASK')
    # token operations: the atomics are modelled as a plain u8 (all accesses are single RMW ops)
    ctx.out.append(token_ops(zl))
    return HEADER % ('src/durability.rs, src/zalsa_local.rs', 'Consts') + "\n".join(ctx.out) + "\nend SalsaVerif.Gen.Consts\n"

def token_ops(zl):
    """CancellationToken methods use `self.0.fetch_or(..)`; translate by pattern: each body must be
    exactly the expected single atomic operation, otherwise TranslateError."""
    import re
    blocks = find_impl_blocks(zl, 'CancellationToken')
    if not blocks:
        raise TranslateError("impl CancellationToken not found")
    b = blocks[0]
    def body(name):
        got = find_fn(b, name)
        if not got:
            raise TranslateError("CancellationToken::%s not found" % name)
        return re.sub(r"\s+", "", got[2])
    expect = {
        'cancel': "self.0.fetch_or(Self::CANCELLED_MASK,Ordering::Relaxed);",
        'is_cancelled': "self.0.load(Ordering::Relaxed)&Self::CANCELLED_MASK!=0",
        'set_cancellation_disabled': "letprevious_disabled_bit=ifdisabled{self.0.fetch_or(Self::DISABLED_MASK,Ordering::Relaxed)}else{self.0.fetch_and(!Self::DISABLED_MASK,Ordering::Relaxed)};previous_disabled_bit&Self::DISABLED_MASK!=0",
        'should_trigger_local_cancellation': "self.0.load(Ordering::Relaxed)==Self::CANCELLED_MASK",
        'reset': "self.0.store(0,Ordering::Relaxed);",
    }
    for k, v in expect.items():
        if body(k) != v:
            raise TranslateError("CancellationToken::%s changed shape: %s" % (k, body(k)))
    return """/-- `CancellationToken` operations (bodies matched verbatim against src/zalsa_local.rs; the
    `AtomicU8` is a `Nat < 256`, each method is one atomic read-modify-write) -/
def CancellationToken.cancel (bits : Nat) : Nat := bits ||| CancellationToken.CANCELLED_MASK
def CancellationToken.is_cancelled (bits : Nat) : Bool := decide ((bits &&& CancellationToken.CANCELLED_MASK) ≠ 0)
def CancellationToken.set_cancellation_disabled (bits : Nat) (disabled : Bool) : Nat × Bool :=
  let new := if disabled then bits ||| CancellationToken.DISABLED_MASK
             else bits &&& (2^8 - 1 - CancellationToken.DISABLED_MASK)
  (new, decide ((bits &&& CancellationToken.DISABLED_MASK) ≠ 0))
def CancellationToken.should_trigger_local_cancellation (bits : Nat) : Bool :=
  decide (bits = CancellationToken.CANCELLED_MASK)
def CancellationToken.reset (_bits : Nat) : Nat := 0
"""

MODULES = {'Edge': gen_edge, 'Stamp': gen_stamp, 'Ids': gen_ids, 'Consts': gen_consts}

# decision-logic skeletons of impure functions (translate/gen_logic.py, translate/logic.py)
import gen_logic
MODULES.update(gen_logic.LOGIC_MODULES)

def main():
    ap = argparse.ArgumentParser()
    ap.add_argument('--repo', default='/repo')
    ap.add_argument('--out', default=os.path.join(os.path.dirname(os.path.abspath(__file__)), '..', 'lean', 'SalsaVerif', 'Gen'))
    ap.add_argument('modules', nargs='*')
    a = ap.parse_args()
    os.makedirs(a.out, exist_ok=True)
    rc = 0
    for m in (a.modules or list(MODULES)):
        path = os.path.join(a.out, m + '.lean')
        FnTranslator._n = 0      # fresh-name counter: output independent of the module list/order
        try:
            text = MODULES[m](a.repo)
        except TranslateError as e:
            print("TRANSLATE-ERROR module=%s %s" % (m, e))
            text = "/- translation failed: %s -/\n#eval (translation_failed : Nat)\n" % str(e).replace('-/', '- /')
            rc = 2
        old = None
        if os.path.exists(path):
            with open(path) as f:
                old = f.read()
        if old != text:
            with open(path, 'w') as f:
                f.write(text)
    sys.exit(rc)

if __name__ == '__main__':
    main()
