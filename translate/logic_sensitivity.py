#!/usr/bin/env python3
"""Sensitivity experiment for the `Gen/Logic*` family (development tool, not a registered check).

For every one-line mutation below: take the HEAD sources of /repo (`git archive`, the working
tree of /repo is never touched or trusted), apply the edit to a scratch copy under /tmp, run
`gen.py --repo <scratch> --out <scratch-out> <module>` and
  * report TRANSLATE-ERROR if the translator refuses, else
  * compile the scratch Gen file, the glue (`Proofs/GenLogic<F>.lean`) and the theorems
    (`Props/GenLogic<F>.lean`) against it with a private LEAN_PATH prefix (nothing is written
    into /verif/lean) and report which theorems break, or NOT DETECTED.

usage: logic_sensitivity.py [--keep] [id ...]
"""
import os, re, subprocess, sys, shutil

ROOT = os.path.dirname(os.path.dirname(os.path.abspath(__file__)))
LEAN = os.path.join(ROOT, 'lean')
REPO = '/repo'
SCRATCH = '/tmp/translator-sens'

# id, family, file, old, new
MUTATIONS = [
    ('backdate-untracked', 'Verify', 'src/function/backdate.rs',
     "&& revisions.durability >= self.revisions.durability",
     "&& revisions.durability >= self.revisions.durability\n            || revisions.is_derived_untracked()"),
    ('backdate-no-durability', 'Verify', 'src/function/backdate.rs',
     "&& revisions.durability >= self.revisions.durability", ""),
    ('backdate-source-changed-keeps-stamp', 'Verify', 'src/function/backdate.rs',
     "revisions.changed_at = current_revision;", "revisions.changed_at = old_memo.header.revisions.changed_at;"),
    ('mca-reexec-only-changed-at', 'Verify', 'src/function/maybe_changed_after.rs',
     "if changed_at > revision || memo.header.may_be_provisional() {", "if changed_at > revision {"),
    ('shallow-vs-changed-at', 'Verify', 'src/function/maybe_changed_after.rs',
     "if last_changed <= verified_at {", "if last_changed <= self.revisions.changed_at {"),
    ('deep-edges-vs-changed-at', 'Verify', 'src/function/maybe_changed_after.rs',
     "dependency_index.maybe_changed_after(db, zalsa, old_verified_at);",
     "dependency_index.maybe_changed_after(db, zalsa, old_revisions.changed_at);"),
    ('hot-ignores-provisional', 'Verify', 'src/function/maybe_changed_after.rs',
     "if can_shallow_update.yes() && !self.may_be_provisional() {", "if can_shallow_update.yes() {"),
    ('shallow-verified-le', 'Verify', 'src/function/maybe_changed_after.rs',
     "if verified_at == revision_now {", "if verified_at <= revision_now {"),
    ('fetch-cold-reuses-evicted', 'Verify', 'src/function/fetch.rs',
     "&& old_memo.value.is_some()\n            && old_memo.header.verify_memo(", "&& old_memo.header.verify_memo("),
    ('cycle-reuse-any-revision', 'Cycle', 'src/function/fetch.rs',
     "if memo.header.verified_at.load() == zalsa.current_revision()\n                        && memo.value.is_some()",
     "if memo.value.is_some()"),
    ('cycle-rethrow-any-epoch', 'Cycle', 'src/function/fetch.rs',
     "&& memo.header.verified_at.load() == zalsa.current_revision()\n                        && revisions.iteration().cancellation_count() == cancellation_count\n                    {\n                        Cancelled",
     "&& memo.header.verified_at.load() == zalsa.current_revision()\n                    {\n                        Cancelled"),
    ('intern-reinsert-old-hash', 'Intern', 'src/interned.rs',
     "shard.key_map.insert_unique(hash, value_key, hasher);", "shard.key_map.insert_unique(old_hash, value_key, hasher);"),
    ('intern-reusable-medium', 'Intern', 'src/interned.rs',
     "durability == Durability::LOW", "durability <= Durability::MEDIUM"),
    ('intern-stale-le', 'Intern', 'src/interned.rs', "revision < oldest", "revision <= oldest"),
    ('intern-hit-no-refresh', 'Intern', 'src/interned.rs',
     "if metadata.last_interned_at < current_revision {", "if metadata.last_interned_at < Revision::start() {"),
    ('intern-mca-ge', 'Intern', 'src/interned.rs',
     "if metadata.id.generation() > input.generation() {", "if metadata.id.generation() >= input.generation() {"),
    ('structs-restamp-on-increase', 'Structs', 'src/tracked_struct.rs',
     "if current_deps.durability < *durability {", "if current_deps.durability > *durability {"),
    ('structs-update-twice', 'Structs', 'src/tracked_struct.rs',
     "if last_updated_at == Some(zalsa.current_revision()) {", "if last_updated_at != Some(zalsa.current_revision()) {"),
    ('structs-keep-old-durability', 'Structs', 'src/tracked_struct.rs',
     "*durability = current_deps.durability;", "*durability = std::cmp::max(*durability, current_deps.durability);"),
    # the claim protocol (two independently seeded edits changed the `Running` arm of
    # maybe_changed_after_cold::inner into "after waking, answer from whatever memo is in the table")
    ('mca-wake-answers-from-final-memo', 'Verify', 'src/function/maybe_changed_after.rs',
     "                    let _ = blocked_on.block_on(zalsa);\n                    return ColdResult::Retry;",
     "                    let _ = blocked_on.block_on(zalsa);\n"
     "                    if let Some(memo) = memo_slot.get_erased() {\n"
     "                        if !memo.header().may_be_provisional() {\n"
     "                            return ColdResult::Verified(VerifyResult::changed_if(\n"
     "                                memo.header().revisions.changed_at > revision,\n"
     "                            ));\n"
     "                        }\n"
     "                    }\n"
     "                    return ColdResult::Retry;"),
    ('mca-wake-answers-from-any-memo', 'Verify', 'src/function/maybe_changed_after.rs',
     "                    let _ = blocked_on.block_on(zalsa);\n                    return ColdResult::Retry;",
     "                    let _ = blocked_on.block_on(zalsa);\n"
     "                    if let Some(memo) = memo_slot.get_erased() {\n"
     "                        return ColdResult::Verified(VerifyResult::changed_if(\n"
     "                            memo.header().revisions.changed_at > revision,\n"
     "                        ));\n"
     "                    }\n"
     "                    return ColdResult::Retry;"),
    ('mca-retry-answers-unchanged', 'Verify', 'src/function/maybe_changed_after.rs',
     "ColdResult::Retry => None,", "ColdResult::Retry => Some(VerifyResult::unchanged()),"),
    ('fetch-lookup-before-claim', 'Verify', 'src/function/fetch.rs',
     "        let database_key_index = self.database_key_index(id);\n        // Try to claim this query: if someone else has claimed it already, go back and start again.\n",
     "        let database_key_index = self.database_key_index(id);\n        let opt_old_memo = self.get_memo_from_table_for(zalsa, id, memo_ingredient_index);\n"),
    ('fetch-wake-returns-table-memo', 'Verify', 'src/function/fetch.rs',
     "                let _ = blocked_on.block_on(zalsa);\n                return None;",
     "                let _ = blocked_on.block_on(zalsa);\n                return self.get_memo_from_table_for(zalsa, id, memo_ingredient_index);"),
    # reverts of the two fixes b4c96f4 / 35f4330
    ('mca-verified-provisional-by-changed-at', 'Verify', 'src/function/maybe_changed_after.rs',
     "old_header.revisions.changed_at > revision || old_header.may_be_provisional();",
     "old_header.revisions.changed_at > revision;"),
    ('backdate-participant-not-monotone', 'Verify', 'src/function/backdate.rs',
     r"re:\} else if old_memo\.header\.was_cycle_participant\(\).*?revisions\.changed_at = old_memo\.header\.revisions\.changed_at;\s*\}",
     "}"),
    ('backdate-everything-monotone', 'Verify', 'src/function/backdate.rs',
     "} else if old_memo.header.was_cycle_participant()\n            && old_memo.header.revisions.changed_at > revisions.changed_at",
     "} else if old_memo.header.revisions.changed_at > revisions.changed_at"),
    # the wait-for graph (LogicDG)
    ('dg-depends-on-hop-limit', 'DG', 'src/runtime/dependency_graph.rs',
     r"re:while let Some\(q\) = self\.0\.get\(&p\)\.map\(\|edge\| edge\.blocked_on_id\) \{\s*if q == to_id \{\s*return true;\s*\}\s*p = q;\s*\}",
     "for _ in 0..MAX_CHAIN_LEN {\n            let Some(q) = self.0.get(&p).map(|edge| edge.blocked_on_id) else {\n                break;\n            };\n            if q == to_id {\n                return true;\n            }\n            p = q;\n        }"),
    ('dg-depends-on-counter', 'DG', 'src/runtime/dependency_graph.rs',
     r"re:if q == to_id \{\s*return true;\s*\}\s*p = q;",
     "if q == to_id {\n                return true;\n            }\n            hops += 1;\n            if hops > 8 {\n                return false;\n            }\n            p = q;"),
    ('dg-occupied-thread-changed', 'DG', 'src/runtime/dependency_graph.rs',
     r"re:(compared to just updating all dependent threads\.\s*)\(true, true\)",
     r"\1(current_thread != new_owner_thread, true)"),
    # revert of 93e495e: the same-mapping arm returns early whatever thread the owner runs on
    ('dg-same-mapping-always-noop', 'DG', 'src/runtime/dependency_graph.rs',
     r"re:if current_thread == new_owner_thread \{(\s*//[^\n]*|\s*#\[cfg\(salsa_verif\)\]\s*verif_line\(dg, \"noop\", false\);)*\s*return false;\s*\}.*?\(true, false\)",
     "return false;"),
    ('dg-retransfer-registers-again', 'DG', 'src/runtime/dependency_graph.rs',
     r"re:(wrong waiter and leaves the right one blocked on itself\.\s*)\(true, false\)", r"\1(true, true)"),
    ('dg-always-registers-dependent', 'DG', 'src/runtime/dependency_graph.rs',
     "        if new_mapping {\n", "        if true {\n"),
    ('dg-depends-on-tail-false', 'DG', 'src/runtime/dependency_graph.rs',
     "        p == to_id\n    }", "        false\n    }"),
    ('dg-notify-before-store', 'DG', 'src/runtime/dependency_graph.rs',
     r"re:(let edge = self\.edges\.remove\(&id\)\.expect\(\"not blocked\"\);\s*)(self\.wait_results\.insert\(id, wait_result\);)(.*?)(edge\.notify\(\);)",
     r"\1\4\3\2"),
    ('dg-transfer-blocks-without-cycle-test', 'DG', 'src/runtime/dependency_graph.rs',
     r"re:if current_thread != new_owner_thread\s*&& !dg\.depends_on\(new_owner_thread, current_thread\)",
     "if current_thread != new_owner_thread"),
    ('dg-block-cycle-test-reversed', 'DG', 'src/runtime.rs',
     "if dg.depends_on(other_id, thread_id) {", "if dg.depends_on(thread_id, other_id) {"),
    ('dg-release-mutex-before-edge', 'DG', 'src/runtime/dependency_graph.rs',
     r"re:(unsafe \{ me\.add_edge\(from_id, database_key, to_id, cvar\) \};)(.*?)(drop\(query_mutex_guard\);)",
     r"\3\2\1"),
    # revision / durability bookkeeping of writes (LogicRuntime)
    ('rt-report-only-written-slot', 'Runtime', 'src/runtime.rs',
     "self.revisions[1..=durability.index()].fill(new_revision);", "self.revisions[durability.index()] = new_revision;"),
    ('rt-report-exclusive-range', 'Runtime', 'src/runtime.rs',
     "self.revisions[1..=durability.index()].fill(new_revision);", "self.revisions[1..durability.index()].fill(new_revision);"),
    ('rt-report-from-2', 'Runtime', 'src/runtime.rs',
     "self.revisions[1..=durability.index()].fill(new_revision);", "self.revisions[2..=durability.index()].fill(new_revision);"),
    ('rt-last-changed-default-current', 'Runtime', 'src/runtime.rs',
     "None => never_changed_revision(),", "None => self.current_revision(),"),
    ('rt-set-field-reports-new-durability', 'Runtime', 'src/input.rs',
     "runtime.report_tracked_write(*field_durability);", "runtime.report_tracked_write(durability.unwrap_or(*field_durability));"),
    ('rt-set-field-skips-medium', 'Runtime', 'src/input.rs',
     "if *field_durability != Durability::MIN {", "if *field_durability > Durability::MEDIUM {"),
    ('rt-set-field-stamp-after-report', 'Runtime', 'src/input.rs',
     "data.revisions[field_index] = runtime.current_revision();", "data.revisions[field_index] = runtime.last_changed_revision(data.durabilities[field_index]);"),
    ('rt-set-field-asserts-max-of-new', 'Runtime', 'src/input.rs',
     "            data.durabilities[field_index],\n            Durability::NEVER_CHANGE,", "            data.durabilities[field_index],\n            Durability::HIGH,"),
    ('rt-field-mca-ge', 'Runtime', 'src/input/input_field.rs',
     "value.revisions[self.field_index] > revision", "value.revisions[self.field_index] >= revision"),
    ('rt-synthetic-no-new-revision', 'Runtime', 'src/database.rs',
     "        zalsa_mut.new_revision();\n        zalsa_mut.runtime_mut().report_tracked_write(durability);", "        zalsa_mut.runtime_mut().report_tracked_write(durability);"),
    ('rt-add-read-simple-early-return', 'Runtime', 'src/active_query.rs',
     "        self.durability = self.durability.min(durability);\n        self.add_changed_at(revision);",
     "        self.durability = self.durability.min(durability);\n        if durability == Durability::NEVER_CHANGE {\n            return;\n        }\n        self.add_changed_at(revision);"),
    ('rt-add-read-durability-max', 'Runtime', 'src/active_query.rs',
     r"re:(self\.durability = self\.durability\.)min(\(durability\);\s*self\.changed_at = self\.changed_at\.max\(changed_at\);\s*#\[cfg\(feature = \"accumulator\"\)\]\s*let accumulated_inputs)",
     r"\1max\2"),
    ('rt-add-read-record-only-low', 'Runtime', 'src/active_query.rs',
     "let record_input = durability != Durability::NEVER_CHANGE || !cycle_heads.is_empty();",
     "let record_input = durability == Durability::LOW || !cycle_heads.is_empty();"),
    ('rt-untracked-keeps-durability', 'Runtime', 'src/active_query.rs',
     "        self.untracked_read = true;\n        self.durability = Durability::MIN;", "        self.untracked_read = true;"),
    ('rt-untracked-medium', 'Runtime', 'src/active_query.rs',
     "        self.untracked_read = true;\n        self.durability = Durability::MIN;", "        self.untracked_read = true;\n        self.durability = Durability::MEDIUM;"),
    ('rt-new-query-high', 'Runtime', 'src/active_query.rs',
     "            durability: Durability::MAX,\n            changed_at: Revision::start(),", "            durability: Durability::HIGH,\n            changed_at: Revision::start(),"),
    ('rt-revision-start-0', 'Runtime', 'src/revision.rs', "const START: usize = 1;", "const START: usize = 2;"),
]


def sh(cmd, **kw):
    p = subprocess.run(cmd, stdout=subprocess.PIPE, stderr=subprocess.STDOUT, text=True, **kw)
    return p.returncode, p.stdout


def head_sources(dst):
    shutil.rmtree(dst, ignore_errors=True)
    os.makedirs(dst)
    a = subprocess.Popen(['git', '-C', REPO, 'archive', 'HEAD', 'src', 'components/salsa-macro-rules/src'], stdout=subprocess.PIPE)
    subprocess.check_call(['tar', '-x', '-C', dst], stdin=a.stdout)
    a.wait()


def theorems(path):
    res = []
    for ln, line in enumerate(open(path), 1):
        m = re.match(r"^\s*theorem\s+(\S+)", line)
        if m:
            res.append((ln, m.group(1)))
    return res


def lean_check(fam, gen_file, work):
    """compile Gen, glue and Props against the scratch Gen file (a private source tree + olean
    directory in front of LEAN_PATH); returns (stage, broken theorems, first message)"""
    lib = os.path.join(work, 'lib')
    srcroot = os.path.join(work, 'src')
    # Lean resolves a module in the FIRST search-path entry that contains its top-level package,
    # so the private olean directory must be complete: symlinks to the real build products for
    # everything except the three modules that are recompiled here (never write through a link).
    real = os.path.join(LEAN, '.lake', 'build', 'lib', 'lean')
    mine = {'Logic%s' % fam, 'GenLogic%s' % fam, 'GenLogic'}
    for dp, dn, fn in os.walk(os.path.join(real, 'SalsaVerif')):
        rel = os.path.relpath(dp, real)
        os.makedirs(os.path.join(lib, rel), exist_ok=True)
        for f in fn:
            if f.split('.')[0] in mine:
                continue
            os.symlink(os.path.join(dp, f), os.path.join(lib, rel, f))
    for d in ('Gen', 'Proofs', 'Props'):
        os.makedirs(os.path.join(lib, 'SalsaVerif', d), exist_ok=True)
        os.makedirs(os.path.join(srcroot, 'SalsaVerif', d), exist_ok=True)
    files = {}
    has_glue = os.path.exists(os.path.join(LEAN, 'SalsaVerif', 'Proofs', 'GenLogic%s.lean' % fam))
    for d, name in (('Gen', 'Logic%s' % fam), ('Proofs', 'GenLogic%s' % fam), ('Props', 'GenLogic%s' % fam)):
        if d == 'Proofs' and not has_glue:
            continue
        dst = os.path.join(srcroot, 'SalsaVerif', d, name + '.lean')
        shutil.copy(gen_file if d == 'Gen' else os.path.join(LEAN, 'SalsaVerif', d, name + '.lean'), dst)
        files[d] = (dst, os.path.join(lib, 'SalsaVerif', d, name + '.olean'))
    def lean(d, emit=True):
        src, out = files[d]
        o = ("-o %s" % out) if emit else ""
        return sh(['lake', 'env', 'sh', '-c', "LEAN_PATH=%s:$LEAN_PATH lean --root=%s %s %s" % (lib, srcroot, o, src)], cwd=LEAN)
    rc, out = lean('Gen')
    if rc != 0:
        return 'generated file does not compile', [], out.strip().split('\n')[0]
    rc, out = lean('Proofs') if has_glue else (0, '')
    if rc != 0:
        return 'glue (Proofs/GenLogic%s) does not compile' % fam, ['*all*'], out.strip().split('\n')[0]
    rc, out = lean('Props', emit=False)
    if rc == 0:
        return 'ok', [], ''
    ths = theorems(files['Props'][0])
    broken = []
    for m in re.finditer(r"GenLogic%s\.lean:(\d+):\d+: error" % fam, out):
        ln = int(m.group(1))
        owner = [n for (l, n) in ths if l <= ln]
        name = owner[-1] if owner else '(line %d)' % ln
        if name not in broken:
            broken.append(name)
    return 'theorems fail', broken, ''


def main():
    args = [a for a in sys.argv[1:] if not a.startswith('--')]
    keep = '--keep' in sys.argv
    base = os.path.join(SCRATCH, 'base')
    head_sources(os.path.join(base, 'repo'))
    gen = [sys.executable, os.path.join(ROOT, 'translate', 'gen.py')]
    rc, out = sh(gen + ['--repo', os.path.join(base, 'repo'), '--out', os.path.join(base, 'gen'),
                        'LogicVerify', 'LogicIntern', 'LogicCycle', 'LogicStructs', 'LogicDG', 'LogicRuntime'])
    if rc != 0:
        print("baseline does not translate:", out); sys.exit(1)
    rows = []
    for mid, fam, path, old, new in MUTATIONS:
        if args and mid not in args:
            continue
        work = os.path.join(SCRATCH, mid)
        shutil.rmtree(work, ignore_errors=True)
        head_sources(os.path.join(work, 'repo'))
        p = os.path.join(work, 'repo', path)
        s = open(p).read()
        if old.startswith('re:'):
            s2, k = re.subn(old[3:], new, s, flags=re.S)
        else:
            s2, k = s.replace(old, new), s.count(old)
        if k != 1:
            rows.append((mid, 'MUTATION DOES NOT APPLY (%d matches)' % k)); continue
        open(p, 'w').write(s2)
        rc, out = sh(gen + ['--repo', os.path.join(work, 'repo'), '--out', os.path.join(work, 'gen'), 'Logic' + fam])
        if rc != 0:
            rows.append((mid, out.strip())); continue
        g = os.path.join(work, 'gen', 'Logic%s.lean' % fam)
        if open(g).read() == open(os.path.join(base, 'gen', 'Logic%s.lean' % fam)).read():
            rows.append((mid, 'NOT DETECTED (generated file unchanged)')); continue
        stage, broken, msg = lean_check(fam, g, work)
        if stage == 'ok':
            rows.append((mid, 'NOT DETECTED (definition changed, all theorems still hold)'))
        else:
            rows.append((mid, 'def changed; %s: %s %s' % (stage, ', '.join(broken), msg)))
        if not keep:
            shutil.rmtree(work, ignore_errors=True)
    for mid, res in rows:
        print("%-38s %s" % (mid, res))


if __name__ == '__main__':
    main()
