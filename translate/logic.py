#!/usr/bin/env python3
"""Decision-logic extraction (`Gen/Logic*.lean`).

The engine models are hand written; the *conditions* they branch on are regenerated from the
Rust source here.  A condition usually sits inside a large impure function, so it is located by
ANCHORS: the function by name (unique in its scope), the expression by a regex over the text
just before it (must match exactly once in the function body), and the token that has to follow
it (`{` of an `if`, `;` of a `let`, `)`/`,` of a call argument).  Just that expression is parsed
with the expression translator of rs2lean.py; paths such as `self.revisions.durability` or
`zalsa.current_revision()` are ATOMS mapped to fields of a small Lean structure of abstract
values declared in the generated file.  Anything that is neither an atom nor in the translated
subset raises TranslateError: a conjunct is never dropped silently.  Small pure functions are
translated whole (`logic_fn`).
"""
import re
from rs2lean import (TranslateError, FnTranslator, TOK, lex, find_fn, match_brace, split_top)


def lex_pos(src):
    """like rs2lean.lex but stops at the first character it cannot lex and also returns the end
    offset of every token (the anchored expression is a prefix of `src`)."""
    out, ends, pos = [], [], 0
    while pos < len(src):
        m = TOK.match(src, pos)
        if not m:
            break
        pos = m.end()
        if m.group('ws'):
            continue
        if m.group('num') is not None:
            txt = m.group('num').replace('_', '')
            v = int(txt, 16) if txt.startswith('0x') else int(txt, 2) if txt.startswith('0b') else int(txt)
            out.append(('num', v, m.group('suf') or None))
        elif m.group('id'):
            out.append(('id', m.group('id')))
        elif m.group('op'):
            out.append(('op', m.group('op')))
        else:
            out.append(('str', m.group('str')))
        ends.append(pos)
    out.append(('eof', None))
    ends.append(pos)
    return out, ends


def norm(s):
    return re.sub(r"\s+", " ", s).strip()


def doc_text(s):
    """text for a Lean doc comment (the project's token scan also reads comments)"""
    return s.replace('-/', '- /').replace('unsafe', 'un_safe')


def fn_body(src, *names):
    """body of fn names[-1] nested in fn names[-2] ...; every name must be unique in its scope"""
    scope = src
    for n in names:
        k = len(re.findall(r"\bfn\s+%s\s*[<(]" % re.escape(n), scope))
        if k != 1:
            raise TranslateError("anchor: fn %s occurs %d times in its scope" % (n, k))
        got = find_fn(scope, n)
        if not got:
            raise TranslateError("anchor: fn %s not found" % n)
        scope = got[2]
    return scope


def impl_fn_body(src, ty, name):
    """body of `fn name` inside an inherent `impl ty {` block"""
    found = []
    for m in re.finditer(r"\bimpl\s+%s\s*\{" % re.escape(ty), src):
        end = match_brace(src, m.end() - 1)
        blk = src[m.end():end - 1]
        if re.search(r"\bfn\s+%s\s*[<(]" % re.escape(name), blk):
            found.append(blk)
    if len(found) != 1:
        raise TranslateError("anchor: %s::%s found in %d impl blocks" % (ty, name, len(found)))
    return fn_body(found[0], name)


def make_atoms(pairs):
    """pairs: (rust text, lean, type[, mode[, extra]]) -> atom list, longest first"""
    res = []
    for p in pairs:
        a = {'toks': lex(p[0])[:-1], 'lean': p[1], 'ty': p[2], 'mode': p[3] if len(p) > 3 else 'val',
             'src': p[0]}
        if len(p) > 4:
            a.update(p[4])
        res.append(a)
    res.sort(key=lambda a: -len(a['toks']))
    return res


class Logic:
    """one generated Logic module: collects structures and defs"""
    def __init__(self, ctx):
        self.ctx = ctx
        ctx.atomics = getattr(ctx, 'atomics', {})

    def structure(self, name, fields, doc):
        """fields: (lean field, lean type, rust expression it stands for)"""
        fl = "\n".join("  /-- `%s` -/\n  %s : %s" % (doc_text(d), f, t) for f, t, d in fields)
        self.ctx.out.append("/-- %s -/\nstructure %s where\n%s\n" % (doc, name, fl))

    def _translator(self, toks, env, atoms):
        tr = FnTranslator(self.ctx, None, toks, env)
        tr.atoms = atoms
        return tr

    def expr(self, body, start_re, follow, lean_name, params, env, atoms, where, ret=None, after=None):
        """translate the expression that starts right after the unique match of `start_re` in
        `body` and is followed by the token `follow` (and then by text matching `after`).
        Returns (lean type, (start, end) span)."""
        ms = list(re.finditer(start_re, body, re.S))
        if len(ms) != 1:
            raise TranslateError("anchor %r matches %d times in %s" % (start_re, len(ms), where))
        start = ms[0].end()
        toks, ends = lex_pos(body[start:])
        tr = self._translator(toks, env, atoms)
        e, ty = tr.expr(no_struct=True, expected=ret)
        nxt = tr.peek()
        if not ((nxt[0] == 'op' and nxt[1] in follow) or (nxt[0] == 'eof' and follow == 'EOF')):
            raise TranslateError("anchor %r in %s: expression is followed by %r, expected %r" % (start_re, where, nxt, follow))
        end = start + ends[tr.i - 1]
        if after is not None and not re.match(r"\s*" + after, body[end:], re.S):
            raise TranslateError("anchor %r in %s: the code after the condition changed: %r" % (
                start_re, where, norm(body[end:end + 60])))
        rust = norm(body[start:end])
        rty = ret or ty
        self.ctx.out.append("/-- `%s`  (%s) -/\ndef %s %s : %s :=\n  %s\n" % (
            doc_text(rust), where, lean_name, params, self.ctx.lean_ty(rty), e))
        return rty, (start, end)

    def arg(self, body, call_re, index, lean_name, params, env, atoms, where, ret=None, nargs=None):
        """translate argument `index` of the unique call matched by `call_re` (which must end
        with the opening parenthesis)."""
        ms = list(re.finditer(call_re, body, re.S))
        if len(ms) != 1:
            raise TranslateError("anchor %r matches %d times in %s" % (call_re, len(ms), where))
        i = ms[0].end() - 1
        if body[i] != '(':
            raise TranslateError("anchor %r must end with '('" % call_re)
        depth, j = 0, i
        while True:
            if body[j] in '([{':
                depth += 1
            elif body[j] in ')]}':
                depth -= 1
                if depth == 0:
                    break
            j += 1
        raw = split_args(body[i + 1:j])
        if nargs is not None and len(raw) != nargs:
            raise TranslateError("%s: call has %d arguments, expected %d" % (where, len(raw), nargs))
        if index >= len(raw):
            raise TranslateError("%s: call has only %d arguments" % (where, len(raw)))
        text = raw[index]
        tr = self._translator(lex(text), env, atoms)
        e, ty = tr.expr(expected=ret)
        if tr.peek()[0] != 'eof':
            raise TranslateError("%s: trailing tokens in argument %r" % (where, text))
        rty = ret or ty
        self.ctx.out.append("/-- argument %d `%s` of `%s…)`  (%s) -/\ndef %s %s : %s :=\n  %s\n" % (
            index, doc_text(norm(text)), doc_text(norm(ms[0].group(0))), where, lean_name, params, self.ctx.lean_ty(rty), e))
        return rty

    def fn(self, body, lean_name, params, env, atoms, where, ret):
        """translate a whole small function body (statements: let, early return, tail expr)"""
        tr = self._translator(lex(body), env, atoms)
        e, ty = tr.block(expected=ret)
        if tr.peek()[0] != 'eof':
            raise TranslateError("trailing tokens in %s" % where)
        self.ctx.out.append("/-- translated from `%s` -/\ndef %s %s : %s :=\n  %s\n" % (
            where, lean_name, params, self.ctx.lean_ty(ret), e))

    def raw(self, text):
        self.ctx.out.append(text)


def split_args(text):
    """top-level comma split (nesting by ([{ only: `<` may be a comparison)"""
    res, depth, cur = [], 0, ''
    for c in text:
        if c in '([{':
            depth += 1
        elif c in ')]}':
            depth -= 1
        if c == ',' and depth == 0:
            res.append(cur.strip()); cur = ''
        else:
            cur += c
    if cur.strip():
        res.append(cur.strip())
    return res


def skeleton(body, spans):
    """the function body with the translated expressions cut out (⟦k⟧), logging removed,
    whitespace removed: pins the control flow around the extracted decisions."""
    out, pos = [], 0
    for k, (a, b) in enumerate(sorted(spans)):
        out.append(body[pos:a]); out.append("⟦%d⟧" % k); pos = b
    out.append(body[pos:])
    s = "".join(out)
    while True:
        m = re.search(r"crate::tracing::\w+!\s*\(", s)
        if not m:
            break
        depth, j = 0, m.end() - 1
        while True:
            if s[j] == '(':
                depth += 1
            elif s[j] == ')':
                depth -= 1
                if depth == 0:
                    break
            j += 1
        k = j + 1
        while k < len(s) and s[k] in ' \t\r\n':
            k += 1
        if k < len(s) and s[k] == ';':
            k += 1
        s = s[:m.start()] + s[k:]
    return re.sub(r"\s+", "", s)


def check_skeleton(body, spans, expected, where):
    got = skeleton(body, spans)
    if got != re.sub(r"\s+", "", expected):
        raise TranslateError("control flow of %s changed: skeleton is now %s" % (where, got))


# ----------------------------------------------------------------------------------------------
# claim protocol: what each outcome of `try_claim` leads to (match arms), and the order of the
# claim and the memo-table reads

MEMO_READ = re.compile(r"\bget_memo_from_table_for\s*\(|\.get_erased\s*\(\s*\)|\.get_memo\s*\(|\bmemo_slot\s*\.\s*get\b")
FINAL_CHECK = re.compile(r"may_be_provisional|validate_may_be_provisional|verify_memo|shallow_verify_memo")


def _close(src, i):
    """src[i] opens a bracket; index of the matching closer (string literals are skipped)"""
    from rs2lean import _skip_literal
    depth, j = 0, i
    while j < len(src):
        k = _skip_literal(src, j)
        if k != j:
            j = k
            continue
        if src[j] in '([{':
            depth += 1
        elif src[j] in ')]}':
            depth -= 1
            if depth == 0:
                return j
        j += 1
    raise TranslateError("unbalanced brackets")


def top_statements(body):
    """top-level statements of a block body: (start offset, text); a statement ends at a `;` at
    depth 0 or at the `}` closing a block opened at depth 0 that is not followed by `else`, `.`,
    `?`, `;` or an operator (i.e. block-like statements `if … {}` / `match … {}` / `loop {}`)."""
    from rs2lean import _skip_literal
    res, depth, start, j, n = [], 0, 0, 0, len(body)
    while j < n:
        k = _skip_literal(body, j)
        if k != j:
            j = k
            continue
        c = body[j]
        if c in '([{':
            depth += 1
        elif c in ')]}':
            depth -= 1
            if c == '}' and depth == 0:
                rest = body[j + 1:].lstrip()
                head = body[start:j + 1].lstrip()
                if not re.match(r"else\b|[.?;,)]|&&|\|\||==|=>", rest) and not re.match(r"let\b|return\b", head):
                    res.append((start, body[start:j + 1])); start = j + 1
        elif c == ';' and depth == 0:
            res.append((start, body[start:j + 1])); start = j + 1
        j += 1
    if body[start:].strip():
        res.append((start, body[start:]))
    return [(s, t) for s, t in res if t.strip()]


def match_arms(text, where):
    """`text` starts with the scrutinee of a `match`; returns (scrutinee, [(pattern, body)], end offset)"""
    from rs2lean import _skip_literal
    depth, j = 0, 0
    while j < len(text):
        k = _skip_literal(text, j)
        if k != j:
            j = k
            continue
        if text[j] in '([':
            depth += 1
        elif text[j] in ')]':
            depth -= 1
        elif text[j] == '{' and depth == 0:
            break
        j += 1
    else:
        raise TranslateError("%s: match without a body" % where)
    scrut, end = text[:j], _close(text, j)
    inner, arms, p = text[j + 1:end], [], 0
    while inner[p:].strip():
        # the first `=>` at depth 0
        q, d = p, 0
        while q < len(inner):
            k = _skip_literal(inner, q)
            if k != q:
                q = k
                continue
            if inner[q] in '([{':
                d += 1
            elif inner[q] in ')]}':
                d -= 1
            elif inner[q:q + 2] == '=>' and d == 0:
                break
            q += 1
        else:
            raise TranslateError("%s: malformed match arm" % where)
        pat = inner[p:q].strip()
        r = q + 2
        while inner[r].isspace():
            r += 1
        if inner[r] == '{':
            e = _close(inner, r)
            body_txt, p = inner[r + 1:e], e + 1
            if inner[p:].lstrip().startswith(','):
                p = inner.index(',', p) + 1
        else:
            e, d = r, 0
            while e < len(inner) and not (inner[e] == ',' and d == 0):
                k = _skip_literal(inner, e)
                if k != e:
                    e = k
                    continue
                d += inner[e] in '([{'
                d -= inner[e] in ')]}'
                e += 1
            body_txt, p = inner[r:e], e + 1
        arms.append((pat, body_txt.strip()))
    return scrut, arms, end + 1


def claim_arm(pattern, body, cycle_handler, where):
    """classify one arm of `match ….try_claim(…)`: returns dict(blocks, ignored, reads, exit, final)
    with exit in continue_/retry/cycle/answerFromMemo; unknown statements raise TranslateError"""
    bound = re.match(r"ClaimResult::\w+\s*\(\s*(\w+)\s*\)", pattern)
    var = bound.group(1) if bound else None
    stmts = [norm(t).rstrip(';').strip() for _, t in top_statements(body)]
    res = {'blocks': False, 'ignored': True, 'reads': len(MEMO_READ.findall(body)), 'exit': None,
           'final': bool(FINAL_CHECK.search(body))}
    for st in stmts:
        m = re.match(r"^(?:let\s+(\w+)\s*=\s*)?(\w+)\s*\.\s*block_on\s*\(\s*zalsa\s*\)$", st)
        if m and m.group(2) == var:
            res['blocks'] = True
            res['ignored'] = m.group(1) in (None, '_')
            continue
        if MEMO_READ.search(st):
            res['exit'] = 'answerFromMemo'
            continue
        if re.match(r"^return\s+(ColdResult::Retry|None)$", st):
            res['exit'] = res['exit'] or 'retry'
            continue
        if var and st == var:
            res['exit'] = res['exit'] or 'continue_'
            continue
        if re.match(r"^return\s+(?:ColdResult::Verified|Some)\s*\(\s*(?:self\s*\.\s*)?%s\s*\(" % cycle_handler, st):
            res['exit'] = res['exit'] or 'cycle'
            continue
        raise TranslateError("%s: unrecognised statement in the arm `%s`: %r" % (where, pattern, st[:80]))
    if res['exit'] is None:
        raise TranslateError("%s: the arm `%s` has no recognised exit" % (where, pattern))
    return res


CLAIM_TYPES = """/-- where an arm of `match ….try_claim(…)` goes -/
inductive ClaimExit where
  /-- the arm evaluates to the claim guard: execution continues below the `match` -/
  | continue_
  /-- the function returns WITHOUT an answer (`ColdResult::Retry` / `None`): the caller's loop starts over -/
  | retry
  /-- the cycle handler answers -/
  | cycle
  /-- the arm reads the memo table and may answer from what it finds (`checksFinal`: some
      `may_be_provisional` / `verify_memo` test occurs in the arm) -/
  | answerFromMemo (checksFinal : Bool)
deriving DecidableEq, Repr

/-- one arm of `match ….try_claim(…)` -/
structure ClaimArm where
  /-- `blocked_on.block_on(zalsa)` is called -/
  blocks : Bool
  /-- its result is not bound to a name (`let _ = …`) -/
  blockResultIgnored : Bool
  /-- number of memo-table reads inside the arm -/
  memoReads : Nat
  exit : ClaimExit
deriving DecidableEq, Repr
"""


def claim_protocol(L, body, prefix, cycle_handler, where):
    """emit `<prefix>_on_claimed/_on_running/_on_cycle`, `<prefix>_claim_arms`,
    `<prefix>_memo_reads_before_claim/_after_claim`, `<prefix>_reentrancy_allowed`"""
    stmts = top_statements(body)
    idx = [i for i, (_, t) in enumerate(stmts) if re.search(r"\btry_claim\s*\(", t)]
    if len(idx) != 1:
        raise TranslateError("%s: %d top-level statements call try_claim" % (where, len(idx)))
    ci = idx[0]
    m = re.match(r"\s*let\s+claim_guard\s*=\s*match\s+", stmts[ci][1])
    if not m:
        raise TranslateError("%s: the claim is no longer `let claim_guard = match ….try_claim(…)`" % where)
    scrut, arms, end = match_arms(stmts[ci][1][m.end():], where)
    if stmts[ci][1][m.end() + end:].strip() != ';':
        raise TranslateError("%s: trailing code after the claim match" % where)
    rm = re.search(r"\btry_claim\s*\((.*)\)\s*$", norm(scrut))
    if not rm or MEMO_READ.search(scrut):
        raise TranslateError("%s: scrutinee of the claim match changed" % where)
    ra = re.search(r"Reentrancy::(Allow|Deny)\s*,?\s*$", rm.group(1))
    if not ra:
        raise TranslateError("%s: reentrancy argument of try_claim changed" % where)
    names = {'Claimed': 'claimed', 'Running': 'running', 'Cycle': 'cycle'}
    seen = []
    for pat, abody in arms:
        pm = re.match(r"^ClaimResult::(\w+)\b", pat)
        if not pm or pm.group(1) not in names or ' if ' in pat or '|' in pat:
            raise TranslateError("%s: unexpected claim arm `%s`" % (where, pat))
        if pm.group(1) in seen:
            raise TranslateError("%s: duplicate claim arm `%s`" % (where, pat))
        seen.append(pm.group(1))
        a = claim_arm(pat, abody, cycle_handler, where)
        ex = a['exit'] if a['exit'] != 'answerFromMemo' else 'answerFromMemo %s' % ('true' if a['final'] else 'false')
        L.raw("/-- arm `%s => %s`  (%s) -/\ndef %s_on_%s : ClaimArm :=\n  { blocks := %s, blockResultIgnored := %s, memoReads := %d, exit := .%s }\n" % (
            doc_text(pat), doc_text(norm(abody))[:160], where, prefix, names[pm.group(1)],
            'true' if a['blocks'] else 'false', 'true' if a['ignored'] else 'false', a['reads'], ex))
    L.raw("/-- number of arms of the claim match (%s) -/\ndef %s_claim_arms : Nat := %d\n" % (where, prefix, len(arms)))
    before = sum(len(MEMO_READ.findall(t)) for _, t in stmts[:ci])
    after = sum(len(MEMO_READ.findall(t)) for _, t in stmts[ci + 1:])
    L.raw("/-- memo-table reads in the statements BEFORE the claim statement (%s) -/\ndef %s_memo_reads_before_claim : Nat := %d\n" % (where, prefix, before))
    L.raw("/-- memo-table reads in the statements AFTER the claim statement (%s) -/\ndef %s_memo_reads_after_claim : Nat := %d\n" % (where, prefix, after))
    L.raw("/-- `try_claim(…, Reentrancy::%s)` (%s) -/\ndef %s_reentrancy_allowed : Bool := %s\n" % (
        ra.group(1), where, prefix, 'true' if ra.group(1) == 'Allow' else 'false'))
    return stmts, ci


def impl_body_re(src, impl_re, where):
    """body of the unique `impl … {` whose header matches `impl_re` (which must end with `\\{`)"""
    ms = list(re.finditer(impl_re, src))
    if len(ms) != 1:
        raise TranslateError("%s: impl header matches %d times" % (where, len(ms)))
    end = match_brace(src, ms[0].end() - 1)
    return src[ms[0].end():end - 1]


def classify_steps(body, classes, where):
    """every top-level statement of `body` must match exactly one of `classes` (name, regex);
    returns the list of names in source order"""
    res = []
    for _, t in top_statements(body):
        st = norm(t)
        hit = [n for n, r in classes if re.search(r, st)]
        if len(hit) != 1:
            raise TranslateError("%s: statement %r matches %d step classes" % (where, st[:80], len(hit)))
        res.append(hit[0])
    return res
