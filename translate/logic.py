#!/usr/bin/env python3
"""Decision-logic extraction (`Gen/Logic*.lean`).

The engine models are hand written; the *conditions* they branch on are regenerated from the
Rust source here.  A condition usually sits inside a large impure function, so it is located by
ANCHORS: the function by name (unique in its scope), the expression by a regex over the text
just before it (must match exactly once in the function body), and the token that has to follow
it (`{` of an `if`, `;` of a `let`, `)`/`,` of a call argument).  Just that expression is parsed
with the expression translator of rs2lean.py; paths such as `self.revisions.durability` or
`zalsa.current_revision()` are ATOMS mapped to fields of a small Lean structure of abstract
values declared in the generated file.  Anything that is neither an atom nor in the translated
subset raises TranslateError: a conjunct is never dropped silently.  Small pure functions are
translated whole (`logic_fn`).
"""
import re
from rs2lean import (TranslateError, FnTranslator, TOK, lex, find_fn, match_brace, split_top)


def lex_pos(src):
    """like rs2lean.lex but stops at the first character it cannot lex and also returns the end
    offset of every token (the anchored expression is a prefix of `src`)."""
    out, ends, pos = [], [], 0
    while pos < len(src):
        m = TOK.match(src, pos)
        if not m:
            break
        pos = m.end()
        if m.group('ws'):
            continue
        if m.group('num') is not None:
            txt = m.group('num').replace('_', '')
            v = int(txt, 16) if txt.startswith('0x') else int(txt, 2) if txt.startswith('0b') else int(txt)
            out.append(('num', v, m.group('suf') or None))
        elif m.group('id'):
            out.append(('id', m.group('id')))
        elif m.group('op'):
            out.append(('op', m.group('op')))
        else:
            out.append(('str', m.group('str')))
        ends.append(pos)
    out.append(('eof', None))
    ends.append(pos)
    return out, ends


def norm(s):
    return re.sub(r"\s+", " ", s).strip()


def doc_text(s):
    """text for a Lean doc comment (the project's token scan also reads comments)"""
    return s.replace('-/', '- /').replace('unsafe', 'un_safe')


def fn_body(src, *names):
    """body of fn names[-1] nested in fn names[-2] ...; every name must be unique in its scope"""
    scope = src
    for n in names:
        k = len(re.findall(r"\bfn\s+%s\s*[<(]" % re.escape(n), scope))
        if k != 1:
            raise TranslateError("anchor: fn %s occurs %d times in its scope" % (n, k))
        got = find_fn(scope, n)
        if not got:
            raise TranslateError("anchor: fn %s not found" % n)
        scope = got[2]
    return scope


def impl_fn_body(src, ty, name):
    """body of `fn name` inside an inherent `impl ty {` block"""
    found = []
    for m in re.finditer(r"\bimpl\s+%s\s*\{" % re.escape(ty), src):
        end = match_brace(src, m.end() - 1)
        blk = src[m.end():end - 1]
        if re.search(r"\bfn\s+%s\s*[<(]" % re.escape(name), blk):
            found.append(blk)
    if len(found) != 1:
        raise TranslateError("anchor: %s::%s found in %d impl blocks" % (ty, name, len(found)))
    return fn_body(found[0], name)


def make_atoms(pairs):
    """pairs: (rust text, lean, type[, mode[, extra]]) -> atom list, longest first"""
    res = []
    for p in pairs:
        a = {'toks': lex(p[0])[:-1], 'lean': p[1], 'ty': p[2], 'mode': p[3] if len(p) > 3 else 'val',
             'src': p[0]}
        if len(p) > 4:
            a.update(p[4])
        res.append(a)
    res.sort(key=lambda a: -len(a['toks']))
    return res


class Logic:
    """one generated Logic module: collects structures and defs"""
    def __init__(self, ctx):
        self.ctx = ctx
        ctx.atomics = getattr(ctx, 'atomics', {})

    def structure(self, name, fields, doc):
        """fields: (lean field, lean type, rust expression it stands for)"""
        fl = "\n".join("  /-- `%s` -/\n  %s : %s" % (doc_text(d), f, t) for f, t, d in fields)
        self.ctx.out.append("/-- %s -/\nstructure %s where\n%s\n" % (doc, name, fl))

    def _translator(self, toks, env, atoms):
        tr = FnTranslator(self.ctx, None, toks, env)
        tr.atoms = atoms
        return tr

    def expr(self, body, start_re, follow, lean_name, params, env, atoms, where, ret=None, after=None):
        """translate the expression that starts right after the unique match of `start_re` in
        `body` and is followed by the token `follow` (and then by text matching `after`).
        Returns (lean type, (start, end) span)."""
        ms = list(re.finditer(start_re, body, re.S))
        if len(ms) != 1:
            raise TranslateError("anchor %r matches %d times in %s" % (start_re, len(ms), where))
        start = ms[0].end()
        toks, ends = lex_pos(body[start:])
        tr = self._translator(toks, env, atoms)
        e, ty = tr.expr(no_struct=True, expected=ret)
        nxt = tr.peek()
        if not (nxt[0] == 'op' and nxt[1] in follow):
            raise TranslateError("anchor %r in %s: expression is followed by %r, expected %r" % (start_re, where, nxt, follow))
        end = start + ends[tr.i - 1]
        if after is not None and not re.match(r"\s*" + after, body[end:], re.S):
            raise TranslateError("anchor %r in %s: the code after the condition changed: %r" % (
                start_re, where, norm(body[end:end + 60])))
        rust = norm(body[start:end])
        rty = ret or ty
        self.ctx.out.append("/-- `%s`  (%s) -/\ndef %s %s : %s :=\n  %s\n" % (
            doc_text(rust), where, lean_name, params, self.ctx.lean_ty(rty), e))
        return rty, (start, end)

    def arg(self, body, call_re, index, lean_name, params, env, atoms, where, ret=None, nargs=None):
        """translate argument `index` of the unique call matched by `call_re` (which must end
        with the opening parenthesis)."""
        ms = list(re.finditer(call_re, body, re.S))
        if len(ms) != 1:
            raise TranslateError("anchor %r matches %d times in %s" % (call_re, len(ms), where))
        i = ms[0].end() - 1
        if body[i] != '(':
            raise TranslateError("anchor %r must end with '('" % call_re)
        depth, j = 0, i
        while True:
            if body[j] in '([{':
                depth += 1
            elif body[j] in ')]}':
                depth -= 1
                if depth == 0:
                    break
            j += 1
        raw = split_args(body[i + 1:j])
        if nargs is not None and len(raw) != nargs:
            raise TranslateError("%s: call has %d arguments, expected %d" % (where, len(raw), nargs))
        if index >= len(raw):
            raise TranslateError("%s: call has only %d arguments" % (where, len(raw)))
        text = raw[index]
        tr = self._translator(lex(text), env, atoms)
        e, ty = tr.expr(expected=ret)
        if tr.peek()[0] != 'eof':
            raise TranslateError("%s: trailing tokens in argument %r" % (where, text))
        rty = ret or ty
        self.ctx.out.append("/-- argument %d `%s` of `%s…)`  (%s) -/\ndef %s %s : %s :=\n  %s\n" % (
            index, doc_text(norm(text)), doc_text(norm(ms[0].group(0))), where, lean_name, params, self.ctx.lean_ty(rty), e))
        return rty

    def fn(self, body, lean_name, params, env, atoms, where, ret):
        """translate a whole small function body (statements: let, early return, tail expr)"""
        tr = self._translator(lex(body), env, atoms)
        e, ty = tr.block(expected=ret)
        if tr.peek()[0] != 'eof':
            raise TranslateError("trailing tokens in %s" % where)
        self.ctx.out.append("/-- translated from `%s` -/\ndef %s %s : %s :=\n  %s\n" % (
            where, lean_name, params, self.ctx.lean_ty(ret), e))

    def raw(self, text):
        self.ctx.out.append(text)


def split_args(text):
    """top-level comma split (nesting by ([{ only: `<` may be a comparison)"""
    res, depth, cur = [], 0, ''
    for c in text:
        if c in '([{':
            depth += 1
        elif c in ')]}':
            depth -= 1
        if c == ',' and depth == 0:
            res.append(cur.strip()); cur = ''
        else:
            cur += c
    if cur.strip():
        res.append(cur.strip())
    return res


def skeleton(body, spans):
    """the function body with the translated expressions cut out (⟦k⟧), logging removed,
    whitespace removed: pins the control flow around the extracted decisions."""
    out, pos = [], 0
    for k, (a, b) in enumerate(sorted(spans)):
        out.append(body[pos:a]); out.append("⟦%d⟧" % k); pos = b
    out.append(body[pos:])
    s = "".join(out)
    while True:
        m = re.search(r"crate::tracing::\w+!\s*\(", s)
        if not m:
            break
        depth, j = 0, m.end() - 1
        while True:
            if s[j] == '(':
                depth += 1
            elif s[j] == ')':
                depth -= 1
                if depth == 0:
                    break
            j += 1
        k = j + 1
        while k < len(s) and s[k] in ' \t\r\n':
            k += 1
        if k < len(s) and s[k] == ';':
            k += 1
        s = s[:m.start()] + s[k:]
    return re.sub(r"\s+", "", s)


def check_skeleton(body, spans, expected, where):
    got = skeleton(body, spans)
    if got != re.sub(r"\s+", "", expected):
        raise TranslateError("control flow of %s changed: skeleton is now %s" % (where, got))
