#!/usr/bin/env python3
"""rs2lean — translator T of DESIGN.md §0.

Re-reads the listed Rust source files of /repo on every run, extracts the
listed constants and the bodies of the listed (mostly `const`) functions and
translates them into Lean 4 definitions over `Nat` (fixed-width wrap-around made
explicit with `% 2^w`), `Bool`, `Option` and plain structures.

The accepted Rust subset is deliberately small; anything outside it raises
TranslateError, which the check driver reports as "obligation no longer shown".
Python stdlib only.
"""
import re
import sys
import os

class TranslateError(Exception):
    pass

# ----------------------------------------------------------------------------
# lexer
TOK = re.compile(r"""
    (?P<ws>\s+|//[^\n]*|/\*.*?\*/)
  | (?P<num>0x[0-9a-fA-F_]+|0b[01_]+|[0-9][0-9_]*)(?P<suf>(?:u8|u16|u32|u64|usize|i32)?)
  | (?P<id>[A-Za-z_][A-Za-z0-9_]*!?)
  | (?P<op><<=|>>=|\|=|&=|\^=|\+=|-=|<<|>>|<=|>=|==|!=|&&|\|\||->|=>|::|\.\.|[-+*/%&|^!<>=.,;:(){}\[\]#?'])
  | (?P<str>"(?:[^"\\]|\\.)*")
""", re.X | re.S)

def lex(src):
    out = []
    pos = 0
    while pos < len(src):
        m = TOK.match(src, pos)
        if not m:
            raise TranslateError("cannot lex at: %r" % src[pos:pos + 30])
        pos = m.end()
        if m.group('ws'):
            continue
        if m.group('num') is not None:
            txt = m.group('num').replace('_', '')
            if txt.startswith('0x'):
                v = int(txt, 16)
            elif txt.startswith('0b'):
                v = int(txt, 2)
            else:
                v = int(txt)
            out.append(('num', v, m.group('suf') or None))
        elif m.group('id'):
            out.append(('id', m.group('id')))
        elif m.group('op'):
            out.append(('op', m.group('op')))
        else:
            out.append(('str', m.group('str')))
    out.append(('eof', None))
    return out

# ----------------------------------------------------------------------------
# source extraction
def strip_comments(src):
    src = re.sub(r"//[^\n]*", "", src)
    return src

# Verification hooks in /repo are add-only code guarded by `#[cfg(salsa_verif)]`; with the guard
# off nothing changes, so the translator must not see them.
_VERIF_ON = re.compile(r"#\[\s*cfg\s*\(\s*salsa_verif\s*\)\s*\]")
_VERIF_OFF = re.compile(r"#\[\s*cfg\s*\(\s*not\s*\(\s*salsa_verif\s*\)\s*\)\s*\]")
_VERIF_MACRO = re.compile(r"\bcfg!\s*\(\s*salsa_verif\s*\)")
_CHAR_LIT = re.compile(r"'(?:\\(?:x[0-9a-fA-F]{2}|u\{[0-9a-fA-F_]+\}|.)|[^\\'\n])'")
_RAW_STR = re.compile(r"\bb?r(#*)\"")
_ITEM_KW = ('fn', 'pub', 'mod', 'const', 'unsafe', 'impl', 'struct', 'enum', 'use', 'static', 'type',
            'trait', 'extern', 'async', 'macro_rules')

def _skip_literal(src, i):
    """if a string / raw string / char literal / block comment starts at i, the index after it; else i"""
    c = src[i]
    if c == '"' or (c == 'b' and src[i:i + 2] == 'b"'):
        j = i + (2 if c == 'b' else 1)
        while j < len(src) and src[j] != '"':
            j += 2 if src[j] == '\\' else 1
        return j + 1
    if c in 'rb':
        m = _RAW_STR.match(src, i)
        if m and (i == 0 or not (src[i - 1].isalnum() or src[i - 1] == '_')):
            end = src.find('"' + m.group(1), m.end())
            return len(src) if end < 0 else end + 1 + len(m.group(1))
    if c == "'":
        m = _CHAR_LIT.match(src, i)
        return m.end() if m else i + 1          # else: a lifetime
    if c == '/' and src[i:i + 2] == '/*':
        end = src.find('*/', i + 2)
        return len(src) if end < 0 else end + 2
    return i

def _guarded_end(src, i):
    """src[i:] starts a construct guarded by `#[cfg(salsa_verif)]` (a statement, block, item, struct
    field or match arm); returns the index just after it.  It ends at a `;` at bracket depth 0 or
    at the `}` closing the first `{…}` opened at depth 0 (plus a directly following `;` / `,`, and
    continuing through `else` chains); a `let` only at its `;`; a field `name: …` also at a `,` at
    depth 0; and in any case before a closing bracket of the enclosing construct."""
    n = len(src)
    while i < n and src[i].isspace():
        i += 1
    head = re.match(r"[A-Za-z_][A-Za-z0-9_]*", src[i:])
    word = head.group(0) if head else ''
    is_let = word == 'let'
    is_field = bool(head) and word not in _ITEM_KW and re.match(r"\s*:(?!:)", src[i + len(word):]) is not None
    depth, opened_block, angle = 0, False, 0
    j = i
    while j < n:
        k = _skip_literal(src, j)
        if k != j:
            j = k
            continue
        c = src[j]
        if c in '([{':
            if c == '{' and depth == 0:
                opened_block = True
            depth += 1
        elif c in ')]}':
            if depth == 0:
                return j                      # end of the enclosing construct
            depth -= 1
            if c == '}' and depth == 0 and opened_block and not is_let:
                k = j + 1
                while k < n and src[k].isspace():
                    k += 1
                if re.match(r"else\b", src[k:]):
                    j = k + 4
                    opened_block = False
                    continue
                if k < n and src[k] in ';,':
                    return k + 1
                return j + 1
        elif c == ';' and depth == 0:
            return j + 1
        elif is_field and c == '<' and j > 0 and (src[j - 1].isalnum() or src[j - 1] in '_:'):
            angle += 1                        # generic arguments of the field's type (`Foo<A, B>`)
        elif is_field and c == '>' and angle > 0 and src[j - 1] not in '-=':
            angle -= 1
        elif c == ',' and depth == 0 and angle == 0 and is_field:
            return j + 1
        j += 1
    return n

def strip_verif_hooks(src):
    """remove everything guarded by `#[cfg(salsa_verif)]`, keep what is guarded by
    `#[cfg(not(salsa_verif))]` (without the attribute), read `cfg!(salsa_verif)` as `false`"""
    out, pos = [], 0
    while True:
        m = _VERIF_ON.search(src, pos)
        if not m:
            out.append(src[pos:])
            break
        out.append(src[pos:m.start()])
        pos = _guarded_end(src, m.end())
    res = "".join(out)
    res = _VERIF_OFF.sub("", res)
    res = _VERIF_MACRO.sub("false", res)
    left = re.search(r"[^\n]*\bcfg\w*!?\s*[\[(][^\n]*\bsalsa_verif\b[^\n]*", res)
    if left:
        raise TranslateError("unsupported use of the salsa_verif guard: %r" % left.group(0).strip())
    return res

def match_brace(src, i):
    """src[i] == '{' ; returns index after the matching '}'"""
    depth = 0
    j = i
    while j < len(src):
        c = src[j]
        if c == '{':
            depth += 1
        elif c == '}':
            depth -= 1
            if depth == 0:
                return j + 1
        j += 1
    raise TranslateError("unbalanced braces")

def find_impl_blocks(src, ty):
    """all bodies of `impl Ty {` (inherent impls, no generics needed)"""
    res = []
    for m in re.finditer(r"\bimpl\s+%s\s*\{" % re.escape(ty), src):
        end = match_brace(src, m.end() - 1)
        res.append(src[m.end():end - 1])
    return res

def find_fn(src, name):
    m = re.search(r"\bfn\s+%s\s*(?:<[^>]*>)?\s*\(" % re.escape(name), src)
    if not m:
        return None
    # params up to matching paren
    i = m.end() - 1
    depth = 0
    j = i
    while True:
        if src[j] == '(':
            depth += 1
        elif src[j] == ')':
            depth -= 1
            if depth == 0:
                break
        j += 1
    params = src[i + 1:j]
    k = src.index('{', j)
    ret = src[j + 1:k].strip()
    if ret.startswith('->'):
        ret = ret[2:].strip()
    else:
        ret = '()'
    end = match_brace(src, k)
    return params, ret, src[k + 1:end - 1]

def find_const(src, name):
    m = re.search(r"\bconst\s+%s\s*:\s*([A-Za-z0-9_]+)\s*=\s*([^;]+);" % re.escape(name), src)
    if not m:
        return None
    return m.group(1), m.group(2)

def find_enum(src, name, enums=None):
    m = re.search(r"\benum\s+%s\s*\{" % re.escape(name), src)
    if not m:
        return None
    end = match_brace(src, m.end() - 1)
    body = src[m.end():end - 1]
    body = re.sub(r"#\[[^\]]*\]", "", body)
    variants = []
    nxt = 0
    for part in body.split(','):
        part = part.strip()
        if not part:
            continue
        mm = re.match(r"^([A-Za-z0-9_]+)\s*(?:=\s*(.+))?$", part)
        if not mm:
            raise TranslateError("enum %s: cannot parse variant %r" % (name, part))
        if mm.group(2) is not None:
            t = lex(mm.group(2))
            if t[0][0] == 'num' and t[1][0] == 'eof':
                nxt = t[0][1]
            else:
                # `Other::Variant as u8`
                m2 = re.match(r"^([A-Za-z0-9_]+)::([A-Za-z0-9_]+)\s+as\s+u8$", mm.group(2).strip())
                if not (m2 and enums is not None and m2.group(1) in enums and m2.group(2) in enums[m2.group(1)]):
                    raise TranslateError("enum %s: unsupported discriminant %r" % (name, mm.group(2)))
                nxt = enums[m2.group(1)][m2.group(2)]
        variants.append((mm.group(1), nxt))
        nxt += 1
    return variants

# ----------------------------------------------------------------------------
# types
WIDTH = {'u8': 8, 'u16': 16, 'u32': 32, 'u64': 64, 'usize': 64}

class Ctx:
    def __init__(self):
        self.newtypes = {}     # name -> base int type
        self.structs = {}      # name -> [(field, type)]
        self.consts = {}       # (Type or None, NAME) -> (lean name, type)
        self.fns = {}          # (Type or None, name) -> (lean name, [param types], ret type)
        self.enums = {}        # name -> {variant: value}
        self.out = []

    def base(self, ty):
        seen = 0
        while ty in self.newtypes and seen < 5:
            ty = self.newtypes[ty]
            seen += 1
        return ty

    def width(self, ty):
        b = self.base(ty)
        if b not in WIDTH:
            raise TranslateError("not an integer type: %s" % ty)
        return WIDTH[b]

    def lean_ty(self, ty):
        ty = ty.strip()
        b = self.base(ty)
        if b in WIDTH:
            return 'Nat'
        if b == 'bool':
            return 'Bool'
        if b.startswith('Option<'):
            return '(Option %s)' % self.lean_ty(b[7:-1])
        if b.startswith('('):
            parts = split_top(b[1:-1])
            return '(' + ' × '.join(self.lean_ty(p) for p in parts) + ')'
        if b in self.structs:
            return b
        if b in self.enums:
            return 'Nat'
        raise TranslateError("unknown type %s" % ty)

def split_top(s):
    parts, depth, cur = [], 0, ''
    for c in s:
        if c in '(<[':
            depth += 1
        elif c in ')>]':
            depth -= 1
        if c == ',' and depth == 0:
            parts.append(cur.strip())
            cur = ''
        else:
            cur += c
    if cur.strip():
        parts.append(cur.strip())
    return parts

# ----------------------------------------------------------------------------
# parser / translator of function bodies
BINPREC = {
    '||': 1, '&&': 2,
    '==': 3, '!=': 3, '<': 3, '>': 3, '<=': 3, '>=': 3,
    '|': 4, '^': 5, '&': 6, '<<': 7, '>>': 7, '+': 8, '-': 8, '*': 9, '/': 9,
}

class FnTranslator:
    def __init__(self, ctx, self_ty, toks, env):
        self.ctx = ctx
        self.self_ty = self_ty
        self.toks = toks
        self.i = 0
        self.env = dict(env)   # var -> (lean expr, type)
        # decision-logic extraction (translate/logic.py): token sequences standing for abstract
        # values.  Each atom: dict(toks=[...], lean=str, ty=str, mode='val'|'app'|'skip'|'call',
        # args=[...] for mode 'call').  Longest match first.
        self.atoms = []

    def try_atom(self):
        for a in self.atoms:
            n = len(a['toks'])
            if self.toks[self.i:self.i + n] != a['toks']:
                continue
            self.i += n
            mode = a.get('mode', 'val')
            if mode == 'val':
                if self.at_op('('):
                    raise TranslateError("abstract value %s is called like a function" % a['lean'])
                return (a['lean'], a['ty'])
            if mode == 'app':
                args = self.args()
                if len(args) != a.get('arity', 1):
                    raise TranslateError("arity of %s changed" % a['lean'])
                return ("(%s %s)" % (a['lean'], ' '.join(x[0] for x in args)), a['ty'])
            if mode == 'skip':
                if not self.at_op('('):
                    raise TranslateError("%s: expected a call" % a['lean'])
                self.skip_parens()
                return (a['lean'], a['ty'])
            if mode == 'call':
                raw = self.raw_args()
                if len(raw) != len(a['args']):
                    raise TranslateError("call of %s: %d arguments, expected %d" % (a['lean'], len(raw), len(a['args'])))
                out = []
                for spec, toks in zip(a['args'], raw):
                    if spec == '_':
                        if len(toks) > 3 or any(t[0] != 'id' and t not in (('op', '&'), ('op', '.')) for t in toks):
                            raise TranslateError("call of %s: context argument is not a plain handle" % a['lean'])
                        continue
                    sub = FnTranslator(self.ctx, self.self_ty, toks + [('eof', None)], self.env)
                    sub.atoms = self.atoms
                    e, _ = sub.expr()
                    if sub.peek()[0] != 'eof':
                        raise TranslateError("call of %s: trailing tokens in argument" % a['lean'])
                    out.append(e)
                return ("(%s)" % ' '.join([a['lean']] + out), a['ty'])
            raise TranslateError("bad atom mode")
        return None

    def raw_args(self):
        """token lists of the arguments of a call (cfg(feature = "detailed-trace") arguments dropped)"""
        self.expect_op('(')
        depth, cur, out = 1, [], []
        while True:
            t = self.next()
            if t[0] == 'eof':
                raise TranslateError("unterminated call")
            if t[0] == 'op' and t[1] in '([{':
                depth += 1
            elif t[0] == 'op' and t[1] in ')]}':
                depth -= 1
                if depth == 0:
                    break
            if t == ('op', ',') and depth == 1:
                out.append(cur); cur = []
            else:
                cur.append(t)
        if cur:
            out.append(cur)
        trace_attr = lex('#[cfg(feature = "detailed-trace")]')[:-1]
        res = []
        for a in out:
            if a[:len(trace_attr)] == trace_attr:
                continue
            if a and a[0] == ('op', '#'):
                raise TranslateError("attribute on call argument")
            res.append(a)
        return res

    def skip_trace_attr(self):
        """`#[cfg(feature = "detailed-trace")]`: returns True if skipped"""
        trace_attr = lex('#[cfg(feature = "detailed-trace")]')[:-1]
        if self.toks[self.i:self.i + len(trace_attr)] == trace_attr:
            self.i += len(trace_attr)
            return True
        return False

    def skip_statement(self):
        depth = 0
        while True:
            t = self.next()
            if t[0] == 'eof':
                raise TranslateError("unterminated statement")
            if t[0] == 'op' and t[1] in '([{':
                depth += 1
            elif t[0] == 'op' and t[1] in ')]}':
                depth -= 1
            elif t == ('op', ';') and depth == 0:
                return

    # token helpers
    def peek(self, k=0):
        return self.toks[self.i + k]
    def next(self):
        t = self.toks[self.i]
        self.i += 1
        return t
    def at_op(self, op):
        t = self.peek()
        return t[0] == 'op' and t[1] == op
    def at_id(self, name=None):
        t = self.peek()
        return t[0] == 'id' and (name is None or t[1] == name)
    def expect_op(self, op):
        t = self.next()
        if t != ('op', op):
            raise TranslateError("expected %r, got %r" % (op, t))
    def expect_id(self):
        t = self.next()
        if t[0] != 'id':
            raise TranslateError("expected identifier, got %r" % (t,))
        return t[1]

    # ---- blocks: returns (lean, type)
    def block(self, expected=None):
        """parse statements until '}' or eof; result is a Lean expression"""
        lets = []
        result = None
        while not (self.at_op('}') or self.peek()[0] == 'eof'):
            if self.at_op('#'):
                # a statement that only exists with the `detailed-trace` feature (logging)
                if not self.skip_trace_attr():
                    raise TranslateError("attribute on a statement")
                self.skip_statement()
                continue
            if self.at_id('crate') and self.peek(1) == ('op', '::') and self.peek(2) == ('id', 'tracing') \
                    and self.peek(3) == ('op', '::') and self.peek(4)[0] == 'id' \
                    and self.peek(4)[1] in ('trace!', 'debug!', 'info!', 'warn!'):
                self.i += 5
                self.skip_parens()
                if self.at_op(';'):
                    self.next()
                continue
            if self.at_id('let') and self.peek(1) == ('id', 'Some') and self.peek(2) == ('op', '('):
                # `let Some(v) = e else { return r; };  rest`
                self.i += 3
                name = self.expect_id()
                self.expect_op(')')
                self.expect_op('=')
                e, ty = self.expr(no_struct=True)
                if not ty.startswith('Option<'):
                    raise TranslateError("let-else on non-Option %s" % ty)
                if not self.at_id('else'):
                    raise TranslateError("let Some(..) without else")
                self.next()
                self.expect_op('{')
                if not self.at_id('return'):
                    raise TranslateError("let-else must return")
                self.next()
                r, rty = self.expr(expected=expected)
                self.expect_op(';')
                self.expect_op('}')
                self.expect_op(';')
                v = self.fresh(name)
                self.env[name] = (v, ty[7:-1])
                rest, rest_ty = self.block(expected=expected or rty)
                body = "(match %s with\n    | none => %s\n    | some %s => %s)" % (e, r, v, rest)
                return self.wrap(lets, body), rest_ty
            if self.at_id('let'):
                self.next()
                mut = False
                if self.at_id('mut'):
                    self.next(); mut = True
                name = self.expect_id()
                ann = None
                if self.at_op(':'):
                    self.next()
                    ann = self.type_()
                self.expect_op('=')
                e, ty = self.expr(expected=ann)
                if ann:
                    ty = ann
                self.expect_op(';')
                v = self.fresh(name)
                lets.append("let %s := %s" % (v, e))
                self.env[name] = (v, ty)
                continue
            if self.at_id('debug_assert!') or self.at_id('debug_assert_eq!') or self.at_id('assert!'):
                name = self.next()[1]
                if name == 'assert!':
                    raise TranslateError("assert! is a partiality the subset does not model")
                self.skip_parens()
                if self.at_op(';'):
                    self.next()
                continue
            if self.at_id('if'):
                # either `if c { return X; }` statement or tail if-expression
                save = self.i
                self.next()
                c, _ = self.expr(no_struct=True)
                self.expect_op('{')
                if self.at_id('return'):
                    self.next()
                    r, rty = self.expr(expected=expected)
                    self.expect_op(';')
                    self.expect_op('}')
                    if self.at_id('else'):
                        raise TranslateError("early return with else")
                    rest, rest_ty = self.block(expected=expected or rty)
                    body = "if %s then %s else\n    %s" % (c, r, rest)
                    return self.wrap(lets, body), rest_ty
                self.i = save
            if self.at_id('return'):
                self.next()
                e, ty = self.expr(expected=expected)
                if self.at_op(';'):
                    self.next()
                result = (e, ty)
                continue
            # `self.0 op= e;` compound assignment on the receiver newtype
            if self.at_id('self') and self.peek(1) == ('op', '.') and self.peek(2)[0] == 'num' \
                    and self.peek(3)[0] == 'op' and self.peek(3)[1] in ('&=', '|=', '^='):
                self.next(); self.next(); self.next()
                op = self.next()[1][0]
                sv, sty = self.env['self']
                rhs, _ = self.expr(expected=sty)
                self.expect_op(';')
                v = self.fresh('self')
                lets.append("let %s := %s" % (v, self.binop(op, (sv, sty), (rhs, sty))[0]))
                self.env['self'] = (v, sty)
                continue
            e, ty = self.expr(expected=expected)
            if self.at_op(';'):
                raise TranslateError("expression statement not supported: %s" % e)
            result = (e, ty)
        if result is None:
            raise TranslateError("block without a value")
        return self.wrap(lets, result[0]), result[1]

    def wrap(self, lets, body):
        if not lets:
            return body
        return "(" + ";\n    ".join(lets) + ";\n    " + body + ")"

    _n = 0
    def fresh(self, name):
        FnTranslator._n += 1
        base = {'self': 'self_'}.get(name, name)
        return "%s%d" % (base, FnTranslator._n)

    def skip_parens(self):
        t = self.next()
        if t[0] != 'op' or t[1] not in '([{':
            raise TranslateError("macro without delimiters")
        depth = 1
        while depth:
            t = self.next()
            if t[0] == 'eof':
                raise TranslateError("unterminated macro")
            if t[0] == 'op' and t[1] in '([{':
                depth += 1
            elif t[0] == 'op' and t[1] in ')]}':
                depth -= 1

    def type_(self):
        # simple path types, Option<T>, tuples
        if self.at_op('('):
            self.next()
            parts = []
            while not self.at_op(')'):
                parts.append(self.type_())
                if self.at_op(','):
                    self.next()
            self.next()
            return '(' + ','.join(parts) + ')'
        name = self.expect_id()
        while self.at_op('::'):
            self.next()
            name = self.expect_id()
        if name == 'Self':
            name = self.self_ty
        if self.at_op('<'):
            self.next()
            inner = self.type_()
            self.expect_op('>')
            return '%s<%s>' % (name, inner)
        return name

    # ---- expressions
    def expr(self, prec=0, no_struct=False, expected=None):
        lhs = self.unary(no_struct, expected)
        while True:
            t = self.peek()
            if t[0] == 'id' and t[1] == 'as':
                self.next()
                ty = self.type_()
                lhs = self.cast(lhs, ty)
                continue
            if t[0] == 'op' and t[1] in BINPREC and BINPREC[t[1]] > prec:
                op = t[1]
                self.next()
                rhs = self.expr(BINPREC[op], no_struct, expected=lhs[1] if op not in ('<<', '>>') else None)
                lhs = self.binop(op, lhs, rhs)
                continue
            return lhs

    def cast(self, v, ty):
        e, fty = v
        fb, tb = self.ctx.base(fty), self.ctx.base(ty)
        if fb in self.ctx.enums:
            return (e, ty)
        if fb == 'bool':
            return ("(if %s then 1 else 0)" % e, ty)
        if fb in WIDTH and tb in WIDTH:
            if WIDTH[tb] < WIDTH[fb]:
                return ("(%s %% 2^%d)" % (e, WIDTH[tb]), ty)
            return (e, ty)
        raise TranslateError("unsupported cast %s as %s" % (fty, ty))

    def binop(self, op, a, b):
        (x, tx), (y, ty) = a, b
        if op in ('||', '&&'):
            return ("(%s %s %s)" % (x, op, y), 'bool')
        if op in ('==', '!=', '<', '>', '<=', '>='):
            lop = {'==': '=', '!=': '≠', '<': '<', '>': '>', '<=': '≤', '>=': '≥'}[op]
            return ("decide (%s %s %s)" % (x, lop, y), 'bool')
        if self.ctx.base(tx) == 'bool':
            raise TranslateError("bit operation on bool")
        w = self.ctx.width(tx)
        if op == '|':
            return ("(%s ||| %s)" % (x, y), tx)
        if op == '&':
            return ("(%s &&& %s)" % (x, y), tx)
        if op == '^':
            return ("(%s ^^^ %s)" % (x, y), tx)
        if op == '<<':
            return ("((%s <<< %s) %% 2^%d)" % (x, y, w), tx)
        if op == '>>':
            return ("(%s >>> %s)" % (x, y), tx)
        if op == '+':
            return ("((%s + %s) %% 2^%d)" % (x, y, w), tx)
        if op == '-':
            return ("((%s + 2^%d - %s) %% 2^%d)" % (x, w, y, w), tx)
        if op == '*':
            return ("((%s * %s) %% 2^%d)" % (x, y, w), tx)
        if op == '/':
            return ("(%s / %s)" % (x, y), tx)
        raise TranslateError("operator %s" % op)

    def unary(self, no_struct, expected):
        if self.at_op('!'):
            self.next()
            e, ty = self.unary(no_struct, expected)
            if self.ctx.base(ty) == 'bool':
                return ("(!%s)" % e, ty)
            w = self.ctx.width(ty)
            return ("(2^%d - 1 - %s)" % (w, e), ty)
        if self.atoms and (self.at_op('*') or self.at_op('&')):
            # deref / shared borrow in operand position: same value (only in decision extraction;
            # an atom that starts with the same token takes precedence)
            save = self.i
            got = self.try_atom()
            if got is not None:
                return self.postfix(got)
            self.i = save
            self.next()
            return self.unary(no_struct, expected)
        return self.postfix(self.primary(no_struct, expected))

    def postfix(self, v):
        while True:
            if self.at_op('.'):
                self.next()
                t = self.next()
                if t[0] == 'num':            # tuple / newtype field
                    e, ty = v
                    if ty in self.ctx.newtypes:
                        v = (e, self.ctx.newtypes[ty])
                    elif ty.startswith('('):
                        parts = split_top(ty[1:-1])
                        v = ("%s.%d" % (e, t[1] + 1), parts[t[1]])
                    else:
                        raise TranslateError("tuple field on %s" % ty)
                    continue
                name = t[1]
                if name == 'is_some_and' and self.at_op('(') and self.peek(1) == ('op', '|'):
                    # `opt.is_some_and(|v| cond)`
                    e, ty = v
                    if not ty.startswith('Option<'):
                        raise TranslateError("is_some_and on %s" % ty)
                    self.next(); self.next()
                    pname = self.expect_id()
                    self.expect_op('|')
                    pv = self.fresh(pname)
                    saved = self.env.get(pname)
                    self.env[pname] = (pv, ty[7:-1])
                    body, _ = self.expr()
                    if saved is None:
                        del self.env[pname]
                    else:
                        self.env[pname] = saved
                    self.expect_op(')')
                    v = ("(match %s with | some %s => %s | none => false)" % (e, pv, body), 'bool')
                    continue
                if self.at_op('('):
                    args = self.args()
                    v = self.method(v, name, args)
                else:
                    e, ty = v
                    st = self.ctx.structs.get(self.ctx.base(ty)) or self.ctx.structs.get(ty)
                    if st is None:
                        raise TranslateError("field .%s on non-struct %s" % (name, ty))
                    fty = dict(st).get(name)
                    if fty is None:
                        raise TranslateError("no field %s in %s" % (name, ty))
                    v = ("%s.%s" % (e, lean_field(name)), fty)
                continue
            if self.at_op('['):
                self.next()
                idx = self.next()
                self.expect_op(']')
                e, ty = v
                if ty.startswith('bytes:') and idx[0] == 'num':
                    v = ("((%s >>> %d) %% 256)" % (e, 8 * idx[1]), 'u8')
                    continue
                raise TranslateError("indexing")
            return v

    def args(self):
        self.expect_op('(')
        out = []
        while not self.at_op(')'):
            out.append(self.expr())
            if self.at_op(','):
                self.next()
        self.next()
        return out

    def method(self, recv, name, args):
        e, ty = recv
        if name == 'get' and self.ctx.base(ty) in WIDTH and not args:
            return (e, self.ctx.base(ty))
        if name == 'load' and not args and ty in getattr(self.ctx, 'atomics', {}):
            # atomic cell read under the owner's lock / single RMW: the stored value
            return (e, self.ctx.atomics[ty])
        if name in ('is_some', 'is_none') and not args and ty.startswith('Option<'):
            return ("(%s).%s" % (e, 'isSome' if name == 'is_some' else 'isNone'), 'bool')
        if name == 'to_le_bytes' and not args:
            return (e, 'bytes:' + self.ctx.base(ty))
        if name == 'expect' and ty.startswith('Option<'):
            raise TranslateError("expect() is partial")
        key = (ty, name)
        if key not in self.ctx.fns:
            raise TranslateError("call of untranslated method %s::%s" % (ty, name))
        lname, ptys, rty = self.ctx.fns[key]
        return ("(%s %s)" % (lname, ' '.join([e] + [a[0] for a in args])), rty)

    def primary(self, no_struct, expected):
        if self.atoms:
            got = self.try_atom()
            if got is not None:
                return got
        if self.at_id('matches!'):
            # `matches!(e, Enum::A | Enum::B)` over a translated (Nat-valued) enum
            self.next()
            self.expect_op('(')
            e, ety = self.expr()
            self.expect_op(',')
            alts = []
            while True:
                p, pty = self.primary(True, ety)
                if self.ctx.base(pty) not in self.ctx.enums:
                    raise TranslateError("matches!: pattern is not a plain enum variant")
                alts.append("decide (%s = %s)" % (e, p))
                if self.at_op('|'):
                    self.next()
                    continue
                break
            self.expect_op(')')
            return ("(" + " || ".join(alts) + ")", 'bool')
        t = self.next()
        if t[0] == 'num':
            ty = t[2] or (expected if expected and self.ctx.base(expected) in WIDTH else 'u32')
            return (str(t[1]), ty)
        if t == ('op', '('):
            first = self.expr()
            if self.at_op(','):
                items = [first]
                while self.at_op(','):
                    self.next()
                    if self.at_op(')'):
                        break
                    items.append(self.expr())
                self.expect_op(')')
                return ("(" + ", ".join(i[0] for i in items) + ")", '(' + ','.join(i[1] for i in items) + ')')
            self.expect_op(')')
            return ("(%s)" % first[0], first[1])
        if t == ('op', '['):
            items = []
            while not self.at_op(']'):
                items.append(self.expr())
                if self.at_op(','):
                    self.next()
            self.next()
            return (items, 'array')
        if t[0] != 'id':
            raise TranslateError("unexpected token %r" % (t,))
        name = t[1]
        if name == 'Self':
            name = self.self_ty
        if name in ('true', 'false'):
            return (name, 'bool')
        if name == 'unsafe':
            self.expect_op('{')
            r = self.block(expected)
            self.expect_op('}')
            return r
        if name == 'if':
            c, _ = self.expr(no_struct=True)
            self.expect_op('{')
            a, ta = self.block(expected)
            self.expect_op('}')
            if not self.at_id('else'):
                raise TranslateError("if without else as expression")
            self.next()
            self.expect_op('{')
            b, tb = self.block(expected or ta)
            self.expect_op('}')
            return ("(if %s then %s else %s)" % (c, a, b), ta)
        if name == 'None':
            return ("none", expected or 'Option<?>')
        if name == 'Some':
            a = self.args()
            return ("(some %s)" % a[0][0], 'Option<%s>' % a[0][1])
        if name.endswith('!'):
            raise TranslateError("macro %s in expression position" % name)
        # paths
        path = [name]
        while self.at_op('::'):
            self.next()
            path.append(self.expect_id())
        if path[0] == 'Self':
            path[0] = self.self_ty
        if len(path) == 1:
            if name in self.env:
                return self.env[name]
            if self.at_op('(') and name in self.ctx.newtypes:      # newtype constructor
                a = self.args()
                return (a[0][0], name)
            if self.at_op('(') and (None, name) in self.ctx.fns:
                lname, ptys, rty = self.ctx.fns[(None, name)]
                a = self.args()
                return ("(%s %s)" % (lname, ' '.join(x[0] for x in a)), rty)
            if self.at_op('{') and not no_struct and name in self.ctx.structs:
                return self.struct_lit(name)
            if (None, name) in self.ctx.consts:
                ln, ty = self.ctx.consts[(None, name)]
                return (ln, ty)
            raise TranslateError("unknown identifier %s" % name)
        ty, item = '::'.join(path[:-1]), path[-1]
        if ty in WIDTH and item == 'MAX':
            return ("(2^%d - 1)" % WIDTH[ty], ty)
        if ty in WIDTH and item == 'from':
            a = self.args()
            return (a[0][0], ty)
        if ty in WIDTH and item == 'from_le_bytes':
            a = self.args()
            items = a[0][0]
            if not isinstance(items, list) or len(items) * 8 != WIDTH[ty]:
                raise TranslateError("from_le_bytes argument")
            s = " + ".join("%s * 2^%d" % (it[0], 8 * k) for k, it in enumerate(items))
            return ("(%s)" % s, ty)
        if ty == 'NonZeroU32' and item == 'new_unchecked':
            a = self.args()
            return (a[0][0], 'u32')
        if ty in self.ctx.enums and item in self.ctx.enums[ty]:
            return (str(self.ctx.enums[ty][item]), ty)
        if (ty, item) in self.ctx.consts:
            ln, cty = self.ctx.consts[(ty, item)]
            return (ln, cty)
        if (ty, item) in self.ctx.fns:
            lname, ptys, rty = self.ctx.fns[(ty, item)]
            a = self.args()
            return ("(%s %s)" % (lname, ' '.join(x[0] for x in a)), rty)
        if item in ('new', 'new_unchecked') and ty in self.ctx.newtypes and self.at_op('('):
            # validated/unvalidated newtype constructors: value unchanged (validation is a
            # precondition stated in the theorems)
            a = self.args()
            return (a[0][0], ty)
        raise TranslateError("unknown path %s::%s" % (ty, item))

    def struct_lit(self, name):
        self.expect_op('{')
        fields = {}
        while not self.at_op('}'):
            f = self.expect_id()
            if self.at_op(':'):
                self.next()
                fty = dict(self.ctx.structs[name]).get(f)
                e, _ = self.expr(expected=fty)
            else:
                e, _ = self.env[f]
            fields[f] = e
            if self.at_op(','):
                self.next()
        self.next()
        missing = [f for f, _ in self.ctx.structs[name] if f not in fields]
        if missing:
            raise TranslateError("struct literal %s misses %s" % (name, missing))
        body = ", ".join("%s := %s" % (lean_field(f), fields[f]) for f, _ in self.ctx.structs[name])
        return ("({ %s } : %s)" % (body, name), name)

def lean_field(f):
    return {'index': 'index', 'generation': 'generation'}.get(f, f)

# ----------------------------------------------------------------------------
# driver
def translate_fn(ctx, src, self_ty, name, lean_name, notes):
    scopes = find_impl_blocks(src, self_ty) if self_ty else [src]
    got = None
    for sc in scopes:
        got = find_fn(sc, name)
        if got:
            break
    if not got:
        raise TranslateError("function %s::%s not found" % (self_ty, name))
    params, ret, body = got
    env = {}
    lparams = []
    ptys = []
    for p in split_top(params):
        p = p.strip()
        if not p:
            continue
        p = re.sub(r"^mut\s+", "", p)
        if p in ('self', '&self'):
            env['self'] = ('self', self_ty)
            lparams.append("(self : %s)" % ctx.lean_ty(self_ty))
            continue
        pn, pt = [x.strip() for x in p.split(':', 1)]
        pt = pt.replace('Self', self_ty or 'Self')
        env[pn] = (pn, pt)
        ptys.append(pt)
        lparams.append("(%s : %s)" % (pn, ctx.lean_ty(pt)))
    ret = ret.replace('Self', self_ty or 'Self')
    tr = FnTranslator(ctx, self_ty, lex(body), env)
    e, ety = tr.block(expected=ret)
    if tr.peek()[0] != 'eof':
        raise TranslateError("trailing tokens in %s" % name)
    ctx.fns[(self_ty, name)] = (lean_name, ptys, ret)
    ctx.out.append("/-- translated from `%s%s` (%s) -/\ndef %s %s : %s :=\n  %s\n" % (
        (self_ty + '::') if self_ty else '', name, notes, lean_name, ' '.join(lparams), ctx.lean_ty(ret), e))

def translate_const(ctx, src, self_ty, name, lean_name):
    scopes = find_impl_blocks(src, self_ty) if self_ty else [src]
    got = None
    for sc in scopes:
        got = find_const(sc, name)
        if got:
            break
    if not got:
        raise TranslateError("const %s::%s not found" % (self_ty, name))
    ty, rhs = got
    tr = FnTranslator(ctx, self_ty, lex(rhs), {})
    e, _ = tr.expr(expected=ty)
    if tr.peek()[0] != 'eof':
        raise TranslateError("trailing tokens in const %s" % name)
    ctx.consts[(self_ty, name)] = (lean_name, ty)
    ctx.out.append("/-- translated from `const %s%s` -/\ndef %s : Nat := %s\n" % (
        (self_ty + '::') if self_ty else '', name, lean_name, e))

def translate_enum(ctx, src, name, prefix):
    vs = find_enum(src, name, ctx.enums)
    if vs is None:
        raise TranslateError("enum %s not found" % name)
    ctx.enums[name] = dict(vs)
    for v, d in vs:
        ctx.out.append("/-- discriminant of `%s::%s` -/\ndef %s_%s : Nat := %d\n" % (name, v, prefix, v, d))

def struct_def(ctx, name, fields):
    ctx.structs[name] = fields
    fl = "\n".join("  %s : %s" % (lean_field(f), ctx.lean_ty(t)) for f, t in fields)
    ctx.out.append("structure %s where\n%s\nderiving DecidableEq, Repr\n" % (name, fl))

HEADER = """/-
  GENERATED by /verif/translate/rs2lean.py from %s — do not edit.
  Integers are `Nat`; fixed-width wrap-around is explicit (`%% 2^w`).
-/
namespace SalsaVerif.Gen.%s

"""

def read(repo, rel):
    with open(os.path.join(repo, rel)) as f:
        return strip_verif_hooks(strip_comments(f.read()))
