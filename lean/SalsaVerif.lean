import SalsaVerif.Gen.Edge
import SalsaVerif.Gen.Stamp
import SalsaVerif.Gen.Ids
import SalsaVerif.Gen.Consts
