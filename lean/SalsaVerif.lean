-- root module: imports every property module that is claimed
import SalsaVerif.Props.C01
import SalsaVerif.Props.C02
import SalsaVerif.Props.C03
import SalsaVerif.Props.C20
import SalsaVerif.Props.C21
import SalsaVerif.Props.C23
import SalsaVerif.Props.C24
import SalsaVerif.Props.C25
