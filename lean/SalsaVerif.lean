-- root module: imports every property module that is claimed
import SalsaVerif.Props.C01
import SalsaVerif.Props.C02
import SalsaVerif.Props.C03
import SalsaVerif.Props.C05
import SalsaVerif.Props.C06
import SalsaVerif.Props.C07
import SalsaVerif.Props.C08
import SalsaVerif.Props.C09
import SalsaVerif.Props.C17
import SalsaVerif.Props.C19
import SalsaVerif.Props.C20
import SalsaVerif.Props.C21
import SalsaVerif.Props.C23
import SalsaVerif.Props.C24
import SalsaVerif.Props.C25
