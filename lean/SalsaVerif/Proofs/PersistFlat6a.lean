/-
  C26 with flattening: the engine walk — frame relation, specifications of the callees, reads,
  running a body.  Core Lean only.
-/
import SalsaVerif.Proofs.PersistFlat5e

namespace SalsaVerif.Proofs.PersistFlat
open SalsaVerif.Model.Core SalsaVerif.Model.Persist SalsaVerif.Proofs.Core SalsaVerif.Proofs.Persist

/-- what a callee of rank `< r` leaves alone -/
structure Fr (s t : State) (r : Nat) : Prop where
  cur : t.cur = s.cur
  lch : t.lch = s.lch
  inp : t.inp = s.inp
  above : ∀ q, r ≤ q → t.memos q = s.memos q
  stable : ∀ q m, s.memos q = some m → m.va = s.cur → t.memos q = some m
  keep : ∀ q m, s.memos q = some m → ∃ m', t.memos q = some m'

theorem Fr.refl (s r) : Fr s s r := ⟨rfl, rfl, rfl, fun _ _ => rfl, fun _ _ h _ => h, fun _ m h => ⟨m, h⟩⟩

theorem Fr.trans {s t u r} (h1 : Fr s t r) (h2 : Fr t u r) : Fr s u r :=
  ⟨h2.cur.trans h1.cur, h2.lch.trans h1.lch, h2.inp.trans h1.inp,
   fun q hq => by rw [h2.above q hq, h1.above q hq],
   fun q m hm hv => h2.stable q m (h1.stable q m hm hv) (by rw [hv, h1.cur]),
   fun q m hm => by obtain ⟨m1, h⟩ := h1.keep q m hm; exact h2.keep q m1 h⟩

theorem Fr.weaken {s t r r'} (h : Fr s t r) (hr : r ≤ r') : Fr s t r' :=
  ⟨h.cur, h.lch, h.inp, fun q hq => h.above q (Nat.le_trans hr hq), h.stable, h.keep⟩

theorem Fr.emit {s t r} (h : Fr s t r) (e : Ev) : Fr s (Model.Core.emit t e) r :=
  ⟨h.cur, h.lch, h.inp, h.above, h.stable, h.keep⟩

theorem Fr.lc {s t r} (h : Fr s t r) (d : Nat) : lc t d = lc s d := lc_congr h.cur h.lch d

theorem hot_fr {s t r d} (h : Fr s t r) (hd : hot s d) : hot t d := by
  cases d with
  | inp i => trivial
  | qry q =>
    obtain ⟨m, hm, hv⟩ := hd
    exact ⟨m, h.stable q m hm hv, by rw [hv, h.cur]⟩

theorem depInfo_hot_fr {s t r d x} (h : Fr s t r) (hd : hot s d) (hi : depInfo s d = some x) :
    depInfo t d = some x := by
  cases d with
  | inp i => simp only [depInfo] at *; rw [h.inp]; exact hi
  | qry q =>
    obtain ⟨m, hm, hv⟩ := hd
    have := h.stable q m hm hv
    simp only [depInfo, hm, this] at *
    exact hi

structure FetchSpecJ (pers : Nat → Bool) (P : Nat → Body) (r : Nat) (fe : FetchFn) : Prop where
  ok : ∀ H R0 s q, q < r → J pers P H R0 s → AllRec s →
    J pers P H R0 (fe s q).1 ∧ AllRec (fe s q).1 ∧ Fr s (fe s q).1 r ∧ (fe s q).2.val = sem P s.inp q ∧
    ∃ m, (fe s q).1.memos q = some m ∧ m.va = s.cur ∧ m.value = (fe s q).2.val ∧
      m.ca = (fe s q).2.ca ∧ m.dur = (fe s q).2.dur

structure McaSpecJ (pers : Nat → Bool) (P : Nat → Body) (r : Nat) (mc : McaFn) : Prop where
  ok : ∀ H R0 s q rev, q < r → J pers P H R0 s → AllRec s → (∃ m, s.memos q = some m) →
    J pers P H R0 (mc s q rev).1 ∧ AllRec (mc s q rev).1 ∧ Fr s (mc s q rev).1 r ∧
    ∃ m, (mc s q rev).1.memos q = some m ∧ m.va = s.cur ∧ (mc s q rev).2 = decide (m.ca > rev)

theorem readDep_okJ {pers P r fe H R0} (hfe : FetchSpecJ pers P r fe) {s : State} {d : Dep}
    (hJ : J pers P H R0 s) (hA : AllRec s) (hr : ∀ q', d = .qry q' → q' < r) :
    J pers P H R0 (readDep fe s d).1 ∧ AllRec (readDep fe s d).1 ∧ Fr s (readDep fe s d).1 r ∧
    (readDep fe s d).2.val = semDep P s.inp d ∧ hot (readDep fe s d).1 d ∧
    depInfo (readDep fe s d).1 d = some (readDep fe s d).2 ∧ (readDep fe s d).2.ca ≤ s.cur := by
  cases d with
  | inp i =>
    simp only [readDep]
    exact ⟨hJ, hA, Fr.refl s r, rfl, trivial, rfl, hJ.base.inp_le i⟩
  | qry q =>
    simp only [readDep]
    obtain ⟨g1, gA, g2, g3, m, g4, g5, g6, g7, g8⟩ := hfe.ok H R0 s q (hr q rfl) hJ hA
    have mok := g1.memo q m g4
    refine ⟨g1, gA, g2, g3, ⟨m, g4, by rw [g5, g2.cur]⟩, ?_, ?_⟩
    · simp only [depInfo, g4, Option.map, g6, g7, g8]
    · rw [← g7, ← g5]; exact mok.ca_va

end SalsaVerif.Proofs.PersistFlat
