/-
  CoreSpec, histories with writes: the invariant `Inv` (Proofs/CoreSpecRevInv.lean) across
    * the trivial updates (trace, read lock): `inv_trace`, `inv_emit'`, `inv_lock'`;
    * the validation of the output of a creator (`mark_validated_output`): `validateOutput_ok`;
    * the shallow verification of a node (`update_shallow` = `mark_as_verified` +
      `mark_outputs_as_verified`): `shallow_step_ok`.
  All of them go through ONE frame relation `Sim s t` ("`t` is `s` up to read locks, memos marked
  verified, `Assigned` memos validated") and one preservation theorem `inv_sim`.  Core Lean only.
-/
import SalsaVerif.Proofs.CoreSpecRevSpecs
import SalsaVerif.Proofs.CoreSpecRevFresh
import SalsaVerif.Proofs.CoreSpecRevSem

namespace SalsaVerif.Proofs.CoreSpec
open SalsaVerif.Model.CoreSpec

/-! ### replay: output edges and `specify` -/

/-- once a value is specified it stays (a second `specify` does not replay) -/
theorem replay_sp_keep (self : Nat) (idOf : Nat → Nat) : ∀ b (obs : List Obs) ts sp R v,
    replayR self idOf b obs ts sp = some R → sp = some v → R.sp = some v := by
  intro b
  induction b with
  | ret x =>
    intro obs ts sp R v h hs
    cases obs with
    | nil =>
      simp only [replayR, Option.some.injEq] at h
      subst h; exact hs
    | cons _ _ => simp [replayR] at h
  | read d k ih =>
    intro obs ts sp R v h hs
    cases obs with
    | nil => simp [replayR] at h
    | cons o rest =>
      simp only [replayR] at h
      split at h
      · exact ih _ rest ts sp R v h hs
      · simp at h
  | ident c k ih =>
    intro obs ts sp R v h hs
    simp only [replayR] at h
    exact ih _ obs ts sp R v h hs
  | create idk x k ih =>
    intro obs ts sp R v h hs
    cases ts with
    | some t => simp [replayR] at h
    | none =>
      simp only [replayR] at h
      exact ih _ obs _ sp R v h hs
  | specify c x k _ =>
    intro obs ts sp R v h hs
    cases obs with
    | nil => simp [replayR] at h
    | cons o rest =>
      simp only [replayR] at h
      split at h
      · rename_i hc
        rw [hs] at hc
        exact absurd hc.2.2.1 (by simp)
      · simp at h

/-- a replay that consumes an output edge specifies -/
theorem replay_out_sp (self : Nat) (idOf : Nat → Nat) : ∀ b (obs : List Obs) ts sp R,
    replayR self idOf b obs ts sp = some R → (∃ o, o ∈ obs ∧ o.out = true) → R.sp ≠ none := by
  intro b
  induction b with
  | ret x =>
    intro obs ts sp R h ho
    cases obs with
    | nil => obtain ⟨o, hm, _⟩ := ho; cases hm
    | cons _ _ => simp [replayR] at h
  | read d k ih =>
    intro obs ts sp R h ho
    cases obs with
    | nil => simp [replayR] at h
    | cons o rest =>
      simp only [replayR] at h
      split at h
      · rename_i hc
        obtain ⟨o', hm, hout⟩ := ho
        rcases List.mem_cons.mp hm with e | hm'
        · subst e; rw [hc.1] at hout; cases hout
        · exact ih _ rest ts sp R h ⟨o', hm', hout⟩
      · simp at h
  | ident c k ih =>
    intro obs ts sp R h ho
    simp only [replayR] at h
    exact ih _ obs ts sp R h ho
  | create idk x k ih =>
    intro obs ts sp R h ho
    cases ts with
    | some t => simp [replayR] at h
    | none =>
      simp only [replayR] at h
      exact ih _ obs _ sp R h ho
  | specify c x k _ =>
    intro obs ts sp R h _
    cases obs with
    | nil => simp [replayR] at h
    | cons o rest =>
      simp only [replayR] at h
      split at h
      · rw [replay_sp_keep self idOf k rest ts (some x) R x h rfl]
        exact fun e => by cases e
      · simp at h

/-- a replay that specifies consumed an output edge -/
theorem replay_sp_out (self : Nat) (idOf : Nat → Nat) : ∀ b (obs : List Obs) ts sp R w,
    replayR self idOf b obs ts sp = some R → sp = none → R.sp = some w → ∃ o, o ∈ obs ∧ o.out = true := by
  intro b
  induction b with
  | ret x =>
    intro obs ts sp R w h hs hw
    cases obs with
    | nil =>
      simp only [replayR, Option.some.injEq] at h
      subst h
      simp only at hw
      rw [hs] at hw; cases hw
    | cons _ _ => simp [replayR] at h
  | read d k ih =>
    intro obs ts sp R w h hs hw
    cases obs with
    | nil => simp [replayR] at h
    | cons o rest =>
      simp only [replayR] at h
      split at h
      · obtain ⟨o', hm, hout⟩ := ih _ rest ts sp R w h hs hw
        exact ⟨o', List.mem_cons_of_mem _ hm, hout⟩
      · simp at h
  | ident c k ih =>
    intro obs ts sp R w h hs hw
    simp only [replayR] at h
    exact ih _ obs ts sp R w h hs hw
  | create idk x k ih =>
    intro obs ts sp R w h hs hw
    cases ts with
    | some t => simp [replayR] at h
    | none =>
      simp only [replayR] at h
      exact ih _ obs _ sp R w h hs hw
  | specify c x k _ =>
    intro obs ts sp R w h _ _
    cases obs with
    | nil => simp [replayR] at h
    | cons o rest =>
      simp only [replayR] at h
      split at h
      · rename_i hc
        exact ⟨o, List.mem_cons_self, hc.2.2.2.1⟩
      · simp at h

/-! ### a memo that passes the shallow test by durability has no relevant write after `verified_at` -/

theorem no_wit {P idOf s} (hI : Inv P idOf s) {k L va hi : Nat} (hsh : lc s k ≤ va) (hk : k ≤ L) :
    ¬ Wit s L va hi := by
  rintro ⟨w, d, hw, hd, hlo, _⟩
  have := hI.wlog_lc w d hw k (Nat.le_trans hk hd)
  omega

theorem obsAt_reva {P idOf s} (hI : Inv P idOf s) {k L va va' : Nat} {o : Obs} (hsh : lc s k ≤ va) (hk : k ≤ L)
    (h : ObsAt s va L o) : ObsAt s va' L o :=
  ⟨fun x hx => Or.inl ((h.iv x hx).resolve_right (no_wit hI hsh hk)),
   fun c mc hd hs hm => absurd (h.dead c mc hd hs hm) (no_wit hI hsh hk),
   fun c sl hd hs hm => absurd (h.deadsm c sl hd hs hm) (no_wit hI hsh hk)⟩

theorem structAt_reva {P idOf s} (hI : Inv P idOf s) {k L va va' : Nat} {o : Obs} (hsh : lc s k ≤ va) (hk : k ≤ L)
    (h : StructAt s va L o) : StructAt s va' L o :=
  ⟨fun c mc hd hm => Or.inl ((h.odur c mc hd hm).resolve_right (no_wit hI hsh hk)),
   fun c mc hd hm => Or.inl ((h.hexp c mc hd hm).resolve_right (no_wit hI hsh hk))⟩

theorem preAt_reva {P idOf s} (hI : Inv P idOf s) {k L va va' : Nat} {pre : List Obs} (hsh : lc s k ≤ va)
    (hk : k ≤ L) (h : PreAt s va L pre) : PreAt s va' L pre :=
  fun o ho => ⟨obsAt_reva hI hsh hk (h o ho).1, structAt_reva hI hsh hk (h o ho).2⟩

/-! ### the frame relation -/

theorem verEq_fields {cur : Nat} {m m' : Memo} (h : VerEq cur m m') :
    m'.value = m.value ∧ m'.ca = m.ca ∧ m'.dur = m.dur ∧ m'.obs = m.obs ∧ m'.deepAt = m.deepAt ∧
    m'.origin = m.origin ∧ m'.ts = m.ts ∧ (m'.va = m.va ∨ m'.va = cur) := by
  rcases h with e | e <;> subst e
  · exact ⟨rfl, rfl, rfl, rfl, rfl, rfl, rfl, Or.inl rfl⟩
  · exact ⟨rfl, rfl, rfl, rfl, rfl, rfl, rfl, Or.inr rfl⟩

theorem verEq_va_le {cur : Nat} {m m' : Memo} (h : VerEq cur m m') (hva : m.va ≤ cur) : m.va ≤ m'.va := by
  rcases (verEq_fields h).2.2.2.2.2.2.2 with e | e <;> omega

/-- `t` is `s` up to: read locks; node memos that pass the shallow test by durability marked
    verified (the clauses of the re-stamped memo are supplied); `Assigned` memos validated (the
    creator is valid and specifies, or is busy). -/
structure Sim (P : Prog) (idOf : Nat → Nat) (s t : State) : Prop where
  cur : t.cur = s.cur
  lch : t.lch = s.lch
  inp : t.inp = s.inp
  wlog : t.wlog = s.wlog
  panic : t.panic = s.panic
  memN : ∀ c, s.memos c = none → t.memos c = none
  memS : ∀ c m, s.memos c = some m → t.memos c = some m ∨
      (t.memos c = some { m with va := s.cur } ∧ lc s m.dur ≤ m.va ∧ NodeOk P idOf s c { m with va := s.cur })
  slN : ∀ c, s.slots c = none → t.slots c = none
  slS : ∀ c sl, s.slots c = some sl →
      ∃ sl', t.slots c = some sl' ∧ SlotEq sl sl' ∧ (sl'.upd = sl.upd ∨ sl'.upd = s.cur)
  smN : ∀ c, s.smemos c = none → t.smemos c = none
  smS : ∀ c A, s.smemos c = some A → t.smemos c = some A ∨
      (t.smemos c = some { A with va := s.cur } ∧ A.origin = some c ∧ (memoSok s c ∨ Busy t c) ∧
        (memoSok s c → ∃ mc R w, s.memos c = some mc ∧
          replayR c idOf (P.node c) mc.obs none none = some R ∧ R.sp = some w))

section SimLemmas
variable {P : Prog} {idOf : Nat → Nat} {s t : State}

theorem Sim.lcEq (h : Sim P idOf s t) (d : Nat) : lc t d = lc s d := by
  simp [SalsaVerif.Model.CoreSpec.lc, h.cur, h.lch]

theorem Sim.sokIff (h : Sim P idOf s t) (m : Memo) : SOK t m ↔ SOK s m := by
  simp only [SOK, h.cur, h.lcEq]

theorem Sim.witIff (h : Sim P idOf s t) (k lo hi : Nat) : Wit t k lo hi ↔ Wit s k lo hi := by
  simp only [Wit, h.wlog]

theorem Sim.memF (h : Sim P idOf s t) {c m} (hm : s.memos c = some m) :
    ∃ m', t.memos c = some m' ∧ VerEq s.cur m m' ∧ (m' = m ∨ lc s m.dur ≤ m.va) := by
  rcases h.memS c m hm with e | ⟨e, hd, _⟩
  · exact ⟨m, e, Or.inl rfl, Or.inl rfl⟩
  · exact ⟨_, e, Or.inr rfl, Or.inr hd⟩

theorem Sim.memB (h : Sim P idOf s t) {c m'} (hm : t.memos c = some m') :
    ∃ m, s.memos c = some m ∧ VerEq s.cur m m' ∧ (m' = m ∨ lc s m.dur ≤ m.va) := by
  cases hs : s.memos c with
  | none => rw [h.memN c hs] at hm; cases hm
  | some m =>
    obtain ⟨m2, h2, hv, hd⟩ := h.memF hs
    rw [hm] at h2; cases h2
    exact ⟨m, rfl, hv, hd⟩

theorem Sim.memNB (h : Sim P idOf s t) {c} (hm : t.memos c = none) : s.memos c = none := by
  cases hs : s.memos c with
  | none => rfl
  | some m =>
    obtain ⟨m2, h2, _⟩ := h.memF hs
    rw [hm] at h2; cases h2

theorem Sim.smF (h : Sim P idOf s t) {c A} (hA : s.smemos c = some A) :
    ∃ A', t.smemos c = some A' ∧ VerEq s.cur A A' := by
  rcases h.smS c A hA with e | ⟨e, _⟩
  · exact ⟨A, e, Or.inl rfl⟩
  · exact ⟨_, e, Or.inr rfl⟩

theorem Sim.smB (h : Sim P idOf s t) {c A'} (hA : t.smemos c = some A') :
    ∃ A, s.smemos c = some A ∧ VerEq s.cur A A' := by
  cases hs : s.smemos c with
  | none => rw [h.smN c hs] at hA; cases hA
  | some A =>
    obtain ⟨A2, h2, hv⟩ := h.smF hs
    rw [hA] at h2; cases h2
    exact ⟨A, rfl, hv⟩

theorem Sim.smNB (h : Sim P idOf s t) {c} (hA : t.smemos c = none) : s.smemos c = none := by
  cases hs : s.smemos c with
  | none => rfl
  | some A =>
    obtain ⟨A2, h2, _⟩ := h.smF hs
    rw [hA] at h2; cases h2

theorem Sim.slB (h : Sim P idOf s t) {c sl'} (hs : t.slots c = some sl') :
    ∃ sl, s.slots c = some sl ∧ SlotEq sl sl' ∧ (sl'.upd = sl.upd ∨ sl'.upd = s.cur) := by
  cases h0 : s.slots c with
  | none => rw [h.slN c h0] at hs; cases hs
  | some sl =>
    obtain ⟨sl2, h2, he, hu⟩ := h.slS c sl h0
    rw [hs] at h2; cases h2
    exact ⟨sl, rfl, he, hu⟩

theorem Sim.slNB (h : Sim P idOf s t) {c} (hs : t.slots c = none) : s.slots c = none := by
  cases h0 : s.slots c with
  | none => rfl
  | some sl =>
    obtain ⟨sl2, h2, _⟩ := h.slS c sl h0
    rw [hs] at h2; cases h2

theorem Sim.depInfoEq (h : Sim P idOf s t) (d : Dep) : depInfo t d = depInfo s d := by
  cases d with
  | inp i => simp only [depInfo, h.inp]
  | qry q =>
    cases hs : s.memos q with
    | none => simp only [depInfo, hs, h.memN q hs]
    | some m =>
      obtain ⟨m', hm', hv, _⟩ := h.memF hs
      obtain ⟨a, b, c, _⟩ := verEq_fields hv
      simp only [depInfo, hs, hm', Option.map_some, a, b, c]
  | field c =>
    cases hs : s.slots c with
    | none => simp only [depInfo, hs, h.slN c hs]
    | some sl =>
      obtain ⟨sl', hsl', ⟨_, _, a, b, c⟩, _⟩ := h.slS c sl hs
      simp only [depInfo, hs, hsl', Option.map_some, a, b, c]
  | spec c =>
    cases hs : s.smemos c with
    | none => simp only [depInfo, hs, h.smN c hs]
    | some A =>
      obtain ⟨A', hA', hv⟩ := h.smF hs
      obtain ⟨a, b, c, _⟩ := verEq_fields hv
      simp only [depInfo, hs, hA', Option.map_some, a, b, c]

theorem Sim.memoSokF (h : Sim P idOf s t) {c} (hc : memoSok s c) : memoSok t c := by
  obtain ⟨m, hm, hs⟩ := hc
  obtain ⟨m', hm', hv, _⟩ := h.memF hm
  exact ⟨m', hm', (h.sokIff m').mpr (sok_verEq hs hv)⟩

theorem Sim.memoSokB (h : Sim P idOf s t) {c} (hc : memoSok t c) : memoSok s c := by
  obtain ⟨m', hm', hs⟩ := hc
  obtain ⟨m, hm, _, hd⟩ := h.memB hm'
  refine ⟨m, hm, ?_⟩
  rcases hd with e | e
  · rw [← e]; exact (h.sokIff m').mp hs
  · exact Or.inr e

theorem Sim.busyF (h : Sim P idOf s t) {c} (hb : Busy s c) : Busy t c := by
  obtain ⟨sl, hsl, hu, hn⟩ := hb
  obtain ⟨sl', hsl', _, hu'⟩ := h.slS c sl hsl
  refine ⟨sl', hsl', ?_, fun hc => hn (h.memoSokB hc)⟩
  rw [h.cur]
  rcases hu' with e | e
  · rw [e, hu]
  · exact e

theorem Sim.sokDepF (h : Sim P idOf s t) {d} (hd : sokDep s d) : sokDep t d := by
  cases d with
  | inp i => trivial
  | qry q => exact h.memoSokF hd
  | field c =>
    refine ⟨h.memoSokF hd.1, fun e => hd.2 (h.slNB e)⟩
  | spec c =>
    obtain ⟨hc, sm, hsm, hs⟩ := hd
    obtain ⟨sm', hsm', hv⟩ := h.smF hsm
    exact ⟨h.memoSokF hc, sm', hsm', (h.sokIff sm').mpr (sok_verEq hs hv)⟩

theorem Sim.obsAtF (h : Sim P idOf s t) {va L o} (ha : ObsAt s va L o) : ObsAt t va L o := by
  refine ⟨?_, ?_, ?_⟩
  · intro x hx
    rw [h.depInfoEq] at hx
    exact (ha.iv x hx).imp id (h.witIff _ _ _).mpr
  · intro c mc' hd hs hm
    obtain ⟨mc, hmc, hv, _⟩ := h.memB hm
    rw [(verEq_fields hv).2.1]
    exact (h.witIff _ _ _).mpr (ha.dead c mc hd (h.slNB hs) hmc)
  · intro c sl' hd hs hm
    obtain ⟨sl, hsl, he, _⟩ := h.slB hs
    rw [he.2.2.2.1]
    exact (h.witIff _ _ _).mpr (ha.deadsm c sl hd hsl (h.smNB hm))

theorem Sim.structAtF (h : Sim P idOf s t) {va L o} (ha : StructAt s va L o) : StructAt t va L o := by
  refine ⟨?_, ?_⟩
  · intro c mc' hd hm
    obtain ⟨mc, hmc, hv, _⟩ := h.memB hm
    obtain ⟨_, b, c', _⟩ := verEq_fields hv
    rw [b, c']
    exact (ha.odur c mc hd hmc).imp id (h.witIff _ _ _).mpr
  · intro c mc' hd hm
    obtain ⟨mc, hmc, hv, _⟩ := h.memB hm
    obtain ⟨a, b, _⟩ := verEq_fields hv
    rw [a, b]
    exact (ha.hexp c mc hd hmc).imp id (h.witIff _ _ _).mpr

theorem Sim.preAtF (h : Sim P idOf s t) {va L pre} (ha : PreAt s va L pre) : PreAt t va L pre :=
  fun o ho => ⟨h.obsAtF (ha o ho).1, h.structAtF (ha o ho).2⟩

theorem Sim.obsOkF (h : Sim P idOf s t) (hI : Inv P idOf s) {m} (ok : ObsOk s m) : ObsOk t m := by
  have hdc : m.deepAt ≤ s.cur := Nat.le_trans ok.deep_va ok.va_cur
  refine ⟨ok.ca_va, by rw [h.cur]; exact ok.va_cur, ok.va1, ok.deep_va, ok.deep1, ok.dur3, ?_, ?_, ?_, ?_, ?_,
    ?_, ?_, ?_⟩
  · intro o ho hout
    exact h.obsAtF (ok.iv o ho hout)
  · intro hs o ho hout
    rw [h.depInfoEq]
    exact ok.kaca ((h.sokIff m).mp hs) o ho hout
  · rw [h.lcEq]; exact ok.i4
  · intro o q' ho hout hd
    obtain ⟨m2, hm2, hr⟩ := ok.i5q o q' ho hout hd
    obtain ⟨m2', hm2', hv, _⟩ := h.memF hm2
    refine ⟨m2', hm2', fun hrec => ?_⟩
    have := hr hrec
    rcases (verEq_fields hv).2.2.2.2.2.2.2 with e | e <;> omega
  · intro o c sm' ho hout hd hr hsm'
    obtain ⟨sm, hsm, hv⟩ := h.smB hsm'
    have := ok.i5s o c sm ho hout hd hr hsm
    rcases (verEq_fields hv).2.2.2.2.2.2.2 with e | e <;> omega
  · intro o c mc' ho hout hd hmc' w d hw hdur hlt
    obtain ⟨mc, hmc, hv, _⟩ := h.memB hmc'
    rw [h.wlog] at hw
    obtain ⟨_, _, e3, _, _, _, _, e8⟩ := verEq_fields hv
    rw [e3] at hdur
    rcases e8 with e | e
    · rw [e] at hlt
      exact ok.ordw o c mc ho hout hd hmc w d hw hdur hlt
    · have h1 := hI.wlog_lc w d hw 0 (Nat.zero_le _)
      have h2 := hI.lc_le 0
      omega
  · intro o ho hout hr
    exact h.obsAtF (ok.i6 o ho hout hr)
  · intro w d hw
    rw [h.wlog] at hw
    exact ok.g4 w d hw

/-- the tie of a memo of creator `c` whose reads are those of the stored memo -/
theorem Sim.tieOkF (h : Sim P idOf s t) (hI : Inv P idOf s) {c m0 R pre}
    (hobs : ∀ mc, s.memos c = some mc → mc.obs = m0.obs ∧ mc.dur = m0.dur ∧ mc.va ≤ m0.va)
    (hR : replayR c idOf (P.node c) m0.obs none none = some R)
    (hnb : ¬ Busy t c) (htie : TieOk s c m0 R pre) : TieOk t c m0 R pre := by
  unfold TieOk at htie ⊢
  cases hts : R.ts with
  | none =>
    rw [hts] at htie
    exact ⟨h.slN c htie.1, h.smN c htie.2⟩
  | some kv =>
    obtain ⟨k, v⟩ := kv
    rw [hts] at htie
    obtain ⟨sl, hsl, hk, hv, hf, hsp⟩ := htie
    obtain ⟨sl', hsl', ⟨_, e2, e3, e4, e5⟩, _⟩ := h.slS c sl hsl
    refine ⟨sl', hsl', by rw [e2]; exact hk, by rw [e3]; exact hv, by rw [e4]; exact hf, ?_⟩
    cases hsp0 : R.sp with
    | some w =>
      rw [hsp0] at hsp
      obtain ⟨A, hA, ho, hval, hva, hd1, hd2, hpre, hca⟩ := hsp
      obtain ⟨A', hA', hver⟩ := h.smF hA
      obtain ⟨a1, a2, a3, _, _, a6, _, _⟩ := verEq_fields hver
      have hAva := ((hI.smemo c A hA).assigned c ho).2.2.2.1
      have hle := verEq_va_le hver hAva
      refine ⟨A', hA', by rw [a6]; exact ho, by rw [a1]; exact hval, ?_, by rw [a3]; exact hd1,
        by rw [a3, e5]; exact hd2, by rw [a3]; exact h.preAtF hpre, by rw [a2]; exact hca⟩
      rcases hva with e | e
      · exact Or.inl (Nat.le_trans e hle)
      · exact Or.inr (by rw [a3]; exact e)
    | none =>
      rw [hsp0] at hsp
      obtain ⟨hdead, hpre⟩ := hsp
      refine ⟨?_, by rw [e5]; exact h.preAtF hpre⟩
      intro A' hA' ho'
      obtain ⟨A, hA, _⟩ := h.smB hA'
      rcases h.smS c A hA with e | ⟨_, _, hor, hrep⟩
      · rw [hA'] at e; cases e
        exact (h.witIff _ _ _).mpr (hdead A' hA ho')
      · have hc : memoSok s c := hor.resolve_right hnb
        obtain ⟨mc, R', w, hmc, hR', hw⟩ := hrep hc
        rw [(hobs mc hmc).1, hR] at hR'
        cases hR'
        rw [hsp0] at hw; cases hw

theorem tie_dur {s : State} {c : Nat} {m0 : Memo} {R : SemRes} {pre : List Obs} {w0 : Nat} {A : Memo}
    (htie : TieOk s c m0 R pre) (hw0 : R.sp = some w0) (hA : s.smemos c = some A) : m0.dur ≤ A.dur := by
  unfold TieOk at htie
  cases hts : R.ts with
  | none =>
    rw [hts] at htie
    rw [htie.2] at hA; cases hA
  | some kv =>
    obtain ⟨k, v⟩ := kv
    rw [hts] at htie
    obtain ⟨sl, _, _, _, _, hsp⟩ := htie
    rw [hw0] at hsp
    obtain ⟨A2, hA2, _, _, _, hd1, _⟩ := hsp
    rw [hA] at hA2; cases hA2
    exact hd1

/-- the order clause of the `Assigned` memo carries over (a validated memo: its creator is valid,
    so there is no relevant write after the creator's `verified_at`) -/
theorem Sim.aOrdF (h : Sim P idOf s t) (hI : Inv P idOf s) {c m0 R pre}
    (hobs : ∀ mc, s.memos c = some mc → mc.obs = m0.obs ∧ mc.dur = m0.dur ∧ mc.va ≤ m0.va)
    (hnb : ¬ Busy t c) (htie : TieOk s c m0 R pre) (hord : AOrd s c m0 R) : AOrd t c m0 R := by
  intro w0 hw0 A' hA' w' d hw hd hlt
  obtain ⟨A, hA, hver⟩ := h.smB hA'
  rw [h.wlog] at hw
  rw [(verEq_fields hver).2.2.1] at hd
  rcases h.smS c A hA with e | ⟨e, _, hor, _⟩
  · rw [hA'] at e; cases e
    exact hord w0 hw0 A' hA w' d hw hd hlt
  · exfalso
    obtain ⟨mc, hmc, hsc⟩ := hor.resolve_right hnb
    obtain ⟨_, hdur, hvale⟩ := hobs mc hmc
    have hd1 : m0.dur ≤ A.dur := tie_dur htie hw0 hA
    rcases hsc with hot | bydur
    · have h1 := hI.wlog_lc w' d hw 0 (Nat.zero_le _)
      have h2 := hI.lc_le 0
      omega
    · have h1 := hI.wlog_lc w' d hw mc.dur (by omega)
      omega

/-- the clauses of a memo of node `c` whose reads are those of the stored memo carry over -/
theorem Sim.nodeOkF (h : Sim P idOf s t) (hI : Inv P idOf s) {c m0}
    (hobs : ∀ mc, s.memos c = some mc → mc.obs = m0.obs ∧ mc.dur = m0.dur ∧ mc.va ≤ m0.va)
    (ok : NodeOk P idOf s c m0) : NodeOk P idOf t c m0 := by
  refine ⟨h.obsOkF hI ok.obs, ok.origin, ?_, ok.rank, ?_, ?_, ok.hd, ?_, ok.hsrc, ok.outedge, ok.never, ?_, ok.shape⟩
  · intro hs o ho hout
    exact h.sokDepF (ok.ksok ((h.sokIff m0).mp hs) o ho hout)
  · intro o ho hout
    exact h.structAtF (ok.sobs o ho hout)
  · intro o c' ho hout hd
    obtain ⟨mc, hmc⟩ := ok.hmemo o c' ho hout hd
    obtain ⟨mc', hmc', _⟩ := h.memF hmc
    exact ⟨mc', hmc'⟩
  · obtain ⟨R, h1, h2, h3, h4, h5⟩ := ok.rep
    refine ⟨R, h1, h2, h3, h4, fun hnb => ?_⟩
    obtain ⟨htie, hord⟩ := h5 (fun hb => hnb (h.busyF hb))
    exact ⟨h.tieOkF hI hobs h1 hnb htie, h.aOrdF hI hobs hnb htie hord⟩
  · rcases ok.m4 with e | ⟨o, ho, hout, hx⟩
    · exact Or.inl e
    · exact Or.inr ⟨o, ho, hout, fun x hi => hx x (by rw [← h.depInfoEq]; exact hi)⟩

theorem Sim.specOkF (h : Sim P idOf s t) (hI : Inv P idOf s) {c A} (ok : SpecOk P idOf s c A) :
    SpecOk P idOf t c A := by
  refine ⟨fun ho => ?_, fun k hk => ?_, ok.noh, ok.hgen, ok.dshape⟩
  · obtain ⟨h1, h2⟩ := ok.derived ho
    exact ⟨h.obsOkF hI h1, h2⟩
  · rw [h.cur]; exact ok.assigned k hk

/-- MAIN: the invariant carries over along the frame relation -/
theorem inv_sim (hI : Inv P idOf s) (h : Sim P idOf s t) : Inv P idOf t := by
  have hlc := h.lcEq
  refine ⟨by rw [h.panic]; exact hI.pn, by rw [h.cur]; exact hI.cur1, ?_, ?_, ?_, ?_, ?_, ?_, ?_, ?_, ?_, ?_, ?_,
    ?_, ?_, ?_, ?_⟩
  · intro d; rw [hlc, h.cur]; exact hI.lc_le d
  · intro d; rw [hlc]; exact hI.lc_ge1 d
  · intro d; rw [hlc, hlc]; exact hI.lc_anti d
  · intro d hd; rw [hlc]; exact hI.lc_never d hd
  · intro i; rw [h.inp, h.cur]; exact hI.inp_le i
  · intro i; rw [h.inp]; exact hI.inp_ge1 i
  · intro w d hw k hk; rw [hlc]; rw [h.wlog] at hw; exact hI.wlog_lc w d hw k hk
  · intro w d hw; rw [h.wlog] at hw; exact hI.wlog3 w d hw
  · intro w h1 h2; rw [h.wlog]; rw [h.cur] at h2; exact hI.bumps w h1 h2
  · -- node
    intro c m' hm'
    cases hs : s.memos c with
    | none => rw [h.memN c hs] at hm'; cases hm'
    | some m =>
      rcases h.memS c m hs with e | ⟨e, _, hok⟩
      · rw [hm'] at e; cases e
        exact h.nodeOkF hI (fun mc hmc => by rw [hs] at hmc; cases hmc; exact ⟨rfl, rfl, Nat.le_refl _⟩)
          (hI.node c m' hs)
      · rw [hm'] at e; cases e
        have hvc := (hI.node c m hs).obs.va_cur
        exact h.nodeOkF hI (fun mc hmc => by
          rw [hs] at hmc; cases hmc; exact ⟨rfl, rfl, hvc⟩) hok
  · -- nonode
    intro c hm hnb
    obtain ⟨a, b⟩ := hI.nonode c (h.memNB hm) (fun hb => hnb (h.busyF hb))
    exact ⟨h.slN c a, h.smN c b⟩
  · -- smemo
    intro c A' hA'
    obtain ⟨A, hA, _⟩ := h.smB hA'
    have ok := hI.smemo c A hA
    rcases h.smS c A hA with e | ⟨e, ho, _, _⟩
    · rw [hA'] at e; cases e
      exact h.specOkF hI ok
    · rw [hA'] at e; cases e
      obtain ⟨_, b, c', d, _, f⟩ := ok.assigned c ho
      refine ⟨fun hn => ?_, fun k hk => ?_, ok.noh, ok.hgen, fun hn => ?_⟩
      · simp only at hn; rw [ho] at hn; cases hn
      · simp only at hk
        rw [ho] at hk; cases hk
        exact ⟨rfl, b, Nat.le_trans c' d, by rw [h.cur]; exact Nat.le_refl _, hI.cur1, f⟩
      · simp only at hn; rw [ho] at hn; cases hn
  · -- smslot
    intro c A' hA'
    obtain ⟨A, hA, _⟩ := h.smB hA'
    obtain ⟨sl, hsl⟩ := hI.smslot c A hA
    obtain ⟨sl', hsl', _⟩ := h.slS c sl hsl
    exact ⟨sl', hsl'⟩
  · -- slot
    intro c sl' hsl'
    obtain ⟨sl, hsl, ⟨_, _, _, e4, e5⟩, hu⟩ := h.slB hsl'
    obtain ⟨a, b, c', d⟩ := hI.slot c sl hsl
    rw [h.cur, e4, e5]
    refine ⟨a, b, ?_, d⟩
    rcases hu with e | e <;> omega
  · -- hotsm
    intro c A' hA' hva
    obtain ⟨A, hA, _⟩ := h.smB hA'
    rcases h.smS c A hA with e | ⟨e, _, hor, _⟩
    · rw [hA'] at e; cases e
      rw [h.cur] at hva
      exact (hI.hotsm c A' hA hva).imp h.memoSokF h.busyF
    · exact hor.imp_left h.memoSokF

/-! ### the trivial updates -/

theorem sim_trace (P : Prog) (idOf : Nat → Nat) (s : State) (tr : List Ev) : Sim P idOf s { s with trace := tr } :=
  ⟨rfl, rfl, rfl, rfl, rfl, fun _ h => h, fun _ _ h => Or.inl h, fun _ h => h,
   fun _ sl h => ⟨sl, h, SlotEq.refl sl, Or.inl rfl⟩, fun _ h => h, fun _ _ h => Or.inl h⟩

theorem inv_trace (hI : Inv P idOf s) (tr : List Ev) : Inv P idOf { s with trace := tr } :=
  inv_sim hI (sim_trace P idOf s tr)

theorem inv_emit' (hI : Inv P idOf s) (e : Ev) : Inv P idOf (emit s e) := inv_trace hI _

theorem sim_lock (P : Prog) (idOf : Nat → Nat) {s : State} {c : Nat} {sl : Slot} (hsl : s.slots c = some sl) :
    Sim P idOf s (lockSlot s c sl) := by
  refine ⟨rfl, rfl, rfl, rfl, rfl, fun _ h => h, fun _ _ h => Or.inl h, ?_, ?_, fun _ h => h, fun _ _ h => Or.inl h⟩
  · intro c' hc'
    have hne : c' ≠ c := fun e => by rw [e, hsl] at hc'; cases hc'
    have e : (lockSlot s c sl).slots c' = s.slots c' := setSlot_other s c _ hne
    rw [e]; exact hc'
  · intro c' sl0 hc'
    by_cases hcc : c' = c
    · subst hcc
      rw [hsl] at hc'; cases hc'
      exact ⟨{ sl with upd := s.cur }, setSlot_same s c' _, ⟨rfl, rfl, rfl, rfl, rfl⟩, Or.inr rfl⟩
    · have e : (lockSlot s c sl).slots c' = s.slots c' := setSlot_other s c _ hcc
      exact ⟨sl0, by rw [e]; exact hc', SlotEq.refl sl0, Or.inl rfl⟩

/-- a read lock -/
theorem inv_lock' {c : Nat} {sl : Slot} (hI : Inv P idOf s) (hsl : s.slots c = some sl) :
    Inv P idOf (lockSlot s c sl) := inv_sim hI (sim_lock P idOf hsl)

/-! ### validation of the output of creator `q` -/

theorem markValidatedOutput_eq {q : Nat} {A : Memo} {sl : Slot} (hA : s.smemos q = some A)
    (ho : A.origin = some q) (hsl : s.slots q = some sl) :
    markValidatedOutput s q q =
      setSMemo (emit (lockSlot s q sl) (.validS q (genOf (lockSlot s q sl) q))) q (some { A with va := s.cur }) := by
  have ht : touchMemos s q = lockSlot s q sl := by
    unfold Model.CoreSpec.touchMemos; rw [hsl]
  unfold markValidatedOutput
  rw [ht]
  have h2 : (lockSlot s q sl).smemos q = some A := hA
  simp only [h2, ho, if_true]
  rfl

theorem sim_validate {q : Nat} {A : Memo} {sl : Slot} (hA : s.smemos q = some A)
    (ho : A.origin = some q) (hsl : s.slots q = some sl) (e : Ev)
    (htie : memoSok s q → ∃ mc R w, s.memos q = some mc ∧
      replayR q idOf (P.node q) mc.obs none none = some R ∧ R.sp = some w) :
    Sim P idOf s (setSMemo (emit (lockSlot s q sl) e) q (some { A with va := s.cur })) := by
  refine ⟨rfl, rfl, rfl, rfl, rfl, fun _ h => h, fun _ _ h => Or.inl h, ?_, ?_, ?_, ?_⟩
  · intro c' hc'
    have hne : c' ≠ q := fun e => by rw [e, hsl] at hc'; cases hc'
    have e : (lockSlot s q sl).slots c' = s.slots c' := setSlot_other s q _ hne
    exact e.trans hc'
  · intro c' sl0 hc'
    by_cases hcc : c' = q
    · subst hcc
      rw [hsl] at hc'; cases hc'
      exact ⟨{ sl with upd := s.cur }, setSlot_same s c' _, ⟨rfl, rfl, rfl, rfl, rfl⟩, Or.inr rfl⟩
    · have e : (lockSlot s q sl).slots c' = s.slots c' := setSlot_other s q _ hcc
      exact ⟨sl0, e.trans hc', SlotEq.refl sl0, Or.inl rfl⟩
  · intro c' hc'
    have hne : c' ≠ q := fun e => by rw [e, hA] at hc'; cases hc'
    exact (setSMemo_other _ q _ hne).trans hc'
  · intro c' A0 hc'
    by_cases hcc : c' = q
    · subst hcc
      rw [hA] at hc'; cases hc'
      refine Or.inr ⟨setSMemo_same _ _ _, ho, ?_, htie⟩
      by_cases hc : memoSok s c'
      · exact Or.inl hc
      · exact Or.inr ⟨{ sl with upd := s.cur }, setSlot_same s c' _, rfl, fun h => hc h⟩
    · exact Or.inl ((setSMemo_other _ q _ hcc).trans hc')

theorem validateOutput_ok {q : Nat} {A : Memo} (hI : Inv P idOf s) (hA : s.smemos q = some A)
    (ho : A.origin = some q)
    (htie : memoSok s q → ∃ mc R w, s.memos q = some mc ∧
      replayR q idOf (P.node q) mc.obs none none = some R ∧ R.sp = some w) :
    Inv P idOf (markValidatedOutput s q q) ∧
    (markValidatedOutput s q q).memos = s.memos ∧ (markValidatedOutput s q q).cur = s.cur ∧
    (markValidatedOutput s q q).lch = s.lch ∧ (markValidatedOutput s q q).inp = s.inp ∧
    (markValidatedOutput s q q).wlog = s.wlog ∧ (markValidatedOutput s q q).panic = s.panic ∧
    (∀ c, c ≠ q → (markValidatedOutput s q q).slots c = s.slots c ∧
      (markValidatedOutput s q q).smemos c = s.smemos c) ∧
    (markValidatedOutput s q q).smemos q = some { A with va := s.cur } ∧
    (∃ sl, s.slots q = some sl ∧ (markValidatedOutput s q q).slots q = some { sl with upd := s.cur }) := by
  obtain ⟨sl, hsl⟩ := hI.smslot q A hA
  rw [markValidatedOutput_eq hA ho hsl]
  refine ⟨inv_sim hI (sim_validate hA ho hsl _ htie), rfl, rfl, rfl, rfl, rfl, rfl, ?_, setSMemo_same _ _ _,
    sl, hsl, setSlot_same s q _⟩
  intro c hc
  exact ⟨setSlot_other s q _ hc, setSMemo_other _ q _ hc⟩

/-! ### shallow verification: the re-stamped memo -/

/-- the clauses of a memo that passes the shallow test by durability, re-stamped `verified_at := cur`
    (`hA`: its `Assigned` output is verified now, or everything is NEVER_CHANGE) -/
theorem nodeOk_reva {u : State} {q : Nat} {m : Memo} (hI : Inv P idOf u) (ok : NodeOk P idOf u q m)
    (hsh : lc u m.dur ≤ m.va)
    (hA : (∃ o, o ∈ m.obs ∧ o.out = true) → ∀ A, u.smemos q = some A → A.origin = some q →
      u.cur ≤ A.va ∨ m.dur = 3) :
    NodeOk P idOf u q { m with va := u.cur } := by
  have hsok : SOK u m := Or.inr hsh
  have hdeep : lc u m.dur ≤ m.deepAt := ok.obs.i4.resolve_right (Nat.not_lt.mpr hsh)
  have hobs : ObsOk u { m with va := u.cur } := by
    refine ⟨Nat.le_trans ok.obs.ca_va ok.obs.va_cur, Nat.le_refl _, hI.cur1,
      Nat.le_trans ok.obs.deep_va ok.obs.va_cur, ok.obs.deep1, ok.obs.dur3, ?_, ?_, Or.inl hdeep, ok.obs.i5q,
      ok.obs.i5s, ok.obs.ordw, ?_, ?_⟩
    · intro o ho hout
      exact obsAt_reva hI hsh (Nat.le_refl _) (ok.obs.iv o ho hout)
    · intro _ o ho hout
      exact ok.obs.kaca hsok o ho hout
    · intro o ho hout hr
      exact obsAt_reva hI hsh ok.obs.dur3 (ok.obs.i6 o ho hout hr)
    · intro w d hw hd h
      have h1 := hI.wlog_lc w d hw m.dur hd
      have h2 : m.deepAt < w := h.1
      omega
  refine ⟨hobs, ok.origin, fun _ => ok.ksok hsok, ok.rank, ?_, ok.hmemo, ok.hd, ?_, ok.hsrc, ok.outedge, ok.never,
    ok.m4, ok.shape⟩
  · intro o ho hout
    exact structAt_reva hI hsh (Nat.le_refl _) (ok.sobs o ho hout)
  · obtain ⟨R, h1, h2, h3, h4, h5⟩ := ok.rep
    refine ⟨R, h1, h2, h3, h4, fun hnb => ⟨?_, ?_⟩⟩
    case refine_2 =>
      intro w0 _ A _ w' d hw _ hlt
      have h1' := hI.wlog_lc w' d hw 0 (Nat.zero_le _)
      have h2' := hI.lc_le 0
      have hlt' : u.cur < w' := hlt
      omega
    have ht := (h5 hnb).1
    unfold TieOk at ht ⊢
    cases hts : R.ts with
    | none => rw [hts] at ht; exact ht
    | some kv =>
      obtain ⟨k, v⟩ := kv
      rw [hts] at ht
      obtain ⟨sl, hsl, hk, hv, _, hsp⟩ := ht
      refine ⟨sl, hsl, hk, hv, (hI.slot q sl hsl).1, ?_⟩
      cases hsp0 : R.sp with
      | some w =>
        rw [hsp0] at hsp
        obtain ⟨A, hA', ho, hval, _, hd1, hd2, hpre, _⟩ := hsp
        obtain ⟨_, _, hcv, hvc, _, h3'⟩ := (hI.smemo q A hA').assigned q ho
        refine ⟨A, hA', ho, hval, ?_, hd1, hd2, preAt_reva hI hsh hd1 hpre, Nat.le_trans hcv hvc⟩
        have hex := replay_sp_out q idOf _ m.obs none none R w h1 rfl hsp0
        rcases hA hex A hA' ho with e | e
        · exact Or.inl e
        · right
          have hd1' : m.dur ≤ A.dur := hd1
          omega
      | none =>
        rw [hsp0] at hsp
        exact ⟨fun A hA' ho => (hsp.1 A hA' ho).mono ok.obs.va_cur,
          preAt_reva hI hsh (Nat.le_max_right _ _) hsp.2⟩

/-! ### `mark_outputs_as_verified`: what it changes -/

/-- `u` is `a` with the struct of `q` possibly read-locked and the `Assigned` memo of `q` possibly
    validated (the latter only under `F`) -/
structure Val1 (F : Prop) (a u : State) (q : Nat) : Prop where
  cur : u.cur = a.cur
  lch : u.lch = a.lch
  inp : u.inp = a.inp
  wlog : u.wlog = a.wlog
  panic : u.panic = a.panic
  memos : u.memos = a.memos
  slots_o : ∀ c, c ≠ q → u.slots c = a.slots c
  smemos_o : ∀ c, c ≠ q → u.smemos c = a.smemos c
  slot_q : u.slots q = a.slots q ∨ ∃ sl, a.slots q = some sl ∧ u.slots q = some { sl with upd := a.cur }
  smemo_q : u.smemos q = a.smemos q ∨
    (F ∧ ∃ A, a.smemos q = some A ∧ A.origin = some q ∧ u.smemos q = some { A with va := a.cur })

theorem Val1.refl (F : Prop) (a : State) (q : Nat) : Val1 F a a q :=
  ⟨rfl, rfl, rfl, rfl, rfl, rfl, fun _ _ => rfl, fun _ _ => rfl, Or.inl rfl, Or.inl rfl⟩

theorem Val1.step {F : Prop} {a u : State} {q : Nat} (h : Val1 F a u q) (hF : F)
    (hA : ∃ A, a.smemos q = some A ∧ A.origin = some q) (hsl : ∃ sl, a.slots q = some sl) :
    Val1 F a (markValidatedOutput u q q) q := by
  obtain ⟨A, hA, ho⟩ := hA
  obtain ⟨sl, hsl⟩ := hsl
  have hA' : ∃ A', u.smemos q = some A' ∧ A'.origin = some q ∧ { A' with va := a.cur } = { A with va := a.cur } := by
    rcases h.smemo_q with e | ⟨_, A0, h0, _, e⟩
    · exact ⟨A, by rw [e]; exact hA, ho, rfl⟩
    · rw [hA] at h0; cases h0
      exact ⟨_, e, ho, rfl⟩
  have hsl' : ∃ sl', u.slots q = some sl' ∧ { sl' with upd := a.cur } = { sl with upd := a.cur } := by
    rcases h.slot_q with e | ⟨sl0, h0, e⟩
    · exact ⟨sl, by rw [e]; exact hsl, rfl⟩
    · rw [hsl] at h0; cases h0
      exact ⟨_, e, rfl⟩
  obtain ⟨A', hA', ho', eA⟩ := hA'
  obtain ⟨sl', hsl', eS⟩ := hsl'
  rw [markValidatedOutput_eq hA' ho' hsl']
  refine ⟨h.cur, h.lch, h.inp, h.wlog, h.panic, h.memos, ?_, ?_, ?_, ?_⟩
  · intro c hc
    exact (setSlot_other u q _ hc).trans (h.slots_o c hc)
  · intro c hc
    exact (setSMemo_other _ q _ hc).trans (h.smemos_o c hc)
  · exact Or.inr ⟨sl, hsl, (setSlot_same u q _).trans (by rw [h.cur, eS])⟩
  · exact Or.inr ⟨hF, A, hA, ho, (setSMemo_same _ _ _).trans (by rw [h.cur, eA])⟩

theorem markOutputsVerified_val1 {F : Prop} {a : State} (q : Nat)
    (hA : F → (∃ A, a.smemos q = some A ∧ A.origin = some q) ∧ ∃ sl, a.slots q = some sl) :
    ∀ (obs : List Obs) (u : State), Val1 F a u q →
      (∀ o, o ∈ obs → o.recd = true → o.out = true → F ∧ o.dep = .spec q) →
      Val1 F a (markOutputsVerified q obs u) q := by
  intro obs
  induction obs with
  | nil => intro u h _; exact h
  | cons o os ih =>
    intro u h hall
    have hall' : ∀ o', o' ∈ os → o'.recd = true → o'.out = true → F ∧ o'.dep = .spec q :=
      fun o' ho' => hall o' (List.mem_cons_of_mem _ ho')
    simp only [markOutputsVerified]
    split
    · rename_i c hb hd
      have hro : o.recd = true ∧ o.out = true := by
        cases hr : o.recd <;> cases hout : o.out <;> simp_all
      obtain ⟨hF, hdep⟩ := hall o List.mem_cons_self hro.1 hro.2
      rw [hd] at hdep; cases hdep
      exact ih _ (h.step hF (hA hF).1 (hA hF).2) hall'
    · exact ih _ h hall'

/-! ### shallow verification of node `q` -/

theorem shallow_step_ok {q : Nat} {m : Memo} (hP : Wf2 P idOf) (hI : Inv P idOf s) (hm : s.memos q = some m)
    (hv : m.va ≠ s.cur) (hsh : lc s m.dur ≤ m.va)
    (hpn : (markOutputsVerified q m.obs (markVerified s q m)).panic = none) :
    let t := markOutputsVerified q m.obs (markVerified s q m)
    Inv P idOf t ∧ Ext s t (q + 1) ∧ (∀ c, Busy t c → Busy s c) ∧ HotRes t s.cur q (hit m) := by
  intro t
  have _ := hP
  have _ := hpn
  have nok := hI.node q m hm
  have hsok : SOK s m := Or.inr hsh
  have hmsok : memoSok s q := ⟨m, hm, hsok⟩
  have hnb : ¬ Busy s q := memoSok_not_busy hmsok
  obtain ⟨R, hR, _, _, _, htieS⟩ := nok.rep
  have htie0 := (htieS hnb).1
  -- an output edge: the creator specifies, its struct and `Assigned` memo are there
  have hF : (∃ o, o ∈ m.obs ∧ o.out = true) →
      ∃ A sl w, s.smemos q = some A ∧ A.origin = some q ∧ s.slots q = some sl ∧ R.sp = some w := by
    intro hex
    have hne := replay_out_sp q idOf _ m.obs none none R hR hex
    cases hsp : R.sp with
    | none => exact absurd hsp hne
    | some w =>
      have hts := replay_sp_ts q idOf _ m.obs none none R hR (fun h => absurd rfl h) w hsp
      unfold TieOk at htie0
      cases hts0 : R.ts with
      | none => exact absurd hts0 hts
      | some kv =>
        obtain ⟨k, v⟩ := kv
        rw [hts0] at htie0
        obtain ⟨sl, hsl, _, _, _, hsp'⟩ := htie0
        rw [hsp] at hsp'
        obtain ⟨A, hA, ho, _⟩ := hsp'
        exact ⟨A, sl, w, hA, ho, hsl, rfl⟩
  -- what `mark_outputs_as_verified` does
  have V : Val1 (∃ o, o ∈ m.obs ∧ o.recd = true ∧ o.out = true) (markVerified s q m) t q := by
    refine markOutputsVerified_val1 q ?_ m.obs _ (Val1.refl _ _ _) ?_
    · rintro ⟨o, ho, _, hout⟩
      obtain ⟨A, sl, _, hA, hor, hsl, _⟩ := hF ⟨o, ho, hout⟩
      exact ⟨⟨A, hA, hor⟩, sl, hsl⟩
    · intro o ho hr hout
      exact ⟨⟨o, ho, hr, hout⟩, (nok.outedge o ho hout).1⟩
  have hmemq : t.memos q = some { m with va := s.cur } := (congrFun V.memos q).trans (setMemo_same _ q _)
  have hmemo : ∀ c, c ≠ q → t.memos c = s.memos c :=
    fun c hc => (congrFun V.memos c).trans (setMemo_other _ q _ hc)
  -- step 1: the outputs are validated (the memo of `q` as before)
  let t0 : State := { t with memos := s.memos }
  have hS0 : Sim P idOf s t0 := by
    refine ⟨V.cur, V.lch, V.inp, V.wlog, V.panic, fun _ h => h, fun _ _ h => Or.inl h, ?_, ?_, ?_, ?_⟩
    · intro c hc
      by_cases hcq : c = q
      · subst hcq
        rcases V.slot_q with e | ⟨sl, h0, _⟩
        · exact e.trans hc
        · have h0' : s.slots c = some sl := h0
          rw [hc] at h0'; cases h0'
      · exact (V.slots_o c hcq).trans hc
    · intro c sl hc
      by_cases hcq : c = q
      · subst hcq
        rcases V.slot_q with e | ⟨sl0, h0, e⟩
        · exact ⟨sl, e.trans hc, SlotEq.refl sl, Or.inl rfl⟩
        · have h0' : s.slots c = some sl0 := h0
          rw [hc] at h0'; cases h0'
          exact ⟨_, e, ⟨rfl, rfl, rfl, rfl, rfl⟩, Or.inr rfl⟩
      · exact ⟨sl, (V.slots_o c hcq).trans hc, SlotEq.refl sl, Or.inl rfl⟩
    · intro c hc
      by_cases hcq : c = q
      · subst hcq
        rcases V.smemo_q with e | ⟨_, A, h0, _⟩
        · exact e.trans hc
        · have h0' : s.smemos c = some A := h0
          rw [hc] at h0'; cases h0'
      · exact (V.smemos_o c hcq).trans hc
    · intro c A hc
      by_cases hcq : c = q
      · subst hcq
        rcases V.smemo_q with e | ⟨⟨o, ho, _, hout⟩, A0, h0, hor, e⟩
        · exact Or.inl (e.trans hc)
        · have h0' : s.smemos c = some A0 := h0
          rw [hc] at h0'; cases h0'
          obtain ⟨_, _, w, _, _, _, hw⟩ := hF ⟨o, ho, hout⟩
          exact Or.inr ⟨e, hor, Or.inl hmsok, fun _ => ⟨m, R, w, hm, hR, hw⟩⟩
      · exact Or.inl ((V.smemos_o c hcq).trans hc)
  have hI0 : Inv P idOf t0 := inv_sim hI hS0
  have hcur0 : t0.cur = s.cur := V.cur
  have hm0 : t0.memos q = some m := hm
  have hlc0 : lc t0 m.dur ≤ m.va := by rw [hS0.lcEq]; exact hsh
  have hA0 : (∃ o, o ∈ m.obs ∧ o.out = true) → ∀ A, t0.smemos q = some A → A.origin = some q →
      t0.cur ≤ A.va ∨ m.dur = 3 := by
    rintro ⟨o, ho, hout⟩ A hA hor
    obtain ⟨hdep, hrd⟩ := nok.outedge o ho hout
    rcases hrd with hr | h3
    · left
      have hg := markOutputsVerified_good q q m.obs (markVerified s q m) ⟨o, ho, hr, hout, hdep⟩
      have hva : A.va = t.cur := hg A hA hor
      exact Nat.le_of_eq hva.symm
    · exact Or.inr h3
  have hnew := nodeOk_reva hI0 (hI0.node q m hm0) hlc0 hA0
  -- step 2: the memo of `q` is marked verified
  have hS1 : Sim P idOf t0 t := by
    refine ⟨rfl, rfl, rfl, rfl, rfl, ?_, ?_, fun _ h => h, fun _ sl h => ⟨sl, h, SlotEq.refl sl, Or.inl rfl⟩,
      fun _ h => h, fun _ _ h => Or.inl h⟩
    · intro c hc
      have hc' : s.memos c = none := hc
      have hne : c ≠ q := fun e => by rw [e, hm] at hc'; cases hc'
      exact (hmemo c hne).trans hc'
    · intro c mc hc
      have hc' : s.memos c = some mc := hc
      by_cases hcq : c = q
      · subst hcq
        rw [hm] at hc'; cases hc'
        have e : ({ m with va := s.cur } : Memo) = { m with va := t0.cur } := by rw [hcur0]
        exact Or.inr ⟨hmemq.trans (congrArg some e), hlc0, hnew⟩
      · exact Or.inl ((hmemo c hcq).trans hc')
  have hI1 : Inv P idOf t := inv_sim hI0 hS1
  refine ⟨hI1, ?_, ?_, ⟨_, hmemq, rfl, rfl, rfl, rfl⟩⟩
  · -- the frame
    refine ⟨V.cur, V.lch, V.inp, V.wlog, ?_, ?_, ?_, ?_, ?_, ?_, ?_, ?_, ?_, ?_⟩
    · intro c hc; exact hmemo c (by omega)
    · intro c hc; exact V.slots_o c (by omega)
    · intro c hc; exact V.smemos_o c (by omega)
    · intro c m2 hm2 hv2
      have hne : c ≠ q := fun e => by rw [e, hm] at hm2; cases hm2; exact hv hv2
      exact (hmemo c hne).trans hm2
    · intro c m2 hm2 _
      by_cases hcq : c = q
      · subst hcq
        rw [hm] at hm2; cases hm2
        exact ⟨_, hmemq, Or.inr rfl⟩
      · exact ⟨m2, (hmemo c hcq).trans hm2, Or.inl rfl⟩
    · intro c m2 hm2
      by_cases hcq : c = q
      · subst hcq
        rw [hm] at hm2; cases hm2
        exact ⟨_, hmemq, nok.obs.va_cur⟩
      · exact ⟨m2, (hmemo c hcq).trans hm2, Nat.le_refl _⟩
    · intro c sl _ hsl
      obtain ⟨sl', h1, h2, _⟩ := hS0.slS c sl hsl
      exact ⟨sl', h1, h2⟩
    · intro c _ hsl
      exact hS0.slN c hsl
    · intro c sm _ hsm hva
      rcases hS0.smS c sm hsm with e | ⟨e, _⟩
      · exact e
      · have e2 : ({ sm with va := s.cur } : Memo) = sm := by
          cases sm
          simp only at hva
          subst hva
          rfl
        rw [e2] at e
        exact e
    · intro c sm _ hsm _
      exact hS0.smF hsm
  · -- nobody becomes busy
    intro c hb
    obtain ⟨sl, hsl, hu, hn⟩ := hb
    by_cases hcq : c = q
    · subst hcq
      exact absurd ⟨_, hmemq, Or.inl V.cur.symm⟩ hn
    · refine ⟨sl, (V.slots_o c hcq).symm.trans hsl, hu.trans V.cur, fun hc => hn ?_⟩
      obtain ⟨m2, hm2, hs2⟩ := hc
      exact ⟨m2, (hmemo c hcq).trans hm2, (hS1.sokIff m2).mpr ((hS0.sokIff m2).mpr hs2)⟩

end SimLemmas

/-! ### non-vacuity: the creator of `RevSemEx` (reads input 0, creates its struct, specifies 2),
    executed in revision 1 at durability 1, after a low-durability write (revision 2) -/

namespace RevShallowEx

def o1 : Obs := ⟨.inp 0, ⟨5, none⟩, true, false⟩
def o2 : Obs := ⟨.spec 0, ⟨2, none⟩, true, true⟩

def exM : Memo :=
  { value := ⟨5, some 0⟩, hgen := some 0, va := 1, ca := 1, dur := 1, deepAt := 1, origin := none, ts := some 0,
    obs := [o1, o2] }

def exA : Memo :=
  { value := ⟨2, none⟩, hgen := none, va := 1, ca := 1, dur := 1, deepAt := 1, origin := some 0, ts := none,
    obs := [] }

def exSl : Slot := { gen := 0, k := 0, v := 5, fca := 1, dur := 1, upd := 1 }

def exS : State :=
  { cur := 2, lch := fun _ => 1, inp := fun _ => ⟨5, 1, 1⟩,
    memos := fun q => if q = 0 then some exM else none,
    slots := fun q => if q = 0 then some exSl else none,
    smemos := fun q => if q = 0 then some exA else none,
    nextGen := 1, wlog := [(2, 0)], trace := [], panic := none }

def exR : SemRes := ⟨⟨5, some 0⟩, some (0, 5), some 2⟩

theorem exRep : replayR 0 (fun _ => 0) (RevSemEx.P.node 0) exM.obs none none = some exR := by decide

theorem ex_lc (d : Nat) : lc exS d = if d = 0 then 2 else 1 := rfl

theorem exAt (L : Nat) (hL : L ≤ 1) : ObsAt exS 1 L o1 ∧ StructAt exS 1 L o1 := by
  refine ⟨⟨?_, ?_, ?_⟩, ⟨?_, ?_⟩⟩
  · intro x hx
    cases hx
    exact Or.inl ⟨rfl, hL⟩
  · intro c mc hd; rcases hd with h | h <;> cases h
  · intro c sl hd; cases hd
  · intro c mc hd; rcases hd with h | h <;> cases h
  · intro c mc hd; rcases hd with h | h <;> cases h

theorem ex_o {o : Obs} (ho : o ∈ exM.obs) (hout : o.out = false) : o = o1 := by
  simp only [exM, List.mem_cons, List.not_mem_nil, or_false] at ho
  rcases ho with e | e
  · exact e
  · subst e; cases hout

theorem exObsOk : ObsOk exS exM := by
  refine ⟨Nat.le_refl _, by decide, Nat.le_refl _, Nat.le_refl _, Nat.le_refl _, by decide, ?_, ?_, Or.inl (by decide),
    ?_, ?_, ?_, ?_, ?_⟩
  · intro o ho hout; obtain rfl := ex_o ho hout; exact (exAt 1 (Nat.le_refl _)).1
  · intro _ o ho hout; obtain rfl := ex_o ho hout; exact ⟨_, rfl, Nat.le_refl _⟩
  · intro o q' ho hout hd; obtain rfl := ex_o ho hout; cases hd
  · intro o c sm ho hout hd; obtain rfl := ex_o ho hout; cases hd
  · intro o c mc ho hout hd; obtain rfl := ex_o ho hout; rcases hd with h | h <;> cases h
  · intro o ho hout hr; obtain rfl := ex_o ho hout; cases hr
  · intro w d hw hd
    simp only [exS, List.mem_cons, List.not_mem_nil, or_false, Prod.mk.injEq] at hw
    have : exM.dur = 1 := rfl
    omega

theorem exMsok : memoSok exS 0 := ⟨exM, rfl, Or.inr (by decide)⟩

theorem exPre : preOf (fun _ => 0) (RevSemEx.P.node 0) exM.obs = [o1] := by decide

theorem exNodeOk : NodeOk RevSemEx.P (fun _ => 0) exS 0 exM := by
  refine ⟨exObsOk, rfl, ?_, ?_, ?_, ?_, ?_, ?_, ?_, ?_, ?_, Or.inl (Nat.le_refl _),
    fun o ho hout => by obtain rfl := ex_o ho hout; rfl⟩
  · intro _ o ho hout; obtain rfl := ex_o ho hout; trivial
  · intro o ho hout; obtain rfl := ex_o ho hout; trivial
  · intro o ho hout; obtain rfl := ex_o ho hout; exact (exAt 1 (Nat.le_refl _)).2
  · intro o c ho hout hd; obtain rfl := ex_o ho hout; rcases hd with h | h <;> cases h
  · simp [HdOk, exM, o1, o2]
  · refine ⟨exR, exRep, rfl, rfl, ?_, fun _ => ⟨?_, ?_⟩⟩
    · intro k v h; cases h; rfl
    · rw [exPre]
      refine ⟨exSl, rfl, rfl, rfl, Nat.le_refl _, exA, rfl, rfl, rfl, Or.inl (Nat.le_refl _), Nat.le_refl _,
        Nat.le_refl _, ?_, Nat.le_refl _⟩
      intro o ho
      simp only [List.mem_cons, List.not_mem_nil, or_false] at ho
      subst ho
      exact exAt 1 (Nat.le_refl _)
    · intro w0 _ A hA w' d hw hd
      cases hA
      simp only [exS, List.mem_cons, List.not_mem_nil, or_false, Prod.mk.injEq] at hw
      have : exA.dur = 1 := rfl
      omega
  · intro c hc
    cases hc
    exact Or.inl ⟨rfl, rfl⟩
  · intro o ho hout
    simp only [exM, List.mem_cons, List.not_mem_nil, or_false] at ho
    rcases ho with e | e <;> subst e
    · cases hout
    · exact ⟨rfl, Or.inl rfl⟩
  · intro h; cases h

theorem exInv : Inv RevSemEx.P (fun _ => 0) exS := by
  refine ⟨rfl, by decide, ?_, ?_, ?_, ?_, fun _ => (by decide : (1 : Nat) ≤ 2), fun _ => Nat.le_refl _, ?_, ?_, ?_, ?_, ?_, ?_, ?_, ?_, ?_⟩
  · intro d; rw [ex_lc]; split <;> decide
  · intro d; rw [ex_lc]; split <;> decide
  · intro d; rw [ex_lc, ex_lc]; split <;> split <;> first | decide | omega
  · intro d hd; rw [ex_lc]; split
    · omega
    · rfl
  · intro w d hw k hk
    simp only [exS, List.mem_cons, List.not_mem_nil, or_false, Prod.mk.injEq] at hw
    rw [ex_lc]
    have : k = 0 := by omega
    simp only [this, if_true]; omega
  · intro w d hw
    simp only [exS, List.mem_cons, List.not_mem_nil, or_false, Prod.mk.injEq] at hw
    omega
  · intro w h1 h2
    have h2' : w ≤ 2 := h2
    have : w = 2 := by omega
    subst this
    exact List.mem_cons_self
  · intro q m hm
    by_cases hq : q = 0
    · subst hq
      cases hm
      exact exNodeOk
    · simp [exS, hq] at hm
  · intro q hm _
    by_cases hq : q = 0
    · subst hq; cases hm
    · simp [exS, hq]
  · intro c sm hsm
    by_cases hc : c = 0
    · subst hc
      cases hsm
      refine ⟨fun h => (by cases h), fun k hk => ?_, rfl, rfl, fun h => (by cases h)⟩
      cases hk
      exact ⟨rfl, rfl, Nat.le_refl _, by decide, Nat.le_refl _, by decide⟩
    · simp [exS, hc] at hsm
  · intro c sm hsm
    by_cases hc : c = 0
    · subst hc; exact ⟨exSl, rfl⟩
    · simp [exS, hc] at hsm
  · intro c sl hsl
    by_cases hc : c = 0
    · subst hc
      cases hsl
      exact ⟨by decide, Nat.le_refl _, by decide, by decide⟩
    · simp [exS, hc] at hsl
  · intro c sm hsm hva
    by_cases hc : c = 0
    · subst hc
      cases hsm
      cases hva
    · simp [exS, hc] at hsm

/-- `validateOutput_ok`: the stale `Assigned` memo of the valid creator 0 is validated -/
example : Inv RevSemEx.P (fun _ => 0) (markValidatedOutput exS 0 0) ∧
    (markValidatedOutput exS 0 0).smemos 0 = some { exA with va := 2 } :=
  have h := validateOutput_ok (A := exA) exInv rfl rfl (fun _ => ⟨exM, exR, 2, rfl, exRep, rfl⟩)
  ⟨h.1, h.2.2.2.2.2.2.2.2.1⟩

/-- `shallow_step_ok`: the memo of node 0 (durability 1, verified at 1, revision 2 after a write of
    level 0) is marked verified and its recorded output edge is validated -/
example : let t := markOutputsVerified 0 exM.obs (markVerified exS 0 exM)
    Inv RevSemEx.P (fun _ => 0) t ∧ Ext exS t 1 ∧ (∀ c, Busy t c → Busy exS c) ∧ HotRes t 2 0 (hit exM) :=
  shallow_step_ok RevSemEx.wf2 exInv rfl (by decide) (by decide) rfl

end RevShallowEx

end SalsaVerif.Proofs.CoreSpec
