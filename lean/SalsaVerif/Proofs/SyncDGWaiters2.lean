/-
  W6 with transfers, part 2: `transfer` keeps `QInv`; every step of a `runC` run keeps it.
-/
import SalsaVerif.Proofs.SyncDGWaiters

namespace SalsaVerif.Proofs.SyncDG
open SalsaVerif.Model.SyncDG

/-- In a forest the entry-update of `transfer_lock` removes no `transferred` entry and leaves one for
    the transferred key. -/
theorem transferEntry_dom {s s4 : State} {q c n nt : Nat} {ch : Bool} (hf : Forest s) (hne : n ≠ q)
    (he : transferEntry s q c n nt = some (some (s4, ch))) :
    (s4.transferred q).isSome ∧ (∀ d, (s.transferred d).isSome → (s4.transferred d).isSome) ∧
    s4.qdeps = s.qdeps ∧ s4.sync = s.sync := by
  unfold transferEntry at he
  cases hq : s.transferred q with
  | none =>
    simp only [hq, Option.some.injEq, Prod.mk.injEq] at he
    obtain ⟨rfl, _⟩ := he
    refine ⟨by simp, ?_, rfl, rfl⟩
    intro d hd
    by_cases hdq : d = q
    · subst hdq; simp
    · simp only; rw [upd_other _ _ _ _ hdq]; exact hd
  | some pr =>
    obtain ⟨ot, oo⟩ := pr
    simp only [hq] at he
    by_cases hsame : ot = nt ∧ oo = n
    · simp [hsame] at he
    · simp only [hsame, if_false] at he
      cases h1 : tdepsRemove s oo q with
      | none => simp [h1] at he
      | some s1 =>
        simp only [h1] at he
        obtain ⟨loo, hloo, rfl⟩ := tdepsRemove_eq h1
        cases h3 : repointLoop { ({ s with tdeps := upd s.tdeps oo (some (smallSetRemove loo q)) } : State) with
            transferred := upd s.transferred q (some (nt, n)) } q ot oo n (s.bound + 1) n with
        | none => simp [h3] at he
        | some s3 =>
          simp only [h3, Option.some.injEq, Prod.mk.injEq] at he
          obtain ⟨rfl, _⟩ := he
          have hbase : ∀ d, (s.transferred d).isSome → ((upd s.transferred q (some (nt, n))) d).isSome := by
            intro d hd
            by_cases hdq : d = q
            · subst hdq; simp
            · rw [upd_other _ _ _ _ hdq]; exact hd
          rcases repointLoop_cases _ _ _ h3 with ⟨rfl, _⟩ | ⟨src, th, hreach, hsrc, s2a, hrem, hcase⟩
          · exact ⟨by simp, hbase, rfl, rfl⟩
          · simp only at hreach hsrc
            have hsrcq : src ≠ q := by
              rintro rfl
              simp only [upd_same, Option.some.injEq, Prod.mk.injEq] at hsrc
              exact hne hsrc.2
            rw [upd_other _ _ _ _ hsrcq] at hsrc
            have hreach' := reach_without_q hreach
            have hreach_s : n = src ∨ TPath s.transferred n src := by
              rcases hreach' with h | h
              · exact Or.inl h
              · exact Or.inr (tpath_upd_none h)
            have hcyc_n : oo ≠ n := by
              rintro rfl
              apply hf.acyclic q
              rcases hreach_s with rfl | h
              · exact Path.cons (tnext_some hq) (Path.single (tnext_some hsrc))
              · exact Path.cons (tnext_some hq) (h.trans (Path.single (tnext_some hsrc)))
            obtain ⟨lq, _, rfl⟩ := tdepsRemove_eq hrem
            rcases hcase with ⟨h, _⟩ | ⟨_, hpush⟩
            · exact absurd h hcyc_n
            · obtain ⟨l', _, _, rfl⟩ := tdepsPush_eq hpush
              refine ⟨?_, ?_, rfl, rfl⟩
              · simp only; rw [upd_other _ _ _ _ hsrcq.symm]; simp
              · intro d hd
                simp only
                by_cases hds : d = src
                · subst hds; simp
                · rw [upd_other _ _ _ _ hds]; exact hbase d hd

theorem unblockTransferTarget_q {s s' : State} {src nt : Nat} (hinv : GInv s [])
    (h : unblockTransferTarget s src nt = some s') :
    QShrink s s' ∧ s'.sync = s.sync ∧ s'.transferred = s.transferred := by
  unfold unblockTransferTarget at h
  cases hf : findBlockedThread s nt (s.bound + 1) src with
  | none => simp [hf] at h
  | some o =>
    cases o with
    | none =>
      simp only [hf, Option.some.injEq] at h
      subst h; exact ⟨QShrink.refl _, rfl, rfl⟩
    | some qi =>
      obtain ⟨q, i⟩ := qi
      simp only [hf] at h
      cases hti : (s.qdeps q)[i]? with
      | none => simp [hti] at h
      | some t =>
        simp only [hti] at h
        obtain ⟨_, hmem⟩ := swapRemoveAt_spec (s.qdeps q) i t (hinv.nodup q) hti
        obtain ⟨_, rfl⟩ := unblockRuntime_eq h
        refine ⟨?_, rfl, rfl⟩
        intro k x hx
        simp only at hx
        by_cases hk : k = q
        · subst hk; simp only [upd_same] at hx; exact ((hmem x).mp hx).1
        · rwa [upd_other _ _ _ _ hk] at hx

/-- Effect of `transfer_lock` (with its `block_on`) on dependents, sync table and `transferred`. -/
structure TLEffect (s s' : State) (q c n : Nat) : Prop where
  sync : s'.sync = s.sync
  qdeps : ∀ k x, x ∈ s'.qdeps k → x ∈ s.qdeps k ∨ (k = n ∧ x = c)
  entry : (s'.transferred q).isSome
  keeps : ∀ d, (s.transferred d).isSome → (s'.transferred d).isSome

/-- dependents only shrink in `afterTransfer` -/
theorem afterTransfer_qshrink {s s' : State} {q nt : Nat} (hinv : GInv s [])
    (ha : afterTransfer s q nt = some s') : QShrink s s' := by
  unfold afterTransfer at ha
  cases h1 : unblockTransferTarget s q nt with
  | none => simp [h1] at ha
  | some s6 =>
    simp only [h1] at ha
    obtain ⟨sh6, _, _⟩ := unblockTransferTarget_q hinv h1
    have g6 := unblockTransferTarget_gstep hinv h1
    obtain ⟨_, q7⟩ := updateTransferredEdges_gstep _ _ _ _ g6.inv ha
    exact sh6.trans (QShrink.of_eq q7.qdeps)

theorem transferLockCore_effect {s s' : State} {q c n nt : Nat} {o : SyncOwner} {kind : TransferKind}
    (hinv : GInv s []) (hf : Forest s) (hne : n ≠ q)
    (h : transferLockCore s q c n o = some (s', kind, nt)) :
    s'.sync = s.sync ∧ QShrink s s' ∧ (kind ≠ .noop → (s'.transferred q).isSome) ∧
    (kind = .noop → s' = s ∧ (s.transferred q).isSome) ∧
    (∀ d, (s.transferred d).isSome → (s'.transferred d).isSome) := by
  have g := transferLockCore_gstep hinv h
  unfold transferLockCore at h
  cases hnt : newOwnerThread s q n o with
  | none => simp [hnt] at h
  | some nt' =>
    simp only [hnt] at h
    cases hpre : transferPre s nt' c with
    | none => simp [hpre] at h
    | some b =>
      cases b with
      | false => simp [hpre] at h
      | true =>
        simp only [hpre] at h
        cases he : transferEntry s q c n nt' with
        | none => simp [he] at h
        | some r =>
          cases r with
          | none =>
            simp only [he] at h
            have hsome : (s.transferred q).isSome := by
              unfold transferEntry at he
              cases hq : s.transferred q with
              | none => simp [hq] at he
              | some v => simp
            by_cases hcn : c = nt'
            · simp only [hcn, if_true, Option.some.injEq, Prod.mk.injEq] at h
              obtain ⟨rfl, rfl, _⟩ := h
              exact ⟨rfl, QShrink.refl _, fun hk => absurd rfl hk, fun _ => ⟨rfl, hsome⟩, fun _ hd => hd⟩
            · simp only [hcn, if_false] at h
              cases ha : afterTransfer s q nt' with
              | none => simp [ha] at h
              | some s7 =>
                simp only [ha, Option.some.injEq, Prod.mk.injEq] at h
                obtain ⟨rfl, rfl, _⟩ := h
                obtain ⟨e1, _⟩ := afterTransfer_sameTD hinv ha
                exact ⟨g.sync, afterTransfer_qshrink hinv ha, (fun _ => by rw [e1]; exact hsome),
                  (fun hk => by cases hk), (fun d hd => by rw [e1]; exact hd)⟩
          | some p =>
            obtain ⟨s4, ch⟩ := p
            simp only [he] at h
            obtain ⟨d1, d2, d3, d4⟩ := transferEntry_dom hf hne he
            cases hr : registerDependent s4 q n with
            | none => simp [hr] at h
            | some s5 =>
              simp only [hr] at h
              obtain ⟨_, _, rfl⟩ := registerDependent_eq hr
              have g5 := ((transferEntry_sameG he).trans (registerDependent_sameG hr)).gstep hinv
              cases ch with
              | false =>
                simp only [Bool.false_eq_true, if_false, Option.some.injEq, Prod.mk.injEq] at h
                obtain ⟨rfl, rfl, _⟩ := h
                exact ⟨d4, QShrink.of_eq d3, fun _ => d1, (fun hk => by cases hk), d2⟩
              | true =>
                simp only [if_true] at h
                cases ha : afterTransfer { s4 with tdeps := upd s4.tdeps n (some (tdepsL s4 n ++ [q])) } q nt' with
                | none => simp [ha] at h
                | some s7 =>
                  simp only [ha, Option.some.injEq, Prod.mk.injEq] at h
                  obtain ⟨rfl, rfl, _⟩ := h
                  obtain ⟨e1, _⟩ := afterTransfer_sameTD g5.inv ha
                  -- dependents only shrink in `afterTransfer`
                  have hsh : QShrink { s4 with tdeps := upd s4.tdeps n (some (tdepsL s4 n ++ [q])) } s7 := by
                    unfold afterTransfer at ha
                    cases h1 : unblockTransferTarget { s4 with tdeps := upd s4.tdeps n (some (tdepsL s4 n ++ [q])) } q nt' with
                    | none => simp [h1] at ha
                    | some s6 =>
                      simp only [h1] at ha
                      obtain ⟨sh6, _, _⟩ := unblockTransferTarget_q g5.inv h1
                      have g6 := unblockTransferTarget_gstep g5.inv h1
                      obtain ⟨_, q7⟩ := updateTransferredEdges_gstep _ _ _ _ g6.inv ha
                      exact sh6.trans (QShrink.of_eq q7.qdeps)
                  refine ⟨g.sync, (QShrink.of_eq d3).trans hsh, (fun _ => by rw [e1]; exact d1),
                    (fun hk => by cases hk), (fun d hd => by rw [e1]; exact d2 d hd)⟩

theorem transferLock_effect {s s' : State} {q c n : Nat} {o : SyncOwner} {kind : TransferKind} {b : Bool}
    (hinv : GInv s []) (hf : Forest s) (hne : n ≠ q)
    (h : transferLock s q c n o = some (s', kind, b)) : TLEffect s s' q c n := by
  unfold transferLock at h
  cases hc : transferLockCore s q c n o with
  | none => simp [hc] at h
  | some p =>
    obtain ⟨s1, kd, nt⟩ := p
    obtain ⟨e1, e2, e3, e4, e5⟩ := transferLockCore_effect hinv hf hne hc
    have base : TLEffect s s1 q c n := by
      refine ⟨e1, fun k x hx => Or.inl (e2 k x hx), ?_, e5⟩
      cases kd with
      | noop => obtain ⟨rfl, hs⟩ := e4 rfl; exact hs
      | same => exact e3 (by intro h; cases h)
      | changed => exact e3 (by intro h; cases h)
    cases kd with
    | noop =>
      simp only [hc, Option.some.injEq, Prod.mk.injEq] at h
      rw [← h.1]; exact base
    | same =>
      simp only [hc, Option.some.injEq, Prod.mk.injEq] at h
      rw [← h.1]; exact base
    | changed =>
      simp only [hc] at h
      by_cases hcn : c = nt
      · simp only [hcn, if_true, Option.some.injEq, Prod.mk.injEq] at h
        rw [← h.1]; exact base
      · simp only [hcn, if_false] at h
        cases hd : dependsOn s1 nt c with
        | none => simp [hd] at h
        | some bb =>
          cases bb with
          | true =>
            simp only [hd, Option.some.injEq, Prod.mk.injEq] at h
            rw [← h.1]; exact base
          | false =>
            simp only [hd] at h
            cases ha : addEdge s1 c n nt with
            | none => simp [ha] at h
            | some s2 =>
              simp only [ha, Option.some.injEq, Prod.mk.injEq] at h
              obtain ⟨rfl, _⟩ := h
              obtain ⟨_, _, _, rfl⟩ := addEdge_eq ha
              refine ⟨base.sync, ?_, base.entry, base.keeps⟩
              intro k x hx
              simp only at hx
              by_cases hk : k = n
              · subst hk
                simp only [upd_same, List.mem_append, List.mem_singleton] at hx
                rcases hx with hx | hx
                · exact base.qdeps k x hx
                · exact Or.inr ⟨rfl, hx⟩
              · rw [upd_other _ _ _ _ hk] at hx; exact base.qdeps k x hx

theorem newOwnerThread_transferred {s : State} {q n nt : Nat}
    (h : newOwnerThread s q n .transferred = some nt) : (s.transferred n).isSome := by
  unfold newOwnerThread at h
  simp only at h
  cases ht : threadIdOfTransferredQuery s n (some q) with
  | none => simp [ht] at h
  | some o =>
    cases o with
    | none => simp [ht] at h
    | some t => exact threadId_none_iff.2 t ht

theorem transferLock_owner {s s' : State} {q c n : Nat} {kind : TransferKind} {b : Bool}
    (h : transferLock s q c n .transferred = some (s', kind, b)) : (s.transferred n).isSome := by
  unfold transferLock at h
  cases hc : transferLockCore s q c n .transferred with
  | none => simp [hc] at h
  | some p =>
    unfold transferLockCore at hc
    cases hnt : newOwnerThread s q n .transferred with
    | none => simp [hnt] at hc
    | some nt => exact newOwnerThread_transferred hnt

def stMarked (no : SyncState) : SyncState := { no with anyoneWaiting := true, isTransferTarget := true }
def stTransferred (st : SyncState) : SyncState := { st with owner := .transferred, claimedTwice := false }
def s1Of (s : State) (n : Nat) (no : SyncState) : State := { s with sync := upd s.sync n (some (stMarked no)) }
def s2Of (s : State) (n k : Nat) (no st : SyncState) : State :=
  { s with sync := upd (upd s.sync n (some (stMarked no))) k (some (stTransferred st)) }

theorem transfer_some {s s' : State} {t k n : Nat} {a : TransferAnswer}
    (h : transfer s t k n = some (s', a)) :
    (s.sync n = none ∧ releaseEntry s k .panicked = some s') ∨
    (∃ no st kind b, s.sync n = some no ∧ (s1Of s n no).sync k = some st ∧
      transferLock (s2Of s n k no st) k t n no.owner = some (s', kind, b)) := by
  unfold transfer at h
  unfold markAsTransferTarget at h
  cases hsn : s.sync n with
  | none =>
    simp only [hsn] at h
    cases hr : releaseEntry s k .panicked with
    | none => simp [hr] at h
    | some s1 =>
      simp only [hr, Option.some.injEq, Prod.mk.injEq] at h
      exact Or.inl ⟨rfl, by rw [← h.1]⟩
  | some no =>
    simp only [hsn] at h
    unfold setTransferred at h
    cases hsk : (s1Of s n no).sync k with
    | none =>
      have : (upd s.sync n (some { no with anyoneWaiting := true, isTransferTarget := true })) k = none := hsk
      simp only [this] at h; cases h
    | some st =>
      have hsk' : (upd s.sync n (some { no with anyoneWaiting := true, isTransferTarget := true })) k = some st := hsk
      simp only [hsk'] at h
      cases ht : transferLock (s2Of s n k no st) k t n no.owner with
      | none =>
        have ht' := ht
        simp only [s2Of, stMarked, stTransferred] at ht'
        simp only [ht'] at h; cases h
      | some p =>
        obtain ⟨s3, kind, b⟩ := p
        have ht' := ht
        simp only [s2Of, stMarked, stTransferred] at ht'
        simp only [ht', Option.some.injEq, Prod.mk.injEq] at h
        obtain ⟨rfl, _⟩ := h
        exact Or.inr ⟨no, st, kind, b, rfl, hsk, ht⟩

theorem transfer_qinv {s s' : State} {t k n : Nat} {a : TransferAnswer} (hinv : GInv s [])
    (hf : Forest s) (hq : QInv s) (hne : n ≠ k) (h : transfer s t k n = some (s', a)) : QInv s' := by
  rcases transfer_some h with ⟨_, hr⟩ | ⟨no, st, kind, b, hsn, hsk', ht⟩
  · exact releaseEntry_qinv hq hr
  · have hsk : s.sync k = some st := by
      have : (upd s.sync n (some (stMarked no))) k = some st := hsk'
      rwa [upd_other _ _ _ _ hne.symm] at this
    have eff := transferLock_effect (s := s2Of s n k no st) (GInv.congr (s := s) rfl rfl rfl hinv)
      (Forest.congr (s := s) rfl rfl hf) hne ht
    have hsync : s'.sync = upd (upd s.sync n (some (stMarked no))) k (some (stTransferred st)) := eff.sync
    have hs_n : s'.sync n = some (stMarked no) := by
      rw [hsync, upd_other _ _ _ _ hne]; simp
    have hs_k : s'.sync k = some (stTransferred st) := by
      rw [hsync]; simp
    have hs_o : ∀ k', k' ≠ n → k' ≠ k → s'.sync k' = s.sync k' := by
      intro k' h1 h2
      rw [hsync, upd_other _ _ _ _ h2, upd_other _ _ _ _ h1]
    constructor
    · intro k' hne'
      cases hqk : s'.qdeps k' with
      | nil => exact absurd hqk hne'
      | cons x xs =>
        have hx : x ∈ s'.qdeps k' := by simp [hqk]
        by_cases h1 : k' = n
        · subst h1; exact ⟨_, hs_n, rfl⟩
        · rcases eff.qdeps k' x hx with hold | ⟨hk', _⟩
          · have hold' : x ∈ s.qdeps k' := hold
            obtain ⟨st', e1, e2⟩ := hq.aw k' (by intro h0; rw [h0] at hold'; simp at hold')
            by_cases h2 : k' = k
            · subst h2
              rw [hsk] at e1; cases e1
              exact ⟨_, hs_k, e2⟩
            · exact ⟨st', by rw [hs_o k' h1 h2]; exact e1, e2⟩
          · exact absurd hk' h1
    · intro k' st' hsy ho hnone
      have hold_none : s.transferred k' = none := by
        cases hx : s.transferred k' with
        | none => rfl
        | some v =>
          have := eff.keeps k' (by show (s.transferred k').isSome = true; simp [hx])
          rw [hnone] at this; simp at this
      have hkk : k' ≠ k := by
        rintro rfl
        have := eff.entry; rw [hnone] at this; simp at this
      have hqold : ∀ x, x ∈ s'.qdeps k' → k' ≠ n → x ∈ s.qdeps k' := by
        intro x hx h1
        rcases eff.qdeps k' x hx with hold | ⟨hk', _⟩
        · exact hold
        · exact absurd hk' h1
      by_cases h1 : k' = n
      · subst h1
        rw [hs_n] at hsy; simp only [Option.some.injEq] at hsy; subst hsy
        have ho' : no.owner = .transferred := ho
        rw [ho'] at ht
        have : (s.transferred k').isSome = true := transferLock_owner (s := s2Of s k' k no st) ht
        rw [hold_none] at this; simp at this
      · rw [hs_o k' h1 hkk] at hsy
        have h0 := hq.stale k' st' hsy ho hold_none
        cases hqk : s'.qdeps k' with
        | nil => rfl
        | cons x xs =>
          have := hqold x (by simp [hqk]) h1
          rw [h0] at this; simp at this

/-- Every step of a run that satisfies the client precondition keeps `QInv`. -/
theorem stepA_qinv {s s' : State} {op : Op} {ans : Answer} (hinv : GInv s []) (hf : Forest s)
    (hq : QInv s) (hcl : clientOk s op = true) (hs : stepA s op = some (s', ans)) : QInv s' := by
  have qt : ∀ (a : State) n, QInv a → QInv (touch a n) := fun a n h => h.congr rfl rfl rfl
  cases op with
  | claim t k re blk =>
    simp only [stepA] at hs
    have q0 := qt _ k (qt _ t hq)
    generalize touch (touch s t) k = s0 at hs q0
    cases hi : idle s0 t with
    | false => simp [hi] at hs
    | true =>
      simp only [hi, if_true] at hs
      cases hc : tryClaim s0 t k re with
      | none => simp [hc] at hs
      | some p =>
        obtain ⟨s1, a⟩ := p
        simp only [hc] at hs
        exact claimStep_qinv q0 (tryClaim_frame hc).only (tryClaim_case hc) hs
  | peek t k re blk =>
    simp only [stepA] at hs
    have q0 := qt _ k (qt _ t hq)
    generalize touch (touch s t) k = s0 at hs q0
    cases hi : idle s0 t with
    | false => simp [hi] at hs
    | true =>
      simp only [hi, if_true] at hs
      cases hc : peekClaim s0 t k re with
      | none => simp [hc] at hs
      | some p =>
        obtain ⟨s1, a⟩ := p
        simp only [hc] at hs
        exact claimStep_qinv q0 (peekClaim_frame hc).only (peekClaim_case hc) hs
  | release t k r =>
    simp only [stepA] at hs
    have q0 := qt _ k (qt _ t hq)
    generalize touch (touch s t) k = s0 at hs q0
    cases hc : (idle s0 t && ownedBy s0 k t) with
    | false => simp [hc] at hs
    | true =>
      simp only [hc, if_true, Option.map_eq_some_iff, Prod.mk.injEq] at hs
      obtain ⟨s2, hr, rfl, _⟩ := hs
      exact releaseEntry_qinv q0 hr
  | releaseSelf t k =>
    simp only [stepA] at hs
    have q0 := qt _ k (qt _ t hq)
    generalize touch (touch s t) k = s0 at hs q0
    cases hc : (idle s0 t && ownedBy s0 k t) with
    | false => simp [hc] at hs
    | true =>
      simp only [hc, if_true, Option.map_eq_some_iff, Prod.mk.injEq] at hs
      obtain ⟨s2, hr, rfl, _⟩ := hs
      exact releaseSelf_qinv q0 hr
  | transfer t k n =>
    simp only [stepA] at hs
    simp only [clientOk] at hcl
    have q0 := qt _ n (qt _ k (qt _ t hq))
    have f0 := Forest_touch n (Forest_touch k (Forest_touch t hf))
    have h0 := GInv_touch n (GInv_touch k (GInv_touch t hinv))
    generalize touch (touch (touch s t) k) n = s0 at hs q0 f0 h0 hcl
    cases hc : (idle s0 t && ownedBy s0 k t) with
    | false => simp [hc] at hs
    | true =>
      simp only [hc, if_true, Option.map_eq_some_iff, Prod.mk.injEq] at hs
      obtain ⟨p, hr, rfl, _⟩ := hs
      obtain ⟨s2, a⟩ := p
      exact transfer_qinv h0 f0 q0 (transferClientOk_sound hcl).1 hr
  | wake t =>
    simp only [stepA] at hs
    have q0 := qt _ t hq
    generalize touch s t = s0 at hs q0
    cases hr : s0.results t with
    | none => simp [hr] at hs
    | some r =>
      simp only [hr, Option.some.injEq, Prod.mk.injEq] at hs
      obtain ⟨rfl, _⟩ := hs
      exact q0.congr rfl rfl rfl

theorem runC_qinv : ∀ (ops : List Op) (s s' : State), GInv s [] → Forest s → QInv s →
    runC s ops = some s' → QInv s' := by
  intro ops
  induction ops with
  | nil =>
    intro s s' _ _ hq hr
    simp only [runC, Option.some.injEq] at hr
    subst hr; exact hq
  | cons op ops ih =>
    intro s s' h hf hq hr
    unfold runC at hr
    cases hcl : clientOk s op with
    | false => simp [hcl] at hr
    | true =>
      simp only [hcl, if_true] at hr
      cases hs : step s op with
      | none => simp [hs] at hr
      | some s1 =>
        simp only [hs] at hr
        have hs' := hs
        unfold step at hs'
        cases ha : stepA s op with
        | none => simp [ha] at hs'
        | some p =>
          obtain ⟨s1', ans⟩ := p
          simp only [ha, Option.map_some, Option.some.injEq] at hs'
          subst hs'
          exact ih _ s' (step_full h hs).1 (stepA_forest h hf hcl ha) (stepA_qinv h hf hq hcl ha) hr

/-- The hand-back of a re-claimed transferred key whose transfer chain does NOT resolve to the releasing
    thread wakes every waiter (salsa 451fce7 / e06010e). -/
theorem releaseSelf_handback {s0 s' : State} {t k : Nat} {st : SyncState} (hg : GInv s0 []) (hq : QInv s0)
    (hk : s0.sync k = some st) (hct : st.claimedTwice = true) (hr : releaseSelf s0 t k = some s')
    (hno : threadIdOfTransferredQuery s0 k none ≠ some (some t)) :
    s'.qdeps k = [] ∧
    s'.sync k = some { st with claimedTwice := false, owner := .transferred, anyoneWaiting := false } ∧
    (∀ u, u ∈ s0.qdeps k → s'.results u = some .completed ∧ s'.edges u = none) := by
  rcases releaseSelf_handback_cases hk hct hr with ⟨hc, rfl⟩ | ⟨_, _, h1⟩
  · rcases hc with haw | hown
    · have hk0 : s0.qdeps k = [] := by
        cases hqk : s0.qdeps k with
        | nil => rfl
        | cons x xs =>
          obtain ⟨st', h1, h2⟩ := hq.aw k (by simp [hqk])
          rw [hk] at h1; cases h1; rw [haw] at h2; cases h2
      refine ⟨hk0, ?_, by intro u hu; rw [hk0] at hu; simp at hu⟩
      simp only [upd_same, handedBack, haw]
    · exact absurd (isOwner_true_iff.mp hown) hno
  · have hg1 : GInv { s0 with sync := upd s0.sync k (some (handedBack st false)) } [] :=
      GInv.congr (s := s0) rfl rfl rfl hg
    obtain ⟨_, hun⟩ := unblockRuntimesBlockedOn_inv hg1 h1
    refine ⟨by rw [hun.qdeps]; simp, ?_, fun u hu => hun.delivered u hu⟩
    rw [hun.same.sync]; simp only [upd_same, handedBack]

/-- The hand-back of a re-claimed transferred key whose transfer chain resolves to the releasing thread
    (it owns the transfer target) changes nothing but the sync entry: nobody is woken and
    `anyone_waiting` keeps its value (salsa e06010e). -/
theorem releaseSelf_handback_own {s0 s' : State} {t k : Nat} {st : SyncState}
    (hk : s0.sync k = some st) (hct : st.claimedTwice = true) (hr : releaseSelf s0 t k = some s')
    (hown : threadIdOfTransferredQuery s0 k none = some (some t)) :
    s' = { s0 with sync := upd s0.sync k (some { st with claimedTwice := false, owner := .transferred }) } := by
  rcases releaseSelf_handback_cases hk hct hr with ⟨_, rfl⟩ | ⟨_, hf, _⟩
  · rfl
  · obtain ⟨r, h1, h2⟩ := isOwner_false_iff.mp hf
    have h1' : threadIdOfTransferredQuery s0 k none = some r := h1
    rw [hown] at h1'; cases h1'; exact absurd rfl h2

end SalsaVerif.Proofs.SyncDG
