/-
  CoreSpec, histories with writes: deep verification of a node, part 2.
  Re-stamping the memo of node `r` as verified and deep-verified NOW (`mark_as_verified` after a
  successful `deep_verify_edges`): value, `changed_at`, durability and reads are unchanged, so every
  observer of `qry r` / `field r` / `spec r` keeps its clauses (`inv_restamp`); what is left to the
  caller is `NodeOk` of the re-stamped memo itself.  (The frame `Sim` of
  Proofs/CoreSpecRevShallow.lean does not apply: there the re-stamped memo passes the shallow test
  before; here it does not.)  Core Lean only.
-/
import SalsaVerif.Proofs.CoreSpecRevDeep1

namespace SalsaVerif.Proofs.CoreSpec
open SalsaVerif.Model.CoreSpec

/-- the state after `mark_as_verified` of the deep-verified memo `m` of node `r` (without the event) -/
def restamp (t : State) (r : Nat) (m : Memo) : State :=
  setMemo t r { m with va := t.cur, deepAt := t.cur }

theorem markDeepVerified_eq (t : State) (r : Nat) (m : Memo) :
    markDeepVerified t r m = emit (restamp t r m) (.valid r) := rfl

section Restamp
variable {P : Prog} {idOf : Nat → Nat} {t : State} {r : Nat} {m : Memo}

theorem rs_mem_other {q : Nat} (h : q ≠ r) : (restamp t r m).memos q = t.memos q := setMemo_other _ _ _ h

theorem rs_mem_same : (restamp t r m).memos r = some { m with va := t.cur, deepAt := t.cur } := setMemo_same _ _ _

/-- a memo of the new state against the one of the old state -/
theorem rs_memB (hm : t.memos r = some m) {c : Nat} {mc : Memo} (h : (restamp t r m).memos c = some mc) :
    ∃ mc0, t.memos c = some mc0 ∧ mc.value = mc0.value ∧ mc.ca = mc0.ca ∧ mc.dur = mc0.dur ∧
      (c ≠ r → mc = mc0) ∧ (c = r → mc.va = t.cur) := by
  by_cases hc : c = r
  · subst hc
    rw [rs_mem_same] at h; cases h
    exact ⟨m, hm, rfl, rfl, rfl, fun h => absurd rfl h, fun _ => rfl⟩
  · rw [rs_mem_other hc] at h
    exact ⟨mc, h, rfl, rfl, rfl, fun _ => rfl, fun h => absurd h hc⟩

theorem rs_depInfo (hm : t.memos r = some m) (d : Dep) : depInfo (restamp t r m) d = depInfo t d := by
  cases d with
  | inp i => rfl
  | field c => rfl
  | spec c => rfl
  | qry q =>
    by_cases hq : q = r
    · subst hq
      simp only [depInfo, rs_mem_same, hm, Option.map_some]
    · simp only [depInfo, rs_mem_other hq]

theorem rs_sokIff (m0 : Memo) : SOK (restamp t r m) m0 ↔ SOK t m0 := Iff.rfl

theorem rs_wit (k lo hi : Nat) : Wit (restamp t r m) k lo hi ↔ Wit t k lo hi := Iff.rfl

theorem rs_memoSok_self : memoSok (restamp t r m) r := ⟨_, rs_mem_same, Or.inl rfl⟩

theorem rs_memoSok_fwd {c : Nat} (h : memoSok t c) : memoSok (restamp t r m) c := by
  by_cases hc : c = r
  · subst hc; exact rs_memoSok_self
  · obtain ⟨mc, a, b⟩ := h
    exact ⟨mc, by rw [rs_mem_other hc]; exact a, b⟩

theorem rs_memoSok_back {c : Nat} (hc : c ≠ r) (h : memoSok (restamp t r m) c) : memoSok t c := by
  obtain ⟨mc, a, b⟩ := h
  rw [rs_mem_other hc] at a
  exact ⟨mc, a, b⟩

theorem rs_not_busy_self : ¬ Busy (restamp t r m) r := memoSok_not_busy rs_memoSok_self

theorem rs_busy_iff {c : Nat} (hc : c ≠ r) : Busy (restamp t r m) c ↔ Busy t c := by
  constructor
  · rintro ⟨sl, a, b, n⟩
    exact ⟨sl, a, b, fun h => n (rs_memoSok_fwd h)⟩
  · rintro ⟨sl, a, b, n⟩
    exact ⟨sl, a, b, fun h => n (rs_memoSok_back hc h)⟩

theorem rs_busy_back {c : Nat} (h : Busy (restamp t r m) c) : Busy t c := by
  obtain ⟨sl, a, b, n⟩ := h
  exact ⟨sl, a, b, fun h => n (rs_memoSok_fwd h)⟩

theorem rs_sokDep_fwd {d : Dep} (h : sokDep t d) : sokDep (restamp t r m) d := by
  cases d with
  | inp i => trivial
  | qry q => exact rs_memoSok_fwd h
  | field c => exact ⟨rs_memoSok_fwd h.1, h.2⟩
  | spec c => exact ⟨rs_memoSok_fwd h.1, h.2⟩

theorem rs_obsAt (hm : t.memos r = some m) {va L o} (a : ObsAt t va L o) : ObsAt (restamp t r m) va L o := by
  refine ⟨?_, ?_, ?_⟩
  · intro x hx
    rw [rs_depInfo hm] at hx
    exact a.iv x hx
  · intro c mc hd hs hmc
    obtain ⟨mc0, h0, _, e2, _⟩ := rs_memB hm hmc
    rw [e2]
    exact a.dead c mc0 hd hs h0
  · intro c sl hd hs hsm
    exact a.deadsm c sl hd hs hsm

theorem rs_structAt (hm : t.memos r = some m) {va L o} (a : StructAt t va L o) :
    StructAt (restamp t r m) va L o := by
  refine ⟨?_, ?_⟩
  · intro c mc hd hmc
    obtain ⟨mc0, h0, _, e2, e3, _⟩ := rs_memB hm hmc
    rw [e2, e3]
    exact a.odur c mc0 hd h0
  · intro c mc hd hmc
    obtain ⟨mc0, h0, e1, e2, _⟩ := rs_memB hm hmc
    rw [e1, e2]
    exact a.hexp c mc0 hd h0

theorem rs_preAt (hm : t.memos r = some m) {va L pre} (a : PreAt t va L pre) : PreAt (restamp t r m) va L pre :=
  fun o ho => ⟨rs_obsAt hm (a o ho).1, rs_structAt hm (a o ho).2⟩

/-- an observer memo keeps its clauses -/
theorem rs_obsOk (hI : Inv P idOf t) (hm : t.memos r = some m) {m0 : Memo} (ok : ObsOk t m0) :
    ObsOk (restamp t r m) m0 := by
  refine ⟨ok.ca_va, ok.va_cur, ok.va1, ok.deep_va, ok.deep1, ok.dur3,
    fun o ho hout => rs_obsAt hm (ok.iv o ho hout), ?_, ok.i4, ?_, ok.i5s, ?_,
    fun o ho hout hr => rs_obsAt hm (ok.i6 o ho hout hr), ok.g4⟩
  · intro hs o ho hout
    rw [rs_depInfo hm]
    exact ok.kaca hs o ho hout
  · intro o q' ho hout hd
    obtain ⟨m2, hm2, hr⟩ := ok.i5q o q' ho hout hd
    by_cases hq : q' = r
    · subst hq
      refine ⟨_, rs_mem_same, fun _ => ?_⟩
      exact Nat.le_trans ok.deep_va ok.va_cur
    · exact ⟨m2, by rw [rs_mem_other hq]; exact hm2, hr⟩
  · intro o c mc ho hout hd hmc w d hw hdur hlt
    by_cases hc : c = r
    · subst hc
      rw [rs_mem_same] at hmc; cases hmc
      have h1 := hI.wlog_lc w d hw 0 (Nat.zero_le _)
      have h2 := hI.lc_le 0
      have hlt' : t.cur < w := hlt
      omega
    · rw [rs_mem_other hc] at hmc
      exact ok.ordw o c mc ho hout hd hmc w d hw hdur hlt

theorem rs_tieOk (hm : t.memos r = some m) {q : Nat} {mq : Memo} {R : SemRes} {pre : List Obs}
    (a : TieOk t q mq R pre) : TieOk (restamp t r m) q mq R pre := by
  unfold TieOk at a ⊢
  cases hts : R.ts with
  | none => rw [hts] at a; exact a
  | some kv =>
    obtain ⟨k, v⟩ := kv
    rw [hts] at a
    obtain ⟨sl, h1, h2, h3, h4, h5⟩ := a
    refine ⟨sl, h1, h2, h3, h4, ?_⟩
    cases hsp : R.sp with
    | some w =>
      rw [hsp] at h5
      obtain ⟨A, b1, b2, b3, b4, b5, b6, b7, b8⟩ := h5
      exact ⟨A, b1, b2, b3, b4, b5, b6, rs_preAt hm b7, b8⟩
    | none =>
      rw [hsp] at h5
      exact ⟨h5.1, rs_preAt hm h5.2⟩

theorem rs_nodeOk (hI : Inv P idOf t) (hm : t.memos r = some m) {q : Nat} {mq : Memo} (hq : q ≠ r)
    (ok : NodeOk P idOf t q mq) : NodeOk P idOf (restamp t r m) q mq := by
  refine ⟨rs_obsOk hI hm ok.obs, ok.origin, fun hs o ho hout => rs_sokDep_fwd (ok.ksok hs o ho hout), ok.rank,
    fun o ho hout => rs_structAt hm (ok.sobs o ho hout), ?_, ok.hd, ?_, ok.hsrc, ok.outedge, ok.never, ?_, ok.shape⟩
  · intro o c ho hout hd
    obtain ⟨mc, hmc⟩ := ok.hmemo o c ho hout hd
    by_cases hc : c = r
    · subst hc; exact ⟨_, rs_mem_same⟩
    · exact ⟨mc, by rw [rs_mem_other hc]; exact hmc⟩
  · obtain ⟨R, h1, h2, h3, h4, h5⟩ := ok.rep
    refine ⟨R, h1, h2, h3, h4, fun hnb => ?_⟩
    have h6 := h5 (fun hb => hnb ((rs_busy_iff hq).mpr hb))
    exact ⟨rs_tieOk hm h6.1, fun w0 hsp A hA => h6.2 w0 hsp A hA⟩
  · rcases ok.m4 with a | ⟨o, ho, hout, a⟩
    · exact Or.inl a
    · exact Or.inr ⟨o, ho, hout, fun x hx => a x (by rw [rs_depInfo hm] at hx; exact hx)⟩

theorem rs_specOk (hI : Inv P idOf t) (hm : t.memos r = some m) {c : Nat} {sm : Memo}
    (ok : SpecOk P idOf t c sm) : SpecOk P idOf (restamp t r m) c sm := by
  refine ⟨fun ho => ?_, ok.assigned, ok.noh, ok.hgen, ok.dshape⟩
  obtain ⟨h1, h2⟩ := ok.derived ho
  exact ⟨rs_obsOk hI hm h1, h2⟩

/-- MAIN of this part: the invariant after re-stamping, given the clauses of the re-stamped memo -/
theorem inv_restamp (hI : Inv P idOf t) (hm : t.memos r = some m)
    (hok : NodeOk P idOf (restamp t r m) r { m with va := t.cur, deepAt := t.cur }) :
    Inv P idOf (restamp t r m) := by
  refine ⟨hI.pn, hI.cur1, hI.lc_le, hI.lc_ge1, hI.lc_anti, hI.lc_never, hI.inp_le, hI.inp_ge1, hI.wlog_lc,
    hI.wlog3, hI.bumps, ?_, ?_, ?_, hI.smslot, hI.slot, ?_⟩
  · intro q mq hmq
    by_cases hq : q = r
    · subst hq
      rw [rs_mem_same] at hmq; cases hmq
      exact hok
    · rw [rs_mem_other hq] at hmq
      exact rs_nodeOk hI hm hq (hI.node q mq hmq)
  · intro q hq hnb
    have hne : q ≠ r := by
      intro e; subst e; rw [rs_mem_same] at hq; cases hq
    rw [rs_mem_other hne] at hq
    exact hI.nonode q hq (fun hb => hnb ((rs_busy_iff hne).mpr hb))
  · intro c sm hsm
    exact rs_specOk hI hm (hI.smemo c sm hsm)
  · intro c sm hsm hva
    rcases hI.hotsm c sm hsm hva with a | a
    · exact Or.inl (rs_memoSok_fwd a)
    · by_cases hc : c = r
      · subst hc; exact Or.inl rs_memoSok_self
      · exact Or.inr ((rs_busy_iff hc).mpr a)

/-- nobody of rank `≤ r` is busy after the re-stamping -/
theorem nb_restamp (hnb : NB t r) : NB (restamp t r m) (r + 1) := by
  intro c hc hb
  by_cases hcr : c = r
  · subst hcr; exact rs_not_busy_self hb
  · exact hnb c (by omega) (rs_busy_back hb)

/-- the frame of the whole verification: the old memo failed the shallow test, so rank `r` is
    constrained by `mono` only -/
theorem ext_restamp {s : State} (hI : Inv P idOf s) (hms : s.memos r = some m) (hns : ¬ SOK s m)
    (h : Ext s t (r + 1)) : Ext s (restamp t r m) (r + 1) := by
  refine ⟨h.cur, h.lch, h.inp, h.wlog, ?_, h.above_s, h.above_sm, ?_, ?_, ?_, h.slot, h.noslot, h.smhot, h.smsok⟩
  · intro q hq
    have hne : q ≠ r := by omega
    rw [rs_mem_other hne]; exact h.above_m q hq
  · intro q m0 hm0 hv0
    by_cases hq : q = r
    · subst hq; rw [hms] at hm0; cases hm0; exact absurd (Or.inl hv0) hns
    · rw [rs_mem_other hq]; exact h.hot q m0 hm0 hv0
  · intro q m0 hm0 hs0
    by_cases hq : q = r
    · subst hq; rw [hms] at hm0; cases hm0; exact absurd hs0 hns
    · rw [rs_mem_other hq]; exact h.sok q m0 hm0 hs0
  · intro q m0 hm0
    by_cases hq : q = r
    · subst hq
      rw [hms] at hm0; cases hm0
      refine ⟨_, rs_mem_same, ?_⟩
      have := (hI.node q _ hms).obs.va_cur
      rw [← h.cur] at this
      exact this
    · rw [rs_mem_other hq]; exact h.mono q m0 hm0

end Restamp

end SalsaVerif.Proofs.CoreSpec
