/-
  CoreSpec, histories with writes: requests of the specifiable function, part 6.
  The re-run against the old `Derived` memo (`rerun_vs_old`), a dead `Assigned` memo
  (`assigned_dead`), the execution step (`exec_install`, `exec_ok`).  Core Lean only.
-/
import SalsaVerif.Proofs.CoreSpecRevFSpec5

namespace SalsaVerif.Proofs.CoreSpec
open SalsaVerif.Model.CoreSpec

/-- some read of the `Derived` memo `D` has a stamp above `D.va` (what a failed walk found) -/
def StaleEdge (env : Nat → Inp) (c : Nat) (sl : Slot) (D : Memo) : Prop :=
  ∃ o, o ∈ D.obs ∧ o.out = false ∧
    ((o.dep = .field c ∧ D.va < sl.fca) ∨ ∃ i, o.dep = .inp i ∧ D.va < (env i).ca)

/-- A re-run (input reads `is`, result `v`) against the old `Derived` memo `D` that failed the walk:
    either the value is the same and the durability did not drop, or a relevant write lies between
    `D.va` and the new stamp; in any case the new stamp is above `D.va`. -/
theorem rerun_vs_old {P idOf t c sl is v} {D : Memo} (hP : Wf2 P idOf) (hI : Inv P idOf t) (hc : memoSok t c)
    (hsl : t.slots c = some sl) (hD : t.smemos c = some D) (hDo : D.origin = none)
    (hrep : replayR 0 idOf (P.spec sl.k sl.v) (is.map (inpObs t.inp)) none none = some ⟨v, none, none⟩)
    (hst : StaleEdge t.inp c sl D) :
    ((v = D.value ∧ D.dur ≤ (specFrame t.inp c sl is).dur) ∨
      Wit t D.dur D.va (specFrame t.inp c sl is).ca) ∧
    D.va < (specFrame t.inp c sl is).ca := by
  obtain ⟨ok, o0, rest, hobs, hdep0, hout0, hrepD⟩ := (hI.smemo c D hD).derived hDo
  have hid : sl.k = idOf c := (field_sem hP hI hc hsl).2
  have hinfo0 : depInfo t o0.dep = some ⟨⟨sl.v, none⟩, sl.fca, sl.dur⟩ := by
    rw [hdep0]; simp [depInfo, hsl]
  have hmem0 : o0 ∈ D.obs := by rw [hobs]; exact List.mem_cons_self
  have hcaF := specFrame_ca_field t.inp c sl is
  have fromWit : ∀ stamp, stamp ≤ (specFrame t.inp c sl is).ca → Wit t D.dur D.va stamp →
      ((v = D.value ∧ D.dur ≤ (specFrame t.inp c sl is).dur) ∨
        Wit t D.dur D.va (specFrame t.inp c sl is).ca) ∧ D.va < (specFrame t.inp c sl is).ca :=
    fun stamp hle w => ⟨Or.inr (w.mono hle), Nat.lt_of_lt_of_le w.lt hle⟩
  have inpInfo : ∀ (o : Obs) (i : Nat), o.dep = Dep.inp i →
      depInfo t o.dep = some ⟨⟨(t.inp i).val, none⟩, (t.inp i).ca, (t.inp i).dur⟩ := by
    intro o i hd; rw [hd]; rfl
  by_cases hv0 : o0.val = ⟨sl.v, none⟩
  · have hn : o0.val.n = sl.v := by rw [hv0]
    rw [hn, ← hid] at hrepD
    rcases replayS_lockstep t.inp idOf _ (hP.spec sl.k sl.v) is rest _ _ hrep hrepD with
      ⟨e, hall, hconv⟩ | ⟨o, i, ho, hout, hi, hd, hne⟩
    · have hv : v = D.value := congrArg SemRes.val e
      have hK2 : D.va < (specFrame t.inp c sl is).ca := by
        obtain ⟨o, ho, _, hch⟩ := hst
        rcases hch with ⟨_, h⟩ | ⟨i, hd, h⟩
        · omega
        · rw [hobs] at ho
          rcases List.mem_cons.mp ho with e' | ho'
          · subst e'; rw [hdep0] at hd; cases hd
          · obtain ⟨_, i', hi', hd', _⟩ := hall o ho'
            rw [hd] at hd'
            cases hd'
            have := specFrame_ca_mem t.inp c sl is i hi'
            omega
      refine ⟨?_, hK2⟩
      by_cases hdur : D.dur ≤ (specFrame t.inp c sl is).dur
      · exact Or.inl ⟨hv, hdur⟩
      · right
        by_cases h0 : D.dur ≤ sl.dur
        · have hex : ∃ i, i ∈ is ∧ ¬ D.dur ≤ (t.inp i).dur := by
            apply Classical.byContradiction
            intro hcon
            apply hdur
            apply specFrame_dur_ge _ _ _ _ _ ok.dur3 h0
            intro i hi
            apply Classical.byContradiction
            intro h'
            exact hcon ⟨i, hi, h'⟩
          obtain ⟨i, hi, hlt⟩ := hex
          obtain ⟨o, ho, hout, hd⟩ := hconv i hi
          have hmem : o ∈ D.obs := by rw [hobs]; exact List.mem_cons_of_mem _ ho
          rcases (ok.iv o hmem hout).iv _ (inpInfo o i hd) with ⟨_, h⟩ | w
          · exact absurd h hlt
          · exact w.mono (specFrame_ca_mem t.inp c sl is i hi)
        · rcases (ok.iv o0 hmem0 hout0).iv _ hinfo0 with ⟨_, h⟩ | w
          · exact absurd h h0
          · exact w.mono hcaF
    · have hmem : o ∈ D.obs := by rw [hobs]; exact List.mem_cons_of_mem _ ho
      rcases (ok.iv o hmem hout).iv _ (inpInfo o i hd) with ⟨h, _⟩ | w
      · exact absurd h.symm hne
      · exact fromWit _ (specFrame_ca_mem t.inp c sl is i hi) w
  · rcases (ok.iv o0 hmem0 hout0).iv _ hinfo0 with ⟨h, _⟩ | w
    · exact absurd h.symm hv0
    · exact fromWit _ hcaF w

/-- an `Assigned` memo that fails the shallow test while its creator is valid is dead -/
theorem assigned_dead {P idOf t c sl} {A : Memo} (hP : Wf2 P idOf) (hI : Inv P idOf t) (hc : memoSok t c)
    (hsl : t.slots c = some sl) (hA : t.smemos c = some A) (ho : A.origin ≠ none) (hns : ¬ SOK t A) :
    Wit t A.dur A.va t.cur := by
  have hts := (field_sem hP hI hc hsl).1
  cases hsp : (semRes P t.inp c).sp with
  | some w =>
    exfalso
    obtain ⟨A', hA', _, _, hsA⟩ := spec_assigned_of_sem hP hI hc hsp
    rw [hA] at hA'
    have : A = A' := Option.some.inj hA'
    rw [this] at hns
    exact hns hsA
  | none =>
    obtain ⟨mc, hm, hs⟩ := hc
    obtain ⟨_, sl', _, _, _, _, htie⟩ := tie_some hI (freshAt_all hP hI c) hm hs hts
    rw [hsp] at htie
    exact (htie.1 A hA ho).mono (hI.node c mc hm).obs.va_cur

theorem specOk_ca_va {P idOf t c} {O : Memo} (ok : SpecOk P idOf t c O) : O.ca ≤ O.va := by
  cases ho : O.origin with
  | none => exact (ok.derived ho).1.ca_va
  | some k => exact (ok.assigned k ho).2.2.1

/-- installing the result of a run over an old memo that fails the shallow test (or none) -/
theorem exec_install {P idOf t c sl is v ca} (hP : Wf2 P idOf) (hI : Inv P idOf t) (hc : memoSok t c)
    (hsl : t.slots c = some sl)
    (hrep : replayR 0 idOf (P.spec sl.k sl.v) (is.map (inpObs t.inp)) none none = some ⟨v, none, none⟩)
    (hca : ca ≤ t.cur)
    (hold : ∀ o, t.smemos c = some o → ¬ SOK t o)
    (hnone : t.smemos c = none → sl.fca ≤ ca)
    (hsome : ∀ O, t.smemos c = some O → ∃ N,
      (ca = O.ca ∧ v = O.value ∧ O.dur ≤ (specFrame t.inp c sl is).dur) ∨
      (ca = N ∧ O.va < N ∧ ((v = O.value ∧ O.dur ≤ (specFrame t.inp c sl is).dur) ∨ Wit t O.dur O.va N))) :
    SpecRes P idOf t (setSMemo t c (some (derivedMemo t.cur v ca (specFrame t.inp c sl is)))) c
      ⟨v, ca, (specFrame t.inp c sl is).dur⟩ := by
  have H : SetHyp t c (derivedMemo t.cur v ca (specFrame t.inp c sl is)) := by
    refine ⟨rfl, fun old h hs => absurd hs (hold old h), ?_, ?_, ?_⟩
    · cases hsm : t.smemos c with
      | none => exact tr_none hsl hsm (hnone hsm)
      | some O =>
        obtain ⟨N, hU⟩ := hsome O hsm
        exact tr_replace (N := N) hI hsm (specOk_ca_va (hI.smemo c O hsm)) hU
    · intro O hO
      obtain ⟨N, hU⟩ := hsome O hO
      have := specOk_ca_va (hI.smemo c O hO)
      show O.ca ≤ ca
      rcases hU with ⟨e, _⟩ | ⟨e, h, _⟩
      · omega
      · omega
    · intro hn sl' hsl'
      rw [hsl] at hsl'
      have : sl = sl' := Option.some.inj hsl'
      rw [← this]
      exact hnone hn
  exact install_res hP hI hc ⟨sl, hsl⟩ H (specOk_new hP hI hc hsl hrep hca)
    (tie_derived hP hI hc rfl hold)
    (fun old h hv => hold old h (Or.inl hv)) (fun old h hs => absurd hs (hold old h))

theorem backdate_derived {D : Memo} (h : D.origin = none) (v : Val) (fca fdur cur : Nat) :
    backdate (some D) false v none fca fdur cur =
      if D.dur ≤ fdur ∧ D.value = v ∧ D.hgen = none then (D.ca, decide (fca < D.ca)) else (fca, false) := by
  simp [backdate, h]

theorem backdate_assigned {A : Memo} {k : Nat} (h : A.origin = some k) (v : Val) (fca fdur cur : Nat) :
    backdate (some A) false v none fca fdur cur =
      (if A.dur ≤ fdur ∧ A.value = v ∧ A.hgen = none then A.ca else cur, false) := by
  simp [backdate, h]

/-- `execute` of `spec(struct of c)` over an old memo that fails the shallow test (or none) -/
theorem exec_ok {P idOf s c sl} (hP : Wf2 P idOf) (hI : Inv P idOf s) (hc : memoSok s c)
    (hsl : s.slots c = some sl) (old : Option Memo) (hso : s.smemos c = old)
    (hold : ∀ o, s.smemos c = some o → ¬ SOK s o)
    (hst : ∀ D, s.smemos c = some D → D.origin = none → StaleEdge s.inp c sl D)
    (hpn : (executeSpec P.spec s c old).1.panic = none) :
    SpecRes P idOf s (executeSpec P.spec s c old).1 c (executeSpec P.spec s c old).2 := by
  obtain ⟨t, slt, is, v, hL, hslt, heq, hrep, hex⟩ := executeSpec_shape idOf hP.spec old hsl
  rw [hex] at hpn ⊢
  have hIt := inv_lockR hI hL
  have hct : memoSok t c := (hL.memoSokIff c).mpr hc
  have hb := failIf_flag hIt.pn hpn
  rw [hb, failIf_false]
  apply SpecRes.pre hL hc
  have hsmt : t.smemos c = old := by rw [hL.smemos]; exact hso
  have holdt : ∀ o, t.smemos c = some o → ¬ SOK t o := by
    intro o h hs
    rw [hL.smemos] at h
    exact hold o h ((hL.sokIff o).mp hs)
  have hcaF : (specFrame t.inp c slt is).ca ≤ t.cur :=
    specFrame_ca_le _ _ _ _ _ hIt.cur1 (hIt.slot c slt hslt).1 (fun i _ => hIt.inp_le i)
  cases hold' : old with
  | none =>
    rw [hold'] at hsmt
    have hbd : backdate none false v none (specFrame t.inp c slt is).ca (specFrame t.inp c slt is).dur t.cur
        = ((specFrame t.inp c slt is).ca, false) := rfl
    rw [hbd]
    exact exec_install hP hIt hct hslt hrep hcaF holdt (fun _ => specFrame_ca_field _ _ _ _)
      (fun O hO => by rw [hsmt] at hO; cases hO)
  | some O =>
    rw [hold'] at hsmt hb
    have hOk := hIt.smemo c O hsmt
    have hcv := specOk_ca_va hOk
    have hns := holdt O hsmt
    have hOva : O.va ≤ t.cur := specOk_va' hOk
    cases hor : O.origin with
    | some k =>
      have hW : Wit t O.dur O.va t.cur :=
        assigned_dead hP hIt hct hslt hsmt (by rw [hor]; exact fun h => by cases h) hns
      rw [backdate_assigned hor]
      by_cases hcond : O.dur ≤ (specFrame t.inp c slt is).dur ∧ O.value = v ∧ O.hgen = none
      · rw [if_pos hcond]
        refine exec_install hP hIt hct hslt hrep (by omega) holdt
          (fun hn => by rw [hsmt] at hn; cases hn) ?_
        intro O' hO'
        rw [hsmt] at hO'
        have : O = O' := Option.some.inj hO'
        rw [← this]
        exact ⟨0, Or.inl ⟨rfl, hcond.2.1.symm, hcond.1⟩⟩
      · rw [if_neg hcond]
        refine exec_install hP hIt hct hslt hrep (Nat.le_refl _) holdt
          (fun hn => by rw [hsmt] at hn; cases hn) ?_
        intro O' hO'
        rw [hsmt] at hO'
        have : O = O' := Option.some.inj hO'
        rw [← this]
        exact ⟨t.cur, Or.inr ⟨rfl, hW.lt, Or.inr hW⟩⟩
    | none =>
      have hstt : StaleEdge t.inp c slt O := by
        obtain ⟨o, a1, a2, a3⟩ := hst O (by rw [← hL.smemos]; exact hsmt) hor
        refine ⟨o, a1, a2, ?_⟩
        rw [hL.inp, heq.2.2.2.1]
        exact a3
      obtain ⟨hK1, hK2⟩ := rerun_vs_old hP hIt hct hslt hsmt hor hrep hstt
      rw [backdate_derived hor]
      by_cases hcond : O.dur ≤ (specFrame t.inp c slt is).dur ∧ O.value = v ∧ O.hgen = none
      · rw [if_pos hcond]
        refine exec_install hP hIt hct hslt hrep (by omega) holdt
          (fun hn => by rw [hsmt] at hn; cases hn) ?_
        intro O' hO'
        rw [hsmt] at hO'
        have : O = O' := Option.some.inj hO'
        rw [← this]
        exact ⟨0, Or.inl ⟨rfl, hcond.2.1.symm, hcond.1⟩⟩
      · rw [if_neg hcond]
        refine exec_install hP hIt hct hslt hrep hcaF holdt
          (fun hn => by rw [hsmt] at hn; cases hn) ?_
        intro O' hO'
        rw [hsmt] at hO'
        have : O = O' := Option.some.inj hO'
        rw [← this]
        exact ⟨_, Or.inr ⟨rfl, hK2, hK1⟩⟩

end SalsaVerif.Proofs.CoreSpec
