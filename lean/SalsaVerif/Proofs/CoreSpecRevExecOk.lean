/-
  CoreSpec, histories with writes: `execute` of a node re-establishes the invariant and returns the
  from-scratch value —

    theorem execOk (hP : Wf2 P idOf) (r) (fe) (hfe : FetchSpec P idOf r fe)
        (hfs : SpecFetchOk P idOf (fetchSpec P.spec)) : ExecOk P idOf r fe

  (`ExecOk`, `FetchSpec`, `SpecFetchOk`: Proofs/CoreSpecRevSpecs.lean).  The pieces: the frame of the
  running query and one read (`CoreSpecRevRead`), the tracker against the old memo (`…Trk`), the
  steps `create` / `specify` (`…Create`, `…Specify`), the run by phases (`…Run1/2/3`), the new memo
  and its observers (`…Inst`, `…Inst2`), `installNode` (`…Exec`), the start (`…Exec2`).
  Core Lean only.
-/
import SalsaVerif.Proofs.CoreSpecRevExec2

namespace SalsaVerif.Proofs.CoreSpec
open SalsaVerif.Model.CoreSpec

namespace X

theorem busy_emit (s : State) (e : Ev) (c : Nat) : Busy (emit s e) c ↔ Busy s c := by
  simp only [Busy, memoSok, SOK, emit_slots, emit_cur, emit_memos, emit_lc]

theorem localTie_emit {P idOf s r mo} (e : Ev) (h : LocalTie P idOf s r mo) :
    LocalTie P idOf (emit s e) r mo := by
  obtain ⟨R, hR, tie, hva, hreads⟩ := h
  have L := lockU_emit r s e
  refine ⟨R, hR, ?_, hva, ?_⟩
  · refine tieOk_upd L.upd (L.obsTr mo) hR L.gone ?_ L.smemos tie
    intro sl hsl
    obtain ⟨sl', a, b, _⟩ := L.same sl hsl
    exact ⟨sl', a, b⟩
  · intro o ho
    obtain ⟨h1, h2, x, hx, hv, hsem, hca⟩ := hreads o ho
    exact ⟨L.sokDep_fwd h1, fun hr => hotDep_ext L.ext (h2 hr), x, by rw [L.depInfo_eq]; exact hx, hv, hsem, hca⟩

/-- the frame of the installation: the old memo of `r` fails the shallow test -/
theorem ext_install {r : Nat} {s t : State} (U : Upd r s t) (hnr : ¬ memoSok s r)
    (hmono : ∀ m, s.memos r = some m → ∃ m', t.memos r = some m' ∧ m.va ≤ m'.va) : Ext s t (r + 1) := by
  have hne : ∀ c, memoSok s c → c ≠ r := fun c hc e => hnr (e ▸ hc)
  refine ⟨U.cur, U.lch, U.inp, U.wlog, fun q hq => U.memos q (by omega), fun q hq => U.slots q (by omega),
    fun q hq => U.smemos q (by omega), ?_, ?_, ?_, ?_, ?_, ?_, ?_⟩
  · intro q m h hv
    have hq : q ≠ r := hne q ⟨m, h, Or.inl hv⟩
    rw [U.memos q hq]; exact h
  · intro q m h hs
    have hq : q ≠ r := hne q ⟨m, h, hs⟩
    exact ⟨m, by rw [U.memos q hq]; exact h, Or.inl rfl⟩
  · intro q m h
    by_cases hq : q = r
    · subst hq; exact hmono m h
    · exact ⟨m, by rw [U.memos q hq]; exact h, Nat.le_refl _⟩
  · intro c sl hc hsl; exact ⟨sl, by rw [U.slots c (hne c hc)]; exact hsl, SlotEq.refl sl⟩
  · intro c hc hn; rw [U.slots c (hne c hc)]; exact hn
  · intro c sm hc hsm _; rw [U.smemos c (hne c hc)]; exact hsm
  · intro c sm hc hsm _; exact ⟨sm, by rw [U.smemos c (hne c hc)]; exact hsm, Or.inl rfl⟩

/-- `t2` is `s3` with the memo of `r` set, `s3` is `t1` up to the trace -/
theorem upd_setMemo_same {r : Nat} {t1 s3 : State} (m : Memo) (h : SameUpTrace t1 s3) :
    Upd r t1 (setMemo s3 r m) :=
  ⟨h.cur, h.lch, h.inp, h.wlog, fun q hq => by rw [setMemo_other _ _ _ hq, h.memos],
   fun c _ => by simp only [setMemo_slots, h.slots], fun c _ => by simp only [setMemo_smemos, h.smemos]⟩

theorem upd_setMemo_del {r : Nat} {t1 s3 : State} (m : Memo) (h : Deleted r t1 s3) :
    Upd r t1 (setMemo s3 r m) :=
  ⟨h.cur, h.lch, h.inp, h.wlog, fun q hq => by rw [setMemo_other _ _ _ hq, h.memos],
   fun c hc => by simp only [setMemo_slots]; exact (h.other c hc).1,
   fun c hc => by simp only [setMemo_smemos]; exact (h.other c hc).2⟩

/-- the end of `execute`: `installNode` after the run of the body -/
theorem exec_final {P idOf r NB0 s0 old Ro PL} (hP : Wf2 P idOf) (RC : RunCtx P idOf r NB0 s0 old Ro PL)
    {t1 : State} {f : Frame} {v : Val}
    (res : PreC P idOf r NB0 s0 old Ro PL s0 (frame0 (oldSeed old)) (P.node r) t1 f v)
    (hpn : (installNode t1 r old f v).1.panic = none) :
    Inv P idOf (installNode t1 r old f v).1 ∧ NB (installNode t1 r old f v).1 (r + 1) ∧
    Ext t1 (installNode t1 r old f v).1 (r + 1) ∧ (installNode t1 r old f v).2.val = v ∧
    HotRes (installNode t1 r old f v).1 t1.cur r (installNode t1 r old f v).2 ∧
    sem P s0.inp r = v := by
  obtain ⟨new, ts', sp', e1, e2, pf⟩ := res.fin
  have hobs : f.obs = new := by rw [e1]; simp [frame0]
  have hrep : replayR r idOf (P.node r) f.obs none none = some ⟨v, ts', sp'⟩ := by rw [hobs]; exact e2
  have pf' : PreFin P idOf r NB0 s0 old Ro PL t1 f v (preOf idOf (P.node r) f.obs) ts' sp' := by
    refine preFin_pre pf ?_
    intro o
    rw [hobs]
    simp [frame0]
  have hm1 : t1.memos r = old := res.memo.trans RC.memo
  have hnr : ¬ memoSok t1 r :=
    not_memoSok_of hm1 (fun mo hmo hs => RC.nsok mo hmo ((res.ext.sokIff mo).mp hs))
  have hsem : sem P s0.inp r = v := by
    have := replay_node_sem hP s0.inp r f.obs ⟨v, ts', sp'⟩ hrep (by
      intro o ho hout
      have := (res.fr.rd o ho hout).sem
      rw [res.ext.inp] at this
      exact this)
    simp only [sem, this]
  -- the common end
  have fin : ∀ t2 m', Inv P idOf t2 → Upd r t1 t2 → t2.memos r = some m' → m'.va = t1.cur →
      Inv P idOf t2 ∧ NB t2 (r + 1) ∧ Ext t1 t2 (r + 1) := by
    intro t2 m' hI2 U hm2 hva
    have hsok2 : memoSok t2 r := ⟨m', hm2, Or.inl (by rw [hva, U.cur])⟩
    refine ⟨hI2, ?_, ext_install U hnr ?_⟩
    · intro c hc hb
      by_cases hcr : c = r
      · subst hcr; exact memoSok_not_busy hsok2 hb
      · exact res.nb c (by omega) ((U.busyIff hcr).mp hb)
    · intro m h
      exact ⟨m', hm2, by rw [hva]; exact (res.inv.node r m h).obs.va_cur⟩
  cases hold : old with
  | none =>
    rw [hold] at hm1 pf'
    rw [installNode_none]
    have U : Upd r t1 (setMemo t1 r (newMemo t1 f v f.ca)) := upd_setMemo_same _ (SameUpTrace.refl t1)
    have hI2 : Inv P idOf (setMemo t1 r (newMemo t1 f v f.ca)) := by
      refine install_inv hP res.inv res.fr U res.inv.pn (setMemo_same _ _ _) hnr (Nat.le_refl _) hrep pf'
        (Or.inl ⟨rfl, rfl, ?_⟩) ?_
      · intro e
        rcases pf' with ⟨_, _, _, e4, _⟩ | ⟨kv, fd, e', _⟩
        · rw [e4]; exact (RC.oc.none hold).2.1
        · rw [e] at e'; cases e'
      · intro q mp _ hq
        have ok := res.inv.node q mp hq
        apply obsTr_off
        intro o ho hout hd
        rcases hd with e | e | e
        · obtain ⟨m', h', _⟩ := ok.obs.i5q o r ho hout e
          rw [hm1] at h'; cases h'
        · obtain ⟨mc, h'⟩ := ok.hmemo o r ho hout (Or.inl e)
          rw [hm1] at h'; cases h'
        · obtain ⟨mc, h'⟩ := ok.hmemo o r ho hout (Or.inr e)
          rw [hm1] at h'; cases h'
    obtain ⟨a1, a2, a3⟩ := fin _ _ hI2 U (setMemo_same _ _ _) rfl
    exact ⟨a1, a2, a3, rfl, ⟨_, setMemo_same _ _ _, rfl, rfl, rfl, rfl⟩, hsem⟩
  | some mo =>
    rw [hold] at hm1 pf' hpn
    have okmo := res.inv.node r mo hm1
    have hns1 : ¬ SOK t1 mo := fun hs => RC.nsok mo hold ((res.ext.sokIff mo).mp hs)
    obtain ⟨ca', s3, heq, hbd, hp3, hs3⟩ := installNode_some res.inv.pn okmo.origin hpn
    rw [heq]
    have OF := RC.oc.some mo hold
    obtain ⟨K4, K1, K2⟩ := end_facts res.inv res.fr hm1 OF pf' hbd
    have hm2 : (setMemo s3 r (newMemo t1 f v ca')).memos r = some (newMemo t1 f v ca') := setMemo_same _ _ _
    have hI2U : Inv P idOf (setMemo s3 r (newMemo t1 f v ca')) ∧ Upd r t1 (setMemo s3 r (newMemo t1 f v ca')) := by
      rcases hs3 with ⟨same, himp⟩ | ⟨_, hfts, sl, hsl, _, del⟩
      · have U := upd_setMemo_same (r := r) (newMemo t1 f v ca') same
        have c1 : (setMemo s3 r (newMemo t1 f v ca')).slots r = t1.slots r := by simp [same.slots]
        have c2 : (setMemo s3 r (newMemo t1 f v ca')).smemos r = t1.smemos r := by simp [same.smemos]
        refine ⟨?_, U⟩
        refine install_inv hP res.inv res.fr U (by simpa using hp3) hm2 hnr K4 hrep pf' (Or.inl ⟨c1, c2, ?_⟩) ?_
        · intro e
          rcases pf' with ⟨_, _, e3, e4, _⟩ | ⟨kv, fd, e', _⟩
          · cases hro : Ro.ts with
            | none => rw [e4]; exact (OF.tnone hro).1
            | some kv0 =>
              apply himp
              refine ⟨?_, e3⟩
              rw [OF.tsSome, hro]; rfl
          · rw [e] at e'; cases e'
        · intro q mp _ hq
          exact inst_obsTr (PL := PL) (fca := f.ca) res.inv (res.inv.node q mp hq).obs U hm1 hm2 hns1 K1
            K2 (Or.inl ⟨c1, c2⟩)
      · have U := upd_setMemo_del (r := r) (newMemo t1 f v ca') del
        have c1 : (setMemo s3 r (newMemo t1 f v ca')).slots r = none := by simp [del.slot]
        have c2 : (setMemo s3 r (newMemo t1 f v ca')).smemos r = none := by simp [del.smemo]
        obtain ⟨ets, DF⟩ := delF_of hP res.inv res.fr OF res.memo res.ext.wlog pf' hbd hfts hsl
        refine ⟨?_, U⟩
        refine install_inv hP res.inv res.fr U (by simpa using hp3) hm2 hnr K4 hrep pf' (Or.inr ⟨c1, c2, ets⟩) ?_
        intro q mp _ hq
        exact inst_obsTr res.inv (res.inv.node q mp hq).obs U hm1 hm2 hns1 K1 K2 (Or.inr ⟨c1, c2, sl, DF⟩)
    obtain ⟨hI2, U⟩ := hI2U
    obtain ⟨a1, a2, a3⟩ := fin _ _ hI2 U hm2 rfl
    exact ⟨a1, a2, a3, rfl, ⟨_, hm2, rfl, rfl, rfl, rfl⟩, hsem⟩

end X

/-- `execute` of node `r` (no memo, or a memo that fails the shallow test), given the engine for
    smaller ranks and the requests of the specifiable function: the invariant is re-established,
    nobody up to rank `r` is busy, the frame `Ext … (r+1)`, the from-scratch value, a hot memo. -/
theorem execOk {P : Prog} {idOf : Nat → Nat} (hP : Wf2 P idOf) (r : Nat) (fe : FetchFn)
    (hfe : FetchSpec P idOf r fe) (hfs : SpecFetchOk P idOf (fetchSpec P.spec)) : ExecOk P idOf r fe := by
  intro hst s old hI hnb hold hnsok hbusy hpn
  have L0 := X.lockU_emit r s (.exec r)
  have hI0 : Inv P idOf (emit s (.exec r)) := X.inv_emit' hI _
  have hnb0 : NB (emit s (.exec r)) r := fun c hc hb => hnb c hc ((X.busy_emit s _ c).mp hb)
  have hm0 : (emit s (.exec r)).memos r = old := hold
  have hns0 : ∀ mo, old = some mo → ¬ SOK (emit s (.exec r)) mo := fun mo hmo hs => hnsok mo hmo hs
  -- the context of the run
  obtain ⟨Ro, PL, RC, hstart⟩ : ∃ Ro PL, X.RunCtx P idOf r (¬ Busy (emit s (.exec r)) r) (emit s (.exec r)) old Ro PL ∧
      ∀ mo, old = some mo → replayR r idOf (P.node r) mo.obs none none = some Ro ∧ PL ≤ 3 := by
    cases hold' : old with
    | none =>
      have hnbr : ¬ Busy (emit s (.exec r)) r := by
        intro hb
        obtain ⟨mo, hmo, _⟩ := hbusy ((X.busy_emit s _ r).mp hb)
        rw [hold'] at hmo; cases hmo
      exact ⟨_, _, X.runCtx_none hI0 (by rw [hm0, hold']) hnbr, fun mo h => by cases h⟩
    | some mo =>
      have hm : (emit s (.exec r)).memos r = some mo := by rw [hm0, hold']
      by_cases hb : Busy (emit s (.exec r)) r
      · obtain ⟨mo', hmo', LT⟩ := hbusy ((X.busy_emit s _ r).mp hb)
        rw [hold'] at hmo'; cases hmo'
        obtain ⟨Ro, PL, RC, h1, h2⟩ := X.runCtx_busy hI0 hm (hns0 mo hold') hb (X.localTie_emit _ LT)
        exact ⟨Ro, PL, RC, fun mo' h => by cases h; exact ⟨h1, h2⟩⟩
      · obtain ⟨Ro, PL, RC, h1, h2⟩ := X.runCtx_nb hI0 hm (hns0 mo hold') hb
        exact ⟨Ro, PL, RC, fun mo' h => by cases h; exact ⟨h1, h2⟩⟩
  unfold execute at hpn ⊢
  dsimp only at hpn ⊢
  have hp1 : (runBody fe (fetchSpec P.spec) (some r) (P.node r) (emit s (.exec r)) (frame0 (oldSeed old))).1.panic
      = none := X.sticky_none (installNode_rel primRel_sticky _ _ _ _ _) hpn
  have PH : X.PreH P idOf r fe (¬ Busy (emit s (.exec r)) r) (emit s (.exec r)) old Ro PL (fun _ => False)
      (emit s (.exec r)) (frame0 (oldSeed old)) (P.node r) := by
    refine ⟨hI0, hnb0, X.frOk0 hI0 _, fun c hc => hc.elim, rfl, rfl, by simp [frame0], Ext.refl _ r, ?_, hp1⟩
    intro mo hmo
    obtain ⟨h1, h2⟩ := hstart mo hmo
    exact Or.inl ⟨mo.obs, ⟨⟨[], by simp, by simp [frame0]⟩, h1⟩, h2, fun o ho => ho⟩
  have res := X.runPre hP hfe hfs hst RC (hP.node r) rfl _ _ PH
  generalize runBody fe (fetchSpec P.spec) (some r) (P.node r) (emit s (.exec r)) (frame0 (oldSeed old)) = R
    at res hpn ⊢
  obtain ⟨a1, a2, a3, a4, ⟨m, b1, b2, b3, b4, b5⟩, a6⟩ := X.exec_final hP RC res hpn
  have hext : Ext s R.1 (r + 1) := L0.ext.trans res.ext
  refine ⟨a1, a2, hext.trans a3, by rw [a4]; exact a6.symm, m, b1, by rw [b2, hext.cur], b3, b4, b5⟩

end SalsaVerif.Proofs.CoreSpec
