/-
  C26 with flattening: helper lemmas about reachability, direct edge lists and the frontier
  bound `CaBnd`.  Core Lean only.
-/
import SalsaVerif.Proofs.PersistFlat3

namespace SalsaVerif.Proofs.PersistFlat
open SalsaVerif.Model.Core SalsaVerif.Model.Persist SalsaVerif.Proofs.Core SalsaVerif.Proofs.Persist

theorem reach_cases {P inp q k} (h : Reach P inp q k) :
    k = q ∨ ∃ k1, Dep.qry k1 ∈ sdeps P inp q ∧ Reach P inp k1 k := by
  cases h with
  | refl => exact Or.inl rfl
  | step hd hr => exact Or.inr ⟨_, hd, hr⟩

/-- an edge list that contains every direct dependency is a cut -/
theorem cut_direct {P inp od q} (h : ∀ d, d ∈ sdeps P inp q → d ∈ od) : Cut P inp od q := by
  have key : ∀ k, Above P inp od q k → k = q := by
    intro k hk
    induction hk with
    | refl => rfl
    | step _ hd hn ih => subst ih; exact absurd (h _ hd) hn
  intro k hk i hi
  rw [key k hk] at hi
  exact h _ hi

theorem caBnd_mono {pers P inp s q x x'} (hx : x' ≤ x) (h : CaBnd pers P inp s q x) :
    CaBnd pers P inp s q x' := by
  rcases h with h | ⟨k, hk, h⟩
  · exact Or.inl (Nat.le_trans hx h)
  · refine Or.inr ⟨k, hk, ?_⟩
    rcases h with ⟨i, a, b⟩ | ⟨p, mp, a, b, c, d⟩
    · exact Or.inl ⟨i, a, Nat.le_trans hx b⟩
    · exact Or.inr ⟨p, mp, a, b, c, Nat.le_trans hx d⟩

theorem caBnd_step {pers P inp s q k' x} (hd : Dep.qry k' ∈ sdeps P inp q) (hp : pers k' = false)
    (h : CaBnd pers P inp s k' x) : CaBnd pers P inp s q x := by
  rcases h with h | ⟨k, hk, h⟩
  · exact Or.inl h
  · exact Or.inr ⟨k, NP.step hd hp hk, h⟩

/-- stamps only grow -/
theorem caBnd_state {pers P inp s s' q x}
    (hi : ∀ i, (s.inp i).ca ≤ (s'.inp i).ca)
    (hm : ∀ p mp, s.memos p = some mp → ∃ mp', s'.memos p = some mp' ∧ mp.ca ≤ mp'.ca)
    (h : CaBnd pers P inp s q x) : CaBnd pers P inp s' q x := by
  rcases h with h | ⟨k, hk, h⟩
  · exact Or.inl h
  · refine Or.inr ⟨k, hk, ?_⟩
    rcases h with ⟨i, a, b⟩ | ⟨p, mp, a, b, c, d⟩
    · exact Or.inl ⟨i, a, Nat.le_trans b (hi i)⟩
    · obtain ⟨mp', e1, e2⟩ := hm p mp c
      exact Or.inr ⟨p, mp', a, b, e1, Nat.le_trans d e2⟩

/-- the stamp of a terminal dependency is at least `x` -/
def StampGe (s : State) (x : Nat) : Dep → Prop
  | .inp i => x ≤ (s.inp i).ca
  | .qry p => ∃ mp, s.memos p = some mp ∧ x ≤ mp.ca

/-- **the frontier bound moves from one evaluation to another**: whenever a terminal dependency
    read by both evaluations differs in value its stamp is at least `x` -/
theorem caBnd_transfer {pers P} (hP : Wf P) {inp1 inp2 : Nat → Inp} {s : State} {x : Nat} :
    ∀ q k, NP P inp1 pers q k →
    (∀ k2 d, Reach P inp1 q k2 → Reach P inp2 q k2 → d ∈ sdeps P inp1 k2 → d ∈ sdeps P inp2 k2 →
      Term pers d → semDep P inp1 d ≠ semDep P inp2 d → StampGe s x d) →
    ((∃ i, Dep.inp i ∈ sdeps P inp1 k ∧ x ≤ (s.inp i).ca) ∨
     (∃ p mp, Dep.qry p ∈ sdeps P inp1 k ∧ pers p = true ∧ s.memos p = some mp ∧ x ≤ mp.ca)) →
    CaBnd pers P inp2 s q x := by
  intro q k hnp
  induction hnp with
  | refl q =>
    intro hT hw
    rcases first_diff (P := P) inp1 inp2 q with ⟨d, a, b, c⟩ | hall
    · -- a direct dependency differs
      cases d with
      | inp i => exact Or.inr ⟨q, NP.refl q, Or.inl ⟨i, b, hT q _ (Reach.refl q) (Reach.refl q) a b trivial c⟩⟩
      | qry k' =>
        by_cases hs : pers k' = true
        · obtain ⟨mp, e1, e2⟩ := hT q _ (Reach.refl q) (Reach.refl q) a b hs c
          exact Or.inr ⟨q, NP.refl q, Or.inr ⟨k', mp, b, hs, e1, e2⟩⟩
        · have hs' : pers k' = false := by cases h : pers k' <;> simp_all
          obtain ⟨k2, d, e1, e2, e3, e4, e5, e6⟩ := first_diff_chain hP pers inp1 inp2 k' c
          have hst := hT k2 d (Reach.step a e2) (Reach.step b e1.reach) e3 e4 e5 e6
          refine Or.inr ⟨k2, NP.step b hs' e1, ?_⟩
          cases d with
          | inp i => exact Or.inl ⟨i, e4, hst⟩
          | qry p => obtain ⟨mp, f1, f2⟩ := hst; exact Or.inr ⟨p, mp, e4, e5, f1, f2⟩
    · have hs := (eval_same hP hall).1
      refine Or.inr ⟨q, NP.refl q, ?_⟩
      rw [hs]; exact hw
  | step hd hp hnp ih =>
    rename_i q k' k
    intro hT hw
    rcases first_diff (P := P) inp1 inp2 q with ⟨d, a, b, c⟩ | hall
    · cases d with
      | inp i => exact Or.inr ⟨q, NP.refl q, Or.inl ⟨i, b, hT q _ (Reach.refl q) (Reach.refl q) a b trivial c⟩⟩
      | qry k'' =>
        by_cases hs : pers k'' = true
        · obtain ⟨mp, e1, e2⟩ := hT q _ (Reach.refl q) (Reach.refl q) a b hs c
          exact Or.inr ⟨q, NP.refl q, Or.inr ⟨k'', mp, b, hs, e1, e2⟩⟩
        · have hs' : pers k'' = false := by cases h : pers k'' <;> simp_all
          obtain ⟨k2, d, e1, e2, e3, e4, e5, e6⟩ := first_diff_chain hP pers inp1 inp2 k'' c
          have hst := hT k2 d (Reach.step a e2) (Reach.step b e1.reach) e3 e4 e5 e6
          refine Or.inr ⟨k2, NP.step b hs' e1, ?_⟩
          cases d with
          | inp i => exact Or.inl ⟨i, e4, hst⟩
          | qry p => obtain ⟨mp, f1, f2⟩ := hst; exact Or.inr ⟨p, mp, e4, e5, f1, f2⟩
    · have hs := (eval_same hP hall).1
      have hd2 : Dep.qry k' ∈ sdeps P inp2 q := by rw [hs]; exact hd
      apply caBnd_step hd2 hp
      apply ih _ hw
      intro k2 d r1 r2
      exact hT k2 d (Reach.step hd r1) (Reach.step hd2 r2)

theorem lc_congr {s s' : State} (h1 : s'.cur = s.cur) (h2 : s'.lch = s.lch) (d : Nat) : lc s' d = lc s d := by
  simp [lc, h1, h2]

/-- `Base` and `Hist` do not look at the memo table or the event log -/
theorem base_congr {s s' : State} (h : Base s) (h1 : s'.cur = s.cur) (h2 : s'.lch = s.lch)
    (h3 : s'.inp = s.inp) : Base s' := by
  refine ⟨by rw [h1]; exact h.cur1, ?_, ?_, ?_, ?_, ?_, ?_⟩
  · intro d; rw [lc_congr h1 h2, h1]; exact h.lc_le d
  · intro d; rw [lc_congr h1 h2]; exact h.lc_ge1 d
  · intro d; rw [lc_congr h1 h2, lc_congr h1 h2]; exact h.lc_anti d
  · intro d hd; rw [lc_congr h1 h2]; exact h.lc_never d hd
  · intro i; rw [h3, h1]; exact h.inp_le i
  · intro i; rw [h3]; exact h.inp_ge1 i

theorem hist_congr {H} {s s' : State} (h : Hist H s) (h1 : s'.cur = s.cur) (h2 : s'.lch = s.lch)
    (h3 : s'.inp = s.inp) : Hist H s' := by
  constructor
  · intro i ρ a b; rw [h3] at a ⊢; rw [h1] at b; exact h.since i ρ a b
  · intro ρ i k a b c d; rw [h1] at b; rw [lc_congr h1 h2]; exact h.lcw ρ i k a b c d
  · intro ρ i a b; rw [h1] at b; exact h.hca ρ i a b

end SalsaVerif.Proofs.PersistFlat
