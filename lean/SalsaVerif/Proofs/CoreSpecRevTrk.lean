/-
  CoreSpec, histories with writes: `execute` of a node, part 5 — the TRACKER of a re-execution
  against the old memo `mo` (replay `Ro`): either the run still FOLLOWS the old replay (the reads
  recorded so far are the first reads of `mo`, the rest replays on the remaining body, the frame's
  durability is at least the level `Lv`), or it DIVERGED (a relevant write of level `≥ Lv` after
  `mo.va`, not after the frame's stamp).  Core Lean only.
-/
import SalsaVerif.Proofs.CoreSpecRevOld

namespace SalsaVerif.Proofs.CoreSpec
namespace X
open SalsaVerif.Model.CoreSpec

/-! ### facts about the replay -/

/-- once a struct is created the replay keeps it -/
theorem replay_ts_keep (self : Nat) (idOf : Nat → Nat) : ∀ b (obs : List Obs) kv sp R,
    replayR self idOf b obs (some kv) sp = some R → R.ts = some kv := by
  intro b
  induction b with
  | ret v =>
    intro obs kv sp R h
    cases obs with
    | nil => simp only [replayR, Option.some.injEq] at h; subst h; rfl
    | cons _ _ => simp [replayR] at h
  | read d k ih =>
    intro obs kv sp R h
    cases obs with
    | nil => simp [replayR] at h
    | cons o rest =>
      simp only [replayR] at h
      split at h
      · exact ih _ rest kv sp R h
      · simp at h
  | ident c k ih => intro obs kv sp R h; simp only [replayR] at h; exact ih _ obs kv sp R h
  | create idk v k _ => intro obs kv sp R h; simp [replayR] at h
  | specify c v k ih =>
    intro obs kv sp R h
    cases obs with
    | nil => simp [replayR] at h
    | cons o rest =>
      simp only [replayR] at h
      split at h
      · exact ih rest kv _ R h
      · simp at h

/-- once a value is specified the replay keeps it -/
theorem replay_sp_keep (self : Nat) (idOf : Nat → Nat) : ∀ b (obs : List Obs) ts w R,
    replayR self idOf b obs ts (some w) = some R → R.sp = some w := by
  intro b
  induction b with
  | ret v =>
    intro obs ts w R h
    cases obs with
    | nil => simp only [replayR, Option.some.injEq] at h; subst h; rfl
    | cons _ _ => simp [replayR] at h
  | read d k ih =>
    intro obs ts w R h
    cases obs with
    | nil => simp [replayR] at h
    | cons o rest =>
      simp only [replayR] at h
      split at h
      · exact ih _ rest ts w R h
      · simp at h
  | ident c k ih => intro obs ts w R h; simp only [replayR] at h; exact ih _ obs ts w R h
  | create idk v k ih =>
    intro obs ts w R h
    cases ts with
    | some t => simp [replayR] at h
    | none => simp only [replayR] at h; exact ih _ obs _ w R h
  | specify c v k _ =>
    intro obs ts w R h
    cases obs with
    | nil => simp [replayR] at h
    | cons o rest =>
      simp only [replayR] at h
      split at h
      · rename_i hc; exact absurd hc.2.2.1 (by simp)
      · simp at h

/-- a body in phase POST neither creates nor specifies (replay against well-shaped values) -/
theorem replay_post_keep {idOf : Nat → Nat} {r : Nat} : ∀ {ph H b}, Wf2B idOf r ph H b → ph = .post →
    ∀ (obs : List Obs) kv sp R, ShapeOk obs → replayR r idOf b obs (some kv) sp = some R → R.sp = sp := by
  intro ph H b hb
  induction hb with
  | retPre H v hv => intro h; cases h
  | retPost H v hv =>
    intro _ obs kv sp R _ h
    cases obs with
    | nil => simp only [replayR, Option.some.injEq] at h; subst h; rfl
    | cons _ _ => simp [replayR] at h
  | inp ph H i k _ _ ih =>
    intro hp obs kv sp R hs h
    cases obs with
    | nil => simp [replayR] at h
    | cons o rest =>
      simp only [replayR] at h
      split at h
      · rename_i hc
        have hsh := hs o (by simp) hc.1
        simp only [ObsShape, hc.2] at hsh
        rw [val_eta hsh] at h
        exact ih _ hp rest kv sp R (shapeOk_tail hs) h
      · simp at h
  | qry ph H q k _ _ _ ih =>
    intro hp obs kv sp R hs h
    cases obs with
    | nil => simp [replayR] at h
    | cons o rest =>
      simp only [replayR] at h
      split at h
      · rename_i hc
        have hsh := hs o (by simp) hc.1
        simp only [ObsShape, hc.2] at hsh
        exact ih o.val hsh hp rest kv sp R (shapeOk_tail hs) h
      · simp at h
  | field ph H c k _ _ _ ih =>
    intro hp obs kv sp R hs h
    cases obs with
    | nil => simp [replayR] at h
    | cons o rest =>
      simp only [replayR] at h
      split at h
      · rename_i hc
        have hsh := hs o (by simp) hc.1
        simp only [ObsShape, hc.2] at hsh
        rw [val_eta hsh] at h
        exact ih _ hp rest kv sp R (shapeOk_tail hs) h
      · simp at h
  | spec ph H c k _ _ _ ih =>
    intro hp obs kv sp R hs h
    cases obs with
    | nil => simp [replayR] at h
    | cons o rest =>
      simp only [replayR] at h
      split at h
      · rename_i hc
        have hsh := hs o (by simp) hc.1
        simp only [ObsShape, hc.2] at hsh
        rw [val_eta hsh] at h
        exact ih _ hp rest kv sp R (shapeOk_tail hs) h
      · simp at h
  | ident ph H c k _ _ _ ih =>
    intro hp obs kv sp R hs h
    simp only [replayR] at h
    exact ih _ hp obs kv sp R hs h
  | create H idk v k _ _ _ => intro h; cases h
  | create2 H idk v k _ _ _ => intro _ obs kv sp R _ h; simp [replayR] at h
  | specify H c v k _ _ => intro h; cases h
  | mid H b _ _ => intro h; cases h

/-! ### the tracker -/

/-- following the old replay: the reads recorded so far (`fobs`) are the first reads of `mo`, the
    remaining ones (`orem`) replay on the remaining body to the old result -/
structure Fol (idOf : Nat → Nat) (r : Nat) (mo : Memo) (Ro : SemRes) (fobs : List Obs) (b : Body)
    (ts : Option (Nat × Nat)) (sp : Option Nat) (orem : List Obs) : Prop where
  split : ∃ ocons, mo.obs = ocons ++ orem ∧ ocons.map obsProj = fobs.map obsProj
  rep : replayR r idOf b orem ts sp = some Ro

theorem Fol.sub {idOf r mo Ro fobs b ts sp orem} (h : Fol idOf r mo Ro fobs b ts sp orem) :
    ∀ o, o ∈ orem → o ∈ mo.obs := by
  obtain ⟨oc, e, _⟩ := h.split
  intro o ho; rw [e]; simp [ho]

/-- `NB0`: the node was not busy at the start (only then the run may diverge before the create);
    `Lv`: the level; `C`: a side condition on the remaining old reads -/
def Trk (idOf : Nat → Nat) (r : Nat) (mo : Memo) (Ro : SemRes) (NB0 : Prop) (Lv : Nat)
    (C : Body → List Obs → Prop) (t : State) (f : Frame) (b : Body)
    (ts : Option (Nat × Nat)) (sp : Option Nat) : Prop :=
  (∃ orem, Fol idOf r mo Ro f.obs b ts sp orem ∧ Lv ≤ f.dur ∧ C b orem) ∨ (NB0 ∧ Wit t Lv mo.va f.ca)

theorem trk_weaken {idOf r mo Ro NB0 NB1 Lv Lv' C C' t t' f f' b ts sp}
    (h : Trk idOf r mo Ro NB0 Lv C t f b ts sp) (hL : Lv' ≤ Lv) (hC : ∀ orem, C b orem → C' b orem)
    (hw : t'.wlog = t.wlog) (ho : f'.obs = f.obs) (hd : f'.dur = f.dur) (hc : f'.ca = f.ca)
    (hN : NB0 → NB1) :
    Trk idOf r mo Ro NB1 Lv' C' t' f' b ts sp := by
  rcases h with ⟨orem, a, b', c⟩ | ⟨n, w⟩
  · exact Or.inl ⟨orem, by rw [ho]; exact a, by rw [hd]; exact Nat.le_trans hL b', hC orem c⟩
  · refine Or.inr ⟨hN n, ?_⟩
    rw [hc]
    simp only [Wit, hw]
    exact w.level hL

/-- one read of `d`: the dependency has info `x` afterwards -/
theorem trk_read {idOf r mo Ro NB0 Lv C C' t t' f d k ts sp} {x : Res}
    (h : Trk idOf r mo Ro NB0 Lv C t f (.read d k) ts sp) (hw : t'.wlog = t.wlog)
    (hC : ∀ oo rest, C (.read d k) (oo :: rest) → C' (k oo.val) rest)
    (hcl : ∀ oo rest, C (.read d k) (oo :: rest) → oo ∈ mo.obs → oo.out = false → oo.dep = d →
      (x.val = oo.val ∧ Lv ≤ x.dur) ∨ (NB0 ∧ Wit t' Lv mo.va x.ca)) :
    Trk idOf r mo Ro NB0 Lv C' t' (f.push d x) (k x.val) ts sp := by
  rcases h with ⟨orem, a, b', c⟩ | ⟨n, w⟩
  · cases orem with
    | nil => have := a.rep; simp [replayR] at this
    | cons oo rest =>
      have hr := a.rep
      simp only [replayR] at hr
      split at hr
      · rename_i hc
        rcases hcl oo rest c (a.sub oo (by simp)) hc.1 hc.2 with ⟨e1, e2⟩ | ⟨n, w⟩
        · refine Or.inl ⟨rest, ⟨?_, by rw [e1]; exact hr⟩, Nat.le_min.mpr ⟨b', e2⟩, by rw [e1]; exact hC oo rest c⟩
          obtain ⟨oc, e, ep⟩ := a.split
          refine ⟨oc ++ [oo], by rw [e]; simp, ?_⟩
          simp only [Frame.push, List.map_append, ep, List.map_cons, List.map_nil]
          congr 1
          simp only [obsProj, hc.1, hc.2, e1]
        · exact Or.inr ⟨n, w.mono (Nat.le_max_right _ _)⟩
      · simp at hr
  · refine Or.inr ⟨n, ?_⟩
    have : Wit t' Lv mo.va f.ca := by simp only [Wit, hw]; exact w
    exact this.mono (Nat.le_max_left _ _)

theorem trk_ident {idOf r mo Ro NB0 Lv C C' t t' f c k ts sp}
    (h : Trk idOf r mo Ro NB0 Lv C t f (.ident c k) ts sp) (hw : t'.wlog = t.wlog)
    (hC : ∀ orem, C (.ident c k) orem → C' (k (idOf c)) orem) :
    Trk idOf r mo Ro NB0 Lv C' t' f (k (idOf c)) ts sp := by
  rcases h with ⟨orem, a, b', c'⟩ | ⟨n, w⟩
  · refine Or.inl ⟨orem, ⟨a.split, ?_⟩, b', hC orem c'⟩
    have := a.rep; simp only [replayR] at this; exact this
  · exact Or.inr ⟨n, by simp only [Wit, hw]; exact w⟩

/-- the `create`: the old replay creates the same struct -/
theorem fol_create {idOf r mo Ro fobs idk v k sp orem}
    (h : Fol idOf r mo Ro fobs (.create idk v k) none sp orem) :
    Ro.ts = some (idk, v) ∧ Fol idOf r mo Ro fobs (k ⟨v, some r⟩) (some (idk, v)) sp orem := by
  have hr := h.rep
  simp only [replayR] at hr
  exact ⟨replay_ts_keep r idOf _ orem _ sp Ro hr, h.split, hr⟩

/-- the `specify`: the old replay specifies the same value and consumes its output edge -/
theorem fol_specify {idOf r mo Ro fobs c v k ts sp orem}
    (h : Fol idOf r mo Ro fobs (.specify c v k) ts sp orem) :
    c = r ∧ sp = none ∧ Ro.sp = some v ∧ ∃ oo rest, orem = oo :: rest ∧
      Fol idOf r mo Ro (fobs ++ [⟨.spec r, ⟨v, none⟩, true, true⟩]) k ts (some v) rest := by
  have hr := h.rep
  cases orem with
  | nil => simp [replayR] at hr
  | cons oo rest =>
    simp only [replayR] at hr
    split at hr
    · rename_i hc
      obtain ⟨c1, _, c3, c4, c5, c6⟩ := hc
      refine ⟨c1, c3, replay_sp_keep r idOf _ rest ts v Ro hr, oo, rest, rfl, ?_, hr⟩
      obtain ⟨oc, e, ep⟩ := h.split
      refine ⟨oc ++ [oo], by rw [e]; simp, ?_⟩
      simp only [List.map_append, ep, List.map_cons, List.map_nil]
      congr 1
      simp only [obsProj, c4, c5, c6]
    · simp at hr

/-- the end: the old replay ends here with the old result -/
theorem fol_ret {idOf r mo Ro fobs v ts sp orem} (h : Fol idOf r mo Ro fobs (.ret v) ts sp orem) :
    Ro = ⟨v, ts, sp⟩ ∧ mo.obs.map obsProj = fobs.map obsProj := by
  have hr := h.rep
  cases orem with
  | cons _ _ => simp [replayR] at hr
  | nil =>
    simp only [replayR, Option.some.injEq] at hr
    obtain ⟨oc, e, ep⟩ := h.split
    exact ⟨hr.symm, by rw [e, List.append_nil]; exact ep⟩

theorem trk_specify {idOf r mo Ro NB0 Lv C C' t t' f f' c v k ts sp}
    (h : Trk idOf r mo Ro NB0 Lv C t f (.specify c v k) ts sp) (hw : t'.wlog = t.wlog)
    (ho : f'.obs = f.obs ++ [⟨.spec r, ⟨v, none⟩, true, true⟩]) (hd : f'.dur = f.dur) (hc : f'.ca = f.ca)
    (hC : ∀ rest, C' k rest) : Trk idOf r mo Ro NB0 Lv C' t' f' k ts (some v) := by
  rcases h with ⟨orem, a, b', _⟩ | ⟨n, w⟩
  · obtain ⟨_, _, _, oo, rest, _, a'⟩ := fol_specify a
    exact Or.inl ⟨rest, by rw [ho]; exact a', by rw [hd]; exact b', hC rest⟩
  · refine Or.inr ⟨n, ?_⟩
    rw [hc]
    simp only [Wit, hw]
    exact w

theorem trk_create {idOf r mo Ro NB0 Lv C C' t t' f f' idk v k sp}
    (h : Trk idOf r mo Ro NB0 Lv C t f (.create idk v k) none sp) (hw : t'.wlog = t.wlog)
    (ho : f'.obs = f.obs) (hd : f'.dur = f.dur) (hc : f'.ca = f.ca)
    (hC : ∀ rest, C' (k ⟨v, some r⟩) rest) :
    Trk idOf r mo Ro NB0 Lv C' t' f' (k ⟨v, some r⟩) (some (idk, v)) sp := by
  rcases h with ⟨orem, a, b', _⟩ | ⟨n, w⟩
  · exact Or.inl ⟨orem, by rw [ho]; exact (fol_create a).2, by rw [hd]; exact b', hC orem⟩
  · refine Or.inr ⟨n, ?_⟩
    rw [hc]
    simp only [Wit, hw]
    exact w

end X
end SalsaVerif.Proofs.CoreSpec
