/-
  C26 with flattening: the clauses of a re-verified memo (`va := cur`).  Core Lean only.
-/
import SalsaVerif.Proofs.PersistFlat5b

namespace SalsaVerif.Proofs.PersistFlat
open SalsaVerif.Model.Core SalsaVerif.Model.Persist SalsaVerif.Proofs.Core SalsaVerif.Proofs.Persist

theorem Reval.caBnd {pers P H R0 t r m Ω B} (hP : Wf P) (hJ : J pers P H R0 t)
    (hm : t.memos r = some m) (hV : Reval pers P H t r m Ω B) : CaBnd pers P t.inp t r m.ca := by
  have h0 := hJ.memo r m hm
  rcases h0.j5 with h1 | ⟨k, hk, hw⟩
  · exact Or.inl h1
  · apply caBnd_transfer hP r k hk ?_ hw
    intro k2 d r1 r2 d1 d2 hT hne
    cases d with
    | inp i =>
      show m.ca ≤ (t.inp i).ca
      apply Classical.byContradiction
      intro hlt
      have hci : (t.inp i).ca ≤ m.va := by have := h0.ca_va; omega
      apply hne
      simp only [semDep]; rw [hJ.hist.since i m.va hci h0.va_cur]
    | qry p =>
      have rp2 : Reach P t.inp r p := r2.trans (Reach.step d2 (Reach.refl p))
      obtain ⟨mp, hmp⟩ := hV.memo16 hP hJ hm p rp2 hT
      refine ⟨mp, hmp, ?_⟩
      apply Classical.byContradiction
      intro hlt
      have hcp : mp.ca ≤ m.va := by have := h0.ca_va; omega
      obtain ⟨a, _⟩ := h0.pc p mp (r1.trans (Reach.step d1 (Reach.refl p))) hmp hcp
      obtain ⟨b, _⟩ := hV.valid hP hJ hm p mp rp2 hmp
      apply hne
      simp only [semDep]; rw [a, b]

/-- **the re-verified memo** `{m with va := cur, deepAt := dA}` satisfies all clauses -/
theorem reval_memoJ {pers P H R0 t r m Ω B} (hP : Wf P) (hJ : J pers P H R0 t)
    (hm : t.memos r = some m) (hV : Reval pers P H t r m Ω B) (dA : Nat)
    (hdA1 : 1 ≤ dA) (hdA2 : dA ≤ t.cur) (hdA3 : pers r = false → R0 ≤ dA)
    (h4 : ∀ i, Leaf P (H dA) r i → ∀ ρ, dA ≤ ρ → ρ ≤ t.cur → H ρ i = H dA i)
    (hPrem : PremL P H t r m)
    (hAb : ∀ k, Above P (H m.va) (odOf m) r k → Ω k)
    (h7 : ∀ k, Dep.qry k ∈ odOf m → ∃ mk, t.memos k = some mk ∧ dA ≤ mk.va ∧ SOK t mk) :
    MemoJ pers P H R0 (setMemo t r { m with va := t.cur, deepAt := dA }) r
      { m with va := t.cur, deepAt := dA } := by
  have h0 := hJ.memo r m hm
  have hc : H t.cur = t.inp := hJ.hist.cur hJ.base
  have hsr := hV.same hP hJ r hV.root (Reach.refl r)
  have hne : ∀ d, d ∈ odOf m → d ≠ .qry r := by
    intro d hd e
    subst e
    exact absurd (sdeps_lt hP (h0.j7 r hd).1) (Nat.lt_irrefl r)
  have hcut : Cut P (H m.va) (odOf m) r := h0.j6 (Or.inr hPrem)
  have hcutc : Cut P (H t.cur) (odOf m) r := by
    rw [hc]
    apply cut_transfer hcut
    intro k hk
    exact (hV.same hP hJ k (hAb k hk) (by
      have := hk.reach
      exact ((Reach.refl r).trans (by
        -- reach now: the nodes above the cut are reached now as well
        clear this
        induction hk with
        | refl => exact Reach.refl r
        | step hk' hd _ ih =>
          have := (hV.same hP hJ _ (hAb _ hk') ih).2
          exact ih.trans (Reach.step (by rw [this]; exact hd) (Reach.refl _)))))).2
  refine ⟨Nat.le_trans h0.ca_va h0.va_cur, Nat.le_refl _, hdA1, hdA2, h0.dur3, ?_, h4, ?_, ?_, ?_, ?_, ?_, ?_, ?_, hdA3, ?_⟩
  · -- j3
    show ∀ i, Leaf P (H t.cur) r i → m.dur ≤ (H t.cur i).dur
    rw [hc]; exact hV.dur hP hJ hm
  · -- j5
    show CaBnd pers P (H t.cur) _ r m.ca
    rw [hc]
    refine caBnd_state (s := t) (fun i => Nat.le_refl _) ?_ (hV.caBnd hP hJ hm)
    intro p mp hmp
    by_cases hpr : p = r
    · subst hpr
      rw [hm] at hmp; cases hmp
      exact ⟨_, setMemo_same _ _ _, Nat.le_refl _⟩
    · exact ⟨mp, by rw [setMemo_other _ _ _ hpr]; exact hmp, Nat.le_refl _⟩
  · -- j6
    intro _
    exact hcutc
  · -- j7
    intro k hk
    show Dep.qry k ∈ sdeps P (H t.cur) r ∧ ∃ mk, (setMemo t r _).memos k = some mk ∧ dA ≤ mk.va
    rw [hc, hsr.2]
    refine ⟨(h0.j7 k hk).1, ?_⟩
    obtain ⟨mk, hmk, hle, _⟩ := h7 k hk
    have hkr : k ≠ r := fun e => hne _ hk (by rw [e])
    exact ⟨mk, by rw [setMemo_other _ _ _ hkr]; exact hmk, hle⟩
  · -- j7s
    show (∀ k, Dep.qry k ∈ odOf m → pers k = true) ∨ (∀ d, d ∈ sdeps P (H t.cur) r → d ∈ odOf m)
    rw [hc, hsr.2]; exact h0.j7s
  · -- j6c
    intro _
    refine CutC.mk (setMemo_same _ _ _) hcutc ?_
    intro p hp
    obtain ⟨mp, hmp, _, hsp⟩ := h7 p hp
    exact cutC_below hP hJ p (sok_cutC hP hJ p mp hmp hsp) (sdeps_lt hP (h0.j7 p hp).1)
  · -- j8
    intro _ k hk
    obtain ⟨mk, hmk, _, hsk⟩ := h7 k hk
    have hkr : k ≠ r := fun e => hne _ hk (by rw [e])
    have hck : mk.ca ≤ m.va := hPrem.2 k mk hk hmk
    refine ⟨mk, by rw [setMemo_other _ _ _ hkr]; exact hmk, hsk, Nat.le_trans hck h0.va_cur, ?_⟩
    exact (h0.pc k mk (Reach.step (h0.j7 k hk).1 (Reach.refl k)) hmk hck).2
  · -- j16
    intro k hr hp
    change Reach P (H t.cur) r k at hr
    rw [hc] at hr
    obtain ⟨mk, hmk⟩ := hV.memo16 hP hJ hm k hr hp
    by_cases hkr : k = r
    · subst hkr; exact ⟨_, setMemo_same _ _ _⟩
    · exact ⟨mk, by rw [setMemo_other _ _ _ hkr]; exact hmk⟩
  · -- pc
    intro k mk hr hmk _
    change Reach P (H t.cur) r k at hr
    show sem P (H t.cur) k = mk.value ∧ m.dur ≤ mk.dur
    rw [hc] at hr ⊢
    by_cases hkr : k = r
    · subst hkr
      rw [setMemo_same] at hmk; cases hmk
      exact ⟨(hV.valid hP hJ hm k m hr hm).1, Nat.le_refl _⟩
    · rw [setMemo_other _ _ _ hkr] at hmk
      exact hV.valid hP hJ hm k mk hr hmk

end SalsaVerif.Proofs.PersistFlat
