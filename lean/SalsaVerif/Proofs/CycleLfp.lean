/-
  The lattice of 8-bit sets (`Nat < 256` with `|||`, `&&&`), monotonicity of `evalExpr`,
  and the Kleene least fixpoint of `Model/Cycle.lean` (core Lean only).
-/
import SalsaVerif.Model.Cycle

namespace SalsaVerif.Proofs.Cycle
open SalsaVerif.Model.Cycle

/-! ## order -/

/-- subset order on bit sets. -/
def le (a b : Nat) : Prop := a ||| b = b

instance (a b : Nat) : Decidable (le a b) := by unfold le; infer_instance

theorem le_iff {a b : Nat} : le a b ↔ ∀ i, a.testBit i = true → b.testBit i = true := by
  constructor
  · intro h i hi
    have : (a ||| b).testBit i = b.testBit i := by rw [h]
    rw [Nat.testBit_or, hi] at this
    simpa using this.symm
  · intro h
    apply Nat.eq_of_testBit_eq
    intro i
    rw [Nat.testBit_or]
    cases ha : a.testBit i
    · simp
    · simp [h i ha]

theorem le_refl (a : Nat) : le a a := by simp [le]

theorem le_trans {a b c : Nat} (h1 : le a b) (h2 : le b c) : le a c := by
  rw [le_iff] at *
  intro i hi
  exact h2 i (h1 i hi)

theorem le_antisymm {a b : Nat} (h1 : le a b) (h2 : le b a) : a = b := by
  unfold le at *
  rw [← h2, Nat.or_comm, h1]

theorem zero_le (a : Nat) : le 0 a := by simp [le]

theorem le_or_left (a b : Nat) : le a (a ||| b) := by
  rw [le_iff]; intro i hi; simp [Nat.testBit_or, hi]

theorem le_or_right (a b : Nat) : le b (a ||| b) := by
  rw [le_iff]; intro i hi; simp [Nat.testBit_or, hi]

theorem or_le {a b c : Nat} (h1 : le a c) (h2 : le b c) : le (a ||| b) c := by
  rw [le_iff] at *
  intro i hi
  rw [Nat.testBit_or] at hi
  cases ha : a.testBit i
  · rw [ha] at hi; exact h2 i (by simpa using hi)
  · exact h1 i ha

theorem or_mono {a b c d : Nat} (h1 : le a c) (h2 : le b d) : le (a ||| b) (c ||| d) :=
  or_le (le_trans h1 (le_or_left c d)) (le_trans h2 (le_or_right c d))

theorem and_mono {a b c d : Nat} (h1 : le a c) (h2 : le b d) : le (a &&& b) (c &&& d) := by
  rw [le_iff] at *
  intro i hi
  rw [Nat.testBit_and] at *
  simp only [Bool.and_eq_true] at *
  exact ⟨h1 i hi.1, h2 i hi.2⟩

theorem mod_mono {a b : Nat} (h : le a b) : le (a % 256) (b % 256) := by
  rw [le_iff] at *
  intro i hi
  change (a % 2 ^ 8).testBit i = true at hi
  change (b % 2 ^ 8).testBit i = true
  rw [Nat.testBit_mod_two_pow] at hi ⊢
  simp only [Bool.and_eq_true, decide_eq_true_eq] at hi ⊢
  exact ⟨hi.1, h i hi.2⟩

theorem or_eq_of_le {a b : Nat} (h : le a b) : a ||| b = b := h

theorem or_lt_256 {a b : Nat} (ha : a < 256) (hb : b < 256) : a ||| b < 256 :=
  Nat.or_lt_two_pow (n := 8) ha hb

theorem and_lt_256 {a b : Nat} (ha : a < 256) : a &&& b < 256 :=
  Nat.lt_of_le_of_lt Nat.and_le_left ha

/-! ## height -/

def bit (a i : Nat) : Nat := (a.testBit i).toNat

/-- number of elements of an 8-bit set. -/
def card (a : Nat) : Nat :=
  bit a 0 + bit a 1 + bit a 2 + bit a 3 + bit a 4 + bit a 5 + bit a 6 + bit a 7

theorem bit_le_one (a i : Nat) : bit a i ≤ 1 := by
  unfold bit; cases a.testBit i <;> simp

theorem card_le (a : Nat) : card a ≤ 8 := by
  unfold card
  have := bit_le_one a 0; have := bit_le_one a 1; have := bit_le_one a 2
  have := bit_le_one a 3; have := bit_le_one a 4; have := bit_le_one a 5
  have := bit_le_one a 6; have := bit_le_one a 7
  omega

theorem bit_mono {a b : Nat} (h : le a b) (i : Nat) : bit a i ≤ bit b i := by
  rw [le_iff] at h
  unfold bit
  cases ha : a.testBit i
  · simp
  · simp [h i ha]

theorem card_mono {a b : Nat} (h : le a b) : card a ≤ card b := by
  unfold card
  have := bit_mono h 0; have := bit_mono h 1; have := bit_mono h 2
  have := bit_mono h 3; have := bit_mono h 4; have := bit_mono h 5
  have := bit_mono h 6; have := bit_mono h 7
  omega

theorem testBit_high {a : Nat} (ha : a < 256) {i : Nat} (hi : 8 ≤ i) : a.testBit i = false := by
  apply Nat.testBit_lt_two_pow
  calc a < 2 ^ 8 := ha
    _ ≤ 2 ^ i := Nat.pow_le_pow_right (by decide) hi

theorem card_strict {a b : Nat} (h : le a b) (hne : a ≠ b) (ha : a < 256) (hb : b < 256) :
    card a < card b := by
  have hex : ∃ i, i < 8 ∧ a.testBit i ≠ b.testBit i := by
    apply Classical.byContradiction
    intro hno
    apply hne
    apply Nat.eq_of_testBit_eq
    intro i
    by_cases hi : i < 8
    · apply Classical.byContradiction
      intro hc
      exact hno ⟨i, hi, hc⟩
    · rw [testBit_high ha (by omega), testBit_high hb (by omega)]
  obtain ⟨i, hi, hd⟩ := hex
  have hlt : bit a i < bit b i := by
    have hm := (le_iff.mp h) i
    unfold bit
    cases ha' : a.testBit i
    · cases hb' : b.testBit i
      · rw [ha', hb'] at hd; exact absurd rfl hd
      · simp
    · rw [ha', hm ha'] at hd; exact absurd rfl hd
  unfold card
  have := bit_mono h 0; have := bit_mono h 1; have := bit_mono h 2
  have := bit_mono h 3; have := bit_mono h 4; have := bit_mono h 5
  have := bit_mono h 6; have := bit_mono h 7
  have h8 : i = 0 ∨ i = 1 ∨ i = 2 ∨ i = 3 ∨ i = 4 ∨ i = 5 ∨ i = 6 ∨ i = 7 := by omega
  rcases h8 with rfl | rfl | rfl | rfl | rfl | rfl | rfl | rfl <;> omega

/-! ## evalExpr -/

/-- bit 0, once set, stays set as values ascend: gates are monotone. -/
theorem low_mono {a b : Nat} (h : le a b) (ha : a % 2 = 1) : b % 2 = 1 := by
  have h0 : a.testBit 0 = true := by rw [Nat.testBit_zero]; simp [ha]
  have := (le_iff.mp h) 0 h0
  rw [Nat.testBit_zero] at this
  simpa using this

theorem evalExpr_lt (env ρ : Nat → Nat) (e : Expr) : evalExpr env ρ e < 256 := by
  induction e with
  | const c => exact Nat.mod_lt _ (by decide)
  | input i => exact Nat.mod_lt _ (by decide)
  | call j => exact Nat.mod_lt _ (by decide)
  | union a b iha ihb => exact or_lt_256 iha ihb
  | inter a b iha _ => exact and_lt_256 iha
  | ite i a b iha ihb =>
    simp only [evalExpr]
    split
    · exact iha
    · exact ihb
  | gate c a _ iha =>
    simp only [evalExpr]
    split
    · exact iha
    · decide

/-- `Mono` is automatic: bodies are monotone in the values of their callees (the callees under
    the LARGER assignment: a gate that is open below is open above). -/
theorem evalExpr_mono (env : Nat → Nat) {ρ ρ' : Nat → Nat} (e : Expr)
    (h : ∀ c ∈ callees env ρ' e, le (ρ c) (ρ' c)) : le (evalExpr env ρ e) (evalExpr env ρ' e) := by
  induction e with
  | const c => exact le_refl _
  | input i => exact le_refl _
  | call j => exact mod_mono (h j (by simp [callees]))
  | union a b iha ihb =>
    exact or_mono (iha (fun c hc => h c (by simp [callees, hc])))
      (ihb (fun c hc => h c (by simp [callees, hc])))
  | inter a b iha ihb =>
    exact and_mono (iha (fun c hc => h c (by simp [callees, hc])))
      (ihb (fun c hc => h c (by simp [callees, hc])))
  | ite i a b iha ihb =>
    simp only [evalExpr]
    simp only [callees] at h
    split
    · rename_i hc; rw [if_pos hc] at h; exact iha h
    · rename_i hc; rw [if_neg hc] at h; exact ihb h
  | gate c a ihc iha =>
    have hcm := ihc (fun x hx => h x (by simp [callees, hx]))
    simp only [evalExpr]
    by_cases ho : evalExpr env ρ c % 2 = 1
    · have ho' := low_mono hcm ho
      rw [if_pos ho, if_pos ho']
      apply iha
      intro x hx
      apply h x
      simp only [callees, if_pos ho', List.mem_append]
      exact Or.inr hx
    · rw [if_neg ho]; exact zero_le _

/-- a body only looks at its callees. -/
theorem evalExpr_congr (env : Nat → Nat) {ρ ρ' : Nat → Nat} (e : Expr)
    (h : ∀ c ∈ callees env ρ e, ρ c = ρ' c) : evalExpr env ρ e = evalExpr env ρ' e := by
  induction e with
  | const c => rfl
  | input i => rfl
  | call j => simp only [evalExpr]; rw [h j (by simp [callees])]
  | union a b iha ihb =>
    simp only [evalExpr]
    rw [iha (fun c hc => h c (by simp [callees, hc])), ihb (fun c hc => h c (by simp [callees, hc]))]
  | inter a b iha ihb =>
    simp only [evalExpr]
    rw [iha (fun c hc => h c (by simp [callees, hc])), ihb (fun c hc => h c (by simp [callees, hc]))]
  | ite i a b iha ihb =>
    simp only [evalExpr]
    simp only [callees] at h
    split
    · rename_i hc; rw [if_pos hc] at h; exact iha h
    · rename_i hc; rw [if_neg hc] at h; exact ihb h
  | gate c a ihc iha =>
    have hc := ihc (fun x hx => h x (by simp [callees, hx]))
    simp only [evalExpr]
    rw [← hc]
    by_cases ho : evalExpr env ρ c % 2 = 1
    · rw [if_pos ho, if_pos ho]
      apply iha
      intro x hx
      apply h x
      simp only [callees, if_pos ho, List.mem_append]
      exact Or.inr hx
    · rw [if_neg ho, if_neg ho]

/-- ... and so does its callee list. -/
theorem callees_congr (env : Nat → Nat) {ρ ρ' : Nat → Nat} (e : Expr)
    (h : ∀ c ∈ callees env ρ e, ρ c = ρ' c) : callees env ρ e = callees env ρ' e := by
  induction e with
  | const c => rfl
  | input i => rfl
  | call j => rfl
  | union a b iha ihb =>
    simp only [callees]
    rw [iha (fun c hc => h c (by simp [callees, hc])), ihb (fun c hc => h c (by simp [callees, hc]))]
  | inter a b iha ihb =>
    simp only [callees]
    rw [iha (fun c hc => h c (by simp [callees, hc])), ihb (fun c hc => h c (by simp [callees, hc]))]
  | ite i a b iha ihb =>
    simp only [callees] at h ⊢
    split
    · rename_i hc; rw [if_pos hc] at h; exact iha h
    · rename_i hc; rw [if_neg hc] at h; exact ihb h
  | gate c a ihc iha =>
    have hc := ihc (fun x hx => h x (by simp [callees, hx]))
    have hv := evalExpr_congr env c (fun x hx => h x (by simp [callees, hx]))
    simp only [callees]
    rw [← hc, ← hv]
    by_cases ho : evalExpr env ρ c % 2 = 1
    · rw [if_pos ho, if_pos ho]
      congr 1
      apply iha
      intro x hx
      apply h x
      simp only [callees, if_pos ho, List.mem_append]
      exact Or.inr hx
    · rw [if_neg ho, if_neg ho]

/-- gate-free bodies: the callees are determined by the inputs. -/
theorem callees_noGate (env : Nat → Nat) (ρ ρ' : Nat → Nat) (e : Expr) (h : e.noGate = true) :
    callees env ρ e = callees env ρ' e := by
  induction e with
  | const c => rfl
  | input i => rfl
  | call j => rfl
  | union a b iha ihb =>
    simp only [Expr.noGate, Bool.and_eq_true] at h
    simp only [callees]; rw [iha h.1, ihb h.2]
  | inter a b iha ihb =>
    simp only [Expr.noGate, Bool.and_eq_true] at h
    simp only [callees]; rw [iha h.1, ihb h.2]
  | ite i a b iha ihb =>
    simp only [Expr.noGate, Bool.and_eq_true] at h
    simp only [callees]; rw [iha h.1, ihb h.2]
  | gate c a _ _ => simp [Expr.noGate] at h

theorem callees_sub_all (env ρ : Nat → Nat) (e : Expr) :
    ∀ c ∈ callees env ρ e, c ∈ allCallees e := by
  induction e with
  | const c => simp [callees]
  | input i => simp [callees]
  | call j => simp [callees, allCallees]
  | union a b iha ihb =>
    intro c hc
    simp only [callees, allCallees, List.mem_append] at *
    exact hc.imp (iha c) (ihb c)
  | inter a b iha ihb =>
    intro c hc
    simp only [callees, allCallees, List.mem_append] at *
    exact hc.imp (iha c) (ihb c)
  | ite i a b iha ihb =>
    intro c hc
    simp only [callees, allCallees, List.mem_append] at *
    split at hc
    · exact Or.inl (iha c hc)
    · exact Or.inr (ihb c hc)
  | gate g a ihg iha =>
    intro c hc
    simp only [callees, allCallees, List.mem_append] at *
    rcases hc with hc | hc
    · exact Or.inl (ihg c hc)
    · split at hc
      · exact Or.inr (iha c hc)
      · cases hc

/-! ## Kleene iteration -/

theorem step_mono (P : Prog) (env : Nat → Nat) {ρ ρ' : Nat → Nat} (h : ∀ c, le (ρ c) (ρ' c))
    (i : Nat) : le (step P env ρ i) (step P env ρ' i) :=
  evalExpr_mono env _ (fun c _ => h c)

theorem step_lt (P : Prog) (env ρ : Nat → Nat) (i : Nat) : step P env ρ i < 256 :=
  evalExpr_lt env ρ _

theorem kleene_lt (P : Prog) (env : Nat → Nat) (k i : Nat) : kleene P env k i < 256 := by
  cases k with
  | zero => simp [kleene]
  | succ k => exact step_lt P env _ i

theorem kleene_chain (P : Prog) (env : Nat → Nat) (k : Nat) :
    ∀ i, le (kleene P env k i) (kleene P env (k + 1) i) := by
  induction k with
  | zero => intro i; exact zero_le _
  | succ k ih => intro i; exact step_mono P env ih i

theorem kleene_chain_le (P : Prog) (env : Nat → Nat) {k m : Nat} (h : k ≤ m) :
    ∀ i, le (kleene P env k i) (kleene P env m i) := by
  induction m with
  | zero =>
    have : k = 0 := by omega
    subst this; intro i; exact le_refl _
  | succ m ih =>
    intro i
    by_cases hk : k = m + 1
    · subst hk; exact le_refl _
    · exact le_trans (ih (by omega) i) (kleene_chain P env m i)

/-- out-of-range nodes are constant ∅. -/
theorem node_out (P : Prog) {i : Nat} (h : P.n ≤ i) : P.node i = ⟨.panic, .const 0⟩ := by
  unfold Prog.node Prog.n at *
  simp [List.getD, List.getElem?_eq_none h]

theorem kleene_out (P : Prog) (env : Nat → Nat) (k : Nat) {i : Nat} (h : P.n ≤ i) :
    kleene P env k i = 0 := by
  cases k with
  | zero => rfl
  | succ k => simp [kleene, step, node_out P h, evalExpr]

/-- Σ_{i<n} card (ρ i). -/
def total (ρ : Nat → Nat) : Nat → Nat
  | 0 => 0
  | n + 1 => total ρ n + card (ρ n)

theorem total_le (ρ : Nat → Nat) (n : Nat) : total ρ n ≤ 8 * n := by
  induction n with
  | zero => simp [total]
  | succ n ih => have := card_le (ρ n); simp only [total]; omega

theorem total_mono {ρ ρ' : Nat → Nat} (h : ∀ i, le (ρ i) (ρ' i)) (n : Nat) :
    total ρ n ≤ total ρ' n := by
  induction n with
  | zero => simp [total]
  | succ n ih => have := card_mono (h n); simp only [total]; omega

theorem total_strict {ρ ρ' : Nat → Nat} (h : ∀ i, le (ρ i) (ρ' i))
    (hlt : ∀ i, ρ i < 256) (hlt' : ∀ i, ρ' i < 256) (n : Nat)
    (hne : ∃ i, i < n ∧ ρ i ≠ ρ' i) : total ρ n < total ρ' n := by
  induction n with
  | zero => obtain ⟨i, hi, _⟩ := hne; omega
  | succ n ih =>
    obtain ⟨i, hi, hd⟩ := hne
    simp only [total]
    by_cases hin : i = n
    · subst hin
      have := card_strict (h i) hd (hlt i) (hlt' i)
      have := total_mono h i
      omega
    · have := ih ⟨i, by omega, hd⟩
      have := card_mono (h n)
      omega

/-- once two consecutive iterates agree (on the nodes) the chain is stationary. -/
theorem kleene_stable (P : Prog) (env : Nat → Nat) {k : Nat}
    (h : ∀ i, kleene P env k i = kleene P env (k + 1) i) (m : Nat) :
    ∀ i, kleene P env (k + m) i = kleene P env k i := by
  induction m with
  | zero => intro i; rfl
  | succ m ih =>
    intro i
    have e : kleene P env (k + (m + 1)) = step P env (kleene P env (k + m)) := rfl
    rw [e, h i]
    show step P env (kleene P env (k + m)) i = step P env (kleene P env k) i
    have : kleene P env (k + m) = kleene P env k := funext ih
    rw [this]

theorem kleene_total_ge (P : Prog) (env : Nat → Nat) (k : Nat)
    (h : ∀ m, m < k → ∃ i, kleene P env m i ≠ kleene P env (m + 1) i) :
    k ≤ total (kleene P env k) P.n := by
  induction k with
  | zero => omega
  | succ k ih =>
    have h1 := ih (fun m hm => h m (by omega))
    obtain ⟨i, hi⟩ := h k (by omega)
    have hin : i < P.n := by
      apply Classical.byContradiction
      intro hc
      apply hi
      rw [kleene_out P env k (by omega), kleene_out P env (k + 1) (by omega)]
    have := total_strict (kleene_chain P env k) (kleene_lt P env k) (kleene_lt P env (k + 1))
      P.n ⟨i, hin, hi⟩
    omega

/-- the fuel `8 * n + 1` suffices: `lfp` is a fixpoint of the equations. -/
theorem lfp_fix (P : Prog) (env : Nat → Nat) : step P env (lfp P env) = lfp P env := by
  have hex : ∃ m, m < 8 * P.n + 1 ∧ ∀ i, kleene P env m i = kleene P env (m + 1) i := by
    apply Classical.byContradiction
    intro hno
    have hall : ∀ m, m < 8 * P.n + 1 → ∃ i, kleene P env m i ≠ kleene P env (m + 1) i := by
      intro m hm
      apply Classical.byContradiction
      intro hc
      apply hno
      refine ⟨m, hm, fun i => ?_⟩
      apply Classical.byContradiction
      intro hi
      exact hc ⟨i, hi⟩
    have h1 := kleene_total_ge P env (8 * P.n + 1) hall
    have h2 := total_le (kleene P env (8 * P.n + 1)) P.n
    omega
  obtain ⟨m, hm, hst⟩ := hex
  have e1 : ∀ i, kleene P env (8 * P.n + 1) i = kleene P env m i := by
    have := kleene_stable P env hst (8 * P.n + 1 - m)
    intro i
    rw [← this i]; congr 1; omega
  have e2 : ∀ i, kleene P env (8 * P.n + 1 + 1) i = kleene P env m i := by
    have := kleene_stable P env hst (8 * P.n + 1 + 1 - m)
    intro i
    rw [← this i]; congr 1; omega
  funext i
  show kleene P env (8 * P.n + 1 + 1) i = kleene P env (8 * P.n + 1) i
  rw [e1, e2]

theorem lfp_lt (P : Prog) (env : Nat → Nat) (i : Nat) : lfp P env i < 256 := kleene_lt P env _ i

/-- `lfp` is below every post-fixpoint `σ` on a set `S` closed under the callees under `σ`. -/
theorem kleene_le_of_post (P : Prog) (env : Nat → Nat) (S : Nat → Prop) (σ : Nat → Nat)
    (hclosed : ∀ x, S x → ∀ c ∈ callees env σ (P.node x).body, S c)
    (hpost : ∀ x, S x → le (step P env σ x) (σ x)) (k : Nat) :
    ∀ x, S x → le (kleene P env k x) (σ x) := by
  induction k with
  | zero => intro x _; exact zero_le _
  | succ k ih =>
    intro x hx
    refine le_trans ?_ (hpost x hx)
    exact evalExpr_mono env _ (fun c hc => ih c (hclosed x hx c hc))

theorem lfp_le_of_post (P : Prog) (env : Nat → Nat) (S : Nat → Prop) (σ : Nat → Nat)
    (hclosed : ∀ x, S x → ∀ c ∈ callees env σ (P.node x).body, S c)
    (hpost : ∀ x, S x → le (step P env σ x) (σ x)) :
    ∀ x, S x → le (lfp P env x) (σ x) :=
  kleene_le_of_post P env S σ hclosed hpost _

theorem lfp_step (P : Prog) (env : Nat → Nat) (i : Nat) :
    evalExpr env (lfp P env) (P.node i).body = lfp P env i :=
  congrFun (lfp_fix P env) i

/-! ## the memoised reference of the driver computes `lfp` -/

theorem kleeneL_getD (P : Prog) (env : Nat → Nat) (k i : Nat) :
    (kleeneL P env k).getD i 0 = kleene P env k i := by
  induction k generalizing i with
  | zero =>
    simp only [kleeneL, kleene]
    by_cases hi : i < P.n
    · simp [List.getD_eq_getElem?_getD, hi]
    · simp [List.getD_eq_getElem?_getD, hi]
  | succ k ih =>
    simp only [kleeneL, kleene, step]
    have hf : (fun j => (kleeneL P env k)[j]?.getD 0) = kleene P env k := by
      funext j
      rw [← List.getD_eq_getElem?_getD]; exact ih j
    by_cases hi : i < P.n
    · simp [List.getD_eq_getElem?_getD, hi, hf]
    · have h0 := kleene_out P env (k + 1) (i := i) (by omega)
      simp only [kleene, step] at h0
      simp [List.getD_eq_getElem?_getD, hi, h0]

/-- `svdriver cycle`'s `lfp <i>` prints the reference `lfp P env i`. -/
theorem lfpL_getD (P : Prog) (env : Nat → Nat) (i : Nat) :
    (lfpL P env).getD i 0 = lfp P env i :=
  kleeneL_getD P env _ i

end SalsaVerif.Proofs.Cycle
