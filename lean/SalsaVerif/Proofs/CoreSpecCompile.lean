/-
  CoreSpec: programs of the line-protocol language that pass the Boolean check `wfOwnFree` are
  well-formed (`Wf`).  Core Lean only.
-/
import SalsaVerif.Proofs.CoreSpecRef

namespace SalsaVerif.Proofs.CoreSpec
open SalsaVerif.Model.CoreSpec

theorem orH_some {a b : Option Nat} {c : Nat} (h : orH a b = some c) : a = some c ∨ b = some c := by
  cases a with
  | none => right; simpa [orH] using h
  | some x => left; simpa [orH] using h

/-- handles of the value of an expression evaluated in query `r`: structs of smaller creators, or
    the own struct if the expression contains a `mk` -/
def HOk (r : Nat) (mk : Bool) (v : Val) : Prop := ∀ c, v.h = some c → c < r ∨ (c = r ∧ mk = true)

theorem HOk.mono {r v} {a b : Bool} (h : HOk r a v) (hab : a = true → b = true) : HOk r b v :=
  fun c hc => (h c hc).imp id (fun ⟨e, m⟩ => ⟨e, hab m⟩)

theorem hOk_none (r mk n) : HOk r mk ⟨n, none⟩ := fun c h => by cases h

theorem compile_wf (r : Nat) : ∀ (e : Expr), e.callsBelow r = true → e.ownFree = true →
    ∀ k : Val → Body, (∀ v, HOk r e.hasMk v → WfB r (k v)) → WfB r (compile e k) := by
  intro e
  induction e with
  | const n => intro _ _ k hk; exact hk _ (hOk_none _ _ _)
  | inp i => intro _ _ k hk; exact WfB.inp i k (fun n => hk _ (hOk_none _ _ _))
  | qry j =>
    intro hc _ k hk
    have hj : j < r := by simpa [Expr.callsBelow] using hc
    exact WfB.qry j k hj (fun v hv => hk v (fun c h => Or.inl (Nat.lt_of_le_of_lt (hv c h) hj)))
  | add a b iha ihb =>
    intro hc ho k hk
    simp only [Expr.callsBelow, Bool.and_eq_true] at hc
    simp only [Expr.ownFree, Bool.and_eq_true] at ho
    simp only [compile]
    apply iha hc.1 ho.1
    intro x hx
    apply ihb hc.2 ho.2
    intro y hy
    apply hk
    intro c h
    rcases orH_some h with e | e
    · exact (hx c e).imp id (fun ⟨a1, a2⟩ => ⟨a1, by simp [Expr.hasMk, a2]⟩)
    · exact (hy c e).imp id (fun ⟨a1, a2⟩ => ⟨a1, by simp [Expr.hasMk, a2]⟩)
  | min a b iha ihb =>
    intro hc ho k hk
    simp only [Expr.callsBelow, Bool.and_eq_true] at hc
    simp only [Expr.ownFree, Bool.and_eq_true] at ho
    simp only [compile]
    apply iha hc.1 ho.1
    intro x hx
    apply ihb hc.2 ho.2
    intro y hy
    apply hk
    intro c h
    rcases orH_some h with e | e
    · exact (hx c e).imp id (fun ⟨a1, a2⟩ => ⟨a1, by simp [Expr.hasMk, a2]⟩)
    · exact (hy c e).imp id (fun ⟨a1, a2⟩ => ⟨a1, by simp [Expr.hasMk, a2]⟩)
  | max a b iha ihb =>
    intro hc ho k hk
    simp only [Expr.callsBelow, Bool.and_eq_true] at hc
    simp only [Expr.ownFree, Bool.and_eq_true] at ho
    simp only [compile]
    apply iha hc.1 ho.1
    intro x hx
    apply ihb hc.2 ho.2
    intro y hy
    apply hk
    intro c h
    rcases orH_some h with e | e
    · exact (hx c e).imp id (fun ⟨a1, a2⟩ => ⟨a1, by simp [Expr.hasMk, a2]⟩)
    · exact (hy c e).imp id (fun ⟨a1, a2⟩ => ⟨a1, by simp [Expr.hasMk, a2]⟩)
  | ite c a b ihc iha ihb =>
    intro hc ho k hk
    simp only [Expr.callsBelow, Bool.and_eq_true] at hc
    simp only [Expr.ownFree, Bool.and_eq_true] at ho
    simp only [compile]
    apply ihc hc.1.1 ho.1.1
    intro x _
    split
    · apply iha hc.1.2 ho.1.2
      intro v hv
      exact hk v (hv.mono (by intro m; simp [Expr.hasMk, m]))
    · apply ihb hc.2 ho.2
      intro v hv
      exact hk v (hv.mono (by intro m; simp [Expr.hasMk, m]))
  | mk idk v f s ihv ihf ihs =>
    intro hc ho k hk
    simp only [Expr.callsBelow, Bool.and_eq_true] at hc
    simp only [Expr.ownFree, Bool.and_eq_true] at ho
    simp only [compile]
    apply ihv hc.1.1 ho.1.1
    intro xv _
    apply ihf hc.1.2 ho.1.2
    intro xf _
    apply ihs hc.2 ho.2
    intro xs _
    apply WfB.create
    have hkv : WfB r (k ⟨xv.n, some r⟩) :=
      hk _ (fun c h => by simp at h; subst h; exact Or.inr ⟨rfl, rfl⟩)
    split
    · exact WfB.specify _ _ _ hkv
    · exact hkv
  | tv e ih =>
    intro hc ho k hk
    simp only [Expr.callsBelow] at hc
    simp only [Expr.ownFree, Bool.and_eq_true, Bool.not_eq_true'] at ho
    simp only [compile]
    apply ih hc ho.2
    intro x hx
    split
    · rename_i c hh
      have hlt : c < r := by
        rcases hx c hh with h | ⟨_, h⟩
        · exact h
        · rw [ho.1] at h; cases h
      exact WfB.field c _ hlt (fun n => hk _ (hOk_none _ _ _))
    · exact hk _ (hOk_none _ _ _)
  | tk e ih =>
    intro hc ho k hk
    simp only [Expr.callsBelow] at hc
    simp only [Expr.ownFree, Bool.and_eq_true, Bool.not_eq_true'] at ho
    simp only [compile]
    apply ih hc ho.2
    intro x hx
    split
    · rename_i c hh
      have hlt : c < r := by
        rcases hx c hh with h | ⟨_, h⟩
        · exact h
        · rw [ho.1] at h; cases h
      exact WfB.ident c _ hlt (fun n => hk _ (hOk_none _ _ _))
    · exact hk _ (hOk_none _ _ _)
  | sp e ih =>
    intro hc ho k hk
    simp only [Expr.callsBelow] at hc
    simp only [Expr.ownFree, Bool.and_eq_true, Bool.not_eq_true'] at ho
    simp only [compile]
    apply ih hc ho.2
    intro x hx
    split
    · rename_i c hh
      have hlt : c < r := by
        rcases hx c hh with h | ⟨_, h⟩
        · exact h
        · rw [ho.1] at h; cases h
      exact WfB.spec c _ hlt (fun n => hk _ (hOk_none _ _ _))
    · exact hk _ (hOk_none _ _ _)

theorem compileS_wf (kk vv : Nat) : ∀ (e : SExpr) (k : Nat → Body), (∀ n, WfS (k n)) →
    WfS (compileS kk vv e k) := by
  intro e
  induction e with
  | const n => intro k hk; exact hk n
  | inp i => intro k hk; exact WfS.read i _ (fun n => hk n)
  | sk => intro k hk; exact hk kk
  | sv => intro k hk; exact hk vv
  | add a b iha ihb => intro k hk; simp only [compileS]; exact iha _ (fun x => ihb _ (fun y => hk _))
  | min a b iha ihb => intro k hk; simp only [compileS]; exact iha _ (fun x => ihb _ (fun y => hk _))
  | max a b iha ihb => intro k hk; simp only [compileS]; exact iha _ (fun x => ihb _ (fun y => hk _))
  | ite c a b ihc iha ihb =>
    intro k hk
    simp only [compileS]
    apply ihc
    intro x
    split
    · exact iha _ hk
    · exact ihb _ hk

theorem wfOwnFree_get : ∀ (es : List Expr) (r q : Nat) (e : Expr), wfOwnFree r es = true →
    es[q]? = some e → e.callsBelow (r + q) = true ∧ e.ownFree = true := by
  intro es
  induction es with
  | nil => intro r q e _ h; simp at h
  | cons e0 es ih =>
    intro r q e hw h
    simp only [wfOwnFree, Bool.and_eq_true] at hw
    cases q with
    | zero => simp at h; subst h; exact ⟨by simpa using hw.1.1, hw.1.2⟩
    | succ q =>
      simp at h
      have := ih (r + 1) q e hw.2 h
      rw [show r + 1 + q = r + (q + 1) by omega] at this
      exact this

/-- the Boolean check of the driver language implies well-formedness -/
theorem wf_progOf (es : List Expr) (sb : SExpr) (h : wfOwnFree 0 es = true) : Wf (progOf es sb) := by
  refine ⟨?_, ?_⟩
  · intro q
    simp only [progOf]
    cases he : es[q]? with
    | none => exact WfB.ret _ (fun c hc => by cases hc)
    | some e =>
      obtain ⟨h1, h2⟩ := wfOwnFree_get es 0 q e h he
      simp only [Nat.zero_add] at h1
      apply compile_wf q e h1 h2
      intro v hv
      exact WfB.ret v (fun c hc => by rcases hv c hc with h | ⟨h, _⟩ <;> omega)
  · intro k v
    simp only [progOf]
    exact compileS_wf k v sb _ (fun n => WfS.ret n)

end SalsaVerif.Proofs.CoreSpec
