/-
  CoreAcc engine (adapted copy of CoreFetch.lean): `fetchStep_ok` (hot, shallow, deep-verified
  with the recomputed `accumulated_inputs`, re-executed).  Core Lean only.
-/
import SalsaVerif.Proofs.CoreAccExec

namespace SalsaVerif.Proofs.CoreAcc
open SalsaVerif.Model.CoreAcc

theorem ext_setMemo {P s t r m m'} (hI : Inv P s) (hm : s.memos r = some m) (hv : m.va ≠ s.cur)
    (h : Ext s t r) (hva : m'.va = s.cur) (hca : m.ca = m'.ca) : Ext s (setMemo t r m') (r + 1) := by
  refine ⟨by simp [h.cur], by simp [h.lch], by simp [h.inp], by simp [h.wlog], ?_, ?_, ?_, ?_, ?_⟩
  · intro q hq
    have hne : q ≠ r := by omega
    rw [setMemo_other _ _ _ hne]; exact h.above q (by omega)
  · intro q m0 hm0 hv0
    by_cases hqr : q = r
    · subst hqr; rw [hm] at hm0; cases hm0; exact absurd hv0 hv
    · rw [setMemo_other _ _ _ hqr]; exact h.stable q m0 hm0 hv0
  · intro q m0 hm0
    by_cases hqr : q = r
    · subst hqr
      rw [hm] at hm0; cases hm0
      exact ⟨m', setMemo_same _ _ _, by rw [hva]; exact (hI.memo q m hm).va_cur, Nat.le_of_eq hca⟩
    · rw [setMemo_other _ _ _ hqr]; exact h.mono q m0 hm0
  · intro q
    by_cases hqr : q = r
    · subst hqr; exact Or.inr ⟨m', setMemo_same _ _ _, hva⟩
    · rw [setMemo_other _ _ _ hqr]; exact h.touched q
  · intro q m0 m1 hm0 hm1 hv1 hd1
    by_cases hqr : q = r
    · subst hqr
      rw [hm] at hm0; cases hm0
      rw [setMemo_same] at hm1; cases hm1
      exact hca.symm
    · rw [setMemo_other _ _ _ hqr] at hm1; exact h.bd q m0 m1 hm0 hm1 hv1 hd1

theorem markVerified_eq (s q m) :
    markVerified s q m = emit (setMemo s q { m with va := s.cur }) (.valid q) := rfl

theorem markDeepVerified_eq (s q m ai) :
    markDeepVerified s q m ai = emit (setMemo s q { m with va := s.cur, deepAt := s.cur, accIn := ai }) (.valid q) := rfl

theorem fetchStep_ok {P r fe mc} (hP : Wf P) (hfe : FetchSpec P r fe) (hmc : McaSpec P r mc)
    (s : State) (hI : Inv P s) :
    Inv P (fetchStep fe mc P s r).1 ∧ Ext s (fetchStep fe mc P s r).1 (r + 1) ∧
    (fetchStep fe mc P s r).2.val = sem P s.inp r ∧
    ∃ m, (fetchStep fe mc P s r).1.memos r = some m ∧ m.va = s.cur ∧
      m.res = (fetchStep fe mc P s r).2 := by
  unfold fetchStep
  cases hm : s.memos r with
  | none =>
    simp only
    exact execute_ok hP hfe s none hI hm (by intro m h; rw [hm] at h; cases h)
      (by intro o h; cases h) (by intro o h; cases h)
  | some m =>
    simp only
    have mok := hI.memo r m hm
    by_cases hv : m.va = s.cur
    · simp only [hv, if_true]
      exact ⟨hI, Ext.refl s _, fresh_of_sok hP hI r m hm (Or.inl hv), m, hm, hv, rfl⟩
    · simp only [hv, if_false]
      by_cases hsh : lc s m.dur ≤ m.va
      · -- shallow verification by durability
        simp only [hsh, if_true, markVerified_eq]
        have hsok : SOK s m := Or.inr hsh
        have hdeep : lc s m.dur ≤ m.deepAt := by
          rcases mok.i4 with h | h
          · exact h
          · exact absurd hsh (Nat.not_le.mpr h)
        have hok : MemoOk P (setMemo s r { m with va := s.cur }) r { m with va := s.cur } := by
          refine ⟨Nat.le_trans mok.ca_va mok.va_cur, Nat.le_refl _, hI.cur1,
            Nat.le_trans mok.deep_va mok.va_cur, mok.dur3, mok.rep, mok.repAcc, ?_, ?_, Or.inl hdeep, ?_, ?_, ?_, ?_,
            ?_, ?_⟩
          · intro o ho x hinfo _
            rw [depInfo_setMemo_other _ _ _ (obs_ne_self hI hm ho)] at hinfo
            exact mok.i2 o ho x hinfo ((mok.i3 hsok o ho).1 x hinfo)
          · intro _ o ho
            obtain ⟨a, b⟩ := mok.i3 hsok o ho
            refine ⟨?_, (sokDep_setMemo_other _ _ _ (obs_ne_self hI hm ho)).mpr b⟩
            intro x hinfo
            rw [depInfo_setMemo_other _ _ _ (obs_ne_self hI hm ho)] at hinfo
            exact Nat.le_trans (a x hinfo) mok.va_cur
          · intro o q' ho hd
            obtain ⟨hlt, m2, hm2, hr⟩ := mok.i5 o q' ho hd
            have hne : q' ≠ r := by omega
            exact ⟨hlt, m2, by rw [setMemo_other _ _ _ hne]; exact hm2, hr⟩
          · intro o ho hr x hinfo
            rw [depInfo_setMemo_other _ _ _ (obs_ne_self hI hm ho)] at hinfo
            exact mok.i6 o ho hr x hinfo
          · intro w d hw hd h
            have h1 := hI.wlog_lc w d hw m.dur hd
            exact absurd (Nat.le_trans h1 hdeep) (Nat.not_le.mpr h.1)
          · intro o ho x hinfo
            rw [depInfo_setMemo_other _ _ _ (obs_ne_self hI hm ho)] at hinfo
            left
            exact Nat.le_trans ((mok.i3 hsok o ho).1 x hinfo) mok.va_cur
          · intro _ ha o ho x hinfo
            rw [depInfo_setMemo_other _ _ _ (obs_ne_self hI hm ho)] at hinfo
            exact mok.a2 hsok ha o ho x hinfo
          · intro o ho hr x hinfo
            rw [depInfo_setMemo_other _ _ _ (obs_ne_self hI hm ho)] at hinfo
            exact mok.a3 o ho hr x hinfo
        have hobs := hobs_same (q := r) (mo := m) hI hm { m with va := s.cur } rfl rfl (Nat.le_refl _)
          (Or.inl ⟨rfl, rfl⟩)
        have hinv := inv_setMemo (q := r) (m' := { m with va := s.cur }) hI hok rfl hobs
        exact ⟨inv_emit _ hinv, (ext_setMemo (m' := { m with va := s.cur }) hI hm hv (Ext.refl s r) rfl rfl).emit _,
          fresh_of_sok hP hI r m hm hsok, _, setMemo_same _ _ _, rfl, rfl⟩
      · simp only [hsh, if_false]
        have hpre : ∀ o q', o ∈ m.obs → o.dep = .qry q' → q' < r ∧ ∃ m', s.memos q' = some m' := by
          intro o q' ho hd
          obtain ⟨h1, m', h2, _⟩ := mok.i5 o q' ho hd
          exact ⟨h1, m', h2⟩
        obtain ⟨d1, d2, d3, d4⟩ := deep_ok hmc m.obs s m.va hI hpre
        generalize hs1 : deepEdges mc m.obs s m.va = t at d1 d2 d3 d4
        have hm1 : t.1.memos r = some m := by rw [d2.above r (Nat.le_refl r)]; exact hm
        have mok1 := d1.memo r m hm1
        cases hres : t.2.1 with
        | true =>
          simp only [if_true, markDeepVerified_eq]
          have facts := d3 hres
          -- every observation is stored with its recorded value, and is shallow-ok
          have hall : ∀ o, o ∈ m.obs → ∀ x, depInfo t.1 o.dep = some x →
              x.val = o.val ∧ m.dur ≤ x.dur ∧ sokDep t.1 o.dep := by
            intro o ho x hinfo
            cases hr : o.recd with
            | true =>
              obtain ⟨hh, x', hi', hc', _⟩ := facts o ho hr
              rw [hinfo] at hi'; cases hi'
              obtain ⟨a, b⟩ := mok1.i2 o ho x hinfo hc'
              exact ⟨a, b, sokDep_of_hot hh⟩
            | false =>
              obtain ⟨a, b⟩ := mok1.i6 o ho hr x hinfo
              exact ⟨a, Nat.le_trans mok1.dur3 b, sokDep_of_never d1 hinfo b⟩
          have hok : MemoOk P (setMemo t.1 r { m with va := t.1.cur, deepAt := t.1.cur, accIn := t.2.2 }) r
              { m with va := t.1.cur, deepAt := t.1.cur, accIn := t.2.2 } := by
            refine ⟨Nat.le_trans mok1.ca_va mok1.va_cur, Nat.le_refl _, d1.cur1, Nat.le_refl _, mok1.dur3,
              mok1.rep, mok1.repAcc, ?_, ?_, Or.inl (d1.lc_le _), ?_, ?_, ?_, ?_, ?_, ?_⟩
            · intro o ho x hinfo _
              rw [depInfo_setMemo_other _ _ _ (obs_ne_self d1 hm1 ho)] at hinfo
              exact ⟨(hall o ho x hinfo).1, (hall o ho x hinfo).2.1⟩
            · intro _ o ho
              refine ⟨?_, ?_⟩
              · intro x hinfo
                rw [depInfo_setMemo_other _ _ _ (obs_ne_self d1 hm1 ho)] at hinfo
                exact depInfo_ca_le d1 hinfo
              · rw [sokDep_setMemo_other _ _ _ (obs_ne_self d1 hm1 ho)]
                obtain ⟨x, hx⟩ := depInfo_exists d1 hm1 ho
                exact (hall o ho x hx).2.2
            · intro o q' ho hd
              obtain ⟨hlt, m2, hm2, _⟩ := mok1.i5 o q' ho hd
              have hne : q' ≠ r := by omega
              refine ⟨hlt, m2, by rw [setMemo_other _ _ _ hne]; exact hm2, ?_⟩
              intro hr
              obtain ⟨hh, _⟩ := facts o ho hr
              rw [hd] at hh
              obtain ⟨m3, hm3, hv3⟩ := hh
              rw [hm2] at hm3; cases hm3
              show t.1.cur ≤ m2.va
              rw [hv3]; exact Nat.le_refl _
            · intro o ho hr x hinfo
              rw [depInfo_setMemo_other _ _ _ (obs_ne_self d1 hm1 ho)] at hinfo
              exact mok1.i6 o ho hr x hinfo
            · intro w d _ _ h
              exact absurd h.1 (Nat.not_lt.mpr h.2)
            · intro o ho x hinfo
              rw [depInfo_setMemo_other _ _ _ (obs_ne_self d1 hm1 ho)] at hinfo
              left; exact depInfo_ca_le d1 hinfo
            · intro _ ha o ho x hinfo
              rw [depInfo_setMemo_other _ _ _ (obs_ne_self d1 hm1 ho)] at hinfo
              cases hr : o.recd with
              | true =>
                obtain ⟨_, x', hi', _, hfl⟩ := facts o ho hr
                rw [hinfo] at hi'; cases hi'
                exact hfl ha
              | false => exact mok1.a3 o ho hr x hinfo
            · intro o ho hr x hinfo
              rw [depInfo_setMemo_other _ _ _ (obs_ne_self d1 hm1 ho)] at hinfo
              exact mok1.a3 o ho hr x hinfo
          have hns1 : ¬ SOK t.1 m := by
            intro h
            rcases h with h | h
            · rw [d2.cur] at h; exact hv h
            · rw [d2.lc] at h; exact hsh h
          have hobs := hobs_same (q := r) (mo := m) d1 hm1 { m with va := t.1.cur, deepAt := t.1.cur, accIn := t.2.2 }
            rfl rfl (Nat.le_refl _) (Or.inr hns1)
          have hinv := inv_setMemo (q := r) (m' := { m with va := t.1.cur, deepAt := t.1.cur, accIn := t.2.2 }) d1 hok rfl hobs
          have hval : m.value = sem P s.inp r := by
            have := fresh_of_sok hP hinv r _ (setMemo_same _ _ _) (Or.inl rfl)
            simpa [d2.inp] using this
          exact ⟨inv_emit _ hinv, (ext_setMemo (m' := { m with va := t.1.cur, deepAt := t.1.cur, accIn := t.2.2 }) hI hm hv d2 d2.cur rfl).emit _, hval, _,
            setMemo_same _ _ _, d2.cur, rfl⟩
        | false =>
          simp only [Bool.false_eq_true, if_false]
          obtain ⟨pre, o, post, x, e1, e1r, e2, e3, e4, e5⟩ := d4 hres
          have hstale : ∀ m0, t.1.memos r = some m0 → m0.va ≠ t.1.cur := by
            intro m0 h0; rw [hm1] at h0; cases h0; rw [d2.cur]; exact hv
          have hnsok : ∀ o', some m = some o' → ¬ SOK t.1 o' := by
            intro o' ho' h
            cases ho'
            rcases h with h | h
            · rw [d2.cur] at h; exact hv h
            · rw [d2.lc] at h; exact hsh h
          have hoin : o ∈ m.obs := by rw [e1]; simp
          have hback : ∀ o', some m = some o' → ∃ w d, (w, d) ∈ t.1.wlog ∧ o'.dur ≤ d ∧ o'.va < w ∧
              w ≤ (runBody fe (P r) (emit t.1 (.exec r)) frame0).2.1.ca := by
            intro o' ho'
            cases ho'
            have hrep : (replay (P r) (obsPairs (pre ++ o :: post))).isSome := by
              rw [← e1, mok1.rep]; rfl
            have hpre' : ∀ o', o' ∈ pre → semDep P t.1.inp o'.dep = o'.val := by
              intro o' ho'
              have hin : o' ∈ m.obs := by rw [e1]; simp [ho']
              obtain ⟨x', hx'⟩ := depInfo_exists d1 hm1 hin
              cases hr : o'.recd with
              | true =>
                obtain ⟨hh, x2, hi2, hc2⟩ := e2 o' ho' hr
                rw [hx'] at hi2; cases hi2
                rw [semDep_of_stored hP d1 hx' (sokDep_of_hot hh)]
                exact (mok1.i2 o' hin x' hx' hc2).1
              | false =>
                obtain ⟨a, b⟩ := mok1.i6 o' hin hr x' hx'
                rw [semDep_of_stored hP d1 hx' (sokDep_of_never d1 hx' b)]
                exact a
            have hle := run_prefix hfe (P r) (hP r) pre (emit t.1 (.exec r)) frame0 o post x (inv_emit _ d1)
              (by show 1 ≤ t.1.cur; rw [d2.cur]; exact hI.cur1) hrep hpre' ((hot_emit _ _ _).mpr e3)
              (by rw [depInfo_emit]; exact e4)
            rcases mok1.i10 o hoin x e4 with h | ⟨w, d, a, b, c, e⟩
            · exact absurd e5 (Nat.not_lt.mpr h)
            · exact ⟨w, d, a, b, c, Nat.le_trans e hle⟩
          obtain ⟨x1, x2, x3, x4⟩ := execute_ok hP hfe t.1 (some m) d1 hm1 hstale hnsok hback
          refine ⟨x1, ?_, by rw [x3, d2.inp], ?_⟩
          · exact Ext.trans (d2.weaken (Nat.le_succ r)) x2
          · obtain ⟨m2, y1, y2, y3⟩ := x4
            exact ⟨m2, y1, by rw [y2, d2.cur], y3⟩

end SalsaVerif.Proofs.CoreAcc
