/-
  CoreSpec, histories with writes: `execute` of a node, part 14 — what is known at the start of the
  body (`RunCtx`) from the hypotheses of `ExecOk`: not busy (the tie of `Inv`), busy (`LocalTie`),
  no memo.  Core Lean only.
-/
import SalsaVerif.Proofs.CoreSpecRevExec

namespace SalsaVerif.Proofs.CoreSpec
namespace X
open SalsaVerif.Model.CoreSpec

/-- a valid dependency keeps its info (value, stamp, durability) across nested requests -/
theorem depInfo_sok_ext {s t : State} {k : Nat} {d : Dep} {x : Res} (h : Ext s t k) (hd : sokDep s d)
    (hi : depInfo s d = some x) :
    ∃ x', depInfo t d = some x' ∧ x'.val = x.val ∧ x'.ca = x.ca ∧ x'.dur = x.dur := by
  cases d with
  | inp i =>
    refine ⟨x, ?_, rfl, rfl, rfl⟩
    simp only [depInfo] at hi ⊢
    rw [h.inp]; exact hi
  | qry q =>
    obtain ⟨m, hm, hs⟩ := hd
    obtain ⟨m', hm', hv⟩ := h.sok q m hm hs
    simp only [depInfo, hm, Option.map_some, Option.some.injEq] at hi
    subst hi
    refine ⟨⟨m'.value, m'.ca, m'.dur⟩, by simp [depInfo, hm'], ?_⟩
    rcases hv with e | e <;> rw [e] <;> exact ⟨rfl, rfl, rfl⟩
  | field c =>
    obtain ⟨hc, hne⟩ := hd
    cases hsl : s.slots c with
    | none => exact absurd hsl hne
    | some sl =>
      obtain ⟨sl', a, _, _, e3, e4, e5⟩ := h.slot c sl hc hsl
      simp only [depInfo, hsl, Option.map_some, Option.some.injEq] at hi
      subst hi
      exact ⟨⟨⟨sl'.v, none⟩, sl'.fca, sl'.dur⟩, by simp [depInfo, a], by simp [e3], e4, e5⟩
  | spec c =>
    obtain ⟨hc, sm, hsm, hss⟩ := hd
    obtain ⟨sm', hsm', hv⟩ := h.smsok c sm hc hsm hss
    simp only [depInfo, hsm, Option.map_some, Option.some.injEq] at hi
    subst hi
    refine ⟨⟨sm'.value, sm'.ca, sm'.dur⟩, by simp [depInfo, hsm'], ?_⟩
    rcases hv with e | e <;> rw [e] <;> exact ⟨rfl, rfl, rfl⟩

theorem plof_ext {s t : State} {r : Nat} (h : Ext s t r) (mo : Memo) (Ro : SemRes) :
    PLof t r mo Ro = PLof s r mo Ro := by
  unfold PLof
  rw [h.above_sm r (Nat.le_refl _), h.above_s r (Nat.le_refl _)]

/-- no memo: no struct, nobody busy -/
theorem runCtx_none {P idOf r s0} (hI0 : Inv P idOf s0) (hm : s0.memos r = none) (hnb : ¬ Busy s0 r) :
    RunCtx P idOf r (¬ Busy s0 r) s0 none ⟨⟨0, none⟩, none, none⟩ 0 := by
  refine ⟨⟨(fun mo h => by cases h), fun _ => ⟨hm, hI0.nonode r hm hnb⟩⟩, hm, (fun mo h => by cases h), id,
    fun _ => hnb, ?_, (fun mo h => by cases h)⟩
  intro Xm hX hva hn
  rcases hI0.hotsm r Xm hX hva with ⟨m, h1, _⟩ | hb
  · rw [hm] at h1; cases h1
  · exact hn hb

/-- an old memo, the node is not busy: the tie of `Inv` -/
theorem runCtx_nb {P idOf r s0 mo} (hI0 : Inv P idOf s0) (hm : s0.memos r = some mo) (hns : ¬ SOK s0 mo)
    (hnb : ¬ Busy s0 r) :
    ∃ Ro PL, RunCtx P idOf r (¬ Busy s0 r) s0 (some mo) Ro PL ∧
      replayR r idOf (P.node r) mo.obs none none = some Ro ∧ PL ≤ 3 := by
  have ok := hI0.node r mo hm
  obtain ⟨Ro, hR, _, _, _, htie⟩ := ok.rep
  obtain ⟨tie, ao⟩ := htie hnb
  obtain ⟨OF, _⟩ := oldF_of_tie hI0 hm hR tie (NB0 := ¬ Busy s0 r) (fun _ => ao) ok.shape
  refine ⟨Ro, PLof s0 r mo Ro, ⟨⟨?_, (fun h => by cases h)⟩, hm, ?_, id, (fun h => by cases h), ?_, ?_⟩, hR,
    OF.PL3⟩
  · intro mo' h; cases h; exact OF
  · intro mo' h; cases h; exact hns
  · intro Xm hX hva hn
    rcases hI0.hotsm r Xm hX hva with ⟨m, h1, h2⟩ | hb
    · rw [hm] at h1; cases h1; exact hns h2
    · exact hn hb
  · intro mo' h t hIt hext oo hoo x hx
    cases h
    have hmt : t.memos r = some mo := by rw [hext.above_m r (Nat.le_refl _)]; exact hm
    have hnbt : ¬ Busy t r := fun hb => hnb ((busy_ext_above hext (Nat.le_refl r)).mp hb)
    have okt := hIt.node r mo hmt
    obtain ⟨R', hR', _, _, _, htie'⟩ := okt.rep
    rw [hR] at hR'; cases hR'
    obtain ⟨tie', ao'⟩ := htie' hnbt
    obtain ⟨_, hpre'⟩ := oldF_of_tie hIt hmt hR tie' (NB0 := True) (fun _ => ao') okt.shape
    rw [plof_ext hext] at hpre'
    exact ((hpre' oo hoo).1.iv x hx).imp id (fun w => ⟨hnb, w⟩)

/-- an old memo, the node is busy (its own verification validated its output edge): `LocalTie` -/
theorem runCtx_busy {P idOf r s0 mo} (hI0 : Inv P idOf s0) (hm : s0.memos r = some mo) (hns : ¬ SOK s0 mo)
    (hb : Busy s0 r) (LT : LocalTie P idOf s0 r mo) :
    ∃ Ro PL, RunCtx P idOf r (¬ Busy s0 r) s0 (some mo) Ro PL ∧
      replayR r idOf (P.node r) mo.obs none none = some Ro ∧ PL ≤ 3 := by
  have ok := hI0.node r mo hm
  obtain ⟨Ro, hR, tie, _, hreads⟩ := LT
  obtain ⟨OF, hpre⟩ := oldF_of_tie hI0 hm hR tie (NB0 := ¬ Busy s0 r) (fun hn => absurd hb hn) ok.shape
  refine ⟨Ro, PLof s0 r mo Ro, ⟨⟨?_, (fun h => by cases h)⟩, hm, ?_, fun hn => absurd hb hn,
    (fun h => by cases h), fun _ _ _ hn => hn hb, ?_⟩, hR, OF.PL3⟩
  · intro mo' h; cases h; exact OF
  · intro mo' h; cases h; exact hns
  · intro mo' h t _ hext oo hoo x hx
    cases h
    obtain ⟨hsok, _, x0, hx0, hv0, _, hca0⟩ := hreads oo hoo
    have hPL : PLof s0 r mo Ro ≤ x0.dur := by
      rcases (hpre oo hoo).1.iv x0 hx0 with ⟨_, h⟩ | w
      · exact h
      · rcases hca0 with h | h
        · have := w.lt; omega
        · exact Nat.le_trans OF.PL3 h
    obtain ⟨x', hx', e1, _, e3⟩ := depInfo_sok_ext hext hsok hx0
    rw [hx'] at hx; cases hx
    exact Or.inl ⟨by rw [e1]; exact hv0, by rw [e3]; exact hPL⟩

end X
end SalsaVerif.Proofs.CoreSpec
