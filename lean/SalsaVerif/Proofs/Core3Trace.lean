/-
  Core3 engine: structural facts about the event trace and about eviction that need no invariant:
  the trace only grows; `execute q` starts with `exec q`; the sub-engine of rank `r` only emits
  events of keys `< r`; eviction clears values only.  Core Lean only.
-/
import SalsaVerif.Model.Core3

namespace SalsaVerif.Proofs.Core3
open SalsaVerif.Model.Core3

/-- the events of `t` extend those of `s` by `new`, all of whose keys satisfy `p` -/
def GrowsBy (p : Nat → Prop) (s t : State) : Prop :=
  ∃ new, t.trace = s.trace ++ new ∧ ∀ e, e ∈ new → (∀ q, e = .exec q → p q) ∧ (∀ q, e = .valid q → p q)

theorem GrowsBy.refl (p) (s : State) : GrowsBy p s s := ⟨[], by simp, by simp⟩

theorem GrowsBy.trans {p s t u} (a : GrowsBy p s t) (b : GrowsBy p t u) : GrowsBy p s u := by
  obtain ⟨n1, e1, h1⟩ := a
  obtain ⟨n2, e2, h2⟩ := b
  refine ⟨n1 ++ n2, by rw [e2, e1, List.append_assoc], ?_⟩
  intro e he
  rcases List.mem_append.mp he with h | h
  · exact h1 e h
  · exact h2 e h

theorem GrowsBy.mono {p p' : Nat → Prop} {s t} (h : ∀ q, p q → p' q) (a : GrowsBy p s t) : GrowsBy p' s t := by
  obtain ⟨n, e, hn⟩ := a
  exact ⟨n, e, fun x hx => ⟨fun q hq => h q ((hn x hx).1 q hq), fun q hq => h q ((hn x hx).2 q hq)⟩⟩

theorem growsBy_setMemo {p s t q m} (a : GrowsBy p s t) : GrowsBy p s (setMemo t q m) := a

theorem growsBy_emit_exec {p : Nat → Prop} (s : State) (q : Nat) (hq : p q) : GrowsBy p s (emit s (.exec q)) :=
  ⟨[.exec q], rfl, by
    intro e he
    simp only [List.mem_singleton] at he
    subst he
    exact ⟨fun q' h => (by cases h; exact hq), fun q' h => (by cases h)⟩⟩

theorem growsBy_emit_valid {p : Nat → Prop} (s : State) (q : Nat) (hq : p q) : GrowsBy p s (emit s (.valid q)) :=
  ⟨[.valid q], rfl, by
    intro e he
    simp only [List.mem_singleton] at he
    subst he
    exact ⟨fun q' h => (by cases h), fun q' h => (by cases h; exact hq)⟩⟩

structure FetchGrows (p : Nat → Prop) (fe : FetchFn) : Prop where
  g : ∀ s q, GrowsBy p s (fe s q).1

structure McaGrows (p : Nat → Prop) (mc : McaFn) : Prop where
  g : ∀ s q rev, GrowsBy p s (mc s q rev).1

theorem readDep_grows {p fe} (hfe : FetchGrows p fe) (s f d) : GrowsBy p s (readDep fe s f d).1 := by
  cases d with
  | inp i => exact GrowsBy.refl p s
  | qry q => exact hfe.g s q
  | cell c => exact GrowsBy.refl p s

theorem run_grows {p fe} (hfe : FetchGrows p fe) : ∀ b s f, GrowsBy p s (runBody fe b s f).1 := by
  intro b
  induction b with
  | ret v => intro s f; exact GrowsBy.refl p s
  | read d k ih =>
    intro s f
    simp only [runBody]
    exact (readDep_grows hfe s f d).trans (ih _ _ _)

theorem deep_grows {p mc} (hmc : McaGrows p mc) : ∀ obs s rev, GrowsBy p s (deepEdges mc obs s rev).1 := by
  intro obs
  induction obs with
  | nil => intro s rev; exact GrowsBy.refl p s
  | cons o rest ih =>
    intro s rev
    simp only [deepEdges]
    have first : GrowsBy p s (depChanged mc s o.dep rev).1 := by
      cases o.dep with
      | inp i => exact GrowsBy.refl p s
      | qry q => exact hmc.g s q rev
      | cell c => exact GrowsBy.refl p s
    split
    · split
      · exact first
      · exact first.trans (ih _ _)
    · exact ih _ _

theorem deepVerify_grows {p mc} (hmc : McaGrows p mc) (s m) : GrowsBy p s (deepVerify mc s m).1 := by
  unfold deepVerify
  split
  · exact GrowsBy.refl p s
  · exact deep_grows hmc _ _ _

/-- `execute q` emits `exec q` first -/
theorem execute_trace {p fe} (hfe : FetchGrows p fe) (P : Prog) (s : State) (q : Nat) (old : Option Memo) :
    ∃ new, (execute fe P s q old).1.trace = s.trace ++ .exec q :: new := by
  obtain ⟨n, e, _⟩ := run_grows hfe (P.body q) (emit s (.exec q)) frame0
  refine ⟨n, ?_⟩
  show (runBody fe (P.body q) (emit s (.exec q)) frame0).1.trace = _
  rw [e]; simp [emit]

theorem execute_grows {p : Nat → Prop} {fe} (hfe : FetchGrows p fe) (P : Prog) (s : State) (q : Nat) (hq : p q)
    (old : Option Memo) : GrowsBy p s (execute fe P s q old).1 :=
  (growsBy_emit_exec s q hq).trans (run_grows hfe (P.body q) (emit s (.exec q)) frame0)

theorem markVerified_grows {p : Nat → Prop} (s : State) (q : Nat) (m : Memo) (hq : p q) :
    GrowsBy p s (markVerified s q m) := growsBy_emit_valid s q hq

theorem markDeepVerified_grows {p : Nat → Prop} (s : State) (q : Nat) (m : Memo) (hq : p q) :
    GrowsBy p s (markDeepVerified s q m) := growsBy_emit_valid s q hq

theorem refreshStep_grows {p : Nat → Prop} {fe mc} (hfe : FetchGrows p fe) (hmc : McaGrows p mc) (P : Prog)
    (s : State) (q : Nat) (hq : p q) : GrowsBy p s (refreshStep fe mc P s q).1 := by
  unfold refreshStep
  cases hm : s.memos q with
  | none => exact execute_grows hfe P s q hq none
  | some m =>
    cases hv : m.value with
    | none => simp only [hv]; exact execute_grows hfe P s q hq _
    | some v =>
      simp only [hv]
      by_cases h1 : m.va = s.cur
      · simp only [h1, if_true]; exact GrowsBy.refl p s
      · simp only [h1, if_false]
        by_cases h2 : lc s m.dur ≤ m.va
        · simp only [h2, if_true]; exact markVerified_grows s q _ hq
        · simp only [h2, if_false]
          have hd := deepVerify_grows hmc s m
          generalize deepVerify mc s m = r at hd
          by_cases h3 : r.2 = true
          · simp only [h3, if_true]; exact hd.trans (markDeepVerified_grows _ q _ hq)
          · simp only [h3, if_false]; exact hd.trans (execute_grows hfe P _ q hq _)

theorem recordUseFor_trace (P : Prog) (s : State) (q : Nat) : (recordUseFor P s q).trace = s.trace := by
  unfold recordUseFor; split <;> rfl

theorem growsBy_recordUse {p : Nat → Prop} {s t : State} (P : Prog) (q : Nat) (a : GrowsBy p s t) :
    GrowsBy p s (recordUseFor P t q) := by
  obtain ⟨n, e, h⟩ := a
  exact ⟨n, by rw [recordUseFor_trace]; exact e, h⟩

theorem fetchStep_grows {p : Nat → Prop} {fe mc} (hfe : FetchGrows p fe) (hmc : McaGrows p mc) (P : Prog)
    (s : State) (q : Nat) (hq : p q) : GrowsBy p s (fetchStep fe mc P s q).1 := by
  obtain ⟨n, e, h⟩ := refreshStep_grows hfe hmc P s q hq
  exact ⟨n, by simp only [fetchStep, recordUseFor_trace]; exact e, h⟩

theorem mcaStep_grows {p : Nat → Prop} {fe mc} (hfe : FetchGrows p fe) (hmc : McaGrows p mc) (P : Prog)
    (s : State) (q rev : Nat) (hq : p q) : GrowsBy p s (mcaStep fe mc P s q rev).1 := by
  unfold mcaStep
  cases hm : s.memos q with
  | none => exact GrowsBy.refl p s
  | some m =>
    simp only
    by_cases h1 : m.va = s.cur
    · simp only [h1, if_true]; exact GrowsBy.refl p s
    · simp only [h1, if_false]
      by_cases h2 : lc s m.dur ≤ m.va
      · simp only [h2, if_true]; exact markVerified_grows s q _ hq
      · simp only [h2, if_false]
        have hd := deepVerify_grows hmc s m
        generalize deepVerify mc s m = r at hd
        by_cases h3 : r.2 = true
        · simp only [h3, if_true]; exact hd.trans (markDeepVerified_grows _ q _ hq)
        · simp only [h3, if_false]
          cases hv : m.value with
          | none => simp only [hv]; exact hd
          | some v => simp only [hv]; exact growsBy_recordUse P q (hd.trans (execute_grows hfe P _ q hq _))

/-- the engine of rank `r` only emits events of keys `< r` -/
theorem eng_grows (P : Prog) : ∀ r, FetchGrows (· < r) (eng P r).1 ∧ McaGrows (· < r) (eng P r).2 := by
  intro r
  induction r with
  | zero => exact ⟨⟨fun s _ => GrowsBy.refl _ s⟩, ⟨fun s _ _ => GrowsBy.refl _ s⟩⟩
  | succ r ih =>
    obtain ⟨hfe, hmc⟩ := ih
    have up : ∀ q, q < r → q < r + 1 := fun q h => Nat.lt_succ_of_lt h
    have hfe' : FetchGrows (· < r + 1) (eng P r).1 := ⟨fun s q => (hfe.g s q).mono up⟩
    have hmc' : McaGrows (· < r + 1) (eng P r).2 := ⟨fun s q rev => (hmc.g s q rev).mono up⟩
    constructor
    · constructor
      intro s q
      simp only [eng]
      split
      · exact hfe'.g s q
      · split
        · rename_i h; subst h; exact fetchStep_grows hfe' hmc' P s q (Nat.lt_succ_self q)
        · exact GrowsBy.refl _ s
    · constructor
      intro s q rev
      simp only [eng]
      split
      · exact hmc'.g s q rev
      · split
        · rename_i h; subst h; exact mcaStep_grows hfe' hmc' P s q rev (Nat.lt_succ_self q)
        · exact GrowsBy.refl _ s

theorem eng_mca_self (P : Prog) (s : State) (q rev : Nat) :
    (eng P (q + 1)).2 s q rev = mcaStep (eng P q).1 (eng P q).2 P s q rev := by
  simp [eng]

theorem fetch_self (P : Prog) (s : State) (q : Nat) :
    fetch P s q = fetchStep (eng P q).1 (eng P q).2 P s q := by
  simp [fetch, eng]

/-- `maybe_changed_after` on an evicted memo never executes it -/
theorem mca_evicted_no_exec (P : Prog) (s : State) (q rev : Nat) (m : Memo) (hm : s.memos q = some m)
    (hv : m.value = none) :
    ∃ new, ((eng P (q + 1)).2 s q rev).1.trace = s.trace ++ new ∧ .exec q ∉ new := by
  obtain ⟨hfe, hmc⟩ := eng_grows P q
  have sub : ∀ t, GrowsBy (· < q) s t → ∃ new, t.trace = s.trace ++ new ∧ Ev.exec q ∉ new := by
    rintro t ⟨n, e, h⟩
    exact ⟨n, e, fun hx => Nat.lt_irrefl q ((h _ hx).1 q rfl)⟩
  have subv : ∀ t (m' : Memo), GrowsBy (· < q) s t →
      ∃ new, (markDeepVerified t q m').trace = s.trace ++ new ∧ Ev.exec q ∉ new := by
    rintro t m' ⟨n, e, h⟩
    refine ⟨n ++ [.valid q], by simp [markDeepVerified, setMemo, emit, e], ?_⟩
    intro hx
    rcases List.mem_append.mp hx with hx | hx
    · exact Nat.lt_irrefl q ((h _ hx).1 q rfl)
    · simp at hx
  rw [eng_mca_self]
  unfold mcaStep
  simp only [hm]
  by_cases h1 : m.va = s.cur
  · simp only [h1, if_true]; exact ⟨[], by simp, by simp⟩
  · simp only [h1, if_false]
    by_cases h2 : lc s m.dur ≤ m.va
    · simp only [h2, if_true]
      exact ⟨[.valid q], rfl, by simp⟩
    · simp only [h2, if_false]
      have hd := deepVerify_grows hmc s m
      generalize deepVerify (eng P q).2 s m = r at hd
      by_cases h3 : r.2 = true
      · simp only [h3, if_true]; exact subv r.1 m hd
      · simp only [h3, if_false, hv]; exact sub r.1 hd

/-- a stale memo that fails the shallow test and is untracked is executed by `fetch` -/
theorem fetch_untracked_exec (P : Prog) (s : State) (q : Nat) (m : Memo) (hm : s.memos q = some m)
    (hu : m.untracked = true) (h1 : m.va ≠ s.cur) (h2 : ¬ lc s m.dur ≤ m.va) :
    ∃ new, (fetch P s q).1.trace = s.trace ++ .exec q :: new := by
  obtain ⟨hfe, _⟩ := eng_grows P q
  rw [fetch_self]
  simp only [fetchStep, recordUseFor_trace]
  unfold refreshStep
  simp only [hm]
  cases hv : m.value with
  | none => simp only; exact execute_trace hfe P s q _
  | some v =>
    simp only [h1, if_false, h2, deepVerify, hu, if_true, Bool.false_eq_true]
    exact execute_trace hfe P s q _

/-- … and by `maybe_changed_after` when its value is present -/
theorem mca_untracked_exec (P : Prog) (s : State) (q rev : Nat) (m : Memo) (v : Nat) (hm : s.memos q = some m)
    (hv : m.value = some v) (hu : m.untracked = true) (h1 : m.va ≠ s.cur) (h2 : ¬ lc s m.dur ≤ m.va) :
    ∃ new, ((eng P (q + 1)).2 s q rev).1.trace = s.trace ++ .exec q :: new := by
  obtain ⟨hfe, _⟩ := eng_grows P q
  rw [eng_mca_self]
  unfold mcaStep
  simp only [hm, h1, if_false, h2, deepVerify, hu, if_true, Bool.false_eq_true, hv, recordUseFor_trace]
  exact execute_trace hfe P s q _

/-! ### eviction -/

/-- eviction of one key: every memo is kept, only the value of a tracked memo may be cleared -/
theorem evictValue_memos (s : State) (q' q : Nat) (m : Memo) (hm : s.memos q = some m) :
    (evictValue s q').memos q = some m ∨
    (m.untracked = false ∧ (evictValue s q').memos q = some { m with value := none }) := by
  unfold evictValue
  cases hq : s.memos q' with
  | none => exact Or.inl hm
  | some m' =>
    simp only
    by_cases hu : m'.untracked = true
    · simp only [hu, if_true]; exact Or.inl hm
    · simp only [hu]
      by_cases e : q = q'
      · subst e
        rw [hm] at hq; cases hq
        right
        have hf : m.untracked = false := by
          cases h : m.untracked with
          | false => rfl
          | true => exact absurd h hu
        refine ⟨hf, ?_⟩
        simp [setMemo, hf]
      · left; simp [setMemo, e, hm]

theorem evictValue_other (s : State) (q' : Nat) :
    (evictValue s q').cur = s.cur ∧ (evictValue s q').inp = s.inp ∧ (evictValue s q').cells = s.cells ∧
    (evictValue s q').lch = s.lch ∧ (evictValue s q').trace = s.trace ∧ (evictValue s q').lru = s.lru := by
  unfold evictValue
  split
  · split <;> exact ⟨rfl, rfl, rfl, rfl, rfl, rfl⟩
  · exact ⟨rfl, rfl, rfl, rfl, rfl, rfl⟩

theorem foldl_evict_memos : ∀ (l : List Nat) (s : State) (q : Nat) (m : Memo), s.memos q = some m →
    (l.foldl evictValue s).memos q = some m ∨
    (m.untracked = false ∧ (l.foldl evictValue s).memos q = some { m with value := none }) := by
  intro l
  induction l with
  | nil => intro s q m hm; exact Or.inl hm
  | cons a rest ih =>
    intro s q m hm
    simp only [List.foldl_cons]
    rcases evictValue_memos s a q m hm with h | ⟨hu, h⟩
    · exact ih _ q m h
    · rcases ih _ q _ h with h' | ⟨_, h'⟩
      · exact Or.inr ⟨hu, h'⟩
      · exact Or.inr ⟨hu, h'⟩

/-- `reset_for_new_revision`: eviction keeps every memo with its stamps, durability and edges; it
    may only clear the value, and never that of an untracked memo -/
theorem evictLru_memos (s : State) (q : Nat) (m : Memo) (hm : s.memos q = some m) :
    (evictLru s).memos q = some m ∨
    (m.untracked = false ∧ (evictLru s).memos q = some { m with value := none }) :=
  foldl_evict_memos _ _ q m hm

end SalsaVerif.Proofs.Core3
