/-
  The head loop, `execute`, `eval` and histories of requests preserve the completeness invariant
  `InvC`; consequence for the finalised memos: `DbOkC` (closed under callees, and a `fallback`
  node on a cycle holds its fallback value) holds after every history (`dbOkFC_gets`).
  Core Lean only.
-/
import SalsaVerif.Proofs.CycleFbCompleteRun

namespace SalsaVerif.Proofs.Cycle
open SalsaVerif.Model.Cycle

section
variable (P : Prog) (env : Nat → Nat)

/-- the head loop for fallback programs preserves `InvC`; the head set it returns is complete. -/
theorem loop_specC (hG : P.NoGate) {read : Nat → St → Res Fetched}
    (hR : ReadSpecF P env read) (hRC : ReadSpecC P env read) (j : Nat) (s0 : St)
    (fuel stamp : Nat) (s : St) (v : Nat) (hs : List Nat) (s' : St)
    (hI : InvF P env s) (hC : InvC P env s) (hst : s.stack = j :: s0.stack)
    (h : executeMaybeIterate P env read j fuel stamp s = .ok (v, hs, s')) :
    InvC P env s' ∧ (∀ k ∈ hs, isHead s'.prov k = true) ∧
    (∀ k ∈ s0.stack, Via P env s0.stack j k → k ∈ hs) := by
  cases fuel with
  | zero => simp [executeMaybeIterate] at h
  | succ fuel =>
    unfold executeMaybeIterate at h
    cases hev : evalM env read (P.node j).body s with
    | error e => rw [hev] at h; cases h
    | ok r =>
      obtain ⟨v1, hs1, s1⟩ := r
      rw [hev] at h
      simp only at h
      have hT : ∀ c ∈ callees env ρ0 (P.node j).body, TopCalls P env s c := by
        intro c hc t ht
        rw [hst] at ht
        injection ht with ht; subst ht; exact hc
      obtain ⟨hI1, hst1, _, hrel, _, _, hon1⟩ :=
        evalM_specF P env hR _ (noGate_node hG j) s v1 hs1 s1 hI hT hev
      obtain ⟨hC1, hhd1, hcomp1⟩ := evalM_specC P env hR hRC _ (noGate_node hG j) s v1 hs1 s1 hI hC hT hev
      have hst1' : s1.stack = j :: s0.stack := hst1.trans hst
      have htail : s1.stack.tail = s0.stack := by rw [hst1']; rfl
      have hjr : j ∉ s0.stack := by
        have := hI1.nodup
        rw [hst1'] at this
        exact (List.nodup_cons.mp this).1
      -- every active query the body reaches through non-active nodes was collected
      have hE : ∀ k ∈ j :: s0.stack, Via P env (j :: s0.stack) j k → k ∈ hs1 := by
        intro k hk hv
        cases hv with
        | step hc => exact (hon1 k hc (by rw [hst]; exact hk)).1
        | @cons _ c _ hc hn hv' =>
          exact hcomp1 c hc (by rw [hst]; exact hn) k (by rw [hst]; exact hk)
            (by rw [hst]; exact hv')
      have hmemo : ∀ c ∈ callees env ρ0 (P.node j).body, Memo s1 c := by
        intro c hc
        obtain ⟨w, hw⟩ := EvalRel.answered (ρ := ρ0) (fun _ _ _ => zero_le _) hrel c hc
        exact avail_memo hI1 hw
      have hhd' : ∀ k ∈ hs1.filter (fun k => k != j), isHead s1.prov k = true :=
        fun k hk => hhd1 k (List.mem_filter.mp hk).1
      have hcomp' : ∀ k ∈ s0.stack, Via P env (j :: s0.stack) j k →
          k ∈ hs1.filter (fun k => k != j) := by
        intro k hk hv
        have hkj : k ≠ j := by intro e; subst e; exact hjr hk
        rw [List.mem_filter]
        exact ⟨hE k (List.mem_cons_of_mem _ hk) hv, by simpa using hkj⟩
      have hout : ∀ k ∈ s0.stack, Via P env s0.stack j k →
          k ∈ hs1.filter (fun k => k != j) := by
        intro k hk hv
        have hkj : k ≠ j := by intro e; subst e; exact hjr hk
        exact hcomp' k hk (hv.last hkj)
      -- a cycle through `j` shows: `j` is a head, or it depends on a head below it
      have hcyc : Reach P env j j →
          isHead s1.prov j = true ∨ ∃ k, k ∈ hs1.filter (fun k => k != j) := by
        intro hr
        obtain ⟨k, hk, hv⟩ := hr.first_active (S := j :: s0.stack) List.mem_cons_self
        have hk1 := hE k hk hv
        by_cases hkj : k = j
        · subst hkj; exact Or.inl (hhd1 k hk1)
        · exact Or.inr ⟨k, List.mem_filter.mpr ⟨hk1, by simpa using hkj⟩⟩
      cases hl : s1.prov.lookup j with
      | none =>
        rw [hl] at h
        simp only at h
        split at h
        · rename_i hb
          injection h with h; injection h with e1 h; injection h with e2 e3
          subst e1; subst e2; subst e3
          refine ⟨completeC_cached s1 j s0.stack _ _ hI1 hC1 hst1' hmemo hhd' hcomp' ?_,
            hhd', hout⟩
          intro hr hfb
          rcases hcyc hr with h1 | ⟨k, hk⟩
          · simp [isHead, hl] at h1
          · have hne : ¬ (hs1.filter (fun k => k != j)).isEmpty = true := by
              intro he
              rw [List.isEmpty_iff] at he
              rw [he] at hk; cases hk
            rw [if_neg hne]
            obtain ⟨fv, hfv⟩ := hfb
            simp [participantValue, fallbackValue, hfv]
        · rename_i hb
          injection h with h; injection h with e1 h; injection h with e2 e3
          subst e1; subst e2; subst e3
          have hno : ¬ HeadOn s1 := by
            intro ⟨k, hk, hp⟩
            rw [hst1'] at hk
            cases hk with
            | head => simp [isHead, hl] at hp
            | tail _ hk =>
              apply hb
              rw [below_iff]
              exact ⟨k, by rw [htail]; exact hk, hp⟩
          obtain ⟨hc0, hp0⟩ := hI1.empty hno
          have hnohead : ∀ k, isHead s1.prov k = true → False := by
            intro k hk
            rw [hp0] at hk
            simp [isHead] at hk
          refine ⟨completeC_final s1 j v1 hC1 hc0 hp0 hmemo ?_, (fun k hk => nomatch hk), ?_⟩
          · intro hr _
            exfalso
            rcases hcyc hr with h1 | ⟨k, hk⟩
            · exact hnohead _ h1
            · exact hnohead k (hhd' k hk)
          · intro k hk hv
            exact (hnohead k (hhd' k (hout k hk hv))).elim
      | some last =>
        rw [hl] at h
        simp only at h
        obtain ⟨_, _, fv0, hstr0⟩ := hI1.provFb j last hl
        have hnew : cycleFn P j last v1 = fallbackValue P j := cycleFn_fb hstr0 last v1
        rw [hnew] at h
        split at h
        · rename_i hb
          injection h with h; injection h with e1 h; injection h with e2 e3
          subst e1; subst e2; subst e3
          exact ⟨completeC_cached s1 j s0.stack (fallbackValue P j) _ hI1 hC1 hst1' hmemo hhd'
            hcomp' (fun _ _ => rfl), hhd', hout⟩
        · rename_i hb
          obtain ⟨hconv, _, _, _⟩ :=
            completeF_converged P env s1 j s0.stack last hI1 hst1' hb hl
          have hconv' : converged ((j, (⟨fallbackValue P j, []⟩ : Entry)) :: s1.cache) s1.prov
              = true := hconv
          rw [if_pos hconv'] at h
          injection h with h; injection h with e1 h; injection h with e2 e3
          subst e1; subst e2; subst e3
          refine ⟨completeC_converged s1 j s0.stack hC1 hst1' hb hmemo,
            (fun k hk => nomatch hk), ?_⟩
          intro k hk hv
          exfalso
          apply hb
          rw [below_iff]
          exact ⟨k, by rw [htail]; exact hk, hhd' k (hout k hk hv)⟩

theorem execute_specC (hNX : NoFixpoint P) (hG : P.NoGate) : ∀ d, ExecSpecC P env (execute P env d) := by
  intro d
  induction d with
  | zero => intro j s v hs s' _ _ _ _ _ _ h; simp [execute] at h
  | succ d ih =>
    intro j s v hs s' hI hC hj hf hc hT h
    unfold execute at h
    exact loop_specC P env hG (fetch_specF P env hNX (execute_specF P env hNX hG d))
      (fetch_specC P env ih) j s loopFuel _ _ v hs s'
      (inv_pushF P env hI hj hf hc hT) (inv_pushC hC hj hf hc) rfl h

/-- a database between requests of a fallback program, completeness half: the memoised set is
    closed under callees and a `fallback` node on a cycle holds its fallback value. -/
structure DbOkC (final : List (Nat × Nat)) : Prop where
  closed : ∀ x w, final.lookup x = some w →
    ∀ c ∈ callees env ρ0 (P.node x).body, (final.lookup c).isSome = true
  fb : ∀ x w, final.lookup x = some w → Reach P env x x → IsFb P x → w = fallbackValue P x

theorem inv_initC {final : List (Nat × Nat)} (h : DbOkC P env final) (poisoned : List Nat) :
    InvC P env (St.init final poisoned) := by
  refine ⟨h.closed, ?_, ?_, ?_, ?_, h.fb⟩
  · intro y e hy; cases hy
  · intro y e hy; cases hy
  · intro y e hy; cases hy
  · intro y e hy; cases hy

/-- completeness of a top-level request of a fallback program. -/
theorem eval_soundC (hNX : NoFixpoint P) (hG : P.NoGate) {final : List (Nat × Nat)} (hdb : DbOkF P env final)
    (hdbC : DbOkC P env final) (poisoned : List Nat) (j v : Nat) (s : St)
    (h : eval P env final poisoned j = .ok (v, s)) : DbOkC P env s.final := by
  unfold eval at h
  cases hf : fetch P (execute P env (P.n + 1)) j (St.init final poisoned) with
  | error e => rw [hf] at h; cases h
  | ok r =>
    obtain ⟨v1, hs1, s1⟩ := r
    rw [hf] at h
    injection h with h; injection h with e1 e2
    subst e1; subst e2
    have hT : TopCalls P env (St.init final poisoned) j := by
      intro t ht; cases ht
    obtain ⟨hC, _, _⟩ :=
      fetch_specC P env (execute_specC P env hNX hG (P.n + 1)) j _ v1 hs1 s1
        (inv_initF P env hdb poisoned) (inv_initC P env hdbC poisoned) hT hf
    exact ⟨hC.finalClosed, hC.finalFb⟩

end

theorem dbOkC_nil (P : Prog) (env : Nat → Nat) : DbOkC P env [] :=
  ⟨fun _ _ h => (nomatch h), fun _ _ h => (nomatch h)⟩

/-- justified AND complete databases are preserved by requests (successful or panicking). -/
theorem dbOkFC_gets (P : Prog) (env : Nat → Nat) (hNX : NoFixpoint P) (hG : P.NoGate)
    (js : List Nat) :
    ∀ db : Db, DbOkF P env db.final → DbOkC P env db.final →
      DbOkF P env (gets P env db js).final ∧ DbOkC P env (gets P env db js).final := by
  induction js with
  | nil => intro db h hc; exact ⟨h, hc⟩
  | cons j js ih =>
    intro db h hc
    show DbOkF P env (gets P env (db.get P env j).2 js).final ∧
      DbOkC P env (gets P env (db.get P env j).2 js).final
    unfold Db.get
    cases he : eval P env db.final db.poisoned j with
    | error e => exact ih _ h hc
    | ok r =>
      obtain ⟨v, s⟩ := r
      exact ih _ (eval_soundF P env hNX hG h db.poisoned j v s he).2.1
        (eval_soundC P env hNX hG h hc db.poisoned j v s he)

end SalsaVerif.Proofs.Cycle
