/-
  Core3 engine: the LRU set covers the cached values.  With the repaired
  `maybe_changed_after_cold` (`record_use` after the re-execution) every `lru`-kind memo that holds
  a value and is fully tracked is a member of the LRU set, as long as the capacity is non-zero —
  so the policy's bound (Props/C05.lean `lru_bound`) bounds the retained values.  No engine
  invariant is needed: the argument is structural.  Core Lean only.
-/
import SalsaVerif.Model.Core3
import SalsaVerif.Proofs.Lru
import SalsaVerif.Proofs.Core3Trace

namespace SalsaVerif.Proofs.Core3
open SalsaVerif.Model.Core3
open SalsaVerif.Model.Lru (Lru forEachEvicted setCapacity evictLoop recordUse linkedInsert)

/-- key `q` holds an evictable cached value -/
def Cached (P : Prog) (s : State) (q : Nat) : Prop :=
  P.kind q = .lru ∧ ∃ m, s.memos q = some m ∧ m.value ≠ none ∧ m.untracked = false

/-- every cached key, except possibly `x`, is in the LRU set -/
def LBx (P : Prog) (x : Option Nat) (s : State) : Prop :=
  ∀ q, some q ≠ x → Cached P s q → q ∈ s.lru.set

abbrev LB (P : Prog) (s : State) : Prop := LBx P none s

/-- how an engine step may change the policy: capacity kept, members kept -/
structure LSub (s t : State) : Prop where
  cap : t.lru.capacity = s.lru.capacity
  sub : ∀ x, x ∈ s.lru.set → x ∈ t.lru.set

theorem lsub_of_lru {s t : State} (h : t.lru = s.lru) : LSub s t := ⟨by rw [h], fun _ hx => by rw [h]; exact hx⟩
theorem LSub.refl (s : State) : LSub s s := ⟨rfl, fun _ h => h⟩
theorem LSub.trans {s t u} (a : LSub s t) (b : LSub t u) : LSub s u :=
  ⟨b.cap.trans a.cap, fun x h => b.sub x (a.sub x h)⟩

theorem LBx.weaken {P x s} (h : LB P s) : LBx P x s := fun q _ hc => h q (by simp) hc

theorem lbx_emit {P x s e} (h : LBx P x s) : LBx P x (emit s e) := h

/-- installing a memo for `x` leaves the other keys alone -/
theorem lbx_setMemo {P s x m} (h : LBx P (some x) s) : LBx P (some x) (setMemo s x m) := by
  intro q hq hc
  have hne : q ≠ x := fun e => hq (by rw [e])
  apply h q hq
  obtain ⟨hk, m', hm', hv⟩ := hc
  exact ⟨hk, m', by simpa [setMemo, hne] using hm', hv⟩

/-- re-stamping a memo (value and origin unchanged) keeps the full property -/
theorem lb_restamp {P s x m m'} (h : LB P s) (hm : s.memos x = some m) (hv : m'.value = m.value)
    (hu : m'.untracked = m.untracked) : LB P (setMemo s x m') := by
  intro q _ hc
  obtain ⟨hk, m2, hm2, hv2, hu2⟩ := hc
  by_cases e : q = x
  · subst e
    simp only [setMemo, if_true] at hm2
    have : m2 = m' := (Option.some.inj hm2).symm
    subst this
    exact h q (by simp) ⟨hk, m, hm, by rw [← hv]; exact hv2, by rw [← hu]; exact hu2⟩
  · exact h q (by simp) ⟨hk, m2, by simpa [setMemo, e] using hm2, hv2, hu2⟩

/-- `record_use(x)` with a non-zero capacity closes the gap at `x` -/
theorem lb_recordUse {P s x} (hc : s.lru.capacity ≠ 0) (h : LBx P (some x) s) : LB P (recordUseFor P s x) := by
  intro q _ hq
  unfold recordUseFor at hq ⊢
  by_cases hk : P.kind x = .lru
  · simp only [hk, if_true] at hq ⊢
    simp only [recordUse, hc, ne_eq, not_false_eq_true, if_true]
    rw [SalsaVerif.Proofs.Lru.mem_insert]
    by_cases e : q = x
    · exact Or.inl e
    · exact Or.inr (h q (fun e' => e (Option.some.inj e')) hq)
  · simp only [hk, if_false] at hq ⊢
    by_cases e : q = x
    · subst e; exact absurd hq.1 hk
    · exact h q (fun e' => e (Option.some.inj e')) hq

theorem lsub_recordUse (P : Prog) (s : State) (x : Nat) : LSub s (recordUseFor P s x) := by
  unfold recordUseFor
  split
  · refine ⟨?_, ?_⟩
    · simp only [recordUse]; split <;> rfl
    · intro y hy
      simp only [recordUse]
      split
      · exact (SalsaVerif.Proofs.Lru.mem_insert _ _ _).mpr (Or.inr hy)
      · exact hy
  · exact LSub.refl s

theorem lb_setMemo_of_mem {P t x m'} (h : LBx P (some x) t)
    (hx : Cached P (setMemo t x m') x → x ∈ t.lru.set) : LB P (setMemo t x m') := by
  intro q _ hc
  by_cases e : q = x
  · subst e; exact hx hc
  · exact lbx_setMemo h q (fun e' => e (Option.some.inj e')) hc

/-- an engine step keeps capacity and members, and the cover property when the capacity is non-zero -/
def LStep (P : Prog) (s t : State) : Prop :=
  LSub s t ∧ (s.lru.capacity ≠ 0 → LB P s → LB P t)

theorem LStep.refl (P : Prog) (s : State) : LStep P s s := ⟨LSub.refl s, fun _ h => h⟩

theorem LStep.trans {P s t u} (a : LStep P s t) (b : LStep P t u) : LStep P s u :=
  ⟨a.1.trans b.1, fun hc h => b.2 (by rw [a.1.cap]; exact hc) (a.2 hc h)⟩

structure FetchL (P : Prog) (fe : FetchFn) : Prop where
  l : ∀ s q, LStep P s (fe s q).1

structure McaL (P : Prog) (mc : McaFn) : Prop where
  l : ∀ s q rev, LStep P s (mc s q rev).1

theorem readDep_l {P fe} (hfe : FetchL P fe) (s f d) : LStep P s (readDep fe s f d).1 := by
  cases d with
  | inp i => exact LStep.refl P s
  | qry q => exact hfe.l s q
  | cell c => exact LStep.refl P s

theorem run_l {P fe} (hfe : FetchL P fe) : ∀ b s f, LStep P s (runBody fe b s f).1 := by
  intro b
  induction b with
  | ret v => intro s f; exact LStep.refl P s
  | read d k ih =>
    intro s f
    simp only [runBody]
    exact (readDep_l hfe s f d).trans (ih _ _ _)

theorem deep_l {P mc} (hmc : McaL P mc) : ∀ obs s rev, LStep P s (deepEdges mc obs s rev).1 := by
  intro obs
  induction obs with
  | nil => intro s rev; exact LStep.refl P s
  | cons o rest ih =>
    intro s rev
    simp only [deepEdges]
    have first : LStep P s (depChanged mc s o.dep rev).1 := by
      cases o.dep with
      | inp i => exact LStep.refl P s
      | qry q => exact hmc.l s q rev
      | cell c => exact LStep.refl P s
    split
    · split
      · exact first
      · exact first.trans (ih _ _)
    · exact ih _ _

theorem deepVerify_l {P mc} (hmc : McaL P mc) (s m) : LStep P s (deepVerify mc s m).1 := by
  unfold deepVerify
  split
  · exact LStep.refl P s
  · exact deep_l hmc _ _ _

/-- `execute q`: everything but `q` stays covered -/
theorem execute_l {P fe} (hfe : FetchL P fe) (s : State) (q : Nat) (old : Option Memo) :
    LSub s (execute fe P s q old).1 ∧
    (s.lru.capacity ≠ 0 → LB P s → LBx P (some q) (execute fe P s q old).1) := by
  have h := run_l hfe (P.body q) (emit s (.exec q)) frame0
  exact ⟨⟨h.1.cap, h.1.sub⟩, fun hc hl => lbx_setMemo (LBx.weaken (h.2 hc hl))⟩

theorem refreshStep_l {P fe mc} (hfe : FetchL P fe) (hmc : McaL P mc) (s : State) (q : Nat) :
    LSub s (refreshStep fe mc P s q).1 ∧
    (s.lru.capacity ≠ 0 → LB P s → LBx P (some q) (refreshStep fe mc P s q).1) := by
  unfold refreshStep
  cases hm : s.memos q with
  | none => exact execute_l hfe s q none
  | some m =>
    cases hv : m.value with
    | none => simp only [hv]; exact execute_l hfe s q _
    | some v =>
      simp only [hv]
      by_cases h1 : m.va = s.cur
      · simp only [h1, if_true]; exact ⟨LSub.refl s, fun _ h => LBx.weaken h⟩
      · simp only [h1, if_false]
        by_cases h2 : lc s m.dur ≤ m.va
        · simp only [h2, if_true]
          exact ⟨lsub_of_lru rfl, fun _ h => lbx_setMemo (LBx.weaken h)⟩
        · simp only [h2, if_false]
          have hd := deepVerify_l hmc s m
          generalize deepVerify mc s m = r at hd
          by_cases h3 : r.2 = true
          · simp only [h3, if_true]
            exact ⟨⟨hd.1.cap, hd.1.sub⟩, fun hc h => lbx_setMemo (LBx.weaken (hd.2 hc h))⟩
          · simp only [h3, if_false]
            obtain ⟨e1, e2⟩ := execute_l hfe r.1 q (some m)
            exact ⟨hd.1.trans e1, fun hc h => e2 (by rw [hd.1.cap]; exact hc) (hd.2 hc h)⟩

theorem fetchStep_l {P fe mc} (hfe : FetchL P fe) (hmc : McaL P mc) (s : State) (q : Nat) :
    LStep P s (fetchStep fe mc P s q).1 := by
  obtain ⟨a, b⟩ := refreshStep_l hfe hmc s q
  simp only [fetchStep]
  exact ⟨a.trans (lsub_recordUse P _ q), fun hc h => lb_recordUse (by rw [a.cap]; exact hc) (b hc h)⟩

theorem mcaStep_l {P fe mc} (hfe : FetchL P fe) (hmc : McaL P mc) (s : State) (q rev : Nat) :
    LStep P s (mcaStep fe mc P s q rev).1 := by
  unfold mcaStep
  cases hm : s.memos q with
  | none => exact LStep.refl P s
  | some m =>
    simp only
    -- a cached `q` is already in the set of `s`, hence in every later set
    have hq : ∀ (t : State) (m' : Memo), LSub s t → m'.value = m.value → m'.untracked = m.untracked →
        LB P s → Cached P (setMemo t q m') q → q ∈ t.lru.set := by
      intro t m' hs hv hu hl hc
      obtain ⟨hk, m2, hm2, hv2, hu2⟩ := hc
      simp only [setMemo, if_true] at hm2
      have : m2 = m' := (Option.some.inj hm2).symm
      subst this
      exact hs.sub q (hl q (by simp) ⟨hk, m, hm, by rw [← hv]; exact hv2, by rw [← hu]; exact hu2⟩)
    by_cases h1 : m.va = s.cur
    · simp only [h1, if_true]; exact LStep.refl P s
    · simp only [h1, if_false]
      by_cases h2 : lc s m.dur ≤ m.va
      · simp only [h2, if_true]
        exact ⟨lsub_of_lru rfl, fun _ h => lb_setMemo_of_mem (LBx.weaken h) (hq _ _ (lsub_of_lru rfl) rfl rfl h)⟩
      · simp only [h2, if_false]
        have hd := deepVerify_l hmc s m
        generalize deepVerify mc s m = r at hd
        by_cases h3 : r.2 = true
        · simp only [h3, if_true]
          exact ⟨⟨hd.1.cap, hd.1.sub⟩, fun hc h =>
            lb_setMemo_of_mem (LBx.weaken (hd.2 hc h)) (hq _ _ ⟨hd.1.cap, hd.1.sub⟩ rfl rfl h)⟩
        · simp only [h3, if_false]
          cases hv : m.value with
          | none => simp only [hv]; exact hd
          | some v =>
            simp only [hv]
            obtain ⟨e1, e2⟩ := execute_l hfe r.1 q (some m)
            exact ⟨(hd.1.trans e1).trans (lsub_recordUse P _ q), fun hc h =>
              lb_recordUse (by rw [e1.cap, hd.1.cap]; exact hc) (e2 (by rw [hd.1.cap]; exact hc) (hd.2 hc h))⟩

theorem eng_l (P : Prog) : ∀ r, FetchL P (eng P r).1 ∧ McaL P (eng P r).2 := by
  intro r
  induction r with
  | zero => exact ⟨⟨fun s _ => LStep.refl P s⟩, ⟨fun s _ _ => LStep.refl P s⟩⟩
  | succ r ih =>
    obtain ⟨hfe, hmc⟩ := ih
    constructor
    · constructor
      intro s q
      simp only [eng]
      split
      · exact hfe.l s q
      · split
        · rename_i h; subst h; exact fetchStep_l hfe hmc s q
        · exact LStep.refl P s
    · constructor
      intro s q rev
      simp only [eng]
      split
      · exact hmc.l s q rev
      · split
        · rename_i h; subst h; exact mcaStep_l hfe hmc s q rev
        · exact LStep.refl P s

theorem fetch_l (P : Prog) (s : State) (q : Nat) : LStep P s (fetch P s q).1 :=
  (eng_l P (q + 1)).1.l s q

/-! ### eviction -/

theorem foldl_evict_lru : ∀ (l : List Nat) (s : State), (l.foldl evictValue s).lru = s.lru := by
  intro l
  induction l with
  | nil => intro s; rfl
  | cons a rest ih => intro s; simp only [List.foldl_cons]; rw [ih, (evictValue_other s a).2.2.2.2.2]

/-- a value that is gone stays gone during the eviction loop -/
theorem foldl_evict_none (l : List Nat) (s : State) (q : Nat) (m : Memo) (hm : s.memos q = some m)
    (hv : m.value = none) : ∃ m', (l.foldl evictValue s).memos q = some m' ∧ m'.value = none := by
  rcases foldl_evict_memos l s q m hm with h | ⟨_, h⟩
  · exact ⟨m, h, hv⟩
  · exact ⟨_, h, rfl⟩

/-- an evicted tracked key has no value afterwards -/
theorem foldl_evict_mem : ∀ (l : List Nat) (s : State) (q : Nat) (m : Memo), q ∈ l → s.memos q = some m →
    m.untracked = false → ∃ m', (l.foldl evictValue s).memos q = some m' ∧ m'.value = none := by
  intro l
  induction l with
  | nil => intro s q m h; simp at h
  | cons a rest ih =>
    intro s q m hq hm hu
    simp only [List.foldl_cons]
    by_cases e : q = a
    · subst e
      have h1 : (evictValue s q).memos q = some { m with value := none } := by
        simp [evictValue, hm, hu, setMemo]
      exact foldl_evict_none rest _ q _ h1 rfl
    · have hq' : q ∈ rest := by
        simp only [List.mem_cons] at hq
        rcases hq with h | h
        · exact absurd h e
        · exact h
      rcases evictValue_memos s a q m hm with h | ⟨_, h⟩
      · exact ih _ q m hq' h hu
      · exact foldl_evict_none rest _ q _ h rfl

theorem foldl_evict_nomemo : ∀ (l : List Nat) (t : State) (q : Nat), t.memos q = none →
    (l.foldl evictValue t).memos q = none := by
  intro l
  induction l with
  | nil => intro t q ht; exact ht
  | cons a rest ih =>
    intro t q ht
    simp only [List.foldl_cons]
    apply ih
    unfold evictValue
    cases hm0 : t.memos a with
    | none => exact ht
    | some m0 =>
      simp only
      split
      · exact ht
      · by_cases e : q = a
        · subst e; rw [ht] at hm0; cases hm0
        · simp [setMemo, e, ht]

/-- the eviction loop on a state `T` whose LRU set has already been cut to `keep`, over the
    popped keys `gone` -/
theorem lb_evict_loop {P} (T : State) (gone keep : List Nat) (hset : T.lru.set = keep)
    (h : ∀ q, Cached P T q → q ∈ gone ∨ q ∈ keep) : LB P (gone.foldl evictValue T) := by
  intro q _ hcq
  obtain ⟨hkq, m', hm', hv', hu'⟩ := hcq
  rw [foldl_evict_lru, hset]
  cases hm : T.memos q with
  | none => rw [foldl_evict_nomemo gone T q hm] at hm'; cases hm'
  | some m =>
    have hsame : m' = m ∧ m.untracked = false := by
      rcases foldl_evict_memos gone T q m hm with h1 | ⟨_, h1⟩
      · rw [h1] at hm'; cases hm'; exact ⟨rfl, hu'⟩
      · rw [h1] at hm'; cases hm'; exact absurd rfl hv'
    obtain ⟨e, hum⟩ := hsame
    subst e
    rcases h q ⟨hkq, m', hm, hv', hu'⟩ with hg | hk
    · obtain ⟨m2, h2, hv2⟩ := foldl_evict_mem gone T q m' hg hm hum
      rw [h2] at hm'; cases hm'; exact absurd hv2 hv'
    · exact hk

theorem lb_evictLru {P s} (hc : s.lru.capacity ≠ 0) (h : LB P s) :
    LB P (evictLru s) ∧ (evictLru s).lru.capacity = s.lru.capacity ∧
    (evictLru s).lru.set.length ≤ s.lru.capacity := by
  unfold evictLru
  rw [SalsaVerif.Proofs.Lru.forEachEvicted_eq s.lru hc]
  simp only
  refine ⟨?_, by rw [foldl_evict_lru], by rw [foldl_evict_lru]; simp only [List.length_drop]; omega⟩
  apply lb_evict_loop _ _ (s.lru.set.drop (s.lru.set.length - s.lru.capacity)) rfl
  intro q hcq
  have hmem : q ∈ s.lru.set := h q (by simp) hcq
  rw [← List.take_append_drop (s.lru.set.length - s.lru.capacity) s.lru.set] at hmem
  exact List.mem_append.mp hmem

/-! ### histories that never disable the LRU -/

/-- the operation does not set the capacity to 0 -/
def capOk : Op → Bool
  | .lruCap 0 => false
  | _ => true

/-- capacity non-zero and every cached key in the LRU set -/
def LInv (P : Prog) (s : State) : Prop := s.lru.capacity ≠ 0 ∧ LB P s

theorem linv_frame {P s t} (hm : t.memos = s.memos) (hl : t.lru = s.lru) (h : LInv P s) : LInv P t := by
  refine ⟨by rw [hl]; exact h.1, ?_⟩
  intro q _ hc
  rw [hl]
  apply h.2 q (by simp)
  obtain ⟨hk, m, hm', hv⟩ := hc
  exact ⟨hk, m, by rw [← hm]; exact hm', hv⟩

theorem linv_evict {P s} (h : LInv P s) : LInv P (evictLru s) := by
  obtain ⟨a, b, _⟩ := lb_evictLru h.1 h.2
  exact ⟨by rw [b]; exact h.1, a⟩

theorem linv_bumpRev {P s} (h : LInv P s) : LInv P (bumpRev s) :=
  linv_evict (linv_frame (s := s) rfl rfl h)

theorem linv_write {P s} (i v nd) (h : LInv P s) : LInv P (write s i v nd) := by
  have hb := linv_bumpRev (P := P) h
  have hm : (write s i v nd).memos = (bumpRev s).memos := by
    simp only [write]; split <;> rfl
  have hl : (write s i v nd).lru = (bumpRev s).lru := by
    simp only [write]; split <;> rfl
  exact linv_frame hm hl hb

theorem linv_synth {P s} (d) (h : LInv P s) : LInv P (synth s d) := by
  have hb := linv_bumpRev (P := P) h
  have hm : (synth s d).memos = (bumpRev s).memos := by
    simp only [synth]; split <;> rfl
  have hl : (synth s d).lru = (bumpRev s).lru := by
    simp only [synth]; split <;> rfl
  exact linv_frame hm hl hb

theorem linv_step {P s} (op : Op) (hop : capOk op = true) (h : LInv P s) : LInv P (step P s op) := by
  cases op with
  | get q =>
    obtain ⟨a, b⟩ := fetch_l P s q
    exact ⟨by show (fetch P s q).1.lru.capacity ≠ 0; rw [a.cap]; exact h.1, b h.1 h.2⟩
  | set i v nd => exact linv_write i v nd h
  | synth d => exact linv_synth d h
  | cellSynth c v d => exact linv_synth d (linv_frame (s := s) rfl rfl h)
  | cellSet c v i w nd => exact linv_write i w nd (linv_frame (s := s) rfl rfl h)
  | lruCap n =>
    have hn : n ≠ 0 := by
      intro e; subst e; simp [capOk] at hop
    refine ⟨by simp [step, lruCap, setCapacity, hn], ?_⟩
    intro q _ hc
    have : (step P s (.lruCap n)).lru.set = s.lru.set := by simp [step, lruCap, setCapacity, hn]
    rw [this]
    exact h.2 q (by simp) hc
  | evict => exact linv_evict h

theorem linv_run {P} (inp cells cap) (hcap : cap ≠ 0) : ∀ (ops : List Op), ops.all capOk = true →
    LInv P (run P inp cells cap ops) := by
  have h0 : LInv P (init inp cells cap) := by
    refine ⟨hcap, ?_⟩
    intro q _ hc
    obtain ⟨_, m, hm, _⟩ := hc
    simp [init] at hm
  have : ∀ (ops : List Op) (s : State), LInv P s → ops.all capOk = true → LInv P (ops.foldl (step P) s) := by
    intro ops
    induction ops with
    | nil => intro s h _; exact h
    | cons op rest ih =>
      intro s h hall
      simp only [List.all_cons, Bool.and_eq_true] at hall
      exact ih _ (linv_step op hall.1 h) hall.2
  intro ops hall
  exact this ops _ h0 hall

/-- a duplicate-free list inside another list is not longer -/
theorem nodup_subset_length : ∀ (l m : List Nat), l.Nodup → (∀ x, x ∈ l → x ∈ m) → l.length ≤ m.length := by
  intro l
  induction l with
  | nil => intro m _ _; exact Nat.zero_le _
  | cons a rest ih =>
    intro m hnd hsub
    have ha : a ∈ m := hsub a (by simp)
    have hnd' := List.nodup_cons.mp hnd
    have := ih (m.erase a) hnd'.2 (by
      intro x hx
      have hne : x ≠ a := fun e => hnd'.1 (e ▸ hx)
      exact (List.mem_erase_of_ne hne).mpr (hsub x (by simp [hx])))
    rw [List.length_erase_of_mem ha] at this
    have hpos : 0 < m.length := List.length_pos_of_mem ha
    simp only [List.length_cons]
    omega

end SalsaVerif.Proofs.Core3
