/-
  Core3 engine, stage S3b: `execute_ok` — every call of `execute` (no memo / stale memo / evicted
  memo that still passes the shallow test) re-establishes the invariant and returns the
  from-scratch value.  Core Lean only.
-/
import SalsaVerif.Proofs.Core3EvictExec

namespace SalsaVerif.Proofs.Core3E
open SalsaVerif.Model.Core3 SalsaVerif.Proofs.Core3

/-- what one refresh of key `r` from state `s` achieves -/
def StepOk (P : Prog) (r : Nat) (s : State) (out : State × Res) : Prop :=
  InvE P out.1 ∧ ExtE s out.1 (r + 1) ∧ out.2.val = sem P s.inp s.cells r ∧
  ∃ m, out.1.memos r = some m ∧ m.va = s.cur ∧ m.value = some out.2.val ∧ m.gval = out.2.val ∧
    m.ca = out.2.ca ∧ m.dur = out.2.dur

/-- `MemoOkE` of a freshly executed memo with `deepAt = cur` -/
theorem memoOk_new_cur {P r} {t : State} {F : Frame} {v ca : Nat} {new : List Obs}
    (hI : InvE P t) (fi : FrInvE t F) (hca : ca ≤ F.ca) (hdur : F.dur ≤ 3) (hobs : F.obs = new)
    (hrep : replay (P.body r) (obsPairs new) = some v)
    (hfacts : ∀ o, o ∈ new → hotv t o.dep ∧ ObsFact t F o ∧ (∀ q', o.dep = .qry q' → q' < r)) :
    MemoOkE P (setMemo t r (newMemo v t.cur ca F t.cur)) r (newMemo v t.cur ca F t.cur) := by
  refine memoOk_new hI fi (Nat.le_trans hca fi.ca_le) hdur hobs hrep hfacts (Nat.le_refl _) hI.cur1 ?_
    (hI.lc_le _) ?_ (m4_of_att fi hobs hca)
  · intro o _
    refine ⟨fun x hx => depInfo_ca_le hI hx, ?_⟩
    intro q' m' _ hm'
    have ok := hI.memo q' m' hm'
    exact Nat.le_trans ok.deep_va ok.va_cur
  · intro w d _ _ h
    exact absurd h.1 (Nat.not_lt.mpr h.2)

theorem execute_ok {P r fe} (hP : Wf P) (hfe : FetchSpecE P r fe) (s : State) (old : Option Memo)
    (hI : InvE P s) (hold : s.memos r = old) (hval : ∀ o, old = some o → SOK s o → o.value = none) :
    StepOk P r s (execute fe P s r old) := by
  have hI0 := inv_emit (.exec r) hI
  have hrun := run_ok hfe (P.body r) (hP r) (emit s (.exec r)) frame0 hI0 (frInv0 hI0)
  have hchg : ∀ o, old = some o → o.va ≠ s.cur →
      (∃ oo, oo ∈ o.obs ∧ ((∃ c, oo.dep = .cell c) ∨ semDep P s.inp s.cells oo.dep ≠ oo.val)) →
      Wit s o.dur o.va (runBody fe (P.body r) (emit s (.exec r)) frame0).2.1.ca :=
    fun o ho hv hex => hback_changed hP hfe s o hI (by rw [hold, ho]) hv hex
  rw [execute_eq]
  generalize runBody fe (P.body r) (emit s (.exec r)) frame0 = r0 at hrun hchg
  obtain ⟨k1, k2, k3, k4, k5d, kfi, new, k6, k7, k8⟩ := hrun
  replace k2 : ExtE s r0.1 r := ExtE.trans (ext_emit s _ r) k2
  replace k3 : r0.2.2 = evalB (semDep P s.inp s.cells) (P.body r) := k3
  simp only [frame0, List.nil_append] at k6 k5d k4
  have hmr : r0.1.memos r = old := by rw [k2.above r (Nat.le_refl r)]; exact hold
  have hsem : r0.2.2 = sem P s.inp s.cells r := by rw [k3, sem_unfold P s.inp s.cells hP r]
  have hfacts : ∀ o, o ∈ new → hotv r0.1 o.dep ∧ ObsFact r0.1 r0.2.1 o ∧ (∀ q', o.dep = .qry q' → q' < r) :=
    fun o ho => ⟨(k8 o ho).1, (k8 o ho).2.1, (k8 o ho).2.2.1⟩
  have hnewcur : ∀ d x, (d, x) ∈ obsPairs new → semDep P s.inp s.cells d = x := by
    intro d x hmem
    obtain ⟨o, ho, hd, hx⟩ := mem_obsPairs hmem
    rw [← hd, ← hx]; exact (k8 o ho).2.2.2
  unfold StepOk
  cases old with
  | none =>
    have hok := memoOk_new_cur (P := P) (r := r) (v := r0.2.2) (ca := r0.2.1.ca) k1 kfi (Nat.le_refl _) k5d k6 k7
      hfacts
    have hinv := inv_setMemo (q := r) k1 hok rfl (by intro mo h; rw [hmr] at h; cases h) (by
      intro p mp o _ hmp ho hdq
      obtain ⟨_, m2, hm2, _⟩ := (k1.memo p mp hmp).i5 o r ho hdq
      rw [hmr] at hm2; cases hm2)
    refine ⟨hinv, ?_, hsem, _, setMemo_same _ _ _, k2.cur, rfl, rfl, rfl, rfl⟩
    exact ext_install hI k2 k2.cur (by intro m h; rw [hold] at h; cases h) (by intro m h; rw [hold] at h; cases h)
  | some o =>
    have mook := k1.memo r o hmr
    by_cases hs : SOK s o
    · -- S: evicted, passes the shallow test
      have hvn : o.value = none := hval o rfl hs
      have hs' : SOK r0.1 o := (k2.sok o).mpr hs
      have hu : o.untracked = false := mook.evt hvn
      have hcur := obs_current_of_sok hP k1 hmr hs'
      have holdcur : ∀ d x, (d, x) ∈ obsPairs o.obs → semDep P s.inp s.cells d = x := by
        intro d x hmem
        obtain ⟨oo, hoo, hd, hx⟩ := mem_obsPairs hmem
        rw [← hd, ← hx, ← k2.inp, ← k2.cells]; exact hcur oo hoo
      obtain ⟨hpairs, hv⟩ := replay_det _ _ _ _ _ _ k7 mook.rep hnewcur holdcur
      obtain ⟨hFu, hb, _⟩ := repro_facts k1 hmr hu kfi k6 (fun o' ho' => (k8 o' ho').2.1) hpairs
      obtain ⟨he, hf, hg⟩ := repro_sok k1 hmr hs' kfi hFu k6 hpairs
      have hdeepAt : deepAtOf r0.1 (some o) = o.deepAt := by
        simp only [deepAtOf, (sokB_iff _ _).mpr hs', if_true]
      have hnb : canBackdate (P.kind r) o r0.2.2 r0.2.1 = false := by
        cases hb' : canBackdate (P.kind r) o r0.2.2 r0.2.1 with
        | false => rfl
        | true =>
          have := ((canBackdate_iff _ _ _ _).mp hb').2.1
          rw [hvn] at this; cases this
      have hca' : backdateCa (P.kind r) (some o) r0.2.2 r0.2.1 = r0.2.1.ca := by
        simp only [backdateCa, hnb]; rfl
      have hlcd : lc r0.1 o.dur ≤ o.deepAt := by
        rcases mook.i4 with h | h
        · exact h
        · rcases hs' with h2 | h2
          · have := k1.lc_le o.dur; omega
          · omega
      simp only [execMemo, hdeepAt, hca']
      have hok := memoOk_new (P := P) (r := r) (v := r0.2.2) (ca := r0.2.1.ca) (D := o.deepAt) k1 kfi kfi.ca_le
        k5d k6 k7 hfacts (Nat.le_trans mook.deep_va mook.va_cur) mook.deep1 hg
        (Nat.le_trans (lc_mono k1 _ _ hf) hlcd)
        (by
          intro w d hw hd h
          have hd' : o.dur ≤ d := Nat.le_trans hf hd
          by_cases hwv : w ≤ o.va
          · exact mook.g4 w d hw hd' ⟨h.1, hwv⟩
          · have := k1.wlog_lc w d hw o.dur hd'
            omega)
        (m4_of_att kfi k6 (Nat.le_refl _))
      have hobs := hobs_sok (v := r0.2.2) (ca := r0.2.1.ca) (dur := r0.2.1.dur) k1 hmr hv hb hf he
      have hinv := inv_setMemo (q := r) k1 hok rfl (by intro mo h; rw [hmr] at h; cases h; exact hb) hobs
      refine ⟨hinv, ?_, hsem, _, setMemo_same _ _ _, k2.cur, rfl, rfl, rfl, rfl⟩
      refine ext_install hI k2 k2.cur ?_ ?_
      · intro m h; rw [hold] at h; cases h; exact hb
      · intro m h _; rw [hold] at h; cases h; exact ⟨hvn, hv, hf⟩
    · -- T: fails the shallow test
      have hns' : ¬ SOK r0.1 o := fun h => hs ((k2.sok o).mp h)
      have hvne : o.va ≠ s.cur := fun h => hs (Or.inl h)
      have hdeepAt : deepAtOf r0.1 (some o) = r0.1.cur := by
        have : sokB r0.1 o = false := by
          cases hb : sokB r0.1 o with
          | false => rfl
          | true => exact absurd ((sokB_iff _ _).mp hb) hns'
        simp only [deepAtOf, this]; rfl
      have hcase : Wit r0.1 o.dur o.va r0.2.1.ca ∨
          (r0.2.2 = o.gval ∧ o.ca ≤ r0.2.1.ca ∧ o.dur ≤ r0.2.1.dur) := by
        by_cases hex : ∃ oo, oo ∈ o.obs ∧ ((∃ c, oo.dep = .cell c) ∨ semDep P s.inp s.cells oo.dep ≠ oo.val)
        · exact Or.inl ((k2.wit _ _ _).mpr (hchg o rfl hvne hex))
        · have hall : ∀ oo, oo ∈ o.obs → (∀ c, oo.dep ≠ .cell c) ∧ semDep P s.inp s.cells oo.dep = oo.val := by
            intro oo hoo
            refine ⟨fun c hc => hex ⟨oo, hoo, Or.inl ⟨c, hc⟩⟩, ?_⟩
            exact Classical.byContradiction fun hne => hex ⟨oo, hoo, Or.inr hne⟩
          have hu : o.untracked = false := by
            cases h : o.untracked with
            | false => rfl
            | true =>
              obtain ⟨oo, c, hoo, hd⟩ := mook.hascell h
              exact absurd hd ((hall oo hoo).1 c)
          have holdcur : ∀ d x, (d, x) ∈ obsPairs o.obs → semDep P s.inp s.cells d = x := by
            intro d x hmem
            obtain ⟨oo, hoo, hd, hx⟩ := mem_obsPairs hmem
            rw [← hd, ← hx]; exact (hall oo hoo).2
          obtain ⟨hpairs, hv⟩ := replay_det _ _ _ _ _ _ k7 mook.rep hnewcur holdcur
          obtain ⟨_, hb, hc⟩ := repro_facts k1 hmr hu kfi k6 (fun o' ho' => (k8 o' ho').2.1) hpairs
          rcases hc with hc | hc
          · exact Or.inr ⟨hv, hb, hc⟩
          · exact Or.inl hc
      have hcale : o.ca ≤ r0.2.1.ca := by
        rcases hcase with h | h
        · exact Nat.le_trans mook.ca_va (Nat.le_of_lt h.lt)
        · exact h.2.1
      obtain ⟨hb1, hb2⟩ := backdate_bounds (P.kind r) o r0.2.2 r0.2.1 hcale
      simp only [execMemo, hdeepAt]
      have hok := memoOk_new_cur (P := P) (r := r) (v := r0.2.2)
        (ca := backdateCa (P.kind r) (some o) r0.2.2 r0.2.1) k1 kfi hb2 k5d k6 k7 hfacts
      have hobs := hobs_stale (v := r0.2.2) (F := r0.2.1) (P.kind r) r0.1.cur k1 hmr hns' hcase
      have hinv := inv_setMemo (q := r) k1 hok rfl (by intro mo h; rw [hmr] at h; cases h; exact hb1) hobs
      refine ⟨hinv, ?_, hsem, _, setMemo_same _ _ _, k2.cur, rfl, rfl, rfl, rfl⟩
      refine ext_install hI k2 k2.cur ?_ ?_
      · intro m h; rw [hold] at h; cases h; exact hb1
      · intro m h hv; rw [hold] at h; cases h; exact absurd hv hvne

end SalsaVerif.Proofs.Core3E
