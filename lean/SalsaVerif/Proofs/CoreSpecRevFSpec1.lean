/-
  CoreSpec, histories with writes: requests of the specifiable function, part 1.
  The read lock: `LockR c s t` (`t` is `s` with the struct of `c` possibly read-locked, and more
  events); every clause of `Inv` survives it (`inv_lockR`).  Core Lean only.
-/
import SalsaVerif.Proofs.CoreSpecRevSpecs
import SalsaVerif.Proofs.CoreSpecRevFresh

namespace SalsaVerif.Proofs.CoreSpec
open SalsaVerif.Model.CoreSpec

/-- no logged write has level 3 -/
theorem wit3_absurd {P idOf s} (hI : Inv P idOf s) {lo hi} (h : Wit s 3 lo hi) : False := by
  obtain ⟨w, d, hw, hd, _, _⟩ := h
  have := hI.wlog3 w d hw
  omega

/-- the plain form of `ObsOk.i6`: an unrecorded dependency that exists has its value and is still
    NEVER_CHANGE -/
theorem i6_plain {P idOf s m} (hI : Inv P idOf s) (ok : ObsOk s m) (o : Obs) (ho : o ∈ m.obs)
    (hout : o.out = false) (hr : o.recd = false) (x : Res) (hx : depInfo s o.dep = some x) :
    x.val = o.val ∧ 3 ≤ x.dur := by
  rcases (ok.i6 o ho hout hr).iv x hx with h | h
  · exact h
  · exact (wit3_absurd hI h).elim

/-- `t` is `s` up to the read lock of the struct of `c` and the event trace -/
structure LockR (c : Nat) (s t : State) : Prop where
  cur : t.cur = s.cur
  lch : t.lch = s.lch
  inp : t.inp = s.inp
  wlog : t.wlog = s.wlog
  memos : t.memos = s.memos
  smemos : t.smemos = s.smemos
  panic : t.panic = s.panic
  other : ∀ c', c' ≠ c → t.slots c' = s.slots c'
  same : ∀ sl, s.slots c = some sl →
    ∃ sl', t.slots c = some sl' ∧ SlotEq sl sl' ∧ (sl'.upd = sl.upd ∨ sl'.upd = s.cur)
  gone : s.slots c = none → t.slots c = none

theorem LockR.refl (c s) : LockR c s s :=
  ⟨rfl, rfl, rfl, rfl, rfl, rfl, rfl, fun _ _ => rfl, fun sl h => ⟨sl, h, SlotEq.refl sl, Or.inl rfl⟩, id⟩

theorem LockR.trans {c s t u} (h1 : LockR c s t) (h2 : LockR c t u) : LockR c s u := by
  refine ⟨h2.cur.trans h1.cur, h2.lch.trans h1.lch, h2.inp.trans h1.inp, h2.wlog.trans h1.wlog,
    h2.memos.trans h1.memos, h2.smemos.trans h1.smemos, h2.panic.trans h1.panic,
    fun c' hc => (h2.other c' hc).trans (h1.other c' hc), ?_, fun hn => h2.gone (h1.gone hn)⟩
  intro sl hsl
  obtain ⟨sl1, a1, a2, a3⟩ := h1.same sl hsl
  obtain ⟨sl2, b1, b2, b3⟩ := h2.same sl1 a1
  refine ⟨sl2, b1, a2.trans b2, ?_⟩
  rcases b3 with b3 | b3
  · rcases a3 with a3 | a3
    · exact Or.inl (b3.trans a3)
    · exact Or.inr (b3.trans a3)
  · exact Or.inr (b3.trans h1.cur)

theorem lockR_lockSlot {c s sl} (hsl : s.slots c = some sl) : LockR c s (lockSlot s c sl) := by
  refine ⟨rfl, rfl, rfl, rfl, rfl, rfl, rfl, ?_, ?_, ?_⟩
  · intro c' hc; simp only [lockSlot]; exact setSlot_other _ _ _ hc
  · intro sl' hsl'
    rw [hsl] at hsl'; cases hsl'
    exact ⟨{ sl with upd := s.cur }, by simp [lockSlot], ⟨rfl, rfl, rfl, rfl, rfl⟩, Or.inr rfl⟩
  · intro hn; rw [hsl] at hn; cases hn

theorem lockR_emit (c s e) : LockR c s (emit s e) :=
  ⟨rfl, rfl, rfl, rfl, rfl, rfl, rfl, fun _ _ => rfl, fun sl h => ⟨sl, h, SlotEq.refl sl, Or.inl rfl⟩, id⟩

theorem lockR_touchMemos (c s) : LockR c s (touchMemos s c) := by
  rcases touchMemos_cases s c with e | ⟨sl, h, e⟩
  · rw [e]; exact LockR.refl c s
  · rw [e]; exact lockR_lockSlot h

namespace LockR
variable {c : Nat} {s t : State}

theorem lc (h : LockR c s t) (d : Nat) : Model.CoreSpec.lc t d = Model.CoreSpec.lc s d := by
  simp [Model.CoreSpec.lc, h.cur, h.lch]

/-- uniform view of the slots -/
theorem slot_cases (h : LockR c s t) (c' : Nat) :
    (s.slots c' = none ∧ t.slots c' = none) ∨
    ∃ sl sl', s.slots c' = some sl ∧ t.slots c' = some sl' ∧ SlotEq sl sl' ∧
      (sl'.upd = sl.upd ∨ sl'.upd = s.cur) := by
  by_cases hc : c' = c
  · subst hc
    cases hs : s.slots c' with
    | none => exact Or.inl ⟨rfl, h.gone hs⟩
    | some sl =>
      obtain ⟨sl', a, b, u⟩ := h.same sl hs
      exact Or.inr ⟨sl, sl', rfl, a, b, u⟩
  · cases hs : s.slots c' with
    | none => exact Or.inl ⟨rfl, by rw [h.other c' hc]; exact hs⟩
    | some sl => exact Or.inr ⟨sl, sl, rfl, by rw [h.other c' hc]; exact hs, SlotEq.refl sl, Or.inl rfl⟩

theorem slot_none (h : LockR c s t) {c'} (ht : t.slots c' = none) : s.slots c' = none := by
  rcases h.slot_cases c' with ⟨a, _⟩ | ⟨sl, sl', _, b, _⟩
  · exact a
  · rw [b] at ht; cases ht

theorem slot_some (h : LockR c s t) {c' sl'} (ht : t.slots c' = some sl') :
    ∃ sl, s.slots c' = some sl ∧ SlotEq sl sl' ∧ (sl'.upd = sl.upd ∨ sl'.upd = s.cur) := by
  rcases h.slot_cases c' with ⟨_, b⟩ | ⟨sl, sl2, a, b, e, u⟩
  · rw [b] at ht; cases ht
  · rw [b] at ht; cases ht; exact ⟨sl, a, e, u⟩

theorem slot_fwd (h : LockR c s t) {c' sl} (hs : s.slots c' = some sl) :
    ∃ sl', t.slots c' = some sl' ∧ SlotEq sl sl' ∧ (sl'.upd = sl.upd ∨ sl'.upd = s.cur) := by
  rcases h.slot_cases c' with ⟨a, _⟩ | ⟨sl1, sl2, a, b, e, u⟩
  · rw [a] at hs; cases hs
  · rw [a] at hs; cases hs; exact ⟨sl2, b, e, u⟩

theorem depInfo_eq (h : LockR c s t) (d : Dep) : depInfo t d = depInfo s d := by
  cases d with
  | inp i => simp only [depInfo, h.inp]
  | qry q => simp only [depInfo, h.memos]
  | spec c' => simp only [depInfo, h.smemos]
  | field c' =>
    rcases h.slot_cases c' with ⟨a, b⟩ | ⟨sl, sl', a, b, ⟨_, _, e3, e4, e5⟩, _⟩
    · simp only [depInfo, a, b]
    · simp only [depInfo, a, b, Option.map_some, e3, e4, e5]

theorem wit (h : LockR c s t) (k lo hi : Nat) : Wit t k lo hi ↔ Wit s k lo hi := by
  simp only [Wit, h.wlog]

theorem sokIff (h : LockR c s t) (m : Memo) : SOK t m ↔ SOK s m := by
  simp only [SOK, h.cur, h.lc]

theorem memoSokIff (h : LockR c s t) (q : Nat) : memoSok t q ↔ memoSok s q := by
  simp only [memoSok, h.memos, h.sokIff]

theorem sokDepIff (h : LockR c s t) (d : Dep) : sokDep t d ↔ sokDep s d := by
  cases d with
  | inp i => exact Iff.rfl
  | qry q => exact h.memoSokIff q
  | spec c' => simp only [sokDep, h.memoSokIff, h.smemos, h.sokIff]
  | field c' =>
    simp only [sokDep, h.memoSokIff]
    refine and_congr Iff.rfl ?_
    rcases h.slot_cases c' with ⟨a, b⟩ | ⟨sl, sl', a, b, _, _⟩
    · simp [a, b]
    · simp [a, b]

theorem busy_fwd (h : LockR c s t) {c'} (hb : Busy s c') : Busy t c' := by
  obtain ⟨sl, hsl, hu, hn⟩ := hb
  obtain ⟨sl', a, _, u⟩ := h.slot_fwd hsl
  refine ⟨sl', a, ?_, fun hm => hn ((h.memoSokIff c').mp hm)⟩
  rw [h.cur]
  rcases u with u | u
  · rw [u]; exact hu
  · exact u

theorem busy_back (h : LockR c s t) {c'} (hb : Busy t c') : Busy s c' ∨ c' = c := by
  by_cases hc : c' = c
  · exact Or.inr hc
  · left
    obtain ⟨sl, hsl, hu, hn⟩ := hb
    rw [h.other c' hc] at hsl
    exact ⟨sl, hsl, by rw [← h.cur]; exact hu, fun hm => hn ((h.memoSokIff c').mpr hm)⟩

theorem obsAt (h : LockR c s t) {va L o} (a : ObsAt s va L o) : ObsAt t va L o := by
  refine ⟨?_, ?_, ?_⟩
  · intro x hx
    rw [h.depInfo_eq] at hx
    exact (a.iv x hx).imp id (h.wit _ _ _).mpr
  · intro c' mc hd hs hm
    rw [h.memos] at hm
    exact (h.wit _ _ _).mpr (a.dead c' mc hd (h.slot_none hs) hm)
  · intro c' sl' hd hs hm
    rw [h.smemos] at hm
    obtain ⟨sl, hsl, ⟨_, _, _, e4, _⟩, _⟩ := h.slot_some hs
    rw [e4]
    exact (h.wit _ _ _).mpr (a.deadsm c' sl hd hsl hm)

theorem structAt (h : LockR c s t) {va L o} (a : StructAt s va L o) : StructAt t va L o := by
  refine ⟨?_, ?_⟩
  · intro c' mc hd hm
    rw [h.memos] at hm
    exact (a.odur c' mc hd hm).imp id (h.wit _ _ _).mpr
  · intro c' mc hd hm
    rw [h.memos] at hm
    exact (a.hexp c' mc hd hm).imp id (h.wit _ _ _).mpr

theorem preAt (h : LockR c s t) {va L pre} (a : PreAt s va L pre) : PreAt t va L pre :=
  fun o ho => ⟨h.obsAt (a o ho).1, h.structAt (a o ho).2⟩

theorem obsOk (h : LockR c s t) {m} (ok : ObsOk s m) : ObsOk t m := by
  refine ⟨ok.ca_va, by rw [h.cur]; exact ok.va_cur, ok.va1, ok.deep_va, ok.deep1, ok.dur3,
    fun o ho hout => h.obsAt (ok.iv o ho hout), ?_, by rw [h.lc]; exact ok.i4, ?_, ?_, ?_,
    fun o ho hout hr => h.obsAt (ok.i6 o ho hout hr), ?_⟩
  · intro hs o ho hout
    rw [h.depInfo_eq]
    exact ok.kaca ((h.sokIff m).mp hs) o ho hout
  · intro o q' ho hout hd; rw [h.memos]; exact ok.i5q o q' ho hout hd
  · intro o c' sm ho hout hd hr hsm; rw [h.smemos] at hsm; exact ok.i5s o c' sm ho hout hd hr hsm
  · intro o c' mc ho hout hd hmc w d hw
    rw [h.memos] at hmc; rw [h.wlog] at hw
    exact ok.ordw o c' mc ho hout hd hmc w d hw
  · intro w d hw; rw [h.wlog] at hw; exact ok.g4 w d hw

theorem spTie (h : LockR c s t) {q m sl sl' pre} (he : sl'.dur = sl.dur) :
    ∀ sp, SpTie s q m sl pre sp → SpTie t q m sl' pre sp := by
  intro sp a
  cases sp with
  | some w =>
    obtain ⟨A, hA, h1, h2, h3, h4, h5, h6, h7⟩ := a
    exact ⟨A, by rw [h.smemos]; exact hA, h1, h2, h3, h4, by rw [he]; exact h5, h.preAt h6, h7⟩
  | none =>
    obtain ⟨h1, h2⟩ := a
    refine ⟨?_, by rw [he]; exact h.preAt h2⟩
    intro A hA ho
    rw [h.smemos] at hA
    exact (h.wit _ _ _).mpr (h1 A hA ho)

theorem tieOk (h : LockR c s t) {q m R pre} (a : TieOk s q m R pre) : TieOk t q m R pre := by
  unfold TieOk at a ⊢
  cases hts : R.ts with
  | none =>
    rw [hts] at a
    simp only at a ⊢
    rw [h.smemos]
    refine ⟨?_, a.2⟩
    rcases h.slot_cases q with ⟨_, b⟩ | ⟨sl, _, a1, _⟩
    · exact b
    · rw [a.1] at a1; cases a1
  | some kv =>
    obtain ⟨k, v⟩ := kv
    rw [hts] at a
    simp only at a ⊢
    obtain ⟨sl, h1, h2, h3, h4, h5⟩ := a
    obtain ⟨sl', b1, ⟨_, e2, e3, e4, e5⟩, _⟩ := h.slot_fwd h1
    exact ⟨sl', b1, e2.trans h2, e3.trans h3, by rw [e4]; exact h4, h.spTie e5 _ h5⟩

theorem nodeOk (h : LockR c s t) {P idOf q m} (ok : NodeOk P idOf s q m) : NodeOk P idOf t q m := by
  refine ⟨h.obsOk ok.obs, ok.origin, ?_, ok.rank, fun o ho hout => h.structAt (ok.sobs o ho hout),
    fun o c' ho hout hd => by rw [h.memos]; exact ok.hmemo o c' ho hout hd,
    ok.hd, ?_, ok.hsrc, ok.outedge, ok.never, ?_, ok.shape⟩
  · intro hs o ho hout
    exact (h.sokDepIff o.dep).mpr (ok.ksok ((h.sokIff m).mp hs) o ho hout)
  · obtain ⟨R, h1, h2, h3, h4, h5⟩ := ok.rep
    refine ⟨R, h1, h2, h3, h4, fun hnb => ?_⟩
    obtain ⟨a1, a2⟩ := h5 (fun hb => hnb (h.busy_fwd hb))
    refine ⟨h.tieOk a1, ?_⟩
    intro w0 hw0 A hA w' d hw
    rw [h.smemos] at hA; rw [h.wlog] at hw
    exact a2 w0 hw0 A hA w' d hw
  · rcases ok.m4 with a | ⟨o, ho, hout, a⟩
    · exact Or.inl a
    · exact Or.inr ⟨o, ho, hout, fun x hx => a x (by rw [h.depInfo_eq] at hx; exact hx)⟩

theorem specOk (h : LockR c s t) {P idOf c' sm} (ok : SpecOk P idOf s c' sm) : SpecOk P idOf t c' sm := by
  refine ⟨?_, ?_, ok.noh, ok.hgen, ok.dshape⟩
  · intro ho
    obtain ⟨h1, h2⟩ := ok.derived ho
    exact ⟨h.obsOk h1, h2⟩
  · intro k hk
    obtain ⟨h1, h2, h3, h4, h5, h6⟩ := ok.assigned k hk
    exact ⟨h1, h2, h3, by rw [h.cur]; exact h4, h5, h6⟩

end LockR

/-- every clause of the invariant survives read locks and events -/
theorem inv_lockR {P idOf c s t} (hI : Inv P idOf s) (h : LockR c s t) : Inv P idOf t := by
  refine ⟨h.panic.trans hI.pn, by rw [h.cur]; exact hI.cur1, ?_, ?_, ?_, ?_, ?_, ?_, ?_, ?_, ?_, ?_, ?_,
    ?_, ?_, ?_, ?_⟩
  · intro d; rw [h.lc, h.cur]; exact hI.lc_le d
  · intro d; rw [h.lc]; exact hI.lc_ge1 d
  · intro d; rw [h.lc, h.lc]; exact hI.lc_anti d
  · intro d hd; rw [h.lc]; exact hI.lc_never d hd
  · intro i; rw [h.inp, h.cur]; exact hI.inp_le i
  · intro i; rw [h.inp]; exact hI.inp_ge1 i
  · intro w d hw k hk; rw [h.wlog] at hw; rw [h.lc]; exact hI.wlog_lc w d hw k hk
  · intro w d hw; rw [h.wlog] at hw; exact hI.wlog3 w d hw
  · intro w h1 h2; rw [h.cur] at h2; rw [h.wlog]; exact hI.bumps w h1 h2
  · intro q m hm; rw [h.memos] at hm; exact h.nodeOk (hI.node q m hm)
  · intro q hq hnb
    rw [h.memos] at hq
    obtain ⟨a, b⟩ := hI.nonode q hq (fun hb => hnb (h.busy_fwd hb))
    refine ⟨?_, by rw [h.smemos]; exact b⟩
    rcases h.slot_cases q with ⟨_, b'⟩ | ⟨sl, _, a1, _⟩
    · exact b'
    · rw [a] at a1; cases a1
  · intro c' sm hsm; rw [h.smemos] at hsm; exact h.specOk (hI.smemo c' sm hsm)
  · intro c' sm hsm
    rw [h.smemos] at hsm
    obtain ⟨sl, hsl⟩ := hI.smslot c' sm hsm
    obtain ⟨sl', a, _⟩ := h.slot_fwd hsl
    exact ⟨sl', a⟩
  · intro c' sl' hsl'
    obtain ⟨sl, hsl, ⟨_, _, _, e4, e5⟩, u⟩ := h.slot_some hsl'
    obtain ⟨a1, a2, a3, a4⟩ := hI.slot c' sl hsl
    rw [h.cur, e4, e5]
    refine ⟨a1, a2, ?_, a4⟩
    rcases u with u | u
    · rw [u]; exact a3
    · rw [u]; exact Nat.le_refl _
  · intro c' sm hsm hva
    rw [h.smemos] at hsm; rw [h.cur] at hva
    rcases hI.hotsm c' sm hsm hva with a | a
    · exact Or.inl ((h.memoSokIff c').mpr a)
    · exact Or.inr (h.busy_fwd a)

theorem inv_lock {P idOf s c sl} (hI : Inv P idOf s) (hsl : s.slots c = some sl) :
    Inv P idOf (lockSlot s c sl) := inv_lockR hI (lockR_lockSlot hsl)

theorem inv_emit {P idOf s} (hI : Inv P idOf s) (e : Ev) : Inv P idOf (emit s e) :=
  inv_lockR hI (lockR_emit 0 s e)

/-- the frame of a lock while the creator is valid -/
theorem LockR.ext {c s t} (h : LockR c s t) : Ext s t (c + 1) := by
  refine ⟨h.cur, h.lch, h.inp, h.wlog, fun q _ => by rw [h.memos], ?_, fun q _ => by rw [h.smemos], ?_, ?_, ?_,
    ?_, ?_, ?_, ?_⟩
  · intro q hq; exact h.other q (by omega)
  · intro q m hm _; rw [h.memos]; exact hm
  · intro q m hm _; exact ⟨m, by rw [h.memos]; exact hm, Or.inl rfl⟩
  · intro q m hm; exact ⟨m, by rw [h.memos]; exact hm, Nat.le_refl _⟩
  · intro c' sl _ hsl
    obtain ⟨sl', a, e, _⟩ := h.slot_fwd hsl
    exact ⟨sl', a, e⟩
  · intro c' _ hn
    rcases h.slot_cases c' with ⟨_, b⟩ | ⟨sl, _, a1, _⟩
    · exact b
    · rw [hn] at a1; cases a1
  · intro c' sm _ hsm _; rw [h.smemos]; exact hsm
  · intro c' sm _ hsm _; exact ⟨sm, by rw [h.smemos]; exact hsm, Or.inl rfl⟩

end SalsaVerif.Proofs.CoreSpec

