/-
  C26 with flattening: the stamp of a freshly executed memo — it never decreases (`exec_mono`) and
  it satisfies the frontier bound (`exec_caBnd`).  Core Lean only.
-/
import SalsaVerif.Proofs.PersistFlat4b

namespace SalsaVerif.Proofs.PersistFlat
open SalsaVerif.Model.Core SalsaVerif.Model.Persist SalsaVerif.Proofs.Core SalsaVerif.Proofs.Persist

theorem backdate_cases (old : Option Memo) (v : Nat) (F : Frame) :
    backdateCa old v F = F.ca ∨
    ∃ mo, old = some mo ∧ mo.value = v ∧ mo.dur ≤ F.dur ∧ backdateCa old v F = mo.ca := by
  cases old with
  | none => left; rfl
  | some mo =>
    by_cases h : mo.value = v ∧ mo.dur ≤ F.dur
    · right; exact ⟨mo, rfl, h.1, h.2, by simp [backdateCa, h]⟩
    · left; simp [backdateCa, h]

/-- `changed_at` never decreases -/
theorem exec_mono {pers P H R0 t q F v} (hP : Wf P) (hJ : J pers P H R0 t) (hx : ExecCtx P t q F v)
    (mo : Memo) (hmo : t.memos q = some mo) : mo.ca ≤ backdateCa (t.memos q) v F := by
  rcases backdate_cases (t.memos q) v F with e | ⟨mo', e1, _, _, e4⟩
  · rw [e]
    apply Classical.byContradiction
    intro hlt
    have h0 := hJ.memo q mo hmo
    have hca : F.ca ≤ mo.va := by have := h0.ca_va; omega
    obtain ⟨_, b, c⟩ := exec_same hP hJ hx hmo (Reach.refl q) hca
    have hval : mo.value = v := by rw [h0.value hmo, b, hx.val]
    have : backdateCa (t.memos q) v F = mo.ca := by
      rw [hmo]; simp [backdateCa, hval, c]
    rw [this] at e
    omega
  · rw [hmo] at e1; cases e1
    rw [e4]; exact Nat.le_refl _

theorem exec_ca_le {pers P H R0 t q F v} (hJ : J pers P H R0 t) (hx : ExecCtx P t q F v) :
    backdateCa (t.memos q) v F ≤ t.cur := by
  rcases backdate_cases (t.memos q) v F with e | ⟨mo, e1, _, _, e4⟩
  · rw [e]; exact hx.ca_le
  · rw [e4]
    have h0 := hJ.memo q mo e1
    exact Nat.le_trans h0.ca_va h0.va_cur

/-- the candidate `F.ca` satisfies the frontier bound -/
theorem exec_caBnd_F {pers P H R0 t q F v} (hJ : J pers P H R0 t) (hx : ExecCtx P t q F v) :
    CaBnd pers P t.inp t q F.ca := by
  rcases hx.ca_max with h | ⟨d, hd, x, hi, hle⟩
  · exact Or.inl h
  · obtain ⟨hh, _⟩ := hx.hotd d hd
    cases d with
    | inp i =>
      simp only [depInfo, Option.some.injEq] at hi
      exact Or.inr ⟨q, NP.refl q, Or.inl ⟨i, hd, by rw [← hi] at hle; exact hle⟩⟩
    | qry k =>
      obtain ⟨mk, hmk, hvk⟩ := hot_qry hh
      simp only [depInfo, hmk, Option.map, Option.some.injEq] at hi
      have hle' : F.ca ≤ mk.ca := by rw [← hi] at hle; exact hle
      by_cases hp : pers k = true
      · exact Or.inr ⟨q, NP.refl q, Or.inr ⟨k, mk, hd, hp, hmk, hle'⟩⟩
      · have hp' : pers k = false := by cases h : pers k <;> simp_all
        have hc : H mk.va = t.inp := by rw [hvk]; exact hJ.hist.cur hJ.base
        have h5 := (hJ.memo k mk hmk).j5
        rw [hc] at h5
        exact caBnd_step hd hp' (caBnd_mono hle' h5)

/-- the stamp of the new memo satisfies the frontier bound (in the old state) -/
theorem exec_caBnd {pers P H R0 t q F v} (hP : Wf P) (hJ : J pers P H R0 t) (hx : ExecCtx P t q F v) :
    CaBnd pers P t.inp t q (backdateCa (t.memos q) v F) := by
  rcases backdate_cases (t.memos q) v F with e | ⟨mo, e1, _, _, e4⟩
  · rw [e]; exact exec_caBnd_F hJ hx
  · rw [e4]
    by_cases hle : mo.ca ≤ F.ca
    · exact caBnd_mono hle (exec_caBnd_F hJ hx)
    · have h0 := hJ.memo q mo e1
      have hca : F.ca ≤ mo.va := by have := h0.ca_va; omega
      rcases h0.j5 with h1 | ⟨k, hk, hw⟩
      · exact Or.inl h1
      · apply caBnd_transfer hP q k hk ?_ hw
        intro k2 d r1 r2 d1 d2 hT hne
        cases d with
        | inp i =>
          show mo.ca ≤ (t.inp i).ca
          apply Classical.byContradiction
          intro hlt
          have hci : (t.inp i).ca ≤ mo.va := by have := h0.ca_va; omega
          have e := hJ.hist.since i mo.va hci h0.va_cur
          apply hne
          simp only [semDep]; rw [e]
        | qry p =>
          have hpk : p < k2 := sdeps_lt hP d2
          have hk2 : k2 ≤ q := r2.le hP
          have hpq : p ≠ q := by omega
          have rp2 : Reach P t.inp q p := r2.trans (Reach.step d2 (Reach.refl p))
          obtain ⟨mp, hmp⟩ := below_memo hJ hx p rp2 hpq hT
          refine ⟨mp, hmp, ?_⟩
          apply Classical.byContradiction
          intro hlt
          have hcp : mp.ca ≤ mo.va := by have := h0.ca_va; omega
          obtain ⟨a, _⟩ := h0.pc p mp (r1.trans (Reach.step d1 (Reach.refl p))) hmp hcp
          obtain ⟨b, _⟩ := below_valid hJ hx p mp rp2 hpq hmp
          apply hne
          simp only [semDep]; rw [a, b]

end SalsaVerif.Proofs.PersistFlat
