/-
  CoreSpec: well-formed programs and basic facts about the reference semantics (`evalX`, `sem`).
  Core Lean only.
-/
import SalsaVerif.Proofs.CoreSpecStep

namespace SalsaVerif.Proofs.CoreSpec
open SalsaVerif.Model.CoreSpec

/-- bodies of `spec`: inputs only, the result carries no handle -/
inductive WfS : Body → Prop
  | ret (n : Nat) : WfS (.ret ⟨n, none⟩)
  | read (i : Nat) (k : Val → Body) : (∀ n, WfS (k ⟨n, none⟩)) → WfS (.read (.inp i) k)

/-- Body of node `r`: it calls smaller queries only; it reads fields / `spec` of structs of smaller
    creators only (in particular not of its own struct); handles it receives from query `q` point to
    structs of creators `≤ q`; a handle it returns points to a creator `≤ r`. -/
inductive WfB (r : Nat) : Body → Prop
  | ret (v : Val) : (∀ c, v.h = some c → c ≤ r) → WfB r (.ret v)
  | inp (i : Nat) (k : Val → Body) : (∀ n, WfB r (k ⟨n, none⟩)) → WfB r (.read (.inp i) k)
  | qry (q : Nat) (k : Val → Body) : q < r → (∀ v, (∀ c, v.h = some c → c ≤ q) → WfB r (k v)) →
      WfB r (.read (.qry q) k)
  | field (c : Nat) (k : Val → Body) : c < r → (∀ n, WfB r (k ⟨n, none⟩)) → WfB r (.read (.field c) k)
  | spec (c : Nat) (k : Val → Body) : c < r → (∀ n, WfB r (k ⟨n, none⟩)) → WfB r (.read (.spec c) k)
  | ident (c : Nat) (k : Nat → Body) : c < r → (∀ n, WfB r (k n)) → WfB r (.ident c k)
  | create (idk v : Nat) (k : Val → Body) : WfB r (k ⟨v, some r⟩) → WfB r (.create idk v k)
  | specify (c v : Nat) (k : Body) : WfB r k → WfB r (.specify c v k)

structure Wf (P : Prog) : Prop where
  node : ∀ q, WfB q (P.node q)
  spec : ∀ k v, WfS (P.spec k v)

/-- the semantic value of a dependency -/
def semDep (P : Prog) (inp : Nat → Inp) : Dep → Val
  | .inp i => ⟨(inp i).val, none⟩
  | .qry q => sem P inp q
  | .field c => fieldVal (semRes P inp c)
  | .spec c => semSpec P inp c

def semIdent (P : Prog) (inp : Nat → Inp) (c : Nat) : Nat := identVal (semRes P inp c)

theorem semAt_stable (P inp) : ∀ r q, q < r → semAt P inp r q = semRes P inp q := by
  intro r
  induction r with
  | zero => intro q h; omega
  | succ r ih =>
    intro q h
    by_cases hq : q < r
    · have := ih q hq
      simp only [semAt, hq, if_true]
      exact this
    · have : q = r := by omega
      subst this
      rfl

theorem ownRead_inp (self sb i ts sp cv x) : ownRead self sb (.inp i) ts sp cv x = (x, cv) := by
  simp [ownRead]
theorem ownRead_qry (self sb q ts sp cv x) : ownRead self sb (.qry q) ts sp cv x = (x, cv) := by
  simp [ownRead]
theorem ownRead_field (self sb c ts sp cv x) (h : c ≠ self) : ownRead self sb (.field c) ts sp cv x = (x, cv) := by
  simp [ownRead, h]
theorem ownRead_spec (self sb c ts sp cv x) (h : c ≠ self) : ownRead self sb (.spec c) ts sp cv x = (x, cv) := by
  simp [ownRead, h]
theorem ownIdent_other (self c ts x) (h : c ≠ self) : ownIdent self c ts x = x := by simp [ownIdent, h]

theorem val_eta {x : Val} (h : x.h = none) : x = ⟨x.n, none⟩ := by
  cases x with | mk n hh => simp at h; simp [h]

theorem evalX_congr (r : Nat) (sd sd' : Dep → Val) (sk sk' : Nat → Nat) (sb : Nat → Nat → Val) :
    ∀ b, WfB r b →
    (∀ i, sd (.inp i) = sd' (.inp i)) → (∀ q, q < r → sd (.qry q) = sd' (.qry q)) →
    (∀ c, c < r → sd (.field c) = sd' (.field c)) → (∀ c, c < r → sd (.spec c) = sd' (.spec c)) →
    (∀ c, c < r → sk c = sk' c) →
    (∀ i, (sd (.inp i)).h = none) → (∀ q c, q < r → (sd (.qry q)).h = some c → c ≤ q) →
    (∀ c, c < r → (sd (.field c)).h = none) → (∀ c, c < r → (sd (.spec c)).h = none) →
    ∀ ts sp cv, evalX r sd sk sb b ts sp cv = evalX r sd' sk' sb b ts sp cv := by
  intro b hb h1 h2 h3 h4 h5 g1 g2 g3 g4
  induction hb with
  | ret v _ => intro ts sp cv; rfl
  | inp i k _ ih =>
    intro ts sp cv
    simp only [evalX, ownRead_inp]
    rw [← h1 i, val_eta (g1 i)]
    exact ih _ ts sp cv
  | qry q k hq _ ih =>
    intro ts sp cv
    simp only [evalX, ownRead_qry]
    rw [← h2 q hq]
    exact ih _ (fun c hc => g2 q c hq hc) ts sp cv
  | field c k hc _ ih =>
    intro ts sp cv
    have hne : c ≠ r := by omega
    simp only [evalX, ownRead_field _ _ _ _ _ _ _ hne]
    rw [← h3 c hc, val_eta (g3 c hc)]
    exact ih _ ts sp cv
  | spec c k hc _ ih =>
    intro ts sp cv
    have hne : c ≠ r := by omega
    simp only [evalX, ownRead_spec _ _ _ _ _ _ _ hne]
    rw [← h4 c hc, val_eta (g4 c hc)]
    exact ih _ ts sp cv
  | ident c k hc _ ih =>
    intro ts sp cv
    have hne : c ≠ r := by omega
    simp only [evalX, ownIdent_other _ _ _ _ hne]
    rw [← h5 c hc]
    exact ih _ ts sp cv
  | create idk v k _ ih => intro ts sp cv; simp only [evalX]; exact ih _ _ _
  | specify c v k _ ih => intro ts sp cv; simp only [evalX]; exact ih _ _ _

/-- the handle of the result of a well-formed body points to a creator `≤ r` -/
theorem evalX_handle (r : Nat) (sd : Dep → Val) (sk : Nat → Nat) (sb : Nat → Nat → Val) :
    ∀ b, WfB r b →
    (∀ i, (sd (.inp i)).h = none) → (∀ q c, q < r → (sd (.qry q)).h = some c → c ≤ q) →
    (∀ c, c < r → (sd (.field c)).h = none) → (∀ c, c < r → (sd (.spec c)).h = none) →
    ∀ ts sp cv c, (evalX r sd sk sb b ts sp cv).val.h = some c → c ≤ r := by
  intro b hb g1 g2 g3 g4
  induction hb with
  | ret v hv => intro ts sp cv c h; exact hv c h
  | inp i k _ ih =>
    intro ts sp cv c h
    simp only [evalX, ownRead_inp] at h
    rw [val_eta (g1 i)] at h
    exact ih _ ts sp cv c h
  | qry q k hq _ ih =>
    intro ts sp cv c h
    simp only [evalX, ownRead_qry] at h
    exact ih _ (fun c hc => g2 q c hq hc) ts sp cv c h
  | field c' k hc _ ih =>
    intro ts sp cv c h
    have hne : c' ≠ r := by omega
    simp only [evalX, ownRead_field _ _ _ _ _ _ _ hne] at h
    rw [val_eta (g3 c' hc)] at h
    exact ih _ ts sp cv c h
  | spec c' k hc _ ih =>
    intro ts sp cv c h
    have hne : c' ≠ r := by omega
    simp only [evalX, ownRead_spec _ _ _ _ _ _ _ hne] at h
    rw [val_eta (g4 c' hc)] at h
    exact ih _ ts sp cv c h
  | ident c' k hc _ ih =>
    intro ts sp cv c h
    have hne : c' ≠ r := by omega
    simp only [evalX, ownIdent_other _ _ _ _ hne] at h
    exact ih _ ts sp cv c h
  | create idk v k _ ih => intro ts sp cv c h; simp only [evalX] at h; exact ih _ _ _ c h
  | specify c' v k _ ih => intro ts sp cv c h; simp only [evalX] at h; exact ih _ _ _ c h

/-- the value of a `spec` body carries no handle (its inputs are numbers) -/
theorem evalS_handle (sd : Dep → Val) (sk : Nat → Nat) (sb : Nat → Nat → Val)
    (g1 : ∀ i, (sd (.inp i)).h = none) :
    ∀ b, WfS b → ∀ ts sp cv, (evalX 0 sd sk sb b ts sp cv).val.h = none := by
  intro b hb
  induction hb with
  | ret n => intro ts sp cv; rfl
  | read i k _ ih =>
    intro ts sp cv
    simp only [evalX, ownRead_inp]
    rw [val_eta (g1 i)]
    exact ih _ ts sp cv

theorem specBodyVal_handle {P : Prog} (hP : Wf P) (inp k v) : (specBodyVal P inp k v).h = none :=
  evalS_handle _ _ _ (fun _ => rfl) _ (hP.spec k v) _ _ _

theorem specVal_handle {P : Prog} (hP : Wf P) (inp r) : (specVal P inp r).h = none := by
  unfold specVal
  split
  · rfl
  · exact specBodyVal_handle hP _ _ _
  · rfl

theorem sem_facts {P : Prog} (hP : Wf P) (inp : Nat → Inp) : ∀ q,
    semRes P inp q = evalX q (semDep P inp) (semIdent P inp) (specBodyVal P inp) (P.node q) none none none ∧
    (∀ c, (sem P inp q).h = some c → c ≤ q) := by
  intro q
  induction q using Nat.strongRecOn with
  | _ q ih =>
    have hb : ∀ q' c, q' < q → (semDep P inp (.qry q')).h = some c → c ≤ q' :=
      fun q' c hq h => (ih q' hq).2 c h
    have hunf : semRes P inp q =
        evalX q (semDep P inp) (semIdent P inp) (specBodyVal P inp) (P.node q) none none none := by
      unfold semRes
      simp only [semAt, Nat.lt_irrefl, if_false, if_true]
      apply evalX_congr q _ _ _ _ _ (P.node q) (hP.node q)
      · intro i; rfl
      · intro q' hq'; simp only [semDepOf, semDep, sem, semAt_stable P inp q q' hq']
      · intro c hc; simp only [semDepOf, semDep, semAt_stable P inp q c hc]
      · intro c hc; simp only [semDepOf, semDep, semSpec, semAt_stable P inp q c hc]
      · intro c hc; simp only [semIdent, semAt_stable P inp q c hc]
      · intro i; rfl
      · intro q' c hq' h
        simp only [semDepOf, semAt_stable P inp q q' hq'] at h
        exact (ih q' hq').2 c h
      · intro c _; rfl
      · intro c _; exact specVal_handle hP _ _
    refine ⟨hunf, ?_⟩
    intro c h
    unfold sem at h
    rw [hunf] at h
    exact evalX_handle q _ _ _ (P.node q) (hP.node q) (fun _ => rfl) hb (fun _ _ => rfl)
      (fun c _ => specVal_handle hP _ _) _ _ _ c h

theorem sem_unfold {P : Prog} (hP : Wf P) (inp : Nat → Inp) (q : Nat) :
    semRes P inp q = evalX q (semDep P inp) (semIdent P inp) (specBodyVal P inp) (P.node q) none none none :=
  (sem_facts hP inp q).1

theorem sem_handle {P : Prog} (hP : Wf P) (inp : Nat → Inp) (q c : Nat) (h : (sem P inp q).h = some c) :
    c ≤ q := (sem_facts hP inp q).2 c h

/-! ### `sem` depends on the input values only (not on stamps or durabilities) -/

theorem inpDep_congr {a b : Nat → Inp} (h : ∀ i, (a i).val = (b i).val) : inpDep a = inpDep b := by
  funext d; cases d <;> simp [inpDep, h]

theorem specBodyVal_congr (P : Prog) {a b : Nat → Inp} (h : ∀ i, (a i).val = (b i).val) :
    specBodyVal P a = specBodyVal P b := by
  funext k v; simp only [specBodyVal, inpDep_congr h]

theorem semAt_congr (P : Prog) {a b : Nat → Inp} (h : ∀ i, (a i).val = (b i).val) :
    ∀ r, semAt P a r = semAt P b r := by
  intro r
  induction r with
  | zero => rfl
  | succ r ih =>
    funext q
    simp only [semAt]
    have hd : semDepOf P a (semAt P a r) = semDepOf P b (semAt P b r) := by
      funext d
      cases d with
      | inp i => simp [semDepOf, h]
      | qry q => simp [semDepOf, ih]
      | field c => simp [semDepOf, ih]
      | spec c => simp only [semDepOf, ih, specVal, specBodyVal_congr P h]
    rw [hd, ih, specBodyVal_congr P h]

theorem sem_congr (P : Prog) {a b : Nat → Inp} (h : ∀ i, (a i).val = (b i).val) : sem P a = sem P b := by
  funext q; simp only [sem, semRes, semAt_congr P h]

end SalsaVerif.Proofs.CoreSpec
